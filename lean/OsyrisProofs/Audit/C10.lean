import OsyrisProofs.C10
#print axioms Osyris.C10.C10_classA
#print axioms Osyris.C10.C10_classC
#print axioms Osyris.C10.C10_classD
#print axioms Osyris.C10.C10_classB_same_unit
#print axioms Osyris.C10.C10_classB_mixes_witness
#print axioms Osyris.C10.generated_classC
#print axioms Osyris.C10.C10_classC_current
#print axioms Osyris.C10.C10_classA_current
#print axioms Osyris.C10.C10_classD_current
