import OsyrisProofs.C09
#print axioms Osyris.C09.C09_lift
#print axioms Osyris.C09.C09_lift_array
#print axioms Osyris.C09.C09_nvec_mismatch
#print axioms Osyris.C09.dot3_comm
#print axioms Osyris.C09.cross3_anticomm
#print axioms Osyris.C09.dot3_cross3_self
#print axioms Osyris.C09.lagrange
#print axioms Osyris.C09.C09_dot_phys
#print axioms Osyris.C09.C09_cross_phys
#print axioms Osyris.C09.mul_phys
#print axioms Osyris.C09.sub_phys
#print axioms Osyris.C09.C09_norm_phys
