import OsyrisProofs.C08
#print axioms Osyris.C08.C08_to_preserves_phys
#print axioms Osyris.C08.C08_to_raises_iff
#print axioms Osyris.C08.C08_to_roundtrip
#print axioms Osyris.C08.C08_to_chain
#print axioms Osyris.C08.C08_vector_componentwise
#print axioms Osyris.C08.C08_constants_true
#print axioms Osyris.C08.C08_constants_each
#print axioms Osyris.C08.Spelling.C08_spelling_mul_comm
#print axioms Osyris.C08.Spelling.C08_spelling_mul_assoc
#print axioms Osyris.C08.Spelling.C08_spelling_div_as_pow
#print axioms Osyris.C08.Spelling.C08_spelling_pow_mul
