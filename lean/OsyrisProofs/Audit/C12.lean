import OsyrisProofs.C12
#print axioms Osyris.C12.vol_tree
#print axioms Osyris.C12.truncate_WF
#print axioms Osyris.C12.truncate_fits
#print axioms Osyris.C12.C12_truncated_volume
#print axioms Osyris.C12.truncate_levels
#print axioms Osyris.C12.C12_lmax_le
#print axioms Osyris.C01.C01_leaf_rule
#print axioms Osyris.C12.C12_flat_rule_is_truncation
#print axioms Osyris.C12.C12_flat_rule_volume
#print axioms Osyris.C12.C12_rows
#print axioms Osyris.C12.C12_rows_tile
