import OsyrisProofs.C01
#print axioms Osyris.Readers.amr_header_aligned_nb0
#print axioms Osyris.Readers.amr_header_aligned_nbpos
#print axioms Osyris.Readers.amr_own_block_aligned_1
#print axioms Osyris.Readers.amr_own_block_aligned_2
#print axioms Osyris.Readers.amr_own_block_aligned_3
#print axioms Osyris.Readers.amr_stepover_advance
#print axioms Osyris.Readers.hydro_header_aligned
#print axioms Osyris.Readers.grav_header_advance
#print axioms Osyris.Readers.rt_header_advance
#print axioms Osyris.Readers.domain_header_advance
#print axioms Osyris.Readers.readVars_spec
#print axioms Osyris.Readers.var_stepover_eq_block
#print axioms Osyris.C01.C01_units_lib_is_reference
#print axioms Osyris.C01.C01_units_lib_consistent
#print axioms Osyris.C01.C01_leaf_rule
#print axioms Osyris.Readers.readAt_aligned
