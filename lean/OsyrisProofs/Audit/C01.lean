import OsyrisProofs.C01
#print axioms Osyris.C01.placeholder
