import OsyrisProofs.C17
#print axioms Osyris.C17.placeholder
