import OsyrisProofs.C17
#print axioms Osyris.C17.scatter_read
#print axioms Osyris.C17.scatter_frame
#print axioms Osyris.C17.read_after_write
#print axioms Osyris.C17.write_frame
#print axioms Osyris.C17.write_alias
#print axioms Osyris.C17.alloc_fresh
#print axioms Osyris.C17.C17_iop
#print axioms Osyris.C17.C17_iop_frame
#print axioms Osyris.C17.C17_copy_independent
#print axioms Osyris.C17.C17_view_sees_write
#print axioms Osyris.C17.alloc_viewOK
