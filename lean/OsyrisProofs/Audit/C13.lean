import OsyrisProofs.C13
#print axioms Osyris.Readers.C13_skip_eq_read_advance
#print axioms Osyris.Readers.readVars_spec
#print axioms Osyris.Readers.var_stepover_eq_block
#print axioms Osyris.C13.C13_read_offsets_independent
#print axioms Osyris.C13.C13_no_merge_1d
#print axioms Osyris.C13.C13_merge_collision_witness
#print axioms Osyris.Readers.readAt_aligned
#print axioms Osyris.Readers.var_loop_reads_columns
#print axioms Osyris.Readers.expReads_offs
#print axioms Osyris.C13.vectorMerges_sound
#print axioms Osyris.Layout.totalBytes_varBlock_hydro
#print axioms Osyris.C13.C13_shared_component_witness
