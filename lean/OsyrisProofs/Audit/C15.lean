import OsyrisProofs.C15
#print axioms Osyris.C15.step_independent
#print axioms Osyris.C15.C15_history_independent
#print axioms Osyris.C15.C15_all_calls_fresh
#print axioms Osyris.C15.C15_leak_witness
#print axioms Osyris.C15.C15_no_stale_reader_fields
