import OsyrisProofs.C14
#print axioms Osyris.Readers.part_header_aligned
#print axioms Osyris.Readers.forVars_generic
#print axioms Osyris.C14.C14_columns_independent
#print axioms Osyris.C14.C14_zero_particles
#print axioms Osyris.Readers.readAt_aligned
#print axioms Osyris.Readers.var_loop_reads_columns
#print axioms Osyris.Readers.expReads_offs
#print axioms Osyris.Layout.skelOf_partFile
#print axioms Osyris.C14.rowsOf_add_self
#print axioms Osyris.C14.rowsOf_add_other
#print axioms Osyris.C14.C14_concatenation
#print axioms Osyris.C14.C14_concatenation_frame
