import OsyrisProofs.C16
#print axioms Osyris.C16.C16_groups_from_mask
#print axioms Osyris.C16.C16_extract_sound
#print axioms Osyris.C16.C16_box_component
#print axioms Osyris.C16.C16_sphere_component
#print axioms Osyris.C16.C16_box_row_phys
#print axioms Osyris.C16.C16_sphere_row_phys
#print axioms Osyris.C16.C16_box_mask_rows
#print axioms Osyris.C16.mapM_spec
