import OsyrisProofs.C04
#print axioms Osyris.C04.key_prefix
#print axioms Osyris.C04.table_is_reference
#print axioms Osyris.C04.generated_digits_lt
#print axioms Osyris.C04.generated_digit_perm
#print axioms Osyris.C04.generated_next_lt
#print axioms Osyris.C04.key_prefix_current
#print axioms Osyris.C04.C04_interval_pick
#print axioms Osyris.C04.C04_cube_not_finer
#print axioms Osyris.C04.C04_preselect_sound
#print axioms Osyris.C04.C04_box_sound
#print axioms Osyris.C04.key_injective_current
#print axioms Osyris.C04.axisBox_sound
#print axioms Osyris.C04.convex_of_interval_preds
#print axioms Osyris.C04.C04_axis_sound
#print axioms Osyris.C04.C04_cell_sound
#print axioms Osyris.C04.C04_selection_sound
