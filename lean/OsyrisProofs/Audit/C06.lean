import OsyrisProofs.C06
#print axioms Osyris.C06.C06_inv_reachable
#print axioms Osyris.C06.C06_inv_from_empty
#print axioms Osyris.C06.C06_reject_frame
#print axioms Osyris.C06.C06_getIndex_aligned
#print axioms Osyris.C06.C06_sortby_aligned
#print axioms Osyris.C06.C06_scalar_gate_witness
#print axioms Osyris.C06.rows_lt
