import OsyrisProofs.C18
#print axioms Osyris.C18.perp_orth
#print axioms Osyris.C18.cross_orth
#print axioms Osyris.C18.u_cross_v
#print axioms Osyris.C18.C18_normalize_unit
#print axioms Osyris.C18.C18_basis_normal
#print axioms Osyris.C18.C18_basis_nu
#print axioms Osyris.C18.C18_basis_given
#print axioms Osyris.C18.C18_roll
#print axioms Osyris.C18.C18_vector
#print axioms Osyris.C18.C18_letters
#print axioms Osyris.C18.C18_table_size
#print axioms Osyris.C18.C18_single_letters
#print axioms Osyris.C18.C18_angMom_eq_spec
#print axioms Osyris.C18.C18_top
#print axioms Osyris.C18.C18_side
