import OsyrisProofs.C20
#print axioms Osyris.C20.C20_refines_dict
#print axioms Osyris.C20.C20_keys_nodup
#print axioms Osyris.C20.C20_rename_on_set
#print axioms Osyris.C20.C20_shape_gate
#print axioms Osyris.C20.C20_eq_iff
#print axioms Osyris.C20.C20_dataset_refines_dict
#print axioms Osyris.C20.C20_dataset_keys_nodup
