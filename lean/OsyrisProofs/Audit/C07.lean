import OsyrisProofs.C07
#print axioms Osyris.C07.C07_cmp
#print axioms Osyris.C07.C07_incompatible_raises
#print axioms Osyris.C07.C07_logic
#print axioms Osyris.C07.C07_logic_table
#print axioms Osyris.C07.C07_cmp_current
#print axioms Osyris.C07.C07_plan_agrees
