import OsyrisProofs.C02
#print axioms Osyris.C02.C02_incompatible_raises
#print axioms Osyris.C02.C02_add_sub
#print axioms Osyris.C02.C02_mul_div
#print axioms Osyris.C02.C02_neg
#print axioms Osyris.C02.C02_pow
#print axioms Osyris.C02.C02_reciprocal
#print axioms Osyris.C02.generated_keeps_numeric
#print axioms Osyris.C02.generated_bool_dimensionless
#print axioms Osyris.C02.generated_applies
#print axioms Osyris.C02.C02_add_sub_current
#print axioms Osyris.C02.C02_mul_div_current
#print axioms Osyris.C02.C02_broadcast_reads_in_range
