/-
C01  Full load returns every leaf cell exactly once with true geometry, values, units.

What is proved here (for all parameter values, about the reader code regenerated from /repo):
  * every read of the amr header, of an owned (level, domain) block, of the hydro / grav / rt
    headers lands on the intended record; stepping over a block advances exactly like reading it;
  * the units library extracted from config/defaults.py equals the reference library and every
    label has the dimension of its magnitude's monomial in unit_d, unit_l, unit_t;
  * the leaf rule: with lmax = levelmax a cell is kept iff it has no son (or sits on levelmax).
What is *not* yet a theorem: the composition over the whole file walk and the end-to-end
statement `loadMesh (encode O) = leafRows O`; that step is carried by the correspondence
(real loader = loader model = Spec leaf rows on every generated output).
-/
import OsyrisProofs.Layout
import OsyrisProofs.Readers
import OsyrisModel.Generated.UnitsLib

namespace Osyris.C01
open Osyris Osyris.Readers

/-! The alignment theorems live in `OsyrisProofs/Readers.lean` (namespace `Osyris.Readers`):
`amr_header_aligned_nb0`, `amr_header_aligned_nbpos`, `amr_own_block_aligned_1/2/3`,
`amr_stepover_advance`, `hydro_header_aligned`, `grav_header_advance`, `rt_header_advance`,
`domain_header_advance`, `readVars_spec`, `var_stepover_eq_block`. -/

/-- the units library of the current config/defaults.py is the reference library -/
theorem C01_units_lib_is_reference : libsAgree Generated.unitsLib Reference.unitsLib = true := by
  decide +kernel

/-- every label has the dimension of (g/cm^3)^a cm^b s^e for the entry's magnitude d^a l^b t^e -/
theorem C01_units_lib_consistent : Generated.unitsLib.all Reference.entryConsistent = true := by
  decide +kernel

/-- leaf rule of `AmrReader.read_variables` when no level cap applies (lmax = levelmax):
    a cell is kept iff it is not refined, or it sits on the finest level -/
theorem C01_leaf_rule (son : Rat) (ilevel levelmax : Nat) (h : ilevel + 1 ≤ levelmax) :
    (!(decide (0 < son) && decide (ilevel + 1 < levelmax))) = (decide (son ≤ 0) || decide (ilevel + 1 = levelmax)) := by
  by_cases h1 : 0 < son <;> by_cases h2 : ilevel + 1 < levelmax <;> simp [h1, h2, not_lt.mp] <;> omega

end Osyris.C01
