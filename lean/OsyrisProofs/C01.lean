import OsyrisModel
namespace Osyris.C01
theorem placeholder : True := trivial
end Osyris.C01
