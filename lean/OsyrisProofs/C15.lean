/-
C15  The outcome of load() does not depend on earlier loads on the same dataset.
-/
import OsyrisModel
import OsyrisModel.Generated.ReaderState

namespace Osyris.C15
open Osyris Osyris.LoadHistory Osyris.LoadEngine

/-- with the reset at the top of `AmrReader.amrInitialize`, a call's state and the files it opens
    do not depend on the state left by earlier calls -/
theorem step_independent (o : Ramses.Output) (st st' : State) (rq : Request) :
    LoadHistory.step true o st rq = LoadHistory.step true o st' rq := by
  simp [LoadHistory.step, amrInitialize]

/-- **C15 (history independence)**: after any sequence of earlier calls, a call opens exactly the
    files it opens on a fresh dataset -/
theorem C15_history_independent (o : Ramses.Output) (hist : List Request) (rq : Request) (st : State) :
    (LoadHistory.run true o st (hist ++ [rq])).getLast? = some (LoadHistory.step true o none rq).2 := by
  induction hist generalizing st with
  | nil => simp [LoadHistory.run, step_independent o st none rq]
  | cons h hs ih =>
    simp only [List.cons_append, LoadHistory.run]
    have := ih (LoadHistory.step true o st h).1
    cases hrun : LoadHistory.run true o (LoadHistory.step true o st h).1 (hs ++ [rq]) with
    | nil => simp [hrun] at this
    | cons x xs => rw [hrun] at this; simpa using this

/-- every call of a history behaves as on a fresh dataset -/
theorem C15_all_calls_fresh (o : Ramses.Output) (reqs : List Request) (st : State) :
    LoadHistory.run true o st reqs = reqs.map fun rq => (LoadHistory.step true o none rq).2 := by
  induction reqs generalizing st with
  | nil => rfl
  | cons r rs ih => simp only [LoadHistory.run, List.map_cons, ih, step_independent o st none r]

/-- negation for the code as it was (no reset when the mesh is switched off): a state left by an
    earlier call decides which files a mesh-less call opens -/
theorem C15_leak_witness (o : Ramses.Output) (rq : Request) (hm : rq.meshOn = false) (hc : rq.cpuList = none)
    (hp : (rq.partOn && o.part.isSome) = true) (l : List Nat) :
    (LoadHistory.step false o (some l) rq).2 = l := by
  simp [LoadHistory.step, amrInitialize, cpusUsed, hm, hc, hp]

/-- **C15 (no reader field survives a call unreset)** — obligation on the table regenerated from io/*.py on every run
    (harness/readerstate.py: must-assign analysis of every reader's `initialize`): `initialized` and `cpu_list`, which
    `Loader.load` inspects right after `initialize`, are assigned on every path through it, and no field that a reader
    assigns outside `__init__` decides a branch or the result of `initialize` before it has been assigned there. -/
theorem C15_no_stale_reader_fields : Generated.staleReaderFields = [] := by decide

end Osyris.C15
