/-
C06  Datagroup members stay row-aligned under insertion, slicing and sorting.
Property theorems (dictionary lemmas: Lemmas/Dict.lean).
-/
import OsyrisModel
import OsyrisModel.Spec.DictSpec
import OsyrisProofs.Lemmas.Dict
import Mathlib.Tactic.Linarith

namespace Osyris.C06
open Osyris Spec

/-- every member has the group's shape -/
def Inv (g : DgV) : Prop := ∀ e ∈ g, e.2.shape = g.shape
/-- no member is a scalar (0-d) -/
def NS (g : DgV) : Prop := ∀ e ∈ g, e.2.shape ≠ []

theorem mem_dictSet {β : Type} (d : List (String × β)) (k : String) (v : β) (e : String × β)
    (h : e ∈ dictSet d k v) : e ∈ d ∨ e = (k, v) := by
  induction d with
  | nil => simp [dictSet] at h; exact Or.inr h
  | cons x d ih =>
    simp only [dictSet] at h
    split at h
    · simp at h; rcases h with h | h
      · exact Or.inr h
      · exact Or.inl (by simp [h])
    · simp at h; rcases h with h | h
      · exact Or.inl (by simp [h])
      · rcases ih h with h' | h'
        · exact Or.inl (by simp [h'])
        · exact Or.inr h'

theorem rename_shape (m : MemberV) (k : String) : (m.rename k).shape = m.shape := by
  cases m with
  | arr a => rfl
  | vec v =>
    simp only [MemberV.rename, MemberV.shape, VecV.shape, VecV.rename]
    cases hc : v.comps with
    | nil => simp [compLetters]
    | cons c cs => simp [compLetters]

theorem shape_dictSet_cons (x : String × MemberV) (xs : DgV) (k : String) (m : MemberV)
    (hs : m.shape = x.2.shape) :
    DgV.shape (dictSet (x :: xs) k m) = x.2.shape := by
  simp only [dictSet]
  split
  · simp [DgV.shape, hs]
  · simp [DgV.shape]

/-- **one-step invariant**: a successful insertion of a non-scalar member keeps all shapes equal -/
theorem inv_set (g g' : DgV) (k : String) (m : MemberV) (hi : Inv g) (hn : NS g) (hm : m.shape ≠ [])
    (h : g.set k m = .ok g') : Inv g' ∧ NS g' := by
  unfold DgV.set at h
  split at h
  · cases h
  · rename_i hgate
    cases h
    cases g with
    | nil =>
      constructor
      · intro e he
        simp [dictSet] at he
        subst he
        simp [dictSet, DgV.shape]
      · intro e he
        simp [dictSet] at he
        subst he
        simpa [rename_shape] using hm
    | cons x xs =>
      have hx : x.2.shape ≠ [] := hn x (by simp)
      have hgs : DgV.shape (x :: xs) = x.2.shape := by simp [DgV.shape]
      have hshape : m.shape = x.2.shape := by
        have h1 : ¬ ((DgV.shape (x :: xs) != [] && DgV.shape (x :: xs) != m.shape) = true) := hgate
        rw [hgs] at h1
        simp only [Bool.and_eq_true, bne_iff_ne, ne_eq, not_and, Decidable.not_not] at h1
        exact (h1 hx).symm
      have hnew : DgV.shape (dictSet (x :: xs) k (m.rename k)) = x.2.shape :=
        shape_dictSet_cons x xs k _ (by rw [rename_shape, hshape])
      constructor
      · intro e he
        rw [hnew]
        rcases mem_dictSet _ _ _ _ he with h' | h'
        · rw [hi e h', hgs]
        · subst h'; simp [rename_shape, hshape]
      · intro e he
        rcases mem_dictSet _ _ _ _ he with h' | h'
        · exact hn e h'
        · subst h'; simpa [rename_shape] using hm

theorem shape_filter (g : DgV) (p : String × MemberV → Bool) (hi : Inv g) :
    ∀ e ∈ g.filter p, e.2.shape = DgV.shape (g.filter p) := by
  intro e he
  have hmem : e ∈ g := (List.mem_filter.mp he).1
  cases hf : g.filter p with
  | nil => rw [hf] at he; cases he
  | cons y ys =>
    have hy : y ∈ g := by
      have : y ∈ g.filter p := by rw [hf]; simp
      exact (List.mem_filter.mp this).1
    simp only [DgV.shape]
    rw [hi e hmem, hi y hy]

theorem inv_del (g : DgV) (k : String) (hi : Inv g) (hn : NS g) :
    Inv (dictDel g k) ∧ NS (dictDel g k) := by
  constructor
  · exact shape_filter g _ hi
  · intro e he; exact hn e (List.mem_filter.mp he).1

/-- operations that only insert non-scalar members -/
def OpNS : DgOp → Prop
  | .set _ m => m.shape ≠ []
  | .update items => ∀ it ∈ items, it.2.shape ≠ []
  | _ => True

theorem inv_update (items : List (String × MemberV)) :
    ∀ g : DgV, Inv g → NS g → (∀ it ∈ items, it.2.shape ≠ []) →
      Inv (g.update items).1 ∧ NS (g.update items).1 := by
  induction items with
  | nil => intro g hi hn _; exact ⟨hi, hn⟩
  | cons it items ih =>
    intro g hi hn hit
    obtain ⟨k, m⟩ := it
    unfold DgV.update
    cases hs : g.set k m with
    | ok g' =>
      have := inv_set g g' k m hi hn (hit (k, m) (by simp)) hs
      exact ih g' this.1 this.2 (fun it h => hit it (by simp [h]))
    | error e => exact ⟨hi, hn⟩

theorem inv_step (g : DgV) (op : DgOp) (hi : Inv g) (hn : NS g) (hop : OpNS op) :
    Inv (g.step op).1 ∧ NS (g.step op).1 := by
  cases op with
  | set k m =>
    simp only [DgV.step]
    cases hs : g.set k m with
    | ok g' => exact inv_set g g' k m hi hn hop hs
    | error e => exact ⟨hi, hn⟩
  | del k =>
    simp only [DgV.step, DgV.del]
    split <;> rename_i heq
    · split at heq
      · cases heq; exact inv_del g k hi hn
      · cases heq
    · exact ⟨hi, hn⟩
  | pop k => simp only [DgV.step]; split
             · exact inv_del g k hi hn
             · exact ⟨hi, hn⟩
  | get k => simp only [DgV.step]; split <;> exact ⟨hi, hn⟩
  | getD k d => exact ⟨hi, hn⟩
  | contains k => exact ⟨hi, hn⟩
  | len => exact ⟨hi, hn⟩
  | keys => exact ⟨hi, hn⟩
  | clear =>
    simp only [DgV.step]
    exact ⟨fun e he => (by cases he), fun e he => (by cases he)⟩
  | update items =>
    simp only [DgV.step]
    have := inv_update items g hi hn hop
    generalize g.update items = r at this
    obtain ⟨g', o⟩ := r
    cases o <;> simpa using this

/-- **C06 (shape invariant)**: starting from the empty group, after any sequence of
    insert / replace / update / delete / pop / clear operations whose inserted members are
    non-scalar, every member has the same shape. -/
theorem C06_inv_reachable (ops : List DgOp) (hops : ∀ op ∈ ops, OpNS op) :
    ∀ g : DgV, Inv g → NS g → Inv (g.run ops).1 ∧ NS (g.run ops).1 := by
  induction ops with
  | nil => intro g hi hn; exact ⟨hi, hn⟩
  | cons op ops ih =>
    intro g hi hn
    simp only [DgV.run]
    have := inv_step g op hi hn (hops op (by simp))
    exact ih (fun o h => hops o (by simp [h])) _ this.1 this.2

theorem C06_inv_from_empty (ops : List DgOp) (hops : ∀ op ∈ ops, OpNS op) :
    Inv (DgV.run [] ops).1 :=
  (C06_inv_reachable ops hops [] (by intro e he; cases he) (by intro e he; cases he)).1

/-- a rejected insertion leaves the group unchanged -/
theorem C06_reject_frame (g : DgV) (k : String) (m : MemberV) (e : Err) (h : g.set k m = .error e) :
    (g.step (.set k m)).1 = g := by
  simp [DgV.step, h]


/-- `c'` holds the rows `rows` of `c`, with unit and dtype preserved -/
def Selected (rows : List Nat) (c c' : ArrV) : Prop :=
  c'.data = takeRows c.shape c.data rows ∧ c'.unit = c.unit ∧ c'.dtype = c.dtype

/-- component-wise: same number of components, each selected by the same rows -/
def SelectedM (rows : List Nat) (m m' : MemberV) : Prop :=
  m'.comps.length = m.comps.length ∧
  ∀ i (h : i < m.comps.length) (h' : i < m'.comps.length), Selected rows m.comps[i] m'.comps[i]

theorem arr_getIndex_selected (a a' : ArrV) (ix : Index) (n : Nat) (rest rows : List Nat) (drop : Bool)
    (hs : a.shape = n :: rest) (hr : ix.rows n = .ok (rows, drop)) (h : a.getIndex ix = .ok a') :
    Selected rows a a' ∧ a'.name = a.name := by
  unfold ArrV.getIndex at h
  rw [hs] at h
  simp only [hr, bind, Except.bind, pure, Except.pure] at h
  cases h
  simp [Selected, hs]

theorem mapM_getIndex (cs cs' : List ArrV) (ix : Index) (n : Nat) (rest rows : List Nat) (drop : Bool)
    (hs : ∀ c ∈ cs, c.shape = n :: rest) (hr : ix.rows n = .ok (rows, drop))
    (h : cs.mapM (·.getIndex ix) = .ok cs') :
    cs'.length = cs.length ∧ ∀ i (h1 : i < cs.length) (h2 : i < cs'.length), Selected rows cs[i] cs'[i] := by
  induction cs generalizing cs' with
  | nil => simp [List.mapM_nil, pure, Except.pure] at h; subst h; simp
  | cons c cs ih =>
    simp only [List.mapM_cons, bind, Except.bind] at h
    cases hc : c.getIndex ix with
    | error e => simp [hc] at h
    | ok c' =>
      simp only [hc] at h
      cases hrest : cs.mapM (·.getIndex ix) with
      | error e => simp [hrest] at h
      | ok rest' =>
        simp only [hrest, pure, Except.pure] at h
        cases h
        have ihh := ih rest' (fun x hx => hs x (by simp [hx])) hrest
        refine ⟨by simp [ihh.1], ?_⟩
        intro i h1 h2
        cases i with
        | zero => exact (arr_getIndex_selected c c' ix n rest rows drop (hs c (by simp)) hr hc).1
        | succ j => simpa using ihh.2 j (by simpa using h1) (by simpa using h2)

theorem ofArrs_ok (xs : List ArrV) (nm : String) (w : VecV) (h : VecV.ofArrs xs nm = .ok w) :
    w = VecV.rename { comps := xs, name := nm } nm := by
  unfold VecV.ofArrs at h
  split at h
  · cases h
  · split at h
    · cases h
    · split at h
      · cases h
      · split at h
        · cases h
        · cases h; rfl

theorem member_getIndex_selected (m m0 : MemberV) (k : String) (ix : Index) (n : Nat)
    (rest rows : List Nat) (drop : Bool)
    (hs : ∀ c ∈ m.comps, c.shape = n :: rest) (hr : ix.rows n = .ok (rows, drop))
    (h : m.getIndex ix = .ok m0) : SelectedM rows m (m0.rename k) := by
  cases m with
  | arr a =>
    simp only [MemberV.getIndex, bind, Except.bind] at h
    cases ha : a.getIndex ix with
    | error e => simp [ha] at h
    | ok a' =>
      simp only [ha, pure, Except.pure] at h
      cases h
      have := arr_getIndex_selected a a' ix n rest rows drop (hs a (by simp [MemberV.comps])) hr ha
      refine ⟨by simp [MemberV.comps, MemberV.rename], ?_⟩
      intro i h1 h2
      simp only [MemberV.comps, List.length_singleton] at h1
      have : i = 0 := by omega
      subst this
      simpa [MemberV.comps, MemberV.rename, Selected] using this.1
  | vec v =>
    simp only [MemberV.getIndex, VecV.getIndex, bind, Except.bind] at h
    cases hcs : v.comps.mapM (·.getIndex ix) with
    | error e => simp [hcs] at h
    | ok cs' =>
      simp only [hcs] at h
      cases hof : VecV.ofArrs cs' v.name with
      | error e => simp [hof] at h
      | ok w =>
        simp only [hof, pure, Except.pure] at h
        cases h
        have hm := mapM_getIndex v.comps cs' ix n rest rows drop (by simpa [MemberV.comps] using hs) hr hcs
        -- `ofArrs` only renames
        have hweq : w = VecV.rename { comps := cs', name := v.name } v.name := ofArrs_ok _ _ _ hof
        have hw : w.comps.length = cs'.length ∧ ∀ i (h1 : i < cs'.length) (h2 : i < w.comps.length),
            w.comps[i].data = cs'[i].data ∧ w.comps[i].unit = cs'[i].unit ∧ w.comps[i].dtype = cs'[i].dtype ∧ w.comps[i].shape = cs'[i].shape := by
          subst hweq
          refine ⟨by simp [VecV.rename], ?_⟩
          intro i h1 h2
          simp [VecV.rename, List.getElem_mapIdx]
        refine ⟨by simp [MemberV.comps, MemberV.rename, VecV.rename, hw.1, hm.1], ?_⟩
        intro i h1 h2
        simp only [MemberV.comps] at h1
        have h3 : i < cs'.length := by rw [hm.1]; exact h1
        have h4 : i < w.comps.length := by rw [hw.1]; exact h3
        have s1 := hm.2 i h1 h3
        have s2 := hw.2 i h3 h4
        simp only [MemberV.comps, MemberV.rename, VecV.rename, List.getElem_mapIdx, Selected]
        exact ⟨by rw [s2.1, s1.1], by rw [s2.2.1, s1.2.1], by rw [s2.2.2.1, s1.2.2]⟩


/-- every entry of an indexed group comes from the entry of the source with the same key,
    indexed by the *same* index object -/
theorem getIndex_fold_sound (ix : Index) (l : List (String × MemberV)) :
    ∀ (acc r : DgV),
      l.foldlM (fun (acc : DgV) (e : String × MemberV) => do
          let m ← e.2.getIndex ix
          acc.set e.1 m) acc = .ok r →
      ∀ e' ∈ r, e' ∈ acc ∨ ∃ m m0, (e'.1, m) ∈ l ∧ m.getIndex ix = .ok m0 ∧ e'.2 = m0.rename e'.1 := by
  induction l with
  | nil =>
    intro acc r h e' he'
    simp only [List.foldlM_nil, pure, Except.pure] at h
    cases h; exact Or.inl he'
  | cons x l ih =>
    intro acc r h e' he'
    simp only [List.foldlM_cons, bind, Except.bind] at h
    cases hm : x.2.getIndex ix with
    | error e => simp [hm] at h
    | ok m0 =>
      simp only [hm] at h
      cases hs : acc.set x.1 m0 with
      | error e => simp [hs] at h
      | ok acc' =>
        simp only [hs] at h
        rcases ih acc' r h e' he' with h1 | ⟨m, m1, hmem, hg, hr⟩
        · unfold DgV.set at hs
          split at hs
          · cases hs
          · cases hs
            rcases mem_dictSet _ _ _ _ h1 with h2 | h2
            · exact Or.inl h2
            · refine Or.inr ⟨x.2, m0, ?_, hm, ?_⟩
              · rw [h2]; simp
              · rw [h2]
        · exact Or.inr ⟨m, m1, by simp [hmem], hg, hr⟩

/-- **C06 (indexing)**: indexing a Datagroup with an integer, slice, mask or integer array
    applies one and the same row selection to every member, Arrays and Vector components
    alike: every value at row r of the result comes from row `rows[r]` of the original. -/
theorem C06_getIndex_aligned (g g' : DgV) (ix : Index) (n : Nat) (rest rows : List Nat) (drop : Bool)
    (hshape : ∀ e ∈ g, ∀ c ∈ e.2.comps, c.shape = n :: rest)
    (hr : ix.rows n = .ok (rows, drop))
    (h : g.getIndex ix = .ok g') :
    ∀ e' ∈ g', ∃ m, (e'.1, m) ∈ g ∧ SelectedM rows m e'.2 := by
  intro e' he'
  rcases getIndex_fold_sound ix g [] g' h e' he' with h1 | ⟨m, m0, hmem, hg, hren⟩
  · cases h1
  · refine ⟨m, hmem, ?_⟩
    rw [hren]
    exact member_getIndex_selected m m0 e'.1 ix n rest rows drop (hshape _ hmem) hr hg

/-- sorting with an index list: the loop of `sortby` visits every key once and replaces
    the member found under it by that member indexed with `perm`; other keys are untouched -/
theorem sortby_go_sound (perm : List Int) (todo : List String) :
    ∀ (g g' : DgV), todo.Nodup → DgV.sortbyPerm.go perm todo g = (g', none) →
      ∀ k' m', dictGet? g' k' = some m' →
        (k' ∈ todo → ∃ (m m0 : MemberV), dictGet? g k' = some m ∧
            MemberV.getIndex m (.fancy perm) = .ok m0 ∧ m' = MemberV.rename m0 k') ∧
        (k' ∉ todo → dictGet? g k' = some m') := by
  induction todo with
  | nil =>
    intro g g' _ h k' m' hk'
    simp [DgV.sortbyPerm.go] at h; cases h
    exact ⟨fun h => (by cases h), fun _ => hk'⟩
  | cons k todo ih =>
    intro g g' hnd h k' m' hk'
    have hknot : k ∉ todo := (List.nodup_cons.mp hnd).1
    have hnd' : todo.Nodup := (List.nodup_cons.mp hnd).2
    simp only [DgV.sortbyPerm.go] at h
    cases hk : dictGet? g k with
    | none => simp [hk] at h
    | some m =>
      simp only [hk] at h
      cases hm : m.getIndex (.fancy perm) with
      | error e => simp [hm] at h
      | ok m0 =>
        simp only [hm] at h
        cases hs : g.set k m0 with
        | error e => simp [hs] at h
        | ok g1 =>
          simp only [hs] at h
          have hg1 : dictGet? g1 k = some (m0.rename k) ∧ ∀ k'', k'' ≠ k → dictGet? g1 k'' = dictGet? g k'' := by
            unfold DgV.set at hs
            split at hs
            · cases hs
            · cases hs
              exact ⟨by simp [dictGet?_dictSet], fun k'' hne => by simp [dictGet?_dictSet, hne]⟩
          have := ih g1 g' hnd' h k' m' hk'
          constructor
          · intro hmem
            rcases List.mem_cons.mp hmem with heq | hin
            · subst heq
              have h2 := this.2 hknot
              rw [hg1.1] at h2
              exact ⟨m, m0, hk, hm, by cases h2; rfl⟩
            · have hne : k' ≠ k := fun heq => hknot (heq ▸ hin)
              obtain ⟨ma, mb, h1, h2, h3⟩ := this.1 hin
              exact ⟨ma, mb, by rw [← hg1.2 k' hne]; exact h1, h2, h3⟩
          · intro hnot
            have hne : k' ≠ k := fun heq => hnot (by simp [heq])
            have hnt : k' ∉ todo := fun hin => hnot (by simp [hin])
            rw [← hg1.2 k' hne]; exact this.2 hnt

/-- **C06 (sorting)**: after `sortby(perm)` every member (Array or Vector) found under a
    key is the original member under that key indexed with the *same* permutation. -/
theorem C06_sortby_aligned (g g' : DgV) (perm : List Int) (hnd : (dictKeys g).Nodup)
    (h : g.sortbyPerm perm = (g', none)) :
    ∀ k' m', dictGet? g' k' = some m' → k' ∈ dictKeys g →
      ∃ (m m0 : MemberV), dictGet? g k' = some m ∧
        MemberV.getIndex m (.fancy perm) = .ok m0 ∧ m' = MemberV.rename m0 k' := by
  intro k' m' hk' hmem
  exact (sortby_go_sound perm (dictKeys g) g g' hnd h k' m' hk').1 hmem

/-- the scalar gate: a group whose first member is 0-d accepts members of any shape, so
    deleting that member leaves a non-scalar group with unequal shapes (negation witness
    for the invariant without the `NS` hypothesis; replayed on the real class) -/
def sA : ArrV := { shape := [], dtype := .f8, data := [1], unit := U.one }
def v3 : ArrV := { shape := [3], dtype := .f8, data := [1, 2, 3], unit := U.one }
def v4 : ArrV := { shape := [4], dtype := .f8, data := [1, 2, 3, 4], unit := U.one }
def witnessOps : List DgOp :=
  [.set "a" (.arr sA), .set "b" (.arr v3), .set "c" (.arr v4), .del "a"]

theorem C06_scalar_gate_witness :
    let g := (DgV.run [] witnessOps).1
    dictKeys g = ["b", "c"] ∧ (g.map (·.2.shape)) = [[3], [4]] ∧ (DgV.run [] witnessOps).2 = [.unit, .unit, .unit, .unit] := by
  decide

/-! ### accepted index objects select real rows -/

theorem normIdx_lt (n : Nat) (i : Int) (k : Nat) (h : normIdx n i = .ok k) : k < n := by
  unfold normIdx at h
  simp only at h
  split at h
  · cases h
  · rename_i hc
    simp only [Bool.or_eq_true, decide_eq_true_eq, not_or, not_lt, not_le] at hc
    injection h with h
    subst h
    split <;> omega

theorem sliceClamp_bounds (N st v : Int) (hN : 0 ≤ N) : sliceLower st ≤ sliceClamp N st v ∧ sliceClamp N st v ≤ sliceUpper N st := by
  unfold sliceClamp sliceLower sliceUpper
  split_ifs <;> constructor <;> omega

theorem sliceStart_bounds (N st : Int) (a : Option Int) (hN : 0 ≤ N) :
    sliceLower st ≤ sliceStart N st a ∧ sliceStart N st a ≤ sliceUpper N st := by
  cases a with
  | none => simp only [sliceStart, sliceLower, sliceUpper]; split_ifs <;> constructor <;> omega
  | some v => exact sliceClamp_bounds N st v hN

theorem sliceStop_bounds (N st : Int) (a : Option Int) (hN : 0 ≤ N) :
    sliceLower st ≤ sliceStop N st a ∧ sliceStop N st a ≤ sliceUpper N st := by
  cases a with
  | none => simp only [sliceStop, sliceLower, sliceUpper]; split_ifs <;> constructor <;> omega
  | some v => exact sliceClamp_bounds N st v hN

/-- every element of `range(s0, s1, st)` lies strictly between the two ends -/
theorem sliceCount_elem (st s0 s1 : Int) (k : Nat) (hk : k < sliceCount st s0 s1) :
    (0 < st → s0 ≤ s0 + k * st ∧ s0 + k * st < s1) ∧ (st < 0 → s1 < s0 + k * st ∧ s0 + k * st ≤ s0) := by
  unfold sliceCount at hk
  constructor
  · intro hst
    rw [if_pos hst] at hk
    split at hk
    · rw [Int.lt_toNat] at hk
      have h1 : (k : Int) ≤ (s1 - s0 - 1) / st := by omega
      have h2 : (k : Int) * st ≤ s1 - s0 - 1 := (Int.le_ediv_iff_mul_le hst).mp h1
      have h3 : 0 ≤ (k : Int) * st := Int.mul_nonneg (by omega) (by omega)
      constructor <;> omega
    · omega
  · intro hst
    rw [if_neg (by omega)] at hk
    split at hk
    · rw [Int.lt_toNat] at hk
      have h1 : (k : Int) ≤ (s0 - s1 - 1) / (-st) := by omega
      have h2 : (k : Int) * (-st) ≤ s0 - s1 - 1 := (Int.le_ediv_iff_mul_le (by omega)).mp h1
      have h3 : 0 ≤ (k : Int) * (-st) := Int.mul_nonneg (by omega) (by omega)
      have h4 : (k : Int) * (-st) = -((k : Int) * st) := Int.mul_neg _ _
      constructor <;> omega
    · omega

theorem sliceRows_lt (n : Nat) (a b c : Option Int) (rows : List Nat) (h : sliceRows n a b c = .ok rows) :
    ∀ r ∈ rows, r < n := by
  unfold sliceRows at h
  simp only at h
  split at h
  · cases h
  · rename_i hst
    injection h with h
    subst h
    intro r hr
    simp only [List.mem_map, List.mem_range] at hr
    obtain ⟨k, hk, rfl⟩ := hr
    have hst' : c.getD 1 ≠ 0 := by simpa using hst
    have hN : (0 : Int) ≤ (n : Int) := by omega
    have b0 := sliceStart_bounds n (c.getD 1) a hN
    have b1 := sliceStop_bounds n (c.getD 1) b hN
    have e := sliceCount_elem _ _ _ k hk
    unfold sliceLower sliceUpper at b0 b1
    rcases lt_or_gt_of_ne hst' with hneg | hpos
    · have := e.2 hneg
      rw [if_pos hneg] at b0 b1
      omega
    · have := e.1 hpos
      rw [if_neg (by omega)] at b0 b1
      omega

theorem maskRows_lt (m : List Bool) : ∀ r ∈ maskRows m, r < m.length := by
  intro r hr
  simp only [maskRows, List.mem_filter, List.mem_range] at hr
  exact hr.1

theorem mapM_normIdx_lt (n : Nat) : ∀ (is : List Int) (rows : List Nat), is.mapM (normIdx n) = .ok rows → ∀ r ∈ rows, r < n := by
  intro is
  induction is with
  | nil => intro rows h r hr; simp [List.mapM_nil, pure, Except.pure] at h; subst h; simp at hr
  | cons i is ih =>
    intro rows h r hr
    rw [List.mapM_cons] at h
    cases hi : normIdx n i with
    | error e => simp [hi, bind, Except.bind] at h
    | ok k =>
      cases hr' : is.mapM (normIdx n) with
      | error e => simp [hi, hr', bind, Except.bind] at h
      | ok rest =>
        simp [hi, hr', bind, Except.bind, pure, Except.pure] at h
        subst h
        rcases List.mem_cons.mp hr with rfl | hmem
        · exact normIdx_lt n i _ hi
        · exact ih rest hr' r hmem

/-- **C06 (indices are real rows)**: whatever index object is accepted on an axis of length `n`, every selected row is a
    row of the source (`< n`): the totalised reads (`getD`) of the alignment theorems never fall back to a default -/
theorem rows_lt (n : Nat) (ix : Index) (rows : List Nat) (d : Bool) (h : ix.rows n = .ok (rows, d)) : ∀ r ∈ rows, r < n := by
  cases ix with
  | int i =>
    simp only [Index.rows, bind, Except.bind, pure, Except.pure] at h
    cases hi : normIdx n i with
    | error e => simp [hi] at h
    | ok k =>
      simp [hi] at h
      intro r hr
      rw [← h.1] at hr
      simp at hr; subst hr
      exact normIdx_lt n i _ hi
  | slice a b c =>
    simp only [Index.rows, bind, Except.bind, pure, Except.pure] at h
    cases hs : sliceRows n a b c with
    | error e => simp [hs] at h
    | ok rs =>
      simp [hs] at h
      rw [← h.1]
      exact sliceRows_lt n a b c rs hs
  | mask m =>
    simp only [Index.rows] at h
    split at h
    · cases h
    · rename_i hc
      simp only [pure, Except.pure] at h
      injection h with h
      injection h with h1 h2
      subst h1
      intro r hr
      have := maskRows_lt m r hr
      simp only [bne_iff_ne, ne_eq, Bool.and_eq_true, not_and, Decidable.not_not] at hc
      by_cases hm : m.length = n
      · omega
      · have := hc hm; omega
  | fancy is =>
    simp only [Index.rows, bind, Except.bind, pure, Except.pure] at h
    cases hs : is.mapM (normIdx n) with
    | error e => simp [hs] at h
    | ok rs =>
      simp [hs] at h
      rw [← h.1]
      exact mapM_normIdx_lt n is rs hs

end Osyris.C06
