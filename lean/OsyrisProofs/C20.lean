/-
C20  Datagroup and Dataset behave as dictionaries; equality is by content.
Property theorems (helper lemmas about the association list: Lemmas/Dict.lean).
-/
import OsyrisModel
import OsyrisModel.Spec.DictSpec
import OsyrisProofs.Lemmas.Dict

namespace Osyris.C20
open Osyris Spec

theorem abs_ext {a b : Dict MemberV} (hk : a.keys = b.keys) (hv : a.val = b.val) : a = b := by
  cases a; cases b; simp_all

theorem shape_abs (g : DgV) : Spec.shapeOf g.abs = g.shape := by
  cases g with
  | nil => rfl
  | cons e g =>
    obtain ⟨k, m⟩ := e
    simp [Spec.shapeOf, DgV.abs, dictKeys, dictGet?, DgV.shape]

theorem abs_set (g : DgV) (k : String) (m : MemberV) :
    DgV.abs (dictSet g k m) = g.abs.set k m := by
  apply abs_ext
  · simp only [DgV.abs, Dict.set, dictKeys_dictSet]
    by_cases h : k ∈ dictKeys g <;> simp [h]
  · funext k'; simp [DgV.abs, Dict.set, dictGet?_dictSet]

theorem abs_del (g : DgV) (k : String) : DgV.abs (dictDel g k) = g.abs.del k := by
  apply abs_ext
  · simp [DgV.abs, Dict.del, dictKeys_dictDel]
  · funext k'; simp [DgV.abs, Dict.del, dictGet?_dictDel]

theorem set_refines (g : DgV) (k : String) (m : MemberV) :
    (g.set k m).map DgV.abs = Spec.setGated g.abs k m := by
  unfold DgV.set Spec.setGated
  rw [shape_abs]
  split <;> simp [Except.map, abs_set]

theorem update_refines (g : DgV) (items : List (String × MemberV)) :
    ((g.update items).1.abs, (g.update items).2) = Spec.updateSpec g.abs items := by
  induction items generalizing g with
  | nil => rfl
  | cons it items ih =>
    obtain ⟨k, m⟩ := it
    have hs := set_refines g k m
    unfold DgV.update Spec.updateSpec
    cases hg : g.set k m with
    | ok g' =>
      rw [hg] at hs; simp only [Except.map] at hs
      rw [← hs]; simp only
      exact ih g'
    | error e =>
      rw [hg] at hs; simp only [Except.map] at hs
      rw [← hs]

theorem step_refines (g : DgV) (op : DgOp) :
    ((g.step op).1.abs, (g.step op).2) = Spec.step g.abs op := by
  cases op with
  | set k m =>
    have hs := set_refines g k m
    simp only [DgV.step, Spec.step]
    cases hg : g.set k m with
    | ok g' => rw [hg] at hs; simp only [Except.map] at hs; rw [← hs]
    | error e => rw [hg] at hs; simp only [Except.map] at hs; rw [← hs]
  | del k =>
    simp only [DgV.step, Spec.step, DgV.del]
    have := mem_keys_iff_any g k
    by_cases h : g.any (·.1 == k) = true
    · have hm : k ∈ g.abs.keys := this.mp h
      simp [h, hm, abs_del]
    · have hm : k ∉ g.abs.keys := fun hm => h (this.mpr hm)
      simp [h, hm]
  | pop k =>
    simp only [DgV.step, Spec.step]
    cases h : dictGet? g k with
    | none => simp [DgV.abs, h]
    | some m =>
      have := abs_del g k
      simp only [DgV.abs] at this
      simp [DgV.abs, h, this]
  | get k =>
    simp only [DgV.step, Spec.step]
    cases h : dictGet? g k <;> simp [DgV.abs, h]
  | getD k d => simp [DgV.step, Spec.step, DgV.abs]
  | contains k =>
    simp only [DgV.step, Spec.step, DgV.abs]
    have := mem_keys_iff_any g k
    by_cases h : g.any (·.1 == k) = true
    · simp [h, this.mp h]
    · have hm : k ∉ dictKeys g := fun hm => h (this.mpr hm)
      simp [h, hm]
  | len => simp [DgV.step, Spec.step, DgV.abs, dictKeys]
  | keys => simp [DgV.step, Spec.step, DgV.abs]
  | clear => simp [DgV.step, Spec.step, DgV.abs, Dict.empty, dictKeys]; funext k; rfl
  | update items =>
    have hu := update_refines g items
    simp only [DgV.step, Spec.step]
    rw [← hu]
    generalize g.update items = r
    obtain ⟨g', o⟩ := r
    cases o <;> simp

/-- **C20 (dictionary part)**: for every finite sequence of dictionary operations, the
    Datagroup model produces the outputs, errors and final contents of the
    insertion-ordered dictionary spec. -/
theorem C20_refines_dict (g : DgV) (ops : List DgOp) :
    ((g.run ops).1.abs, (g.run ops).2) = Spec.run g.abs ops := by
  induction ops generalizing g with
  | nil => rfl
  | cons op ops ih =>
    have hs := step_refines g op
    simp only [DgV.run, Spec.run]
    rw [← hs]
    simp only
    rw [← ih (g.step op).1]

theorem set_nodup (g g' : DgV) (k : String) (m : MemberV) (h : (dictKeys g).Nodup)
    (hs : g.set k m = .ok g') : (dictKeys g').Nodup := by
  unfold DgV.set at hs
  split at hs
  · cases hs
  · cases hs; exact nodup_dictSet _ _ _ h

theorem update_nodup (items : List (String × MemberV)) :
    ∀ (g : DgV), (dictKeys g).Nodup → (dictKeys (g.update items).1).Nodup := by
  induction items with
  | nil => intro g hg; exact hg
  | cons it items ih2 =>
    intro g hg
    obtain ⟨k, m⟩ := it
    unfold DgV.update
    cases hs : g.set k m with
    | ok g' => exact ih2 g' (set_nodup g g' k m hg hs)
    | error e => exact hg

theorem step_nodup (g : DgV) (op : DgOp) (h : (dictKeys g).Nodup) :
    (dictKeys (g.step op).1).Nodup := by
  cases op with
  | set k m =>
    simp only [DgV.step]
    cases hs : g.set k m with
    | ok g' => exact set_nodup g g' k m h hs
    | error e => exact h
  | del k =>
    simp only [DgV.step, DgV.del]
    split <;> rename_i heq
    · split at heq
      · cases heq; exact nodup_dictDel _ _ h
      · cases heq
    · exact h
  | pop k => simp only [DgV.step]; split <;> simp_all [nodup_dictDel]
  | get k => simp only [DgV.step]; split <;> simp_all
  | getD k d => simpa [DgV.step]
  | contains k => simpa [DgV.step]
  | len => simpa [DgV.step]
  | keys => simpa [DgV.step]
  | clear => simp [DgV.step, dictKeys]
  | update items =>
    simp only [DgV.step]
    have := update_nodup items g h
    generalize g.update items = r at this
    obtain ⟨g', o⟩ := r
    cases o <;> simpa using this

/-- keys never repeat, for every reachable group -/
theorem C20_keys_nodup (g : DgV) (ops : List DgOp) (h : (dictKeys g).Nodup) :
    (dictKeys (g.run ops).1).Nodup := by
  induction ops generalizing g with
  | nil => exact h
  | cons op ops ih =>
    simp only [DgV.run]
    exact ih _ (step_nodup g op h)

/-- every stored item is renamed to its key: after a successful `set`, the value found
    under `k` is the inserted member carrying the name `k`, and no other key changed -/
theorem C20_rename_on_set (g g' : DgV) (k : String) (m : MemberV) (h : g.set k m = .ok g') :
    dictGet? g' k = some (m.rename k) ∧ ∀ k', k' ≠ k → dictGet? g' k' = dictGet? g k' := by
  unfold DgV.set at h
  split at h
  · cases h
  · cases h
    constructor
    · simp [dictGet?_dictSet]
    · intro k' hk'; simp [dictGet?_dictSet, hk']

/-- a mis-shaped value is rejected and the group is left unchanged -/
theorem C20_shape_gate (g : DgV) (k : String) (m : MemberV)
    (hne : g.shape ≠ []) (hs : g.shape ≠ m.shape) :
    g.set k m = .error .valueErr ∧ (g.step (.set k m)).1 = g := by
  have : g.set k m = .error .valueErr := by simp [DgV.set, hne, hs]
  exact ⟨this, by simp [DgV.step, this]⟩

/-- content equality: `eq` answers true exactly when the key sets agree and every member
    of `g` has an element-wise equal partner in `h` -/
theorem C20_eq_iff (T : Tables) (g h : DgV) :
    DgV.eq T g h = .ok true ↔
      ((dictKeys g).all ((dictKeys h).contains ·) && (dictKeys h).all ((dictKeys g).contains ·)) = true ∧
      ∀ e ∈ g, ∃ m', dictGet? h e.1 = some m' ∧ DgV.memberEq T e.2 m' = .ok true := by
  unfold DgV.eq
  have hgo : ∀ l : List (String × MemberV), DgV.eq.go T h l = .ok true ↔
      ∀ e ∈ l, ∃ m', dictGet? h e.1 = some m' ∧ DgV.memberEq T e.2 m' = .ok true := by
    intro l
    induction l with
    | nil => simp [DgV.eq.go]
    | cons e l ih =>
      obtain ⟨k, m⟩ := e
      simp only [DgV.eq.go, List.mem_cons, forall_eq_or_imp]
      cases hk : dictGet? h k with
      | none => simp
      | some m' =>
        simp only [Option.some.injEq, exists_eq_left']
        cases hm : DgV.memberEq T m m' with
        | error e => simp
        | ok b => cases b <;> simp [ih]
  by_cases hkeys : ((dictKeys g).all ((dictKeys h).contains ·) && (dictKeys h).all ((dictKeys g).contains ·)) = true
  · simp only [hkeys, Bool.not_true, Bool.false_eq_true, if_false, true_and]
    exact hgo g
  · have hk' : (!((dictKeys g).all ((dictKeys h).contains ·) && (dictKeys h).all ((dictKeys g).contains ·))) = true := by
      cases hb : ((dictKeys g).all ((dictKeys h).contains ·) && (dictKeys h).all ((dictKeys g).contains ·))
      · rfl
      · exact absurd hb hkeys
    rw [if_pos hk']
    constructor
    · intro h'; cases h'
    · intro h'; exact absurd h'.1 hkeys

/-! non-vacuity: concrete groups meeting the hypotheses -/
def exA : ArrV := { shape := [2], dtype := .f8, data := [1, 2], unit := U.one }
def exB : ArrV := { shape := [3], dtype := .f8, data := [1, 2, 3], unit := U.one }
example : (DgV.set [("a", .arr exA)] "b" (.arr exB)) = .error .valueErr := by
  simp [DgV.set, DgV.shape, MemberV.shape, exA, exB]
example : ∃ g', DgV.set [("a", .arr exA)] "b" (.arr exA) = .ok g' ∧ dictKeys g' = ["a", "b"] :=
  ⟨_, rfl, by decide⟩

/-! ### Dataset level: the `groups` table of a Dataset (group name -> Datagroup object) is maintained with the same
`dictSet` / `dictDel` functions (`Exec`: `ds_set`, `ds_del`, `ds_pop`, `ds_update`, `ds_clear`), for any kind of value -/

section Dataset
variable {β : Type}

/-- dictionary operations on a Dataset's table once the type gate (`isinstance(value, Datagroup)`) has let them through -/
inductive TblOp (β : Type)
  | set (k : String) (v : β)
  | del (k : String)
  | clear

def tblStep (d : List (String × β)) : TblOp β → List (String × β)
  | .set k v => dictSet d k v
  | .del k => dictDel d k
  | .clear => []

def tblAbs (d : List (String × β)) : Dict β := ⟨dictKeys d, dictGet? d⟩

def tblSpec (s : Dict β) : TblOp β → Dict β
  | .set k v => s.set k v
  | .del k => s.del k
  | .clear => Dict.empty

theorem tblStep_refines (d : List (String × β)) (op : TblOp β) : tblAbs (tblStep d op) = tblSpec (tblAbs d) op := by
  cases op with
  | set k v =>
    have hk : (tblAbs (dictSet d k v)).keys = ((tblAbs d).set k v).keys := by
      simp only [tblAbs, Dict.set, dictKeys_dictSet]
      by_cases h : k ∈ dictKeys d <;> simp [h]
    have hv : (tblAbs (dictSet d k v)).val = ((tblAbs d).set k v).val := by
      funext k'; simp [tblAbs, Dict.set, dictGet?_dictSet]
    show tblAbs (dictSet d k v) = (tblAbs d).set k v
    cases h1 : tblAbs (dictSet d k v); cases h2 : (tblAbs d).set k v
    simp_all
  | del k =>
    have hk : (tblAbs (dictDel d k)).keys = ((tblAbs d).del k).keys := by
      simp [tblAbs, Dict.del, dictKeys_dictDel]
    have hv : (tblAbs (dictDel d k)).val = ((tblAbs d).del k).val := by
      funext k'; simp [tblAbs, Dict.del, dictGet?_dictDel]
    show tblAbs (dictDel d k) = (tblAbs d).del k
    cases h1 : tblAbs (dictDel d k); cases h2 : (tblAbs d).del k
    simp_all
  | clear => rfl

/-- **C20 (Dataset)**: after any sequence of insertions / replacements, deletions (del, pop) and clear, the table of
    a Dataset is the insertion-ordered dictionary obtained by the same operations, and its keys stay distinct -/
theorem C20_dataset_refines_dict (d : List (String × β)) (ops : List (TblOp β)) :
    tblAbs (ops.foldl tblStep d) = ops.foldl tblSpec (tblAbs d) := by
  induction ops generalizing d with
  | nil => rfl
  | cons op ops ih => simp only [List.foldl_cons]; rw [ih, tblStep_refines]

theorem C20_dataset_keys_nodup (d : List (String × β)) (ops : List (TblOp β)) (h : (dictKeys d).Nodup) :
    (dictKeys (ops.foldl tblStep d)).Nodup := by
  induction ops generalizing d with
  | nil => exact h
  | cons op ops ih =>
    simp only [List.foldl_cons]
    apply ih
    cases op with
    | set k v => exact nodup_dictSet d k v h
    | del k => exact nodup_dictDel d k h
    | clear => simp [tblStep, dictKeys]

end Dataset

end Osyris.C20
