/-
C14  Particle and sink tables are loaded completely, typed and scaled correctly.
The particle-file alignment theorem is `Readers.part_header_aligned` (all header record
sizes, all type mixes, all particle counts incl. zero, read or skipped columns).
-/
import OsyrisProofs.Layout
import OsyrisProofs.Readers

namespace Osyris.C14
open Osyris Osyris.Readers Osyris.LoadEngine

/-- a column that is skipped advances the counters exactly like a column that is read:
    the columns after it are found at the same place (row alignment across variables) -/
theorem C14_columns_independent (np : Nat) (vars vars' : List VarItem) (h : vars.map (·.ty) = vars'.map (·.ty)) :
    varsBytes np vars = varsBytes np vars' := by
  induction vars generalizing vars' with
  | nil => cases vars' with
    | nil => rfl
    | cons x xs => simp at h
  | cons v vs ih => cases vars' with
    | nil => simp at h
    | cons x xs =>
      simp only [List.map_cons, List.cons.injEq] at h
      simp only [varsBytes, List.map_cons, List.sum_cons, h.1]
      have := ih xs h.2
      simp only [varsBytes] at this
      rw [this]

/-- zero particles: every column record is empty and still passed over correctly -/
theorem C14_zero_particles (vars : List VarItem) : varsBytes 0 vars = 8 * vars.length := by
  induction vars with
  | nil => rfl
  | cons v vs ih => simp only [varsBytes, List.map_cons, List.sum_cons, List.length_cons] at ih ⊢; rw [ih]; ring

end Osyris.C14
