/-
C14  Particle and sink tables are loaded completely, typed and scaled correctly.
The particle-file alignment theorem is `Readers.part_header_aligned` (all header record
sizes, all type mixes, all particle counts incl. zero, read or skipped columns).
-/
import OsyrisProofs.Layout
import OsyrisProofs.Readers

namespace Osyris.C14
open Osyris Osyris.Readers Osyris.LoadEngine Osyris.Loader

/-- a column that is skipped advances the counters exactly like a column that is read:
    the columns after it are found at the same place (row alignment across variables) -/
theorem C14_columns_independent (np : Nat) (vars vars' : List VarItem) (h : vars.map (·.ty) = vars'.map (·.ty)) :
    varsBytes np vars = varsBytes np vars' := by
  induction vars generalizing vars' with
  | nil => cases vars' with
    | nil => rfl
    | cons x xs => simp at h
  | cons v vs ih => cases vars' with
    | nil => simp at h
    | cons x xs =>
      simp only [List.map_cons, List.cons.injEq] at h
      simp only [varsBytes, List.map_cons, List.sum_cons, h.1]
      have := ih xs h.2
      simp only [varsBytes] at this
      rw [this]

/-- zero particles: every column record is empty and still passed over correctly -/
theorem C14_zero_particles (vars : List VarItem) : varsBytes 0 vars = 8 * vars.length := by
  induction vars with
  | nil => rfl
  | cons v vs ih => simp only [varsBytes, List.map_cons, List.sum_cons, List.length_cons] at ih ⊢; rw [ih]; ring

/-! ### accumulation of the rows over the files read -/


/-- the rows accumulated so far for a variable (nothing yet = empty) -/
def rowsOf (p : Pieces) (name : String) : List Rat := ((p.find? (·.1 == name)).map (·.2)).getD []

theorem rowsOf_add_self (p : Pieces) (name : String) (vals : List Rat) :
    rowsOf (p.add name vals) name = rowsOf p name ++ vals := by
  unfold Pieces.add rowsOf
  split
  · rename_i h
    induction p with
    | nil => simp at h
    | cons e p ih =>
      simp only [List.map_cons, List.find?_cons]
      by_cases he : e.1 == name
      · simp [he]
      · have hf : (e.1 == name) = false := by simpa using he
        simp only [hf, Bool.false_eq_true, if_false]
        apply ih
        simpa [hf] using h
  · rename_i h
    have hnone : p.find? (·.1 == name) = none := by
      rw [List.find?_eq_none]
      intro e he hc
      exact h (List.any_eq_true.mpr ⟨e, he, hc⟩)
    rw [List.find?_append, hnone]
    simp

theorem rowsOf_add_other (p : Pieces) (name other : String) (vals : List Rat) (hne : other ≠ name) :
    rowsOf (p.add name vals) other = rowsOf p other := by
  unfold Pieces.add rowsOf
  split
  · have hfind : ∀ q : Pieces, (q.map (fun e => if e.1 == name then (e.1, e.2 ++ vals) else e)).find? (·.1 == other) =
        q.find? (·.1 == other) := by
      intro q
      induction q with
      | nil => rfl
      | cons e q ih =>
        simp only [List.map_cons, List.find?_cons]
        by_cases he : e.1 == name
        · have hen : e.1 = name := by simpa using he
          have hf : (e.1 == other) = false := by rw [hen]; simpa using fun h => hne h.symm
          simp only [he, if_true, hf]
          exact ih
        · have hf : (e.1 == name) = false := by simpa using he
          simp only [hf, Bool.false_eq_true, if_false]
          cases e.1 == other
          · exact ih
          · rfl
    rw [hfind]
  · rw [List.find?_append]
    have : (name == other) = false := by simpa using fun h => hne h.symm
    cases hf : p.find? (·.1 == other) <;> simp [this]

/-- **C14 / C01 (concatenation over the files read)**: adding the rows of one cpu file after the other under one name
    leaves, for that name, the concatenation of the files' rows in the order the files were read; other variables are
    not touched -/
theorem C14_concatenation (name : String) : ∀ (files : List (List Rat)) (p : Pieces),
    rowsOf (files.foldl (fun acc vals => acc.add name vals) p) name = rowsOf p name ++ files.flatten := by
  intro files
  induction files with
  | nil => intro p; simp
  | cons f fs ih =>
    intro p
    rw [List.foldl_cons, ih, rowsOf_add_self, List.flatten_cons, List.append_assoc]

theorem C14_concatenation_frame (name other : String) (hne : other ≠ name) : ∀ (files : List (List Rat)) (p : Pieces),
    rowsOf (files.foldl (fun acc vals => acc.add name vals) p) other = rowsOf p other := by
  intro files
  induction files with
  | nil => intro p; rfl
  | cons f fs ih => intro p; rw [List.foldl_cons, ih, rowsOf_add_other _ _ _ _ hne]

end Osyris.C14
