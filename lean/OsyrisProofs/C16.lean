/-
C16  Sub-domain extraction returns exactly the rows inside the region.
-/
import OsyrisModel
import OsyrisProofs.C06
import OsyrisProofs.C02
import OsyrisProofs.C09
import Mathlib.Tactic.Linarith
import Mathlib.Tactic.FieldSimp
import Mathlib.Tactic.Ring

namespace Osyris.C16
open Osyris Osyris.Subdomain Osyris.C09

/-- the body of the extraction loop for one group -/
def stepGroup (ds : DsV) (maskOf : VecV → Res (List Bool)) (acc : DsV) (e : String × DgV) : Res DsV := do
  match positionOf ds e.2 with
  | none => pure acc
  | some (.arr _) => .error .typeErr
  | some (.vec pos) =>
    if pos.shape != e.2.shape then pure acc
    else do
      let m ← maskOf pos
      if m.any id then do
        let g' ← e.2.getIndex (.mask m)
        pure (dictSet acc e.1 g')
      else pure acc

theorem extract_eq (ds : DsV) (maskOf : VecV → Res (List Bool)) :
    extract ds maskOf = ds.foldlM (stepGroup ds maskOf) [] := rfl

/-- **C16 (rows and alignment)**: every group of the result is the source group of the same
    name indexed by *one* boolean mask — the mask computed from that group's positions (its
    own, or the mesh positions when shapes match) — which keeps at least one row. All members
    of the group are therefore selected by the same rows (C06_getIndex_aligned). -/
theorem C16_groups_from_mask (ds : DsV) (maskOf : VecV → Res (List Bool)) (l : List (String × DgV)) :
    ∀ (acc r : DsV), l.foldlM (stepGroup ds maskOf) acc = .ok r →
      ∀ e' ∈ r, e' ∈ acc ∨ ∃ g pos m, (e'.1, g) ∈ l ∧ positionOf ds g = some (.vec pos) ∧
        pos.shape = g.shape ∧ maskOf pos = .ok m ∧ m.any id = true ∧ g.getIndex (.mask m) = .ok e'.2 := by
  induction l with
  | nil =>
    intro acc r h e' he'
    simp only [List.foldlM_nil, pure, Except.pure] at h
    cases h; exact Or.inl he'
  | cons x l ih =>
    intro acc r h e' he'
    simp only [List.foldlM_cons, bind, Except.bind] at h
    cases hs : stepGroup ds maskOf acc x with
    | error e => simp [hs] at h
    | ok acc' =>
      simp only [hs] at h
      rcases ih acc' r h e' he' with h1 | ⟨g, pos, m, hm, hp, hsh, hmk, hany, hg⟩
      · -- e' ∈ acc': either already in acc or inserted by this step
        unfold stepGroup at hs
        simp only [bind, Except.bind, pure, Except.pure] at hs
        cases hpos : positionOf ds x.2 with
        | none => simp only [hpos] at hs; cases hs; exact Or.inl h1
        | some p =>
          cases p with
          | arr a => simp only [hpos] at hs; cases hs
          | vec pos =>
            simp only [hpos] at hs
            split at hs
            · cases hs; exact Or.inl h1
            · rename_i hshape
              cases hmk : maskOf pos with
              | error e => simp [hmk] at hs
              | ok m =>
                simp only [hmk] at hs
                split at hs
                · rename_i hany
                  cases hg : x.2.getIndex (.mask m) with
                  | error e => simp [hg] at hs
                  | ok g' =>
                    simp only [hg] at hs
                    cases hs
                    rcases C06.mem_dictSet _ _ _ _ h1 with h2 | h2
                    · exact Or.inl h2
                    · refine Or.inr ⟨x.2, pos, m, ?_, hpos, ?_, hmk, hany, ?_⟩
                      · rw [h2]; simp
                      · simpa using hshape
                      · rw [h2]; exact hg
                · cases hs; exact Or.inl h1
      · exact Or.inr ⟨g, pos, m, by simp [hm], hp, hsh, hmk, hany, hg⟩

theorem C16_extract_sound (ds r : DsV) (maskOf : VecV → Res (List Bool)) (h : extract ds maskOf = .ok r) :
    ∀ e' ∈ r, ∃ g pos m, (e'.1, g) ∈ ds ∧ positionOf ds g = some (.vec pos) ∧
        pos.shape = g.shape ∧ maskOf pos = .ok m ∧ m.any id = true ∧ g.getIndex (.mask m) = .ok e'.2 := by
  intro e' he'
  rcases C16_groups_from_mask ds maskOf ds [] r (by rw [← extract_eq]; exact h) e' he' with h1 | h1
  · cases h1
  · exact h1

/-- **C16 (box membership)**: row i is kept iff for every existing component the centred
    position lies within half the size (closed on both sides), in the position's unit -/
theorem C16_box_component (t h : Rat) :
    (decide (t ≤ h) && decide (-h ≤ t)) = true ↔ (-h ≤ t ∧ t ≤ h) := by
  simp [and_comm]

/-- **C16 (sphere membership)** for positions with at least two components:
    kept iff the squared distance is below the squared (positive) radius -/
theorem C16_sphere_component (q R : Rat) :
    (decide (0 < R) && decide (q < R * R)) = true ↔ (0 < R ∧ q < R * R) := by
  simp

/-! ### the region test in physical terms (unit conversion between positions, origin and sizes) -/

theorem bshape_scalar (s : List Nat) : bshape s [] = some s := by
  unfold bshape
  cases h : s.reverse with
  | nil => simp [bshapeRev, List.reverse_eq_nil_iff.mp h]
  | cons x xs =>
    simp only [List.reverse_nil, bshapeRev, Option.map_some]
    rw [← h, List.reverse_reverse]

theorem bidx_scalar (out : List Nat) (i : Nat) (h : out ≠ []) : bidx out [] i = 0 := by
  unfold bidx
  have : (([] : List Nat) == out) = false := by
    cases out with
    | nil => exact absurd rfl h
    | cons x xs => rfl
  simp [this, ravel, ravelAux]

theorem bidx_self (out : List Nat) (i : Nat) : bidx out out i = i := by
  unfold bidx; simp

/-- **C16 (box test, one component, in physical terms)**: positions `p` (one row per cell, any unit of
    length), the origin component `o` (0-d, its own unit) and the box size `sz` (0-d, its own unit).
    The test the code evaluates on raw numbers — centre the positions on the origin converted to the
    positions' unit, convert the size to that unit, compare with half of it — keeps row `i` exactly
    when the *physical* offset lies within half the *physical* size. -/
theorem C16_box_row_phys (T : Tables) (p o sz sz' d : ArrV) (same : Bool) (n : Nat)
    (hp : p.shape = [n]) (ho : o.shape = [])
    (hk : T.keeps d.dtype = true)
    (hc1 : C02.Consistent o.unit p.unit) (hc2 : C02.Consistent sz.unit d.unit) (hf : 0 < p.unit.factor)
    (hd : ArrV.binaryOp T .sub p o = .ok d) (hs : sz.to d.unit = .ok (sz', same))
    (i : Nat) (hi : i < n) :
    (decide (getR d.data i ≤ getR sz'.data 0 / 2) && decide (-(getR sz'.data 0 / 2) ≤ getR d.data i)) = true ↔
      |getR p.phys i - getR o.phys 0| ≤ getR sz.phys 0 / 2 := by
  obtain ⟨out, hout, hxs, hxu, hphys⟩ := C02.C02_add_sub T .sub (Or.inr rfl) p o d hk hc1 (ne_of_gt hf) hd
  rw [hp, ho, bshape_scalar] at hout
  cases hout
  have hfd : d.unit.factor = p.unit.factor := by rw [hxu]
  have hfd0 : d.unit.factor ≠ 0 := by rw [hfd]; exact ne_of_gt hf
  -- physical offset of row i
  have hsz1 : shapeSize [n] = n := by simp [shapeSize]
  have hrow : getR d.phys i = getR p.phys i - getR o.phys 0 := by
    have := congrArg (fun l => getR l i) hphys
    simp only [hp, ho] at this
    rw [this]
    unfold bmap2 getR
    simp [List.getD_eq_getElem?_getD, hsz1, hi, bidx_self, bidx_scalar [n] i (by simp), BinOp.fn]
  have hdphys : getR d.phys i = getR d.data i * d.unit.factor := by
    unfold ArrV.phys getR
    simp only [List.getD_eq_getElem?_getD, List.getElem?_map]
    cases d.data[i]? <;> simp
  -- the converted size
  obtain ⟨_, hdata, _, _, _⟩ := C02.to_spec sz sz' d.unit same hc2 hfd0 hs
  have hh : getR sz'.data 0 * d.unit.factor = getR sz.phys 0 := by
    rw [hdata]
    unfold ArrV.phys getR U.ratio
    simp only [List.getD_eq_getElem?_getD, List.getElem?_map]
    cases sz.data[0]? with
    | none => simp
    | some v => simp; field_simp
  have hfpos : 0 < d.unit.factor := by rw [hfd]; exact hf
  rw [← hrow, hdphys, ← hh, abs_le]
  simp only [Bool.and_eq_true, decide_eq_true_eq]
  constructor
  · rintro ⟨h1, h2⟩
    constructor
    · have := mul_le_mul_of_nonneg_right h2 (le_of_lt hfpos); linarith
    · have := mul_le_mul_of_nonneg_right h1 (le_of_lt hfpos); linarith
  · rintro ⟨h1, h2⟩
    constructor
    · by_contra hc
      rw [not_le] at hc
      have := mul_lt_mul_of_pos_right hc hfpos; linarith
    · by_contra hc
      rw [not_le] at hc
      have := mul_lt_mul_of_pos_right hc hfpos; linarith

/-- **C16 (sphere test in physical terms)**, positions with at least two components: `d` is the centred
    position Vector (components in one unit of factor `f > 0`), `rad` the radius in its own unit. The test
    the code evaluates — radius converted to the unit of the distances, squared distance below the squared
    radius — keeps row `i` exactly when the *physical* distance is below the (positive) *physical* radius. -/
theorem C16_sphere_row_phys (d : VecV) (x y : ArrV) (rest : List ArrV) (rad rad' : ArrV) (same : Bool) (f : Rat)
    (hv : d.comps = x :: y :: rest) (hf : 0 < f) (hunits : ∀ c ∈ d.comps, c.unit.factor = f)
    (hc : C02.Consistent rad.unit d.unit) (hs : rad.to d.unit = .ok (rad', same))
    (i : Nat) (hlen : ∀ c ∈ d.comps, i < c.data.length) :
    (decide (0 < getR rad'.data 0) && decide (getR d.normSq i < getR rad'.data 0 * getR rad'.data 0)) = true ↔
      (0 < getR rad.phys 0 ∧
        (d.comps.map fun c => getR c.phys i * getR c.phys i).sum < getR rad.phys 0 * getR rad.phys 0) := by
  have hdu : d.unit.factor = f := by
    unfold VecV.unit; rw [hv]; simp only [List.headD_cons]; exact hunits x (by rw [hv]; simp)
  have hf0 : d.unit.factor ≠ 0 := by rw [hdu]; exact ne_of_gt hf
  obtain ⟨_, hdata, _, _, _⟩ := C02.to_spec rad rad' d.unit same hc hf0 hs
  have hR : getR rad'.data 0 * f = getR rad.phys 0 := by
    rw [hdata, phys_get]
    unfold getR U.ratio
    simp only [List.getD_eq_getElem?_getD, List.getElem?_map]
    rw [hdu]
    cases rad.data[0]? with
    | none => simp
    | some v => simp; field_simp
  have hsum : (d.comps.map fun c => getR c.phys i * getR c.phys i).sum = getR d.normSq i * (f * f) := by
    rw [normSq_get d x (y :: rest) hv i hlen]
    have : ∀ cs : List ArrV, (∀ c ∈ cs, c.unit.factor = f) →
        (cs.map fun c => getR c.phys i * getR c.phys i).sum = (cs.map fun c => getR c.data i * getR c.data i).sum * (f * f) := by
      intro cs
      induction cs with
      | nil => intro _; simp
      | cons c cs ih =>
        intro h
        simp only [List.map_cons, List.sum_cons]
        rw [ih (fun c' hc' => h c' (by simp [hc'])), phys_get, h c (by simp)]; ring
    exact this d.comps hunits
  rw [hsum, ← hR]
  simp only [Bool.and_eq_true, decide_eq_true_eq]
  have hff : 0 < f * f := mul_pos hf hf
  constructor
  · rintro ⟨h1, h2⟩
    refine ⟨mul_pos h1 hf, ?_⟩
    have := mul_lt_mul_of_pos_right h2 hff
    nlinarith [this]
  · rintro ⟨h1, h2⟩
    refine ⟨?_, ?_⟩
    · by_contra hc'
      rw [not_lt] at hc'
      have := mul_nonpos_of_nonpos_of_nonneg hc' (le_of_lt hf); linarith
    · by_contra hc'
      rw [not_lt] at hc'
      have := mul_le_mul_of_nonneg_right hc' (le_of_lt hff)
      nlinarith [this]

/-! ### the box mask over all components -/

/-- `&` of the per-component masks, as `extract_box` accumulates it: row `i` of the result is the conjunction of row `i` of
    every component's mask (all masks of one length) -/
theorem foldl_and_getD : ∀ (rest : List (List Bool)) (m : List Bool) (i : Nat),
    (∀ m' ∈ rest, m'.length = m.length) →
    (rest.foldl (fun acc m' => List.zipWith (· && ·) acc m') m).getD i false =
      (m.getD i false && rest.all (fun m' => m'.getD i false)) := by
  intro rest
  induction rest with
  | nil => intro m i _; simp
  | cons r rs ih =>
    intro m i hlen
    rw [List.foldl_cons, ih]
    · have hr : r.length = m.length := hlen r (by simp)
      have hz : (List.zipWith (· && ·) m r).getD i false = (m.getD i false && r.getD i false) := by
        simp only [List.getD_eq_getElem?_getD, List.getElem?_zipWith]
        cases hm : m[i]? with
        | none =>
          have : r[i]? = none := by
            rw [List.getElem?_eq_none_iff] at hm ⊢; omega
          simp [this]
        | some a =>
          cases hr' : r[i]? with
          | none =>
            have : m[i]? = none := by
              rw [List.getElem?_eq_none_iff] at hr' ⊢; omega
            rw [this] at hm; cases hm
          | some b => simp
      rw [hz]
      simp [Bool.and_assoc]
    · intro m' hm'
      rw [List.length_zipWith, hlen r (by simp), Nat.min_self]
      exact hlen m' (by simp [hm'])

open Osyris.Subdomain in
theorem mapM_spec {α β : Type} (f : α → Res β) : ∀ (l : List α) (out : List β), l.mapM f = .ok out →
    out.length = l.length ∧ ∀ k (hk : k < l.length), ∃ b, f (l[k]) = .ok b ∧ out[k]? = some b := by
  intro l
  induction l with
  | nil => intro out h; simp [List.mapM_nil, pure, Except.pure] at h; subst h; simp
  | cons a as ih =>
    intro out h
    rw [List.mapM_cons] at h
    cases ha : f a with
    | error e => rw [ha] at h; simp [bind, Except.bind] at h
    | ok b =>
      rw [ha] at h
      cases hr : as.mapM f with
      | error e => rw [hr] at h; simp [bind, Except.bind] at h
      | ok rest =>
        rw [hr] at h
        simp only [bind, Except.bind, pure, Except.pure, Except.ok.injEq] at h
        subst h
        obtain ⟨hl, hk⟩ := ih rest hr
        refine ⟨by simp [hl], ?_⟩
        intro k hk'
        cases k with
        | zero => exact ⟨b, by simpa using ha, by simp⟩
        | succ k =>
          obtain ⟨b', h1, h2⟩ := hk k (by simpa using hk')
          exact ⟨b', by simpa using h1, by simpa using h2⟩

open Osyris.Subdomain in
/-- **C16 (box mask, all components)**: whenever `extract_box` computes a mask, it is the row-wise conjunction of the
    one-component masks (`compMask`: offset within half the size given for that axis, in the component's unit — the test
    `C16_box_row_phys` reads in physical terms), one per existing component of the centred positions -/
theorem C16_box_mask_rows (T : Tables) (pos origin : VecV) (sizes : List ArrV) (m : List Bool)
    (h : boxMask T pos origin sizes = .ok m) :
    ∃ (d : VecV) (per : List (List Bool)), pos.binaryOp T .sub (.vec origin) = .ok d ∧
      (List.zip d.comps sizes).mapM compMask = .ok per ∧ per ≠ [] ∧
      ((∀ q ∈ per, ∀ q' ∈ per, q.length = q'.length) → ∀ i, m.getD i false = per.all (fun q => q.getD i false)) := by
  unfold boxMask at h
  cases hd : pos.binaryOp T .sub (.vec origin) with
  | error e => simp [hd, bind, Except.bind] at h
  | ok d =>
    cases hp : (List.zip d.comps sizes).mapM compMask with
    | error e => simp [hd, hp, bind, Except.bind] at h
    | ok per =>
      simp only [hd, hp, bind, Except.bind] at h
      cases per with
      | nil => simp at h
      | cons q rest =>
        simp only [pure, Except.pure, Except.ok.injEq] at h
        subst h
        refine ⟨d, q :: rest, rfl, hp, by simp, ?_⟩
        intro hlen i
        rw [foldl_and_getD rest q i (fun m' hm' => hlen m' (by simp [hm']) q (by simp))]
        simp

end Osyris.C16
