/-
C16  Sub-domain extraction returns exactly the rows inside the region.
-/
import OsyrisModel
import OsyrisProofs.C06

namespace Osyris.C16
open Osyris Osyris.Subdomain

/-- the body of the extraction loop for one group -/
def stepGroup (ds : DsV) (maskOf : VecV → Res (List Bool)) (acc : DsV) (e : String × DgV) : Res DsV := do
  match positionOf ds e.2 with
  | none => pure acc
  | some (.arr _) => .error .typeErr
  | some (.vec pos) =>
    if pos.shape != e.2.shape then pure acc
    else do
      let m ← maskOf pos
      if m.any id then do
        let g' ← e.2.getIndex (.mask m)
        pure (dictSet acc e.1 g')
      else pure acc

theorem extract_eq (ds : DsV) (maskOf : VecV → Res (List Bool)) :
    extract ds maskOf = ds.foldlM (stepGroup ds maskOf) [] := rfl

/-- **C16 (rows and alignment)**: every group of the result is the source group of the same
    name indexed by *one* boolean mask — the mask computed from that group's positions (its
    own, or the mesh positions when shapes match) — which keeps at least one row. All members
    of the group are therefore selected by the same rows (C06_getIndex_aligned). -/
theorem C16_groups_from_mask (ds : DsV) (maskOf : VecV → Res (List Bool)) (l : List (String × DgV)) :
    ∀ (acc r : DsV), l.foldlM (stepGroup ds maskOf) acc = .ok r →
      ∀ e' ∈ r, e' ∈ acc ∨ ∃ g pos m, (e'.1, g) ∈ l ∧ positionOf ds g = some (.vec pos) ∧
        pos.shape = g.shape ∧ maskOf pos = .ok m ∧ m.any id = true ∧ g.getIndex (.mask m) = .ok e'.2 := by
  induction l with
  | nil =>
    intro acc r h e' he'
    simp only [List.foldlM_nil, pure, Except.pure] at h
    cases h; exact Or.inl he'
  | cons x l ih =>
    intro acc r h e' he'
    simp only [List.foldlM_cons, bind, Except.bind] at h
    cases hs : stepGroup ds maskOf acc x with
    | error e => simp [hs] at h
    | ok acc' =>
      simp only [hs] at h
      rcases ih acc' r h e' he' with h1 | ⟨g, pos, m, hm, hp, hsh, hmk, hany, hg⟩
      · -- e' ∈ acc': either already in acc or inserted by this step
        unfold stepGroup at hs
        simp only [bind, Except.bind, pure, Except.pure] at hs
        cases hpos : positionOf ds x.2 with
        | none => simp only [hpos] at hs; cases hs; exact Or.inl h1
        | some p =>
          cases p with
          | arr a => simp only [hpos] at hs; cases hs
          | vec pos =>
            simp only [hpos] at hs
            split at hs
            · cases hs; exact Or.inl h1
            · rename_i hshape
              cases hmk : maskOf pos with
              | error e => simp [hmk] at hs
              | ok m =>
                simp only [hmk] at hs
                split at hs
                · rename_i hany
                  cases hg : x.2.getIndex (.mask m) with
                  | error e => simp [hg] at hs
                  | ok g' =>
                    simp only [hg] at hs
                    cases hs
                    rcases C06.mem_dictSet _ _ _ _ h1 with h2 | h2
                    · exact Or.inl h2
                    · refine Or.inr ⟨x.2, pos, m, ?_, hpos, ?_, hmk, hany, ?_⟩
                      · rw [h2]; simp
                      · simpa using hshape
                      · rw [h2]; exact hg
                · cases hs; exact Or.inl h1
      · exact Or.inr ⟨g, pos, m, by simp [hm], hp, hsh, hmk, hany, hg⟩

theorem C16_extract_sound (ds r : DsV) (maskOf : VecV → Res (List Bool)) (h : extract ds maskOf = .ok r) :
    ∀ e' ∈ r, ∃ g pos m, (e'.1, g) ∈ ds ∧ positionOf ds g = some (.vec pos) ∧
        pos.shape = g.shape ∧ maskOf pos = .ok m ∧ m.any id = true ∧ g.getIndex (.mask m) = .ok e'.2 := by
  intro e' he'
  rcases C16_groups_from_mask ds maskOf ds [] r (by rw [← extract_eq]; exact h) e' he' with h1 | h1
  · cases h1
  · exact h1

/-- **C16 (box membership)**: row i is kept iff for every existing component the centred
    position lies within half the size (closed on both sides), in the position's unit -/
theorem C16_box_component (t h : Rat) :
    (decide (t ≤ h) && decide (-h ≤ t)) = true ↔ (-h ≤ t ∧ t ≤ h) := by
  simp [and_comm]

/-- **C16 (sphere membership)** for positions with at least two components:
    kept iff the squared distance is below the squared (positive) radius -/
theorem C16_sphere_component (q R : Rat) :
    (decide (0 < R) && decide (q < R * R)) = true ↔ (0 < R ∧ q < R * R) := by
  simp

end Osyris.C16
