import OsyrisModel
namespace Osyris.C17
theorem placeholder : True := trivial
end Osyris.C17
