/-
C17  In-place updates, copies and views follow a fixed aliasing contract.
Theorems about the pure store layer of Machine.lean (buffers, views, object ids).
-/
import OsyrisModel
import OsyrisProofs.C02

namespace Osyris.C17
open Osyris

/-! ### buffer lemmas -/

theorem getR_set (buf : List Rat) (i j : Nat) (x : Rat) (hi : i < buf.length) :
    getR (buf.set i x) j = if j = i then x else getR buf j := by
  unfold getR
  by_cases h : j = i
  · subst h; simp [List.getD_eq_getElem?_getD, hi]
  · simp [List.getD_eq_getElem?_getD, List.getElem?_set, h, Ne.symm h]

theorem scatter_length (is : List Nat) : ∀ (buf xs : List Rat), (scatter buf is xs).length = buf.length := by
  induction is with
  | nil => intro buf xs; simp [scatter]
  | cons i is ih =>
    intro buf xs
    cases xs with
    | nil => simp [scatter]
    | cons x xs => simp [scatter, ih]

/-- positions that are not written keep their value -/
theorem scatter_frame (is : List Nat) : ∀ (buf xs : List Rat) (j : Nat), j ∉ is →
    (∀ i ∈ is, i < buf.length) → getR (scatter buf is xs) j = getR buf j := by
  induction is with
  | nil => intro buf xs j _ _; simp [scatter]
  | cons i is ih =>
    intro buf xs j hj hr
    cases xs with
    | nil => simp [scatter]
    | cons x xs =>
      simp only [scatter]
      have hji : j ≠ i := fun h => hj (by simp [h])
      rw [ih (buf.set i x) xs j (fun h => hj (by simp [h])) (fun k hk => by simpa using hr k (by simp [hk]))]
      rw [getR_set buf i j x (hr i (by simp))]
      simp [hji]

/-- written positions hold the written values (distinct positions) -/
theorem scatter_read (is : List Nat) : ∀ (buf xs : List Rat), is.Nodup → xs.length = is.length →
    (∀ i ∈ is, i < buf.length) → is.map (getR (scatter buf is xs)) = xs := by
  induction is with
  | nil => intro buf xs _ hl _; cases xs with
    | nil => rfl
    | cons x xs => simp at hl
  | cons i is ih =>
    intro buf xs hnd hl hr
    cases xs with
    | nil => simp at hl
    | cons x xs =>
      simp only [scatter, List.map_cons]
      have hnd' := List.nodup_cons.mp hnd
      have hr' : ∀ k ∈ is, k < (buf.set i x).length := fun k hk => by simpa using hr k (by simp [hk])
      rw [ih (buf.set i x) xs hnd'.2 (by simpa using hl) hr']
      rw [scatter_frame is (buf.set i x) xs i hnd'.1 hr']
      rw [getR_set buf i i x (hr i (by simp))]
      simp

/-! ### store lemmas -/

/-- well-formed view: distinct positions inside the buffer -/
def ViewOK (s : Store) (a : ArrO) : Prop :=
  a.idx.Nodup ∧ ∃ b, s.bufs[a.buf]? = some b ∧ ∀ i ∈ a.idx, i < b.data.length

/-- the view has as many positions as the shape has elements -/
def ShapeOK (a : ArrO) : Prop := a.idx.length = shapeSize a.shape

/-- **in-place value and unit**: after writing through an Array's view, that *same object*
    reads the written values and carries the new unit -/
theorem read_after_write (s s' : Store) (id : Nat) (a : ArrO) (d : List Rat) (u : U)
    (ha : s.arrO? id = some a) (hv : ViewOK s a) (hl : d.length = a.idx.length)
    (hw : s.writeArr? id d u = some s') :
    ∃ dt, s'.readArr? id = some { shape := a.shape, dtype := dt, data := d, unit := u, name := a.name } := by
  obtain ⟨hnd, b, hb, hr⟩ := hv
  unfold Store.writeArr? at hw
  simp only [ha, hb] at hw
  cases hw
  have hid : id < s.objs.length := by
    unfold Store.arrO? at ha
    cases h : s.objs[id]? with
    | none => simp [h] at ha
    | some o => exact (List.getElem?_eq_some_iff.mp h).1
  have hbuf : a.buf < s.bufs.length := (List.getElem?_eq_some_iff.mp hb).1
  refine ⟨b.dtype, ?_⟩
  unfold Store.readArr? Store.arrO?
  simp only [List.getElem?_set_self hid, List.getElem?_set_self hbuf]
  simp only [scatter_read a.idx b.data d hnd hl hr]

/-- **frame**: an Array living on another buffer is not affected -/
theorem write_frame (s s' : Store) (id id' : Nat) (a a' : ArrO) (d : List Rat) (u : U)
    (ha : s.arrO? id = some a) (ha' : s.arrO? id' = some a') (hne : id' ≠ id) (hbuf : a'.buf ≠ a.buf)
    (hw : s.writeArr? id d u = some s') : s'.readArr? id' = s.readArr? id' := by
  unfold Store.writeArr? at hw
  simp only [ha] at hw
  cases hb : s.bufs[a.buf]? with
  | none => simp [hb] at hw
  | some b =>
    simp only [hb] at hw
    cases hw
    have ha'' : s.objs[id']? = some (.arr a') := by
      unfold Store.arrO? at ha'
      cases h : s.objs[id']? with
      | none => simp [h] at ha'
      | some o => cases o <;> simp_all
    unfold Store.readArr? Store.arrO?
    simp only [List.getElem?_set_ne (Ne.symm hne), ha'', List.getElem?_set_ne (Ne.symm hbuf)]

/-- **visibility through aliases**: another Array object with the same view of the same
    buffer (a component alias, the same data held by another object) reads the new values;
    its own unit label is unchanged -/
theorem write_alias (s s' : Store) (id id' : Nat) (a a' : ArrO) (d : List Rat) (u : U)
    (ha : s.arrO? id = some a) (ha' : s.arrO? id' = some a') (hne : id' ≠ id)
    (hsame : a'.buf = a.buf ∧ a'.idx = a.idx)
    (hv : ViewOK s a) (hl : d.length = a.idx.length)
    (hw : s.writeArr? id d u = some s') :
    ∃ dt, s'.readArr? id' = some { shape := a'.shape, dtype := dt, data := d, unit := a'.unit, name := a'.name } := by
  obtain ⟨hnd, b, hb, hr⟩ := hv
  unfold Store.writeArr? at hw
  simp only [ha, hb] at hw
  cases hw
  have ha'' : s.objs[id']? = some (.arr a') := by
    unfold Store.arrO? at ha'
    cases h : s.objs[id']? with
    | none => simp [h] at ha'
    | some o => cases o <;> simp_all
  have hbuf : a.buf < s.bufs.length := (List.getElem?_eq_some_iff.mp hb).1
  refine ⟨b.dtype, ?_⟩
  unfold Store.readArr? Store.arrO?
  simp only [List.getElem?_set_ne (Ne.symm hne), ha'', hsame.1, hsame.2, List.getElem?_set_self hbuf]
  simp only [scatter_read a.idx b.data d hnd hl hr]

/-- **C17 (slices are views of the same data)**: after writing `d` through the view of one Array,
    *any* other Array object on the same buffer — a slice, a strided or reversed slice, a column, an
    overlapping slice — reads, position by position, the written value where its view meets the
    written view and the old value elsewhere; its shape, name and unit label are unchanged. -/
theorem C17_view_sees_write (s s' : Store) (id id' : Nat) (a a' : ArrO) (d : List Rat) (u : U)
    (ha : s.arrO? id = some a) (ha' : s.arrO? id' = some a') (hne : id' ≠ id) (hbuf : a'.buf = a.buf)
    (hv : ViewOK s a) (hl : d.length = a.idx.length)
    (hw : s.writeArr? id d u = some s') :
    ∃ old new, s.readArr? id' = some old ∧ s'.readArr? id' = some new ∧
      new.shape = old.shape ∧ new.name = old.name ∧ new.unit = old.unit ∧
      new.data.length = a'.idx.length ∧ old.data.length = a'.idx.length ∧
      ∀ j (hj : j < a'.idx.length),
        (∀ k (hk : k < a.idx.length), a'.idx[j] = a.idx[k] → getR new.data j = getR d k) ∧
        (a'.idx[j] ∉ a.idx → getR new.data j = getR old.data j) := by
  obtain ⟨hnd, b, hb, hr⟩ := hv
  unfold Store.writeArr? at hw
  simp only [ha, hb] at hw
  cases hw
  have ha'' : s.objs[id']? = some (.arr a') := by
    unfold Store.arrO? at ha'
    cases h : s.objs[id']? with
    | none => simp [h] at ha'
    | some o => cases o <;> simp_all
  have hbl : a.buf < s.bufs.length := (List.getElem?_eq_some_iff.mp hb).1
  have hb' : s.bufs[a'.buf]? = some b := by rw [hbuf]; exact hb
  refine ⟨{ shape := a'.shape, dtype := b.dtype, data := a'.idx.map (getR b.data), unit := a'.unit, name := a'.name },
          { shape := a'.shape, dtype := b.dtype, data := a'.idx.map (getR (scatter b.data a.idx d)), unit := a'.unit, name := a'.name },
          ?_, ?_, rfl, rfl, rfl, by simp, by simp, ?_⟩
  · unfold Store.readArr? Store.arrO?
    simp only [ha'', hb']
  · unfold Store.readArr? Store.arrO?
    simp only [List.getElem?_set_ne (Ne.symm hne), ha'', hbuf, List.getElem?_set_self hbl]
  · intro j hj
    have hget : ∀ (f : Nat → Rat), getR (a'.idx.map f) j = f a'.idx[j] := by
      intro f
      unfold getR
      simp [List.getD_eq_getElem?_getD, hj]
    constructor
    · intro k hk hjk
      simp only [hget]
      rw [hjk]
      have hmap := scatter_read a.idx b.data d hnd hl hr
      have h1 : (a.idx.map (getR (scatter b.data a.idx d)))[k]? = d[k]? := by rw [hmap]
      simp only [List.getElem?_map] at h1
      have hkd : k < d.length := by omega
      simp only [List.getElem?_eq_getElem hk, List.getElem?_eq_getElem hkd, Option.map_some, Option.some.injEq] at h1
      rw [h1]
      unfold getR
      simp [List.getD_eq_getElem?_getD, hkd]
    · intro hnot
      simp only [hget]
      exact scatter_frame a.idx b.data d _ hnot hr

/-- store invariant: every Array object points at an existing buffer -/
def StoreOK (s : Store) : Prop := ∀ id a, s.arrO? id = some a → a.buf < s.bufs.length

/-- **copies are fresh**: the copy reads the copied value, lives on a new buffer, and every
    existing object reads as before -/
theorem alloc_fresh (s : Store) (v : ArrV) (hok : StoreOK s) :
    let r := s.allocArr v
    r.2 = s.objs.length ∧
    r.1.readArr? r.2 = some { shape := v.shape, dtype := v.dtype, data := v.data, unit := v.unit, name := v.name } ∧
    (∀ id, id < s.objs.length → r.1.readArr? id = s.readArr? id) ∧
    (∀ a, r.1.arrO? r.2 = some a → a.buf = s.bufs.length) := by
  refine ⟨rfl, ?_, ?_, ?_⟩
  · simp only [Store.allocArr, Store.readArr?, Store.arrO?]
    simp only [List.getElem?_append_right (Nat.le_refl _), Nat.sub_self, List.getElem?_cons_zero]
    have : (List.range v.data.length).map (getR v.data) = v.data := by
      apply List.ext_getElem
      · simp
      · intro i h1 h2
        simp [getR, List.getD_eq_getElem?_getD]
        have : i < v.data.length := by simpa using h1
        simp [this]
    simp [this]
  · intro id hid
    simp only [Store.allocArr, Store.readArr?, Store.arrO?]
    rw [List.getElem?_append_left hid]
    cases ho : s.objs[id]? with
    | none => rfl
    | some o =>
      cases o with
      | arr a =>
        have : a.buf < s.bufs.length := hok id a (by simp [Store.arrO?, ho])
        simp only [List.getElem?_append_left this]
      | vec _ => rfl
      | dg _ => rfl
      | ds _ => rfl
  · intro a ha
    simp only [Store.allocArr, Store.arrO?] at ha
    simp only [List.getElem?_append_right (Nat.le_refl _), Nat.sub_self, List.getElem?_cons_zero] at ha
    cases ha; rfl


theorem binaryOp_applyBin (T : Tables) (op : BinOp) (l r x : ArrV) (h : ArrV.binaryOp T op l r = .ok x) :
    ∃ r', ArrV.applyBin T op l r' = .ok x := by
  unfold ArrV.binaryOp at h
  by_cases hst : op.strict = true
  · simp only [hst, if_true, bind, Except.bind] at h
    cases hto : r.to l.unit with
    | error e => simp [hto] at h
    | ok p =>
      simp only [hto, pure, Except.pure] at h
      exact ⟨p.1, h⟩
  · simp only [hst, Bool.false_eq_true, if_false, bind, Except.bind] at h
    cases hto : r.to l.unit with
    | error e =>
      obtain ⟨he, _⟩ := C02.to_err r l.unit e hto
      subst he
      simp only [hto, pure, Except.pure] at h
      exact ⟨r, h⟩
    | ok p =>
      simp only [hto, pure, Except.pure] at h
      exact ⟨p.1, h⟩

theorem read_of_arrO (s : Store) (id : Nat) (a : ArrO) (lhs : ArrV) (ha : s.arrO? id = some a)
    (hl : s.readArr? id = some lhs) :
    lhs.shape = a.shape ∧ lhs.data.length = a.idx.length ∧ lhs.name = a.name ∧ lhs.unit = a.unit := by
  unfold Store.readArr? at hl
  simp only [ha] at hl
  cases hb : s.bufs[a.buf]? with
  | none => simp [hb] at hl
  | some b => simp only [hb] at hl; cases hl; simp

/-- **C17 (in-place operator)**: when `x op= y` succeeds, `x op y` is defined with a result
    of x's shape, the *same object* x then reads exactly the values of `x op y` (name and
    shape unchanged); `y` is a value and cannot change. -/
theorem C17_iop (T : Tables) (op : BinOp) (s s' : Store) (id : Nat) (a : ArrO) (rhs : ArrV)
    (ha : s.arrO? id = some a) (hv : ViewOK s a) (hsh : ShapeOK a)
    (h : Store.arrInplace T op s id rhs = .ok s') :
    ∃ lhs r, s.readArr? id = some lhs ∧ ArrV.binaryOp T op lhs rhs = .ok r ∧
      ∃ x, s'.readArr? id = some x ∧ x.data = r.data ∧ x.shape = lhs.shape ∧ x.name = lhs.name := by
  unfold Store.arrInplace at h
  cases hl : s.readArr? id with
  | none => simp [hl] at h
  | some lhs =>
    simp only [hl] at h
    cases hr : ArrV.binaryOp T op lhs rhs with
    | error e => simp [hr] at h
    | ok r =>
      simp only [hr] at h
      split at h
      · cases h
      · rename_i hshape
        split at h
        · cases h
        · split at h
          · rename_i s1 hw
            cases h
            obtain ⟨hls, _, hln, _⟩ := read_of_arrO s id a lhs ha hl
            have hrs : r.shape = lhs.shape := by simpa using hshape
            obtain ⟨r', hap⟩ := binaryOp_applyBin T op lhs rhs r hr
            obtain ⟨out, _, hxs, _, hxd, _⟩ := C02.applyBin_spec T op lhs r' r hap
            have hrlen : r.data.length = a.idx.length := by
              rw [hxd, bmap2_length, ← hxs, hrs, hls, hsh]
            obtain ⟨dt, hread⟩ := read_after_write s s' id a r.data _ ha hv hrlen hw
            exact ⟨lhs, r, rfl, hr, _, hread, rfl, hls.symm, hln.symm⟩
          · cases h

/-- **C17 (an Array updated in place remains the same object; others untouched)**:
    the in-place operator changes no object id, and Arrays on other buffers read as before -/
theorem C17_iop_frame (T : Tables) (op : BinOp) (s s' : Store) (id id' : Nat) (a a' : ArrO) (rhs : ArrV)
    (ha : s.arrO? id = some a) (ha' : s.arrO? id' = some a') (hne : id' ≠ id) (hbuf : a'.buf ≠ a.buf)
    (h : Store.arrInplace T op s id rhs = .ok s') :
    s'.readArr? id' = s.readArr? id' ∧ s'.objs.length = s.objs.length := by
  unfold Store.arrInplace at h
  cases hl : s.readArr? id with
  | none => simp [hl] at h
  | some lhs =>
    simp only [hl] at h
    cases hr : ArrV.binaryOp T op lhs rhs with
    | error e => simp [hr] at h
    | ok r =>
      simp only [hr] at h
      split at h
      · cases h
      · split at h
        · cases h
        · split at h
          · rename_i s1 hw
            cases h
            refine ⟨write_frame s s' id id' a a' _ _ ha ha' hne hbuf hw, ?_⟩
            unfold Store.writeArr? at hw
            simp only [ha] at hw
            cases hb : s.bufs[a.buf]? with
            | none => simp [hb] at hw
            | some b => simp only [hb] at hw; cases hw; simp
          · cases h

/-- **C17 (copy independence)**: after `c = a.copy()`, an in-place update of `a` does not
    change what `c` reads, and an update of `c` does not change what `a` reads. -/
theorem C17_copy_independent (T : Tables) (op : BinOp) (s : Store) (hok : StoreOK s) (aid : Nat)
    (a : ArrO) (v rhs : ArrV) (ha : s.arrO? aid = some a) :
    let s1 := (s.allocArr v).1
    let cid := (s.allocArr v).2
    (∀ s2, Store.arrInplace T op s1 aid rhs = .ok s2 → s2.readArr? cid = s1.readArr? cid) ∧
    (∀ s2, Store.arrInplace T op s1 cid rhs = .ok s2 → s2.readArr? aid = s1.readArr? aid) := by
  intro s1 cid
  have hfresh := alloc_fresh s v hok
  have haid : aid < s.objs.length := by
    unfold Store.arrO? at ha
    cases h : s.objs[aid]? with
    | none => simp [h] at ha
    | some o => exact (List.getElem?_eq_some_iff.mp h).1
  have ha1 : s1.arrO? aid = some a := by
    show (s.allocArr v).1.arrO? aid = some a
    simp only [Store.allocArr, Store.arrO?]
    rw [List.getElem?_append_left haid]
    exact ha
  have hc : ∃ c, s1.arrO? cid = some c ∧ c.buf = s.bufs.length := by
    refine ⟨{ buf := s.bufs.length, idx := List.range v.data.length, shape := v.shape, unit := v.unit, name := v.name }, ?_, rfl⟩
    show (s.allocArr v).1.arrO? (s.allocArr v).2 = _
    simp only [Store.allocArr, Store.arrO?]
    simp only [List.getElem?_append_right (Nat.le_refl _), Nat.sub_self, List.getElem?_cons_zero]
  obtain ⟨c, hc1, hcb⟩ := hc
  have habuf : a.buf < s.bufs.length := hok aid a ha
  have hne : cid ≠ aid := by
    show (s.allocArr v).2 ≠ aid
    simp only [Store.allocArr]; omega
  constructor
  · intro s2 h2
    exact (C17_iop_frame T op s1 s2 aid cid a c rhs ha1 hc1 hne (by omega) h2).1
  · intro s2 h2
    exact (C17_iop_frame T op s1 s2 cid aid c a rhs hc1 ha1 (Ne.symm hne) (by omega) h2).1

/-- the premises `ViewOK` / `ShapeOK` of the theorems above are met by every freshly allocated Array whose data
    fill its shape (constructor, copy, result of an operator): reachable states are not excluded -/
theorem alloc_viewOK (s : Store) (v : ArrV) (hlen : v.data.length = shapeSize v.shape) :
    ∃ a, (s.allocArr v).1.arrO? (s.allocArr v).2 = some a ∧ ViewOK (s.allocArr v).1 a ∧ ShapeOK a := by
  refine ⟨{ buf := s.bufs.length, idx := List.range v.data.length, shape := v.shape, unit := v.unit, name := v.name }, ?_, ?_, ?_⟩
  · simp only [Store.allocArr, Store.arrO?]
    simp only [List.getElem?_append_right (Nat.le_refl _), Nat.sub_self, List.getElem?_cons_zero]
  · refine ⟨List.nodup_range, { dtype := v.dtype, data := v.data }, ?_, ?_⟩
    · simp only [Store.allocArr]
      simp only [List.getElem?_append_right (Nat.le_refl _), Nat.sub_self, List.getElem?_cons_zero]
    · intro i hi; simpa using hi
  · simp [ShapeOK, hlen]

end Osyris.C17
