/-
Laws of the insertion-ordered association list used for Datagroup / Dataset / meta:
it behaves as Python's `dict` (lookup after set/del, key order, no duplicate keys).
-/
import OsyrisModel.Datagroup
namespace Osyris
variable {β : Type}

theorem dictGet?_dictSet (d : List (String × β)) (k k' : String) (v : β) :
    dictGet? (dictSet d k v) k' = if k' = k then some v else dictGet? d k' := by
  unfold dictGet?
  induction d with
  | nil => simp [dictSet]; grind
  | cons e d ih => simp only [dictSet]; grind

theorem dictKeys_dictSet (d : List (String × β)) (k : String) (v : β) :
    dictKeys (dictSet d k v) = if k ∈ dictKeys d then dictKeys d else dictKeys d ++ [k] := by
  unfold dictKeys
  induction d with
  | nil => simp [dictSet]
  | cons e d ih => simp only [dictSet]; grind

theorem dictGet?_dictDel (d : List (String × β)) (k k' : String) :
    dictGet? (dictDel d k) k' = if k' = k then none else dictGet? d k' := by
  unfold dictDel dictGet?
  induction d with
  | nil => simp
  | cons e d ih => grind

theorem dictKeys_dictDel (d : List (String × β)) (k : String) :
    dictKeys (dictDel d k) = (dictKeys d).filter (· != k) := by
  unfold dictKeys dictDel
  induction d with
  | nil => simp
  | cons e d ih => grind

theorem dictGet?_eq_none_iff (d : List (String × β)) (k : String) :
    dictGet? d k = none ↔ k ∉ dictKeys d := by
  unfold dictGet? dictKeys
  induction d with
  | nil => simp
  | cons e d ih => grind

theorem mem_keys_iff_any {β : Type} (d : List (String × β)) (k : String) :
    d.any (·.1 == k) = true ↔ k ∈ dictKeys d := by
  unfold dictKeys
  induction d with
  | nil => simp
  | cons e d ih => grind

theorem nodup_dictSet (d : List (String × β)) (k : String) (v : β) (h : (dictKeys d).Nodup) :
    (dictKeys (dictSet d k v)).Nodup := by
  rw [dictKeys_dictSet]
  split
  · exact h
  · rename_i hk
    rw [List.nodup_append]
    refine ⟨h, by simp, ?_⟩
    intro a ha b hb
    simp at hb; subst hb
    intro hab; subst hab; exact hk ha

theorem nodup_dictDel (d : List (String × β)) (k : String) (h : (dictKeys d).Nodup) :
    (dictKeys (dictDel d k)).Nodup := by
  rw [dictKeys_dictDel]; exact h.filter _
end Osyris
