/-
Broadcasting: the flat index the model reads from an operand (`bidx`) lies inside the operand whenever the shapes broadcast
(`bshape`), so the totalised access `getR` of `bmap2` never falls back to its default.
-/
import OsyrisModel
import Mathlib.Tactic.Linarith
import Mathlib.Tactic.Ring
import Mathlib.Data.List.Forall2
namespace Osyris.Bcast
open Osyris

theorem foldl_mul (s : List Nat) : ∀ acc : Nat, s.foldl (· * ·) acc = acc * s.foldl (· * ·) 1 := by
  induction s with
  | nil => intro acc; simp
  | cons d s ih => intro acc; simp only [List.foldl_cons]; rw [ih (acc * d), ih (1 * d)]; ring

theorem shapeSize_cons (d : Nat) (s : List Nat) : shapeSize (d :: s) = d * shapeSize s := by
  unfold shapeSize; rw [List.foldl_cons, foldl_mul]; ring

theorem shapeSize_append (a b : List Nat) : shapeSize (a ++ b) = shapeSize a * shapeSize b := by
  induction a with
  | nil => simp [shapeSize]
  | cons d a ih => rw [List.cons_append, shapeSize_cons, shapeSize_cons, ih]; ring

theorem shapeSize_reverse (s : List Nat) : shapeSize s.reverse = shapeSize s := by
  induction s with
  | nil => rfl
  | cons d s ih => rw [List.reverse_cons, shapeSize_append, ih, shapeSize_cons, shapeSize_cons]; simp [shapeSize]; ring

theorem pos_of_shapeSize_pos : ∀ (s : List Nat), 0 < shapeSize s → ∀ d ∈ s, 0 < d := by
  intro s
  induction s with
  | nil => intro _ d hd; simp at hd
  | cons x s ih =>
    intro h d hd
    rw [shapeSize_cons] at h
    have hx : 0 < x := Nat.pos_of_mul_pos_right h |> fun _ => (Nat.pos_of_ne_zero (by rintro rfl; simp at h))
    have hs : 0 < shapeSize s := Nat.pos_of_ne_zero (by intro h0; rw [h0] at h; simp at h)
    rcases List.mem_cons.mp hd with rfl | hm
    · exact hx
    · exact ih hs d hm

/-- every entry of the multi-index is below its dimension (reversed orientation) -/
theorem unravelRev_lt : ∀ (rs : List Nat) (i : Nat), (∀ d ∈ rs, 0 < d) →
    List.Forall₂ (fun k d => k < d) (unravelRev rs i) rs := by
  intro rs
  induction rs with
  | nil => intro i _; exact List.Forall₂.nil
  | cons d rs ih =>
    intro i hpos
    have hd : 0 < d := hpos d (by simp)
    have hne : (d == 0) = false := by simpa using Nat.ne_of_gt hd
    simp only [unravelRev, hne, Bool.false_eq_true, if_false]
    exact List.Forall₂.cons (Nat.mod_lt _ hd) (ih _ (fun x hx => hpos x (by simp [hx])))

/-- mixed-radix bound: a multi-index below the dimensions ravels below the size -/
theorem ravelAux_lt : ∀ (s idx : List Nat), List.Forall₂ (fun k d => k < d) idx s →
    ∀ acc P : Nat, acc < P → ravelAux s idx acc < P * shapeSize s := by
  intro s idx h
  induction h with
  | nil => intro acc P hacc; simpa [ravelAux, shapeSize] using hacc
  | @cons k d ks ds hkd _ ih =>
    intro acc P hacc
    simp only [ravelAux]
    have := ih (acc * d + k) (P * d) (by nlinarith)
    rw [shapeSize_cons]
    calc ravelAux ds ks (acc * d + k) < P * d * shapeSize ds := this
      _ = P * (d * shapeSize ds) := by ring

theorem ravel_lt (s idx : List Nat) (h : List.Forall₂ (fun k d => k < d) idx s) : ravel s idx < shapeSize s := by
  have := ravelAux_lt s idx h 0 1 (by decide)
  simpa [ravel] using this

theorem unravel_lt (shape : List Nat) (i : Nat) (hi : i < shapeSize shape) :
    List.Forall₂ (fun k d => k < d) (unravel shape i) shape := by
  have hpos : ∀ d ∈ shape.reverse, 0 < d := by
    intro d hd
    exact pos_of_shapeSize_pos shape (by omega) d (List.mem_reverse.mp hd)
  have := unravelRev_lt shape.reverse i hpos
  unfold unravel
  rw [← List.forall₂_reverse_iff, List.reverse_reverse]
  exact this

/-- a broadcast operand reads index 0 along its axes of length 1 and the output's index elsewhere: still below its dimensions -/
theorem masked_lt : ∀ (s mi o : List Nat), List.Forall₂ (fun k d => k < d) mi o → List.Forall₂ (fun d o => d = 1 ∨ d = o) s o →
    List.Forall₂ (fun k d => k < d) (List.zipWith (fun d k => if d == 1 then 0 else k) s mi) s := by
  intro s mi o h1 h2
  induction h2 generalizing mi with
  | nil => cases h1; exact List.Forall₂.nil
  | @cons d o' ds os hd _ ih =>
    cases h1 with
    | @cons k _ ks _ hk hks =>
      simp only [List.zipWith_cons_cons]
      refine List.Forall₂.cons ?_ (ih ks hks)
      rcases hd with h | h
      · subst h; simp
      · subst h
        by_cases h1 : d = 1
        · subst h1; simp
        · have : (d == 1) = false := by simpa using h1
          simp only [this, Bool.false_eq_true, if_false]; exact hk

/-- an operand's shape is broadcast-compatible with the output shape: aligned to the right, every axis is 1 or the output's -/
def Compat (s out : List Nat) : Prop :=
  s.length ≤ out.length ∧ List.Forall₂ (fun d o => d = 1 ∨ d = o) s (out.drop (out.length - s.length))

theorem compat_size_self (out : List Nat) : Compat out out := by
  refine ⟨le_refl _, ?_⟩
  simp only [Nat.sub_self, List.drop_zero]
  induction out with
  | nil => exact List.Forall₂.nil
  | cons d ds ih => exact List.Forall₂.cons (Or.inr rfl) ih

/-- **the broadcasting index map stays inside the operand**: for every flat index of the broadcast result, the flat index
    read from an operand of a compatible shape is below the operand's size — `getR` never falls back to its default in
    `bmap2` -/
theorem bidx_lt (out s : List Nat) (i : Nat) (hc : Compat s out) (hi : i < shapeSize out) : bidx out s i < shapeSize s := by
  unfold bidx
  split
  · rename_i h
    have : s = out := by simpa using h
    rw [this]; exact hi
  · simp only
    apply ravel_lt
    apply masked_lt s _ (out.drop (out.length - s.length))
    · exact List.forall₂_drop _ (unravel_lt out i hi)
    · exact hc.2

theorem forall₂_self (l : List Nat) : List.Forall₂ (fun d o => d = 1 ∨ d = o) l l := by
  induction l with
  | nil => exact List.Forall₂.nil
  | cons d ds ih => exact List.Forall₂.cons (Or.inr rfl) ih

/-- numpy's broadcasting rule, in the reversed orientation the model computes it in -/
theorem bshapeRev_compat : ∀ (a b o : List Nat), bshapeRev a b = some o →
    (a.length ≤ o.length ∧ List.Forall₂ (fun d o => d = 1 ∨ d = o) a (o.take a.length)) ∧
    (b.length ≤ o.length ∧ List.Forall₂ (fun d o => d = 1 ∨ d = o) b (o.take b.length)) := by
  intro a
  induction a with
  | nil =>
    intro b o h
    simp only [bshapeRev, Option.some.injEq] at h
    subst h
    exact ⟨⟨Nat.zero_le _, by simp⟩, ⟨le_refl _, by simp⟩⟩
  | cons x a ih =>
    intro b o h
    cases b with
    | nil =>
      simp only [bshapeRev, Option.some.injEq] at h
      subst h
      exact ⟨⟨le_refl _, by simp⟩, ⟨Nat.zero_le _, by simp⟩⟩
    | cons y b =>
      simp only [bshapeRev] at h
      split at h
      · rename_i hxy
        cases hr : bshapeRev a b with
        | none => simp [hr] at h
        | some o' =>
          simp only [hr, Option.map_some, Option.some.injEq] at h
          subst h
          obtain ⟨⟨ha1, ha2⟩, ⟨hb1, hb2⟩⟩ := ih b o' hr
          refine ⟨⟨by simp; omega, ?_⟩, ⟨by simp; omega, ?_⟩⟩
          · show List.Forall₂ _ (x :: a) (List.take (a.length + 1) (x :: o'))
            rw [List.take_succ_cons]
            exact List.Forall₂.cons (Or.inr rfl) ha2
          · have hy : y = 1 ∨ y = x := by
              simp only [Bool.or_eq_true, beq_iff_eq] at hxy
              rcases hxy with h | h
              · exact Or.inr h.symm
              · exact Or.inl h
            show List.Forall₂ _ (y :: b) (List.take (b.length + 1) (x :: o'))
            rw [List.take_succ_cons]
            exact List.Forall₂.cons hy hb2
      · split at h
        · rename_i hx1
          cases hr : bshapeRev a b with
          | none => simp [hr] at h
          | some o' =>
            simp only [hr, Option.map_some, Option.some.injEq] at h
            subst h
            obtain ⟨⟨ha1, ha2⟩, ⟨hb1, hb2⟩⟩ := ih b o' hr
            have hx : x = 1 := by simpa using hx1
            refine ⟨⟨by simp; omega, ?_⟩, ⟨by simp; omega, ?_⟩⟩
            · show List.Forall₂ _ (x :: a) (List.take (a.length + 1) (y :: o'))
              rw [List.take_succ_cons]
              exact List.Forall₂.cons (Or.inl hx) ha2
            · show List.Forall₂ _ (y :: b) (List.take (b.length + 1) (y :: o'))
              rw [List.take_succ_cons]
              exact List.Forall₂.cons (Or.inr rfl) hb2
        · cases h

theorem compat_of_rev (s o : List Nat) (hl : s.length ≤ o.length)
    (h : List.Forall₂ (fun d o => d = 1 ∨ d = o) s.reverse (o.take s.length)) : Compat s o.reverse := by
  refine ⟨by simpa using hl, ?_⟩
  have h' := List.forall₂_reverse_iff.mpr h
  rw [List.reverse_reverse] at h'
  have e : (o.take s.length).reverse = o.reverse.drop (o.reverse.length - s.length) := by
    rw [List.reverse_take]; simp
  rw [e] at h'
  exact h'

/-- **numpy broadcasting is compatible with both operands**: whenever two shapes broadcast, each operand's shape is
    right-aligned to the result with every axis 1 or equal — the hypothesis of `bidx_lt` -/
theorem bshape_compat (s t out : List Nat) (h : bshape s t = some out) : Compat s out ∧ Compat t out := by
  unfold bshape at h
  cases hr : bshapeRev s.reverse t.reverse with
  | none => simp [hr] at h
  | some o =>
    simp only [hr, Option.map_some, Option.some.injEq] at h
    subst h
    obtain ⟨⟨ha1, ha2⟩, ⟨hb1, hb2⟩⟩ := bshapeRev_compat _ _ _ hr
    simp only [List.length_reverse] at ha1 ha2 hb1 hb2
    exact ⟨compat_of_rev s o ha1 ha2, compat_of_rev t o hb1 hb2⟩

/-- **C02 (broadcast reads are real reads)**: in an element-wise operation on two operands whose shapes broadcast to `out`,
    every element of the result is computed from an element that exists in each operand -/
theorem bmap2_reads_in_range (s t out : List Nat) (h : bshape s t = some out) (i : Nat) (hi : i < shapeSize out) :
    bidx out s i < shapeSize s ∧ bidx out t i < shapeSize t :=
  ⟨bidx_lt out s i (bshape_compat s t out h).1 hi, bidx_lt out t i (bshape_compat s t out h).2 hi⟩
end Osyris.Bcast
