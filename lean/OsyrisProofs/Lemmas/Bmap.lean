/-
Element-wise lemmas about `getR`, `bmap2` and `phys`, used by C02 / C07 / C08 / C09 / C10.
-/
import OsyrisModel.ArrayOps
import Mathlib.Tactic.Ring
import Mathlib.Tactic.FieldSimp
import Mathlib.Algebra.Order.Field.Rat

namespace Osyris

theorem getR_map_mul (l : List Rat) (c : Rat) (i : Nat) :
    getR (l.map (· * c)) i = getR l i * c := by
  unfold getR
  by_cases h : i < l.length
  · simp [List.getD_eq_getElem?_getD, h]
  · simp [List.getD_eq_getElem?_getD, h]

theorem phys_getR (a : ArrV) (i : Nat) : getR a.phys i = getR a.data i * a.unit.factor := by
  unfold ArrV.phys; exact getR_map_mul _ _ _

/-- scaling commutes with a broadcast element-wise map when the element function does -/
theorem bmap2_scale (f f' : Rat → Rat → Rat) (out sa sb : List Nat) (A B : List Rat) (c ca cb : Rat)
    (hf : ∀ x y, f x y * c = f' (x * ca) (y * cb)) :
    (bmap2 f out sa sb A B).map (· * c) = bmap2 f' out sa sb (A.map (· * ca)) (B.map (· * cb)) := by
  unfold bmap2
  rw [List.map_map]
  apply List.map_congr_left
  intro i _
  simp only [Function.comp, getR_map_mul]
  exact hf _ _

/-- converting the right operand first: `B` expressed in the left unit -/
theorem bmap2_convert (f : Rat → Rat → Rat) (out sa sb : List Nat) (A B : List Rat) (r : Rat) :
    bmap2 f out sa sb A (B.map (· * r)) = bmap2 (fun x y => f x (y * r)) out sa sb A B := by
  unfold bmap2
  apply List.map_congr_left
  intro i _
  simp only [getR_map_mul]

theorem bmap2_length (f : Rat → Rat → Rat) (out sa sb : List Nat) (A B : List Rat) :
    (bmap2 f out sa sb A B).length = shapeSize out := by
  simp [bmap2]

end Osyris
