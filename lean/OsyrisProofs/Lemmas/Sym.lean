/-
Algebra of pint's symbolic unit container as the model carries it (`Sym`: sorted by name, no zero
exponents): `insertAdd` / `mul` / `smul` keep the normal form, a normal form is determined by its
exponent function `get`, hence products commute, `a / b = a * b⁻¹`, `(a b)^k = a^k b^k` literally.
-/
import OsyrisModel.Units
import Mathlib.Tactic.Ring
import Mathlib.Tactic.Linarith

namespace Osyris
namespace Sym

def get : Sym → String → Rat
  | [], _ => 0
  | (m, f) :: rest, n => if n == m then f else get rest n

/-- strictly sorted by name, no zero exponent -/
def NF : Sym → Prop
  | [] => True
  | (m, f) :: rest => f ≠ 0 ∧ (∀ p ∈ rest, m < p.1) ∧ NF rest

/-- `¬ n < m` and `n ≠ m` give `m < n` (String order is total) -/
theorem lt_of_not_lt_ne {n m : String} (h : ¬ n < m) (hne : n ≠ m) : m < n := by
  apply Decidable.byContradiction
  intro hc
  exact hne (String.le_antisymm (a := n) (b := m) hc h)

@[simp] theorem get_nil (n : String) : get [] n = 0 := rfl
@[simp] theorem get_cons (m : String) (f : Rat) (rest : Sym) (n : String) :
    get ((m, f) :: rest) n = if n == m then f else get rest n := rfl

theorem get_eq_zero_of_lt {s : Sym} {n : String} (h : ∀ p ∈ s, n < p.1) : get s n = 0 := by
  induction s with
  | nil => rfl
  | cons p rest ih =>
    obtain ⟨m, f⟩ := p
    have hm : n < m := h (m, f) (by simp)
    have hne : (n == m) = false := by
      simp only [beq_eq_false_iff_ne, ne_eq]
      intro e; subst e; exact String.lt_irrefl _ hm
    simp only [get, hne]
    exact ih (fun p hp => h p (by simp [hp]))

theorem nf_tail {p : String × Rat} {rest : Sym} (h : NF (p :: rest)) : NF rest := by
  obtain ⟨m, f⟩ := p; exact h.2.2

theorem insertAdd_keys {s : Sym} {n : String} {e : Rat} {q : String × Rat} (hq : q ∈ insertAdd s n e) :
    q.1 = n ∨ ∃ p ∈ s, p.1 = q.1 := by
  induction s with
  | nil =>
    unfold insertAdd at hq
    split at hq
    · simp at hq
    · simp at hq; left; rw [hq]
  | cons p rest ih =>
    obtain ⟨m, f⟩ := p
    unfold insertAdd at hq
    split at hq
    · rename_i hnm
      split at hq
      · right; exact ⟨q, by simp [hq], rfl⟩
      · simp only [List.mem_cons] at hq
        rcases hq with hq | hq
        · right; exact ⟨(m, f), by simp, by rw [hq]⟩
        · right; exact ⟨q, by simp [hq], rfl⟩
    · split at hq
      · split at hq
        · right; exact ⟨q, hq, rfl⟩
        · simp only [List.mem_cons] at hq
          rcases hq with hq | hq
          · left; rw [hq]
          · right; exact ⟨q, by simpa using hq, rfl⟩
      · simp only [List.mem_cons] at hq
        rcases hq with hq | hq
        · right; exact ⟨(m, f), by simp, by rw [hq]⟩
        · rcases ih hq with h | ⟨p, hp, hpe⟩
          · left; exact h
          · right; exact ⟨p, by simp [hp], hpe⟩

theorem insertAdd_nf {s : Sym} (n : String) (e : Rat) (h : NF s) : NF (insertAdd s n e) := by
  induction s with
  | nil =>
    unfold insertAdd
    split
    · trivial
    · rename_i he
      exact ⟨by simpa using he, by simp, trivial⟩
  | cons p rest ih =>
    obtain ⟨m, f⟩ := p
    obtain ⟨hf, hlt, hrest⟩ := h
    unfold insertAdd
    split
    · split
      · exact hrest
      · rename_i hne
        exact ⟨by simpa using hne, hlt, hrest⟩
    · rename_i hnm
      split
      · rename_i hlt'
        split
        · exact ⟨hf, hlt, hrest⟩
        · rename_i he
          refine ⟨by simpa using he, ?_, hf, hlt, hrest⟩
          intro p hp
          simp only [List.mem_cons] at hp
          rcases hp with hp | hp
          · rw [hp]; exact hlt'
          · exact String.lt_trans hlt' (hlt p hp)
      · rename_i hnlt
        refine ⟨hf, ?_, ih hrest⟩
        intro q hq
        rcases insertAdd_keys hq with h | ⟨p, hp, hpe⟩
        · rw [h]
          -- ¬ n < m, n ≠ m  ⇒  m < n
          have hne : n ≠ m := by simpa using hnm
          exact lt_of_not_lt_ne hnlt hne
        · rw [← hpe]; exact hlt p hp

theorem get_insertAdd {s : Sym} (n : String) (e : Rat) (k : String) (h : NF s) :
    get (insertAdd s n e) k = get s k + (if k = n then e else 0) := by
  induction s with
  | nil =>
    unfold insertAdd
    by_cases he : e = 0
    · subst he; simp [get]
    · have : (e == 0) = false := by simpa using he
      simp only [this, Bool.false_eq_true, if_false]
      by_cases hk : k = n <;> simp [hk]
  | cons p rest ih =>
    obtain ⟨m, f⟩ := p
    obtain ⟨hf, hlt, hrest⟩ := h
    unfold insertAdd
    by_cases hnm : n = m
    · subst hnm
      simp only [beq_self_eq_true, if_true]
      by_cases hz : f + e = 0
      · have hz' : (f + e == 0) = true := by simpa using hz
        simp only [hz', if_true, get]
        by_cases hk : k = n
        · subst hk
          simp only [beq_self_eq_true, if_true]
          rw [get_eq_zero_of_lt hlt]; linarith
        · have : (k == n) = false := by simpa using hk
          simp [this, hk]
      · have hz' : (f + e == 0) = false := by simpa using hz
        simp only [hz', Bool.false_eq_true, if_false]
        by_cases hk : k = n
        · subst hk; simp
        · have : (k == n) = false := by simpa using hk
          simp [this, hk]
    · have hnm' : (n == m) = false := by simpa using hnm
      simp only [hnm']
      by_cases hl : n < m
      · simp only [hl, if_true]
        by_cases he : e = 0
        · subst he; simp
        · have he' : (e == 0) = false := by simpa using he
          simp only [he', Bool.false_eq_true, if_false]
          by_cases hk : k = n
          · subst hk
            have h0 : get ((m, f) :: rest) k = 0 := by
              apply get_eq_zero_of_lt
              intro p hp
              simp only [List.mem_cons] at hp
              rcases hp with hp | hp
              · rw [hp]; exact hl
              · exact String.lt_trans hl (hlt p hp)
            rw [h0]; simp [get]
          · have : (k == n) = false := by simpa using hk
            rw [show get ((n, e) :: (m, f) :: rest) k = get ((m, f) :: rest) k by simp [get, this]]
            simp [hk]
      · simp only [hl]
        simp only [Bool.false_eq_true, if_false, get]
        by_cases hkm : k = m
        · subst hkm
          have : k ≠ n := fun h => hnm h.symm
          simp [this]
        · have : (k == m) = false := by simpa using hkm
          simp only [this]
          exact ih hrest

/-- the total exponent of `k` in a raw list of factors -/
def total : Sym → String → Rat
  | [], _ => 0
  | (m, f) :: rest, k => (if k = m then f else 0) + total rest k

theorem total_eq_get {s : Sym} (h : NF s) (k : String) : total s k = get s k := by
  induction s with
  | nil => rfl
  | cons p rest ih =>
    obtain ⟨m, f⟩ := p
    obtain ⟨_, hlt, hrest⟩ := h
    simp only [total, get]
    by_cases hk : k = m
    · subst hk
      simp only [if_true, beq_self_eq_true]
      rw [ih hrest, get_eq_zero_of_lt hlt]; ring
    · have : (k == m) = false := by simpa using hk
      simp [hk, this, ih hrest]

theorem mul_nf {a : Sym} (b : Sym) (h : NF a) : NF (mul a b) := by
  unfold mul
  induction b generalizing a with
  | nil => exact h
  | cons p rest ih => exact ih (insertAdd_nf p.1 p.2 h)

theorem get_mul' {a : Sym} (b : Sym) (k : String) (h : NF a) : get (mul a b) k = get a k + total b k := by
  unfold mul
  induction b generalizing a with
  | nil => simp [total]
  | cons p rest ih =>
    obtain ⟨m, f⟩ := p
    simp only [List.foldl_cons]
    rw [ih (insertAdd_nf m f h), get_insertAdd m f k h]
    simp only [total]; ring

theorem get_mul {a b : Sym} (k : String) (ha : NF a) (hb : NF b) : get (mul a b) k = get a k + get b k := by
  rw [get_mul' b k ha, total_eq_get hb]

/-- a normal form is determined by its exponent function -/
theorem ext {a b : Sym} (ha : NF a) (hb : NF b) (h : ∀ k, get a k = get b k) : a = b := by
  induction a generalizing b with
  | nil =>
    cases b with
    | nil => rfl
    | cons q rb =>
      obtain ⟨m, f⟩ := q
      have := h m
      simp [get] at this
      exact absurd this.symm hb.1
  | cons p ra ih =>
    obtain ⟨m, f⟩ := p
    cases b with
    | nil =>
      have := h m
      simp [get] at this
      exact absurd this ha.1
    | cons q rb =>
      obtain ⟨m', f'⟩ := q
      obtain ⟨hf, hlt, hra⟩ := ha
      obtain ⟨hf', hlt', hrb⟩ := hb
      have hmm : m = m' := by
        apply Decidable.byContradiction
        intro hne
        by_cases hl : m < m'
        · have h1 := h m
          have h0 : get ((m', f') :: rb) m = 0 := by
            apply get_eq_zero_of_lt
            intro p hp
            simp only [List.mem_cons] at hp
            rcases hp with hp | hp
            · rw [hp]; exact hl
            · exact String.lt_trans hl (hlt' p hp)
          rw [h0] at h1
          simp [get] at h1
          exact hf h1
        · have hl' : m' < m := lt_of_not_lt_ne hl hne
          have h1 := h m'
          have h0 : get ((m, f) :: ra) m' = 0 := by
            apply get_eq_zero_of_lt
            intro p hp
            simp only [List.mem_cons] at hp
            rcases hp with hp | hp
            · rw [hp]; exact hl'
            · exact String.lt_trans hl' (hlt p hp)
          rw [h0] at h1
          simp [get] at h1
          exact hf' h1.symm
      subst hmm
      have hff : f = f' := by have := h m; simpa [get] using this
      subst hff
      have : ra = rb := by
        apply ih hra hrb
        intro k
        by_cases hk : k = m
        · subst hk
          rw [get_eq_zero_of_lt hlt, get_eq_zero_of_lt hlt']
        · have hk' : (k == m) = false := by simpa using hk
          have := h k
          simpa [get, hk'] using this
      rw [this]

theorem mul_comm {a b : Sym} (ha : NF a) (hb : NF b) : mul a b = mul b a := by
  apply ext (mul_nf b ha) (mul_nf a hb)
  intro k
  rw [get_mul k ha hb, get_mul k hb ha]; ring

theorem mul_assoc {a b c : Sym} (ha : NF a) (hb : NF b) (hc : NF c) : mul (mul a b) c = mul a (mul b c) := by
  apply ext (mul_nf c (mul_nf b ha)) (mul_nf _ ha)
  intro k
  rw [get_mul k (mul_nf b ha) hc, get_mul k ha hb, get_mul k ha (mul_nf c hb), get_mul k hb hc]; ring

theorem smul_nf {a : Sym} (q : Rat) (h : NF a) : NF (smul q a) := by
  unfold smul
  split
  · trivial
  · rename_i hq
    have hq' : q ≠ 0 := by simpa using hq
    induction a with
    | nil => trivial
    | cons p rest ih =>
      obtain ⟨m, f⟩ := p
      obtain ⟨hf, hlt, hrest⟩ := h
      refine ⟨mul_ne_zero hq' hf, ?_, ih hrest⟩
      intro p hp
      simp only [List.mem_map] at hp
      obtain ⟨p0, hp0, rfl⟩ := hp
      exact hlt p0 hp0

theorem get_smul {a : Sym} (q : Rat) (k : String) : get (smul q a) k = q * get a k := by
  unfold smul
  split
  · rename_i hq
    have : q = 0 := by simpa using hq
    subst this; simp [get]
  · induction a with
    | nil => simp [get]
    | cons p rest ih =>
      obtain ⟨m, f⟩ := p
      simp only [List.map_cons, get]
      by_cases hk : (k == m) = true
      · simp [hk]
      · have : (k == m) = false := by simpa using hk
        simp only [this]
        exact ih

/-- `(a b)^q = a^q b^q` -/
theorem smul_mul {a b : Sym} (q : Rat) (ha : NF a) (hb : NF b) :
    smul q (mul a b) = mul (smul q a) (smul q b) := by
  apply ext (smul_nf q (mul_nf b ha)) (mul_nf _ (smul_nf q ha))
  intro k
  rw [get_smul, get_mul k ha hb, get_mul k (smul_nf q ha) (smul_nf q hb), get_smul, get_smul]; ring

end Sym
end Osyris
