/-
C07  Comparisons and logical operators compare physical quantities.
-/
import OsyrisModel
import OsyrisProofs.Lemmas.Bmap
import OsyrisProofs.C02
import Mathlib.Tactic.Linarith

namespace Osyris.C07
open Osyris Osyris.C02

theorem bmap2_congr_scaled (f : Rat → Rat → Rat) (out sa sb : List Nat) (A B : List Rat) (ρ ca cb : Rat)
    (hf : ∀ x y, f x (y * ρ) = f (x * ca) (y * cb)) :
    bmap2 (fun x y => f x (y * ρ)) out sa sb A B = bmap2 f out sa sb (A.map (· * ca)) (B.map (· * cb)) := by
  unfold bmap2
  apply List.map_congr_left
  intro i _
  simp only [getR_map_mul]
  exact hf _ _

theorem cmp_scale (op : BinOp) (hop : op.isCompare = true) (fl fr x y : Rat) (hl : 0 < fl) :
    op.fn x (y * (fr / fl)) = op.fn (x * fl) (y * fr) := by
  have key : y * (fr / fl) * fl = y * fr := by field_simp
  have hlt : (x < y * (fr / fl)) ↔ (x * fl < y * fr) := by
    rw [← key]; exact (mul_lt_mul_iff_of_pos_right hl).symm
  have hgt : (y * (fr / fl) < x) ↔ (y * fr < x * fl) := by
    rw [← key]; exact (mul_lt_mul_iff_of_pos_right hl).symm
  have hle : (x ≤ y * (fr / fl)) ↔ (x * fl ≤ y * fr) := by
    rw [← key]; exact (mul_le_mul_iff_of_pos_right hl).symm
  have hge : (y * (fr / fl) ≤ x) ↔ (y * fr ≤ x * fl) := by
    rw [← key]; exact (mul_le_mul_iff_of_pos_right hl).symm
  have heq : (x = y * (fr / fl)) ↔ (x * fl = y * fr) := by
    rw [← key]; constructor
    · intro h; rw [h]
    · intro h; exact mul_right_cancel₀ (ne_of_gt hl) h
  cases op <;> simp_all [BinOp.isCompare, BinOp.fn, boolR]

/-- **C07 (comparisons compare physical quantities)**: for the six comparison operators the
    result is the element-wise comparison of the operands' physical quantities (after
    broadcasting), a dimensionless boolean Array. -/
theorem C07_cmp (T : Tables) (op : BinOp) (hop : op.isCompare = true) (l r x : ArrV)
    (hb : T.keeps .b = false) (hc : Consistent r.unit l.unit) (hl : 0 < l.unit.factor)
    (h : ArrV.binaryOp T op l r = .ok x) :
    ∃ out, bshape l.shape r.shape = some out ∧ x.shape = out ∧ x.dtype = .b ∧ x.unit = U.one ∧
      x.data = bmap2 op.fn out l.shape r.shape l.phys r.phys := by
  have hst : op.strict = true := by cases op <;> simp_all [BinOp.isCompare, BinOp.strict]
  obtain ⟨r', s, hto, hap⟩ := strict_spec T op hst l r x h
  obtain ⟨_, hdata, _, _, hshape⟩ := to_spec r r' l.unit s hc (ne_of_gt hl) hto
  obtain ⟨out, hout, hxs, hdt, hxd, hxu⟩ := applyBin_spec T op l r' x hap
  rw [hshape] at hout hxd
  have hres : op.resDType l.dtype r'.dtype = .b := by simp [BinOp.resDType, hop]
  refine ⟨out, hout, hxs, by rw [hdt, hres], ?_, ?_⟩
  · rw [hxu, hres]; simp [wrapUnit, hb]
  · rw [hxd, hdata, bmap2_convert]
    unfold ArrV.phys
    apply bmap2_congr_scaled
    intro a b
    exact cmp_scale op hop _ _ a b hl

/-- comparing quantities of incompatible dimensions raises instead of answering -/
theorem C07_incompatible_raises (T : Tables) (op : BinOp) (hop : op.isCompare = true) (l r : ArrV)
    (hsame : ∀ a b : U, a.same b = true → a.dim = b.dim)
    (hd : r.unit.dim ≠ l.unit.dim) : ArrV.binaryOp T op l r = .error .dimErr :=
  C02_incompatible_raises T op (by cases op <;> simp_all [BinOp.isCompare, BinOp.strict]) l r hsame hd

/-- `&`, `|`, `^` on (dimensionless) boolean Arrays are the Boolean operations element-wise -/
theorem C07_logic (T : Tables) (op : BinOp) (hop : op.isLogic = true) (l r x : ArrV)
    (hb : T.keeps .b = false) (hu : l.unit.same r.unit = true)
    (h : ArrV.binaryOp T op l r = .ok x) :
    ∃ out, bshape l.shape r.shape = some out ∧ x.shape = out ∧ x.dtype = .b ∧ x.unit = U.one ∧
      x.data = bmap2 op.fn out l.shape r.shape l.data r.data := by
  have hst : op.strict = true := by cases op <;> simp_all [BinOp.isLogic, BinOp.strict]
  obtain ⟨r', s, hto, hap⟩ := strict_spec T op hst l r x h
  have hr' : r' = r := by
    unfold ArrV.to at hto
    have : r.unit.same l.unit = true := by
      unfold U.same at hu ⊢
      have h1 : l.unit.sym = r.unit.sym := by exact beq_iff_eq.mp hu
      exact beq_iff_eq.mpr h1.symm
    simp only [this, if_true] at hto
    cases hto; rfl
  subst hr'
  obtain ⟨out, hout, hxs, hdt, hxd, hxu⟩ := applyBin_spec T op l r' x hap
  have hres : op.resDType l.dtype r'.dtype = .b := by
    cases op <;> simp_all [BinOp.resDType, BinOp.isLogic, BinOp.isCompare]
  exact ⟨out, hout, hxs, by rw [hdt, hres], by rw [hxu, hres]; simp [wrapUnit, hb], hxd⟩

/-- the logical functions are the Boolean ones on 0/1 data -/
theorem C07_logic_table (p q : Bool) :
    BinOp.land.fn (boolR p) (boolR q) = boolR (p && q) ∧
    BinOp.lor.fn (boolR p) (boolR q) = boolR (p || q) ∧
    BinOp.lxor.fn (boolR p) (boolR q) = boolR (p ^^ q) ∧
    UnOp.fn? .lnot (boolR p) = some (boolR (!p)) := by
  cases p <;> cases q <;> simp [BinOp.fn, UnOp.fn?, boolR]

/-- with the tables extracted from the current array.py, boolean results carry no unit -/
theorem C07_cmp_current (op : BinOp) (hop : op.isCompare = true) (l r x : ArrV)
    (hc : Consistent r.unit l.unit) (hl : 0 < l.unit.factor)
    (h : ArrV.binaryOp Generated.tables op l r = .ok x) :
    ∃ out, bshape l.shape r.shape = some out ∧ x.shape = out ∧ x.dtype = .b ∧ x.unit = U.one ∧
      x.data = bmap2 op.fn out l.shape r.shape l.phys r.phys :=
  C07_cmp _ op hop l r x generated_bool_dimensionless hc hl h

theorem to_convert (r : ArrV) (u : U) (hs : r.unit.same u = false) (hcv : r.unit.convertible u = true) :
    ∃ r', r.to u = .ok (r', false) ∧ r'.data = r.data.map (· * U.ratio r.unit u) ∧ r'.shape = r.shape := by
  unfold ArrV.to
  simp only [hs, hcv, Bool.false_eq_true, if_false, Bool.not_true]
  exact ⟨_, rfl, rfl, rfl⟩

/-- **C07 (the plan is the operation)**: whatever the values, `_binary_op` applies the numpy kernel named by
    `binaryPlan` to the left values and the right values scaled by the plan's ratio. The correspondence check
    evaluates that plan with numpy itself on operands holding nan / +-inf, which the rational model cannot hold. -/
theorem C07_plan_agrees (T : Tables) (op : BinOp) (l r x : ArrV) (h : ArrV.binaryOp T op l r = .ok x) :
    ∃ p out, binaryPlan op l.unit r.unit = .ok p ∧ p.npName = op.npName ∧
      bshape l.shape r.shape = some out ∧
      x.data = bmap2 op.fn out l.shape r.shape l.data (r.data.map (· * p.ratio)) := by
  unfold ArrV.binaryOp at h
  unfold binaryPlan
  by_cases hs : r.unit.same l.unit = true
  · -- identity shortcut: the right operand is used as it is
    have hto : r.to l.unit = .ok (r, true) := by simp [ArrV.to, hs]
    simp only [hto, bind, Except.bind, pure, Except.pure] at h
    have h' : ArrV.applyBin T op l r = .ok x := by
      cases hst : op.strict <;> simp [hst] at h <;> exact h
    obtain ⟨out, hout, _, _, hxd, _⟩ := applyBin_spec T op l r x h'
    refine ⟨⟨op.npName, 1, false⟩, out, by simp [hs], rfl, hout, ?_⟩
    simpa using hxd
  · have hs' : r.unit.same l.unit = false := by simpa using hs
    by_cases hcv : r.unit.convertible l.unit = true
    · obtain ⟨r', hto, hd', hsh'⟩ := to_convert r l.unit hs' hcv
      simp only [hto, bind, Except.bind, pure, Except.pure] at h
      have h' : ArrV.applyBin T op l r' = .ok x := by
        cases hst : op.strict <;> simp [hst] at h <;> exact h
      obtain ⟨out, hout, _, _, hxd, _⟩ := applyBin_spec T op l r' x h'
      rw [hsh'] at hout hxd
      rw [hd'] at hxd
      exact ⟨⟨op.npName, U.ratio r.unit l.unit, true⟩, out, by simp [hs', hcv], rfl, hout, hxd⟩
    · have hcv' : r.unit.convertible l.unit = false := by simpa using hcv
      have hto : r.to l.unit = .error .dimErr := by simp [ArrV.to, hs', hcv']
      cases hst : op.strict
      · simp only [hst, hto, bind, Except.bind, pure, Except.pure] at h
        have h' : ArrV.applyBin T op l r = .ok x := by simpa using h
        obtain ⟨out, hout, _, _, hxd, _⟩ := applyBin_spec T op l r x h'
        refine ⟨⟨op.npName, 1, false⟩, out, by simp [hs', hcv', hst], rfl, hout, ?_⟩
        simpa using hxd
      · simp [hst, hto, bind, Except.bind] at h

/-! non-vacuity: 1 m > 99 cm although 1 < 99 -/
example : ∃ x, ArrV.binaryOp Reference.tables .gt
    { shape := [1], dtype := .f8, data := [1], unit := um }
    { shape := [1], dtype := .f8, data := [99], unit := ucm } = .ok x ∧ x.data = [1] := by
  refine ⟨_, rfl, ?_⟩
  decide +kernel

end Osyris.C07
