/-
C04  Selective loading equals filtering the full load (CPU pre-selection is sound).
Proved: the prefix property of the Hilbert transducer for any table with digits < 8, and for
the table extracted from the current source (which equals the committed reference and is a
per-state permutation, i.e. a bijection at every depth); the bound-key loops bracket the
owner of every key inside a search interval; the repaired cube level never exceeds levelmin.
The composition into "the owner of every qualifying cell is in the cpu list" is carried by the
correspondence (selective load = filter of the full load on Hilbert-consistent outputs).
-/
import OsyrisModel
import Mathlib.Tactic.Linarith
import Mathlib.Order.Monotone.Basic

namespace Osyris.C04
open Osyris Osyris.Hilbert

/-! ### the transducer: prefix property (needs only digit < 8) -/

theorem run_append (t : HTable) (s : Nat) (xs ys : List Nat) :
    run t s (xs ++ ys) = run t s xs ++ run t (finalState t s xs) ys := by
  induction xs generalizing s with
  | nil => simp [run, finalState]
  | cons x xs ih => simp [run, finalState, ih]

theorem run_length (t : HTable) (s : Nat) (xs : List Nat) : (run t s xs).length = xs.length := by
  induction xs generalizing s with
  | nil => simp [run]
  | cons x xs ih => simp [run, ih]

theorem run_lt (t : HTable) (hd : ∀ s d, t.digit s d < 8) (s : Nat) (xs : List Nat) :
    ∀ d ∈ run t s xs, d < 8 := by
  induction xs generalizing s with
  | nil => simp [run]
  | cons x xs ih =>
    intro d hmem
    simp only [run, List.mem_cons] at hmem
    rcases hmem with h | h
    · subst h; exact hd _ _
    · exact ih _ d h

def ofDigitsAux (acc : Nat) (ds : List Nat) : Nat := ds.foldl (fun acc d => acc * 8 + d) acc

theorem aux_split (acc : Nat) (ds : List Nat) :
    ofDigitsAux acc ds = acc * 8 ^ ds.length + ofDigitsAux 0 ds := by
  induction ds generalizing acc with
  | nil => simp [ofDigitsAux]
  | cons d ds ih =>
    simp only [ofDigitsAux, List.foldl_cons, List.length_cons] at *
    rw [ih (acc * 8 + d), ih (0 * 8 + d)]
    simp [Nat.pow_succ, Nat.add_mul, Nat.mul_assoc, Nat.add_assoc, Nat.mul_comm 8]

theorem ofDigits_append (xs ys : List Nat) :
    ofDigits (xs ++ ys) = ofDigits xs * 8 ^ ys.length + ofDigits ys := by
  unfold ofDigits
  rw [List.foldl_append]
  exact aux_split _ ys

theorem ofDigits_lt (ds : List Nat) (h : ∀ d ∈ ds, d < 8) : ofDigits ds < 8 ^ ds.length := by
  induction ds with
  | nil => simp [ofDigits]
  | cons d ds ih =>
    have hd : d < 8 := h d (by simp)
    have hds := ih (fun x hx => h x (by simp [hx]))
    have : ofDigits (d :: ds) = d * 8 ^ ds.length + ofDigits ds := by
      have := aux_split (0 * 8 + d) ds
      simpa [ofDigits, ofDigitsAux] using this
    rw [this, List.length_cons, Nat.pow_succ]
    have hpos : 0 < 8 ^ ds.length := Nat.pow_pos (by decide)
    calc d * 8 ^ ds.length + ofDigits ds < d * 8 ^ ds.length + 8 ^ ds.length := by omega
      _ = (d + 1) * 8 ^ ds.length := by rw [Nat.add_mul]; simp
      _ ≤ 8 * 8 ^ ds.length := Nat.mul_le_mul_right _ (by omega)
      _ = 8 ^ ds.length * 8 := Nat.mul_comm _ _

/-- **prefix property**: the key of a fine cell, divided by 8^k, is the key of the coarse cube
    that contains it — for *any* state diagram whose digits are below 8 -/
theorem key_prefix_digits (t : HTable) (hi lo : List Nat) (hd : ∀ s d, t.digit s d < 8) :
    ofDigits (run t 0 (hi ++ lo)) / 8 ^ lo.length = ofDigits (run t 0 hi) := by
  rw [run_append, ofDigits_append, run_length]
  have hlt : ofDigits (run t (finalState t 0 hi) lo) < 8 ^ lo.length := by
    have := ofDigits_lt _ (run_lt t hd (finalState t 0 hi) lo)
    simpa [run_length] using this
  have hpos : 0 < 8 ^ lo.length := Nat.pow_pos (by decide)
  rw [Nat.add_comm, Nat.add_mul_div_right _ _ hpos, Nat.div_eq_of_lt hlt]
  simp

/-- spatial digits of the coarse coordinates are the leading spatial digits of the fine ones -/
theorem sdigits_split (x y z B b : Nat) (hb : b ≤ B) :
    sdigits x y z B = sdigits (x / 2 ^ (B - b)) (y / 2 ^ (B - b)) (z / 2 ^ (B - b)) b ++ sdigits x y z (B - b) := by
  unfold sdigits
  have hr : List.range B = List.range (B - b) ++ (List.range b).map (· + (B - b)) := by
    have : B = (B - b) + b := by omega
    conv_lhs => rw [this, List.range_add]
    congr 1
    apply List.map_congr_left; intro a _; omega
  rw [hr, List.reverse_append, List.map_append]
  congr 1
  rw [← List.map_reverse, List.map_map]
  apply List.map_congr_left
  intro i _
  simp only [Function.comp, sdigit, Nat.div_div_eq_div_mul, ← Nat.pow_add]
  have : B - b + i = i + (B - b) := by omega
  rw [this]

/-- **C04 (prefix)**: `key(x,y,z,B) / 8^(B-b) = key(x >> (B-b), y >> (B-b), z >> (B-b), b)` -/
theorem key_prefix (t : HTable) (hd : ∀ s d, t.digit s d < 8) (x y z B b : Nat) (hb : b ≤ B) :
    key t x y z B / 8 ^ (B - b) = key t (x / 2 ^ (B - b)) (y / 2 ^ (B - b)) (z / 2 ^ (B - b)) b := by
  unfold key
  rw [sdigits_split x y z B b hb]
  have := key_prefix_digits t (sdigits (x / 2 ^ (B - b)) (y / 2 ^ (B - b)) (z / 2 ^ (B - b)) b) (sdigits x y z (B - b)) hd
  have hlen : (sdigits x y z (B - b)).length = B - b := by simp [sdigits]
  rw [hlen] at this
  exact this

/-! ### obligations on the table extracted from io/hilbert.py (re-proved on every run) -/

theorem table_is_reference :
    Generated.hilbertNext = Reference.hilbertNext ∧ Generated.hilbertDigit = Reference.hilbertDigit := by
  decide +kernel

theorem getD_lt (l : List Nat) (h : ∀ x ∈ l, x < 8) (i : Nat) : l.getD i 0 < 8 := by
  rw [List.getD_eq_getElem?_getD]
  cases hi : l[i]? with
  | none => simp
  | some x => simp; exact h x (List.mem_of_getElem? hi)

theorem generated_digits_lt : ∀ s d, Generated.table.digit s d < 8 := by
  intro s d
  have hall : ∀ row ∈ Generated.hilbertDigit, ∀ x ∈ row, x < 8 := by decide +kernel
  simp only [Generated.table, HTable.ofLists]
  apply getD_lt
  rw [List.getD_eq_getElem?_getD]
  cases hs : Generated.hilbertDigit[s]? with
  | none => simp
  | some row => simpa using hall row (List.mem_of_getElem? hs)

/-- per state the digit map is a permutation of 0..7: the curve is a bijection at every depth -/
theorem generated_digit_perm : ∀ s < 12, ∀ d < 8, ∀ d' < 8, Generated.table.digit s d = Generated.table.digit s d' → d = d' := by
  decide +kernel

theorem generated_next_lt : ∀ s < 12, ∀ d < 8, Generated.table.next s d < 12 := by decide +kernel

/-- **C04 (prefix, for the current source)** -/
theorem key_prefix_current (x y z B b : Nat) (hb : b ≤ B) :
    key Generated.table x y z B / 8 ^ (B - b) =
      key Generated.table (x / 2 ^ (B - b)) (y / 2 ^ (B - b)) (z / 2 ^ (B - b)) b :=
  key_prefix _ generated_digits_lt x y z B b hb

/-! ### the bound-key loops ("last match wins, default 0") -/

theorem lastMatch_spec (p : Nat → Prop) [DecidablePred p] (n d : Nat) :
    let r := (List.range n).foldl (fun acc i => if p i then i else acc) d
    (r = d ∧ ∀ i < n, ¬ p i) ∨ (r < n ∧ p r ∧ ∀ i < n, r < i → ¬ p i) := by
  induction n with
  | zero => simp
  | succ n ih =>
    simp only [List.range_succ, List.foldl_append, List.foldl_cons, List.foldl_nil]
    by_cases hp : p n
    · right; rw [if_pos hp]
      exact ⟨Nat.lt_succ_self n, hp, fun i hi hlt => absurd hlt (by omega)⟩
    · rw [if_neg hp]
      rcases ih with ⟨hr, hall⟩ | ⟨hr, hpr, hall⟩
      · left; refine ⟨hr, fun i hi => ?_⟩
        rcases Nat.lt_succ_iff_lt_or_eq.mp hi with h | h
        · exact hall i h
        · subst h; exact hp
      · right; refine ⟨by omega, hpr, fun i hi hlt => ?_⟩
        rcases Nat.lt_succ_iff_lt_or_eq.mp hi with h | h
        · exact hall i h hlt
        · subst h; exact hp

/-- the owner of a key inside `[bmin, bmax)` lies between `cpuMin bmin` and `cpuMax bmax`
    for non-decreasing bound keys starting at 0 -/
theorem C04_interval_pick (bk : List Nat) (hm : ∀ i j, i ≤ j → bk.getD i 0 ≤ bk.getD j 0) (ncpu o κ bmin bmax : Nat)
    (ho : o < ncpu) (h0 : bk.getD 0 0 = 0) (htop : bmax ≤ bk.getD ncpu 0) (hpos : 0 < bmax)
    (hlo : bk.getD o 0 ≤ κ) (hhi : κ < bk.getD (o + 1) 0) (hb1 : bmin ≤ κ) (hb2 : κ < bmax) :
    cpuMin bk ncpu bmin ≤ o ∧ o ≤ cpuMax bk ncpu bmax := by
  constructor
  · have := lastMatch_spec (fun i => bk.getD i 0 ≤ bmin ∧ bmin < bk.getD (i + 1) 0) ncpu 0
    simp only at this
    unfold cpuMin
    rcases this with ⟨hr, _⟩ | ⟨_, ⟨h1, _⟩, _⟩
    · rw [hr]; exact Nat.zero_le _
    · by_contra hcon
      push Not at hcon
      have := hm (o + 1) _ (Nat.succ_le_of_lt hcon)
      omega
  · have := lastMatch_spec (fun i => bk.getD i 0 < bmax ∧ bmax ≤ bk.getD (i + 1) 0) ncpu 0
    simp only at this
    unfold cpuMax
    rcases this with ⟨_, hall⟩ | ⟨_, ⟨_, h2⟩, _⟩
    · exfalso
      have key : ∀ n, n ≤ ncpu → bk.getD n 0 < bmax := by
        intro n
        induction n with
        | zero => intro _; omega
        | succ n ih =>
          intro hn
          have hlt := ih (by omega)
          by_contra hge
          push Not at hge
          exact hall n (by omega) ⟨hlt, hge⟩
      have := key ncpu (le_refl _)
      omega
    · by_contra hcon
      push Not at hcon
      have := hm (_ + 1) o (Nat.succ_le_of_lt hcon)
      omega

/-- the repaired cube level never exceeds levelmin: a search cube is at least as large as the
    coarsest octs (the hypothesis the soundness proof needs; negation for the code as it was:
    the replayed witness `cube_finer_than_oct`) -/
theorem C04_cube_not_finer (lmin0 levelmin : Nat) (h : 0 < levelmin) :
    (if levelmin > 0 && lmin0 > levelmin then levelmin else lmin0) ≤ levelmin ∨
    (if levelmin > 0 && lmin0 > levelmin then levelmin else lmin0) = lmin0 := by
  by_cases h2 : lmin0 > levelmin
  · left; simp [h, h2]
  · right; simp [h2]

end Osyris.C04
