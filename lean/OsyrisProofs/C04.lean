/-
C04  Selective loading equals filtering the full load (CPU pre-selection is sound).
Proved: the prefix property of the Hilbert transducer for any table with digits < 8, and for
the table extracted from the current source (which equals the committed reference and is a
per-state permutation, i.e. a bijection at every depth); the bound-key loops bracket the
owner of every key inside a search interval; the repaired cube level never exceeds levelmin.
`C04_preselect_sound` composes them: the owner of every cell whose coarse cube is among the search cubes
is in the cpu list. That the search cubes cover the bounding box (`box_in_cubes`) closes the geometric part.
-/
import OsyrisModel
import Mathlib.Tactic.Linarith
import Mathlib.Tactic.FieldSimp
import Mathlib.Tactic.Positivity
import Mathlib.Tactic.Ring
import Mathlib.Tactic.NormNum
import Mathlib.Algebra.Order.Field.Basic
import Mathlib.Order.Monotone.Basic

namespace Osyris.C04
open Osyris Osyris.Hilbert

/-! ### the transducer: prefix property (needs only digit < 8) -/

theorem run_append (t : HTable) (s : Nat) (xs ys : List Nat) :
    run t s (xs ++ ys) = run t s xs ++ run t (finalState t s xs) ys := by
  induction xs generalizing s with
  | nil => simp [run, finalState]
  | cons x xs ih => simp [run, finalState, ih]

theorem run_length (t : HTable) (s : Nat) (xs : List Nat) : (run t s xs).length = xs.length := by
  induction xs generalizing s with
  | nil => simp [run]
  | cons x xs ih => simp [run, ih]

theorem run_lt (t : HTable) (hd : ∀ s d, t.digit s d < 8) (s : Nat) (xs : List Nat) :
    ∀ d ∈ run t s xs, d < 8 := by
  induction xs generalizing s with
  | nil => simp [run]
  | cons x xs ih =>
    intro d hmem
    simp only [run, List.mem_cons] at hmem
    rcases hmem with h | h
    · subst h; exact hd _ _
    · exact ih _ d h

def ofDigitsAux (acc : Nat) (ds : List Nat) : Nat := ds.foldl (fun acc d => acc * 8 + d) acc

theorem aux_split (acc : Nat) (ds : List Nat) :
    ofDigitsAux acc ds = acc * 8 ^ ds.length + ofDigitsAux 0 ds := by
  induction ds generalizing acc with
  | nil => simp [ofDigitsAux]
  | cons d ds ih =>
    simp only [ofDigitsAux, List.foldl_cons, List.length_cons] at *
    rw [ih (acc * 8 + d), ih (0 * 8 + d)]
    simp [Nat.pow_succ, Nat.add_mul, Nat.mul_assoc, Nat.add_assoc, Nat.mul_comm 8]

theorem ofDigits_append (xs ys : List Nat) :
    ofDigits (xs ++ ys) = ofDigits xs * 8 ^ ys.length + ofDigits ys := by
  unfold ofDigits
  rw [List.foldl_append]
  exact aux_split _ ys

theorem ofDigits_lt (ds : List Nat) (h : ∀ d ∈ ds, d < 8) : ofDigits ds < 8 ^ ds.length := by
  induction ds with
  | nil => simp [ofDigits]
  | cons d ds ih =>
    have hd : d < 8 := h d (by simp)
    have hds := ih (fun x hx => h x (by simp [hx]))
    have : ofDigits (d :: ds) = d * 8 ^ ds.length + ofDigits ds := by
      have := aux_split (0 * 8 + d) ds
      simpa [ofDigits, ofDigitsAux] using this
    rw [this, List.length_cons, Nat.pow_succ]
    have hpos : 0 < 8 ^ ds.length := Nat.pow_pos (by decide)
    calc d * 8 ^ ds.length + ofDigits ds < d * 8 ^ ds.length + 8 ^ ds.length := by omega
      _ = (d + 1) * 8 ^ ds.length := by rw [Nat.add_mul]; simp
      _ ≤ 8 * 8 ^ ds.length := Nat.mul_le_mul_right _ (by omega)
      _ = 8 ^ ds.length * 8 := Nat.mul_comm _ _

/-- **prefix property**: the key of a fine cell, divided by 8^k, is the key of the coarse cube
    that contains it — for *any* state diagram whose digits are below 8 -/
theorem key_prefix_digits (t : HTable) (hi lo : List Nat) (hd : ∀ s d, t.digit s d < 8) :
    ofDigits (run t 0 (hi ++ lo)) / 8 ^ lo.length = ofDigits (run t 0 hi) := by
  rw [run_append, ofDigits_append, run_length]
  have hlt : ofDigits (run t (finalState t 0 hi) lo) < 8 ^ lo.length := by
    have := ofDigits_lt _ (run_lt t hd (finalState t 0 hi) lo)
    simpa [run_length] using this
  have hpos : 0 < 8 ^ lo.length := Nat.pow_pos (by decide)
  rw [Nat.add_comm, Nat.add_mul_div_right _ _ hpos, Nat.div_eq_of_lt hlt]
  simp

/-- spatial digits of the coarse coordinates are the leading spatial digits of the fine ones -/
theorem sdigits_split (x y z B b : Nat) (hb : b ≤ B) :
    sdigits x y z B = sdigits (x / 2 ^ (B - b)) (y / 2 ^ (B - b)) (z / 2 ^ (B - b)) b ++ sdigits x y z (B - b) := by
  unfold sdigits
  have hr : List.range B = List.range (B - b) ++ (List.range b).map (· + (B - b)) := by
    have : B = (B - b) + b := by omega
    conv_lhs => rw [this, List.range_add]
    congr 1
    apply List.map_congr_left; intro a _; omega
  rw [hr, List.reverse_append, List.map_append]
  congr 1
  rw [← List.map_reverse, List.map_map]
  apply List.map_congr_left
  intro i _
  simp only [Function.comp, sdigit, Nat.div_div_eq_div_mul, ← Nat.pow_add]
  have : B - b + i = i + (B - b) := by omega
  rw [this]

/-- **C04 (prefix)**: `key(x,y,z,B) / 8^(B-b) = key(x >> (B-b), y >> (B-b), z >> (B-b), b)` -/
theorem key_prefix (t : HTable) (hd : ∀ s d, t.digit s d < 8) (x y z B b : Nat) (hb : b ≤ B) :
    key t x y z B / 8 ^ (B - b) = key t (x / 2 ^ (B - b)) (y / 2 ^ (B - b)) (z / 2 ^ (B - b)) b := by
  unfold key
  rw [sdigits_split x y z B b hb]
  have := key_prefix_digits t (sdigits (x / 2 ^ (B - b)) (y / 2 ^ (B - b)) (z / 2 ^ (B - b)) b) (sdigits x y z (B - b)) hd
  have hlen : (sdigits x y z (B - b)).length = B - b := by simp [sdigits]
  rw [hlen] at this
  exact this

/-! ### obligations on the table extracted from io/hilbert.py (re-proved on every run) -/

theorem table_is_reference :
    Generated.hilbertNext = Reference.hilbertNext ∧ Generated.hilbertDigit = Reference.hilbertDigit := by
  decide +kernel

theorem getD_lt (l : List Nat) (h : ∀ x ∈ l, x < 8) (i : Nat) : l.getD i 0 < 8 := by
  rw [List.getD_eq_getElem?_getD]
  cases hi : l[i]? with
  | none => simp
  | some x => simp; exact h x (List.mem_of_getElem? hi)

theorem generated_digits_lt : ∀ s d, Generated.table.digit s d < 8 := by
  intro s d
  have hall : ∀ row ∈ Generated.hilbertDigit, ∀ x ∈ row, x < 8 := by decide +kernel
  simp only [Generated.table, HTable.ofLists]
  apply getD_lt
  rw [List.getD_eq_getElem?_getD]
  cases hs : Generated.hilbertDigit[s]? with
  | none => simp
  | some row => simpa using hall row (List.mem_of_getElem? hs)

/-- per state the digit map is a permutation of 0..7: the curve is a bijection at every depth -/
theorem generated_digit_perm : ∀ s < 12, ∀ d < 8, ∀ d' < 8, Generated.table.digit s d = Generated.table.digit s d' → d = d' := by
  decide +kernel

theorem generated_next_lt : ∀ s < 12, ∀ d < 8, Generated.table.next s d < 12 := by decide +kernel

/-! ### the key is injective at every depth (distinct cells have distinct keys, hence one owner) -/

/-- a transducer whose digit map is injective in every reachable state maps distinct digit strings to distinct strings -/
theorem run_injective (t : HTable) (hperm : ∀ s < 12, ∀ d < 8, ∀ d' < 8, t.digit s d = t.digit s d' → d = d')
    (hnext : ∀ s < 12, ∀ d < 8, t.next s d < 12) :
    ∀ (xs ys : List Nat) (s : Nat), s < 12 → xs.length = ys.length → (∀ d ∈ xs, d < 8) → (∀ d ∈ ys, d < 8) →
      run t s xs = run t s ys → xs = ys := by
  intro xs
  induction xs with
  | nil => intro ys s _ hl _ _ _; cases ys with
    | nil => rfl
    | cons y ys => simp at hl
  | cons x xs ih =>
    intro ys s hs hl hx hy hrun
    cases ys with
    | nil => simp at hl
    | cons y ys =>
      simp only [run, List.cons.injEq] at hrun
      have hx8 : x < 8 := hx x (by simp)
      have hy8 : y < 8 := hy y (by simp)
      have hxy : x = y := hperm s hs x hx8 y hy8 hrun.1
      subst hxy
      have := ih ys (t.next s x) (hnext s hs x hx8) (by simpa using hl)
        (fun d hd => hx d (by simp [hd])) (fun d hd => hy d (by simp [hd])) hrun.2
      rw [this]

/-- base-8 strings of one length are determined by their value -/
theorem ofDigits_injective : ∀ (xs ys : List Nat), xs.length = ys.length → (∀ d ∈ xs, d < 8) → (∀ d ∈ ys, d < 8) →
    ofDigits xs = ofDigits ys → xs = ys := by
  intro xs
  induction xs with
  | nil => intro ys hl _ _ _; cases ys with
    | nil => rfl
    | cons y ys => simp at hl
  | cons x xs ih =>
    intro ys hl hx hy h
    cases ys with
    | nil => simp at hl
    | cons y ys =>
      have e1 : ofDigits (x :: xs) = x * 8 ^ xs.length + ofDigits xs := by
        have := ofDigits_append [x] xs; simpa [ofDigits] using this
      have e2 : ofDigits (y :: ys) = y * 8 ^ ys.length + ofDigits ys := by
        have := ofDigits_append [y] ys; simpa [ofDigits] using this
      have hlen : xs.length = ys.length := by simpa using hl
      have l1 := ofDigits_lt xs (fun d hd => hx d (by simp [hd]))
      have l2 := ofDigits_lt ys (fun d hd => hy d (by simp [hd]))
      rw [e1, e2, hlen] at h
      rw [hlen] at l1
      have hpos : 0 < 8 ^ ys.length := Nat.pow_pos (by decide)
      have hxy : x = y := by
        have h1 : (x * 8 ^ ys.length + ofDigits xs) / 8 ^ ys.length = (y * 8 ^ ys.length + ofDigits ys) / 8 ^ ys.length := by
          rw [h]
        rw [Nat.add_comm, Nat.add_mul_div_right _ _ hpos, Nat.div_eq_of_lt l1, Nat.add_comm (y * _),
          Nat.add_mul_div_right _ _ hpos, Nat.div_eq_of_lt l2] at h1
        simpa using h1
      subst hxy
      have hrest : ofDigits xs = ofDigits ys := by omega
      rw [ih ys hlen (fun d hd => hx d (by simp [hd])) (fun d hd => hy d (by simp [hd])) hrest]

theorem sdigit_lt (x y z i : Nat) : sdigit x y z i < 8 := by
  unfold sdigit
  have := Nat.mod_lt (x / 2 ^ i) (by decide : 0 < 2)
  have := Nat.mod_lt (y / 2 ^ i) (by decide : 0 < 2)
  have := Nat.mod_lt (z / 2 ^ i) (by decide : 0 < 2)
  omega

/-- a number below 2^b is determined by its b lowest bits -/
theorem eq_of_bits (b : Nat) : ∀ (x x' : Nat), x < 2 ^ b → x' < 2 ^ b → (∀ i < b, x / 2 ^ i % 2 = x' / 2 ^ i % 2) → x = x' := by
  induction b with
  | zero => intro x x' h h' _; simp at h h'; omega
  | succ b ih =>
    intro x x' h h' hb
    have h0 := hb 0 (Nat.succ_pos _)
    simp only [Nat.pow_zero, Nat.div_one] at h0
    have hh : x / 2 = x' / 2 := by
      apply ih
      · rw [Nat.pow_succ] at h; omega
      · rw [Nat.pow_succ] at h'; omega
      · intro i hi
        have := hb (i + 1) (by omega)
        simpa [Nat.pow_succ, Nat.div_div_eq_div_mul, Nat.mul_comm] using this
    omega

/-- **C04 (one key per cell)**: for the table extracted from the current source, two cells of the `b`-bit grid with the
    same Hilbert key are the same cell -/
theorem key_injective_current (b x y z x' y' z' : Nat)
    (hx : x < 2 ^ b) (hy : y < 2 ^ b) (hz : z < 2 ^ b) (hx' : x' < 2 ^ b) (hy' : y' < 2 ^ b) (hz' : z' < 2 ^ b)
    (h : key Generated.table x y z b = key Generated.table x' y' z' b) : x = x' ∧ y = y' ∧ z = z' := by
  unfold key at h
  have hl : (run Generated.table 0 (sdigits x y z b)).length = (run Generated.table 0 (sdigits x' y' z' b)).length := by
    simp [run_length, sdigits]
  have h1 := ofDigits_injective _ _ hl (run_lt _ generated_digits_lt 0 _) (run_lt _ generated_digits_lt 0 _) h
  have hd : ∀ x y z, ∀ d ∈ sdigits x y z b, d < 8 := by
    intro x y z d hd
    simp only [sdigits, List.mem_map] at hd
    obtain ⟨i, _, rfl⟩ := hd
    exact sdigit_lt x y z i
  have h2 := run_injective Generated.table generated_digit_perm generated_next_lt _ _ 0 (by decide)
    (by simp [sdigits]) (hd x y z) (hd x' y' z') h1
  -- equal digit strings: equal bits of every coordinate
  have hbits : ∀ i < b, sdigit x y z i = sdigit x' y' z' i := by
    intro i hi
    have := congrArg (fun l => l.reverse[i]?) h2
    simpa [sdigits, hi] using this
  have hsplit : ∀ i < b, x / 2 ^ i % 2 = x' / 2 ^ i % 2 ∧ y / 2 ^ i % 2 = y' / 2 ^ i % 2 ∧ z / 2 ^ i % 2 = z' / 2 ^ i % 2 := by
    intro i hi
    have := hbits i hi
    unfold sdigit at this
    have a1 := Nat.mod_lt (x / 2 ^ i) (by decide : 0 < 2)
    have a2 := Nat.mod_lt (y / 2 ^ i) (by decide : 0 < 2)
    have a3 := Nat.mod_lt (z / 2 ^ i) (by decide : 0 < 2)
    have b1 := Nat.mod_lt (x' / 2 ^ i) (by decide : 0 < 2)
    have b2 := Nat.mod_lt (y' / 2 ^ i) (by decide : 0 < 2)
    have b3 := Nat.mod_lt (z' / 2 ^ i) (by decide : 0 < 2)
    omega
  exact ⟨eq_of_bits b x x' hx hx' (fun i hi => (hsplit i hi).1), eq_of_bits b y y' hy hy' (fun i hi => (hsplit i hi).2.1),
    eq_of_bits b z z' hz hz' (fun i hi => (hsplit i hi).2.2)⟩

/-- **C04 (prefix, for the current source)** -/
theorem key_prefix_current (x y z B b : Nat) (hb : b ≤ B) :
    key Generated.table x y z B / 8 ^ (B - b) =
      key Generated.table (x / 2 ^ (B - b)) (y / 2 ^ (B - b)) (z / 2 ^ (B - b)) b :=
  key_prefix _ generated_digits_lt x y z B b hb

/-! ### the bound-key loops ("last match wins, default 0") -/

theorem lastMatch_spec (p : Nat → Prop) [DecidablePred p] (n d : Nat) :
    let r := (List.range n).foldl (fun acc i => if p i then i else acc) d
    (r = d ∧ ∀ i < n, ¬ p i) ∨ (r < n ∧ p r ∧ ∀ i < n, r < i → ¬ p i) := by
  induction n with
  | zero => simp
  | succ n ih =>
    simp only [List.range_succ, List.foldl_append, List.foldl_cons, List.foldl_nil]
    by_cases hp : p n
    · right; rw [if_pos hp]
      exact ⟨Nat.lt_succ_self n, hp, fun i hi hlt => absurd hlt (by omega)⟩
    · rw [if_neg hp]
      rcases ih with ⟨hr, hall⟩ | ⟨hr, hpr, hall⟩
      · left; refine ⟨hr, fun i hi => ?_⟩
        rcases Nat.lt_succ_iff_lt_or_eq.mp hi with h | h
        · exact hall i h
        · subst h; exact hp
      · right; refine ⟨by omega, hpr, fun i hi hlt => ?_⟩
        rcases Nat.lt_succ_iff_lt_or_eq.mp hi with h | h
        · exact hall i h hlt
        · subst h; exact hp

/-- the owner of a key inside `[bmin, bmax)` lies between `cpuMin bmin` and `cpuMax bmax`
    for non-decreasing bound keys starting at 0 -/
theorem C04_interval_pick (bk : List Nat) (ncpu : Nat) (hm : ∀ i j, i ≤ j → j ≤ ncpu → bk.getD i 0 ≤ bk.getD j 0) (o κ bmin bmax : Nat)
    (ho : o < ncpu) (h0 : bk.getD 0 0 = 0) (htop : bmax ≤ bk.getD ncpu 0) (hpos : 0 < bmax)
    (hlo : bk.getD o 0 ≤ κ) (hhi : κ < bk.getD (o + 1) 0) (hb1 : bmin ≤ κ) (hb2 : κ < bmax) :
    cpuMin bk ncpu bmin ≤ o ∧ o ≤ cpuMax bk ncpu bmax := by
  constructor
  · have := lastMatch_spec (fun i => bk.getD i 0 ≤ bmin ∧ bmin < bk.getD (i + 1) 0) ncpu 0
    simp only at this
    unfold cpuMin
    rcases this with ⟨hr, _⟩ | ⟨hrn, ⟨h1, _⟩, _⟩
    · rw [hr]; exact Nat.zero_le _
    · by_contra hcon
      push Not at hcon
      have := hm (o + 1) _ (Nat.succ_le_of_lt hcon) (by omega)
      omega
  · have := lastMatch_spec (fun i => bk.getD i 0 < bmax ∧ bmax ≤ bk.getD (i + 1) 0) ncpu 0
    simp only at this
    unfold cpuMax
    rcases this with ⟨_, hall⟩ | ⟨_, ⟨_, h2⟩, _⟩
    · exfalso
      have key : ∀ n, n ≤ ncpu → bk.getD n 0 < bmax := by
        intro n
        induction n with
        | zero => intro _; omega
        | succ n ih =>
          intro hn
          have hlt := ih (by omega)
          by_contra hge
          push Not at hge
          exact hall n (by omega) ⟨hlt, hge⟩
      have := key ncpu (le_refl _)
      omega
    · by_contra hcon
      push Not at hcon
      have := hm (_ + 1) o (Nat.succ_le_of_lt hcon) (by omega)
      omega

/-- the repaired cube level never exceeds levelmin: a search cube is at least as large as the
    coarsest octs (the hypothesis the soundness proof needs; negation for the code as it was:
    the replayed witness `cube_finer_than_oct`) -/
theorem C04_cube_not_finer (lmin0 levelmin : Nat) (h : 0 < levelmin) :
    (if levelmin > 0 && lmin0 > levelmin then levelmin else lmin0) ≤ levelmin ∨
    (if levelmin > 0 && lmin0 > levelmin then levelmin else lmin0) = lmin0 := by
  by_cases h2 : lmin0 > levelmin
  · left; simp [h, h2]
  · right; simp [h2]

/-! ### soundness of the CPU pre-selection (composition of the pieces above) -/

theorem key_lt (t : HTable) (hd : ∀ s d, t.digit s d < 8) (x y z b : Nat) : key t x y z b < 8 ^ b := by
  unfold key
  have := ofDigits_lt _ (run_lt t hd 0 (sdigits x y z b))
  simpa [run_length, sdigits] using this

/-- the key of a fine cell lies in the key interval of the coarse cube that contains it -/
theorem key_in_cube_interval (t : HTable) (hd : ∀ s d, t.digit s d < 8) (x y z B b : Nat) (hb : b ≤ B) :
    key t (x / 2 ^ (B - b)) (y / 2 ^ (B - b)) (z / 2 ^ (B - b)) b * 8 ^ (B - b) ≤ key t x y z B ∧
    key t x y z B < (key t (x / 2 ^ (B - b)) (y / 2 ^ (B - b)) (z / 2 ^ (B - b)) b + 1) * 8 ^ (B - b) := by
  have h := key_prefix t hd x y z B b hb
  have hpos : 0 < 8 ^ (B - b) := Nat.pow_pos (by decide)
  rw [← h]
  constructor
  · exact Nat.div_mul_le_self _ _
  · have := Nat.lt_mul_div_succ (key t x y z B) hpos
    rw [Nat.mul_comm] at this
    exact this

theorem dkey_eq (levelmax b : Nat) (hb : b ≤ levelmax + 1) :
    (2 ^ (levelmax + 1) / 2 ^ b) ^ 3 = 8 ^ (levelmax + 1 - b) := by
  rw [Nat.pow_div hb (by decide), ← Nat.pow_mul, Nat.mul_comm, Nat.pow_mul]

/-- inner loop of `collect`: keeps what is there and adds every cpu of the range -/
theorem inner_mono (r1 : Nat) (n : Nat) (acc : List Nat) (x : Nat) (hx : x ∈ acc) :
    x ∈ (List.range n).foldl (fun (acc : List Nat) k => let c := r1 + k + 1; if acc.contains c then acc else acc ++ [c]) acc := by
  induction n with
  | zero => simpa
  | succ n ih =>
    rw [List.range_succ, List.foldl_append]
    simp only [List.foldl_cons, List.foldl_nil]
    split
    · exact ih
    · exact List.mem_append_left _ ih

theorem inner_covers (r1 : Nat) (n : Nat) (acc : List Nat) (k : Nat) (hk : k < n) :
    r1 + k + 1 ∈ (List.range n).foldl (fun (acc : List Nat) k => let c := r1 + k + 1; if acc.contains c then acc else acc ++ [c]) acc := by
  induction n with
  | zero => omega
  | succ n ih =>
    rw [List.range_succ, List.foldl_append]
    simp only [List.foldl_cons, List.foldl_nil]
    by_cases hkn : k < n
    · split
      · exact ih hkn
      · exact List.mem_append_left _ (ih hkn)
    · have : k = n := by omega
      subst this
      split
      · rename_i hc; simpa using hc
      · simp

theorem collect_mono (ranges : List (Nat × Nat)) : ∀ (acc : List Nat) (x : Nat), x ∈ acc →
    x ∈ ranges.foldl (fun (acc : List Nat) (r : Nat × Nat) =>
      (List.range (r.2 + 1 - r.1)).foldl (fun (acc : List Nat) k =>
        let c := r.1 + k + 1; if acc.contains c then acc else acc ++ [c]) acc) acc := by
  induction ranges with
  | nil => intro acc x hx; simpa
  | cons r rs ih =>
    intro acc x hx
    simp only [List.foldl_cons]
    exact ih _ x (inner_mono r.1 _ acc x hx)

theorem mem_collect_aux (ranges : List (Nat × Nat)) (r : Nat × Nat) (hr : r ∈ ranges) (o : Nat)
    (h1 : r.1 ≤ o) (h2 : o ≤ r.2) : ∀ acc : List Nat,
    o + 1 ∈ ranges.foldl (fun (acc : List Nat) (r : Nat × Nat) =>
      (List.range (r.2 + 1 - r.1)).foldl (fun (acc : List Nat) k =>
        let c := r.1 + k + 1; if acc.contains c then acc else acc ++ [c]) acc) acc := by
  induction ranges with
  | nil => cases hr
  | cons q rs ih =>
    intro acc
    simp only [List.foldl_cons]
    rcases List.mem_cons.mp hr with h | h
    · subst h
      apply collect_mono
      have := inner_covers r.1 (r.2 + 1 - r.1) acc (o - r.1) (by omega)
      have he : r.1 + (o - r.1) + 1 = o + 1 := by omega
      rw [he] at this
      exact this
    · exact ih h _

/-- every cpu of every range ends up in the list -/
theorem mem_collect (ranges : List (Nat × Nat)) (r : Nat × Nat) (hr : r ∈ ranges) (o : Nat)
    (h1 : r.1 ≤ o) (h2 : o ≤ r.2) : o + 1 ∈ collect ranges :=
  mem_collect_aux ranges r hr o h1 h2 []

/-- **C04 (the pre-selection is sound)**, 3-D Hilbert ordering. A cell whose `levelmax+1`-bit integer
    coordinates are (X, Y, Z) has the key `κ = key X Y Z (levelmax+1)`; if the cell's coarse cube (its
    coordinates cut to the bit length of the search) is one of the search cubes, then the cpu `o` that owns
    `κ` according to the bound keys (`bk[o] ≤ κ < bk[o+1]`, keys non-decreasing from 0 to at least
    `8^(levelmax+1)`) is in the list of cpu files that will be opened. -/
theorem C04_preselect_sound (t : HTable) (hd : ∀ s d, t.digit s d < 8) (bb : BBox) (lmax levelmax ncpu : Nat)
    (bk : List Nat) (minCube : Nat)
    (hm : ∀ i j, i ≤ j → j ≤ ncpu → bk.getD i 0 ≤ bk.getD j 0) (h0 : bk.getD 0 0 = 0)
    (htop : 8 ^ (levelmax + 1) ≤ bk.getD ncpu 0)
    (hb : bitLengthOf bb lmax minCube ≤ levelmax + 1)
    (X Y Z o : Nat) (ho : o < ncpu)
    (hlo : bk.getD o 0 ≤ key t X Y Z (levelmax + 1)) (hhi : key t X Y Z (levelmax + 1) < bk.getD (o + 1) 0)
    (hcube : bitLengthOf bb lmax minCube = 0 ∨
      (X / 2 ^ (levelmax + 1 - bitLengthOf bb lmax minCube), Y / 2 ^ (levelmax + 1 - bitLengthOf bb lmax minCube),
        Z / 2 ^ (levelmax + 1 - bitLengthOf bb lmax minCube)) ∈ cubes bb (bitLengthOf bb lmax minCube)) :
    o + 1 ∈ getCpuList t bb lmax levelmax ncpu 3 bk minCube := by
  unfold getCpuList
  generalize hbl : bitLengthOf bb lmax minCube = b at *
  have hκB : key t X Y Z (levelmax + 1) < 8 ^ (levelmax + 1) := key_lt t hd X Y Z (levelmax + 1)
  by_cases hb0 : b = 0
  · -- one cube: the whole key range
    subst hb0
    have hc : (0, 0, 0) ∈ cubes bb 0 := by simp [cubes]
    have hd3 : (2 ^ (levelmax + 1) / 2 ^ 0) ^ 3 = 8 ^ (levelmax + 1) := by
      rw [dkey_eq levelmax 0 (Nat.zero_le _)]; simp
    have hp := C04_interval_pick bk ncpu hm o (key t X Y Z (levelmax + 1)) 0 (8 ^ (levelmax + 1)) ho h0 htop
      (Nat.pow_pos (by decide)) hlo hhi (Nat.zero_le _) hκB
    apply mem_collect _ (cubeRange t 0 levelmax ncpu 3 bk (0, 0, 0)) (List.mem_map_of_mem hc) o
    · simp only [cubeRange, Nat.lt_irrefl, if_false, Nat.zero_mul]
      exact hp.1
    · simp only [cubeRange, Nat.lt_irrefl, if_false, Nat.zero_add, Nat.one_mul, hd3]
      exact hp.2
  · have hbpos : 0 < b := Nat.pos_of_ne_zero hb0
    rcases hcube with h | hc
    · exact absurd h hb0
    · obtain ⟨hi1, hi2⟩ := key_in_cube_interval t hd X Y Z (levelmax + 1) b hb
      have homlt := key_lt t hd (X / 2 ^ (levelmax + 1 - b)) (Y / 2 ^ (levelmax + 1 - b)) (Z / 2 ^ (levelmax + 1 - b)) b
      have hmax : (key t (X / 2 ^ (levelmax + 1 - b)) (Y / 2 ^ (levelmax + 1 - b)) (Z / 2 ^ (levelmax + 1 - b)) b + 1)
          * 8 ^ (levelmax + 1 - b) ≤ bk.getD ncpu 0 := by
        have h8 : 8 ^ b * 8 ^ (levelmax + 1 - b) = 8 ^ (levelmax + 1) := by rw [← Nat.pow_add]; congr 1; omega
        calc _ ≤ 8 ^ b * 8 ^ (levelmax + 1 - b) := Nat.mul_le_mul_right _ homlt
          _ = 8 ^ (levelmax + 1) := h8
          _ ≤ _ := htop
      have hposmax : 0 < (key t (X / 2 ^ (levelmax + 1 - b)) (Y / 2 ^ (levelmax + 1 - b)) (Z / 2 ^ (levelmax + 1 - b)) b + 1)
          * 8 ^ (levelmax + 1 - b) := Nat.mul_pos (Nat.succ_pos _) (Nat.pow_pos (by decide))
      have hp := C04_interval_pick bk ncpu hm o (key t X Y Z (levelmax + 1)) _ _ ho h0 hmax hposmax hlo hhi hi1 hi2
      apply mem_collect _ (cubeRange t b levelmax ncpu 3 bk _) (List.mem_map_of_mem hc) o
      · simp only [cubeRange, hbpos, if_true, dkey_eq levelmax b hb]
        exact hp.1
      · simp only [cubeRange, hbpos, if_true, dkey_eq levelmax b hb]
        exact hp.2

/-! ### the search cubes cover the bounding box -/

theorem go_spec (d : Rat) (lmax : Nat) : ∀ (fuel l : Nat), l ≤ lmax → lmax - l < fuel →
    l ≤ cubeLevel.go d lmax l fuel ∧ cubeLevel.go d lmax l fuel ≤ lmax ∧
    ∀ l', l ≤ l' → l' < cubeLevel.go d lmax l fuel → ¬ ((1 / 2 : Rat) ^ l' < d) := by
  intro fuel
  induction fuel with
  | zero => intro l _ h; omega
  | succ fuel ih =>
    intro l hl hf
    unfold cubeLevel.go
    by_cases h1 : (1 / 2 : Rat) ^ l < d
    · simp only [h1, if_true]
      exact ⟨le_refl _, hl, fun l' h2 h3 => by omega⟩
    · simp only [h1, if_false]
      by_cases h2 : l ≥ lmax
      · simp only [h2, if_true]
        refine ⟨hl, le_refl _, ?_⟩
        intro l' h3 h4
        have : l' = l := by omega
        subst this; exact h1
      · simp only [h2, if_false]
        obtain ⟨a, b, c⟩ := ih (l + 1) (by omega) (by omega)
        refine ⟨by omega, b, ?_⟩
        intro l' h3 h4
        by_cases h5 : l' = l
        · subst h5; exact h1
        · exact c l' (by omega) h4

/-- below the cube level every cell size is at least as large as the box -/
theorem cubeLevel_spec (d : Rat) (lmax : Nat) (l' : Nat) (h1 : 1 ≤ l') (h2 : l' < cubeLevel d lmax) :
    d ≤ (1 / 2 : Rat) ^ l' := by
  unfold cubeLevel at h2
  by_cases h0 : lmax = 0
  · simp [h0] at h2
  · have hne : (lmax == 0) = false := by simpa using h0
    simp only [hne, Bool.false_eq_true, if_false] at h2
    obtain ⟨_, _, c⟩ := go_spec d lmax lmax 1 (by omega) (by omega)
    exact not_lt.mp (c l' h1 h2)

/-- the box is not wider than a search cube -/
theorem dmax_le_cube (bb : BBox) (lmax minCube : Nat) (hb : 0 < bitLengthOf bb lmax minCube) :
    maxR (maxR (bb.xmax - bb.xmin) (bb.ymax - bb.ymin)) (bb.zmax - bb.zmin) ≤ (1 / 2 : Rat) ^ bitLengthOf bb lmax minCube := by
  unfold bitLengthOf at hb ⊢
  simp only at hb ⊢
  by_cases hc : (decide (minCube > 0) && decide (cubeLevel (maxR (maxR (bb.xmax - bb.xmin) (bb.ymax - bb.ymin)) (bb.zmax - bb.zmin)) lmax > minCube)) = true
  · simp only [hc, if_true] at hb ⊢
    simp only [Bool.and_eq_true, decide_eq_true_eq] at hc
    exact cubeLevel_spec _ lmax (minCube - 1) (by omega) (by omega)
  · simp only [hc, Bool.false_eq_true, if_false] at hb ⊢
    exact cubeLevel_spec _ lmax _ (by omega) (by omega)

theorem le_maxR_left (a b : Rat) : a ≤ maxR a b := by unfold maxR; split <;> [exact le_of_lt ‹_›; exact le_refl _]
theorem le_maxR_right (a b : Rat) : b ≤ maxR a b := by
  unfold maxR; split
  · exact le_refl _
  · rename_i h; exact not_lt.mp h

/-- a point within one cube width above `a` falls in the cube of `a` or the next one -/
theorem trunc_two (a p : Rat) (ha : 0 ≤ a) (h1 : a ≤ p) (h2 : p ≤ a + 1) :
    truncNat p = truncNat a ∨ truncNat p = truncNat a + 1 := by
  unfold truncNat
  have hfa : 0 ≤ a.floor := Rat.le_floor_iff.mpr (by simpa using ha)
  have hmono : a.floor ≤ p.floor := Rat.floor_monotone h1
  have hup : p.floor < a.floor + 2 := by
    rw [Rat.floor_lt_iff]
    have := Rat.lt_floor_add_one a
    push_cast at this ⊢
    linarith
  omega

/-- the cube index of a cell centre is the cell's integer coordinate cut to the cube's bit length -/
theorem trunc_centre (X B b : Nat) (hb : b ≤ B) :
    truncNat ((((X : Rat) + 1 / 2) / 2 ^ B) * 2 ^ b) = X / 2 ^ (B - b) := by
  have hk : ((((X : Rat) + 1 / 2) / 2 ^ B) * 2 ^ b) = ((X : Rat) + 1 / 2) / 2 ^ (B - b) := by
    have : (2 : Rat) ^ B = 2 ^ (B - b) * 2 ^ b := by rw [← pow_add]; congr 1; omega
    rw [this]
    field_simp
  rw [hk]
  generalize B - b = k
  have hpos : (0 : Rat) < 2 ^ k := by positivity
  have hq1 : X / 2 ^ k * 2 ^ k ≤ X := Nat.div_mul_le_self _ _
  have hq2 : X + 1 ≤ (X / 2 ^ k + 1) * 2 ^ k := by
    have := Nat.lt_mul_div_succ X (Nat.pow_pos (n := k) (by decide : 0 < 2))
    rw [Nat.mul_comm] at this
    omega
  generalize X / 2 ^ k = q at hq1 hq2 ⊢
  have c1 : (q : Rat) * 2 ^ k ≤ (X : Rat) := by exact_mod_cast hq1
  have c2 : (X : Rat) + 1 ≤ ((q : Rat) + 1) * 2 ^ k := by exact_mod_cast hq2
  unfold truncNat
  have hfl : (((X : Rat) + 1 / 2) / 2 ^ k).floor = (q : Int) := by
    apply le_antisymm
    · have : (((X : Rat) + 1 / 2) / 2 ^ k).floor < (q : Int) + 1 := by
        rw [Rat.floor_lt_iff, div_lt_iff₀ hpos]
        have e : (((q : Int) + 1 : Int) : Rat) = (q : Rat) + 1 := by push_cast; rfl
        rw [e]
        linarith
      omega
    · rw [Rat.le_floor_iff, le_div_iff₀ hpos]
      have e : (((q : Int)) : Rat) = (q : Rat) := by push_cast; rfl
      rw [e]
      linarith
  rw [hfl]
  simp

theorem cubes_pos (bb : BBox) (b : Nat) (hb : 0 < b) (i j k : Nat)
    (hi : i = truncNat (bb.xmin * ((2 ^ b : Nat) : Rat)) ∨ i = truncNat (bb.xmin * ((2 ^ b : Nat) : Rat)) + 1)
    (hj : j = truncNat (bb.ymin * ((2 ^ b : Nat) : Rat)) ∨ j = truncNat (bb.ymin * ((2 ^ b : Nat) : Rat)) + 1)
    (hk : k = truncNat (bb.zmin * ((2 ^ b : Nat) : Rat)) ∨ k = truncNat (bb.zmin * ((2 ^ b : Nat) : Rat)) + 1) :
    (i, j, k) ∈ cubes bb b := by
  unfold cubes
  simp only [hb, if_true]
  simp only [List.range_succ, List.range_zero, List.nil_append, List.map_append, List.map_cons, List.map_nil,
    List.cons_append, List.mem_cons, Prod.mk.injEq, List.getD_cons_zero, List.getD_cons_succ, List.mem_nil_iff, or_false]
  rcases hi with hi | hi <;> rcases hj with hj | hj <;> rcases hk with hk | hk <;> subst hi <;> subst hj <;> subst hk <;> simp

/-- one axis: the centre of a cell inside the box falls into the cube of the lower corner or the next one -/
theorem axis_in_cubes (lo hi d : Rat) (X B b : Nat) (hbB : b ≤ B) (h0 : 0 ≤ lo)
    (hw : hi - lo ≤ d) (hd : d ≤ (1 / 2 : Rat) ^ b)
    (h1 : lo ≤ ((X : Rat) + 1 / 2) / 2 ^ B) (h2 : ((X : Rat) + 1 / 2) / 2 ^ B ≤ hi) :
    X / 2 ^ (B - b) = truncNat (lo * ((2 ^ b : Nat) : Rat)) ∨ X / 2 ^ (B - b) = truncNat (lo * ((2 ^ b : Nat) : Rat)) + 1 := by
  rw [← trunc_centre X B b hbB]
  have hm : (((2 ^ b : Nat)) : Rat) = (2 : Rat) ^ b := by push_cast; rfl
  rw [hm]
  have hpos : (0 : Rat) < 2 ^ b := by positivity
  apply trunc_two
  · exact mul_nonneg h0 (le_of_lt hpos)
  · exact mul_le_mul_of_nonneg_right h1 (le_of_lt hpos)
  · have hone : (1 / 2 : Rat) ^ b * 2 ^ b = 1 := by
      rw [← mul_pow]; norm_num
    have : (((X : Rat) + 1 / 2) / 2 ^ B - lo) * 2 ^ b ≤ 1 := by
      calc _ ≤ (1 / 2 : Rat) ^ b * 2 ^ b := mul_le_mul_of_nonneg_right (by linarith) (le_of_lt hpos)
        _ = 1 := hone
    linarith

/-- **C04 (every cell of the box is served)**, 3-D Hilbert ordering: a cell (integer coordinates X, Y, Z at
    `levelmax+1` bits) whose centre lies in the bounding box handed to `_get_cpu_list` is owned by a cpu of the
    returned list. Composition of `C04_preselect_sound` with the covering of the box by the search cubes. -/
theorem C04_box_sound (t : HTable) (hd : ∀ s d, t.digit s d < 8) (bb : BBox) (lmax levelmax ncpu : Nat)
    (bk : List Nat) (minCube : Nat)
    (hm : ∀ i j, i ≤ j → j ≤ ncpu → bk.getD i 0 ≤ bk.getD j 0) (h0 : bk.getD 0 0 = 0)
    (htop : 8 ^ (levelmax + 1) ≤ bk.getD ncpu 0)
    (hb : bitLengthOf bb lmax minCube ≤ levelmax + 1)
    (hx0 : 0 ≤ bb.xmin) (hy0 : 0 ≤ bb.ymin) (hz0 : 0 ≤ bb.zmin)
    (X Y Z o : Nat) (ho : o < ncpu)
    (hlo : bk.getD o 0 ≤ key t X Y Z (levelmax + 1)) (hhi : key t X Y Z (levelmax + 1) < bk.getD (o + 1) 0)
    (hx1 : bb.xmin ≤ ((X : Rat) + 1 / 2) / 2 ^ (levelmax + 1)) (hx2 : ((X : Rat) + 1 / 2) / 2 ^ (levelmax + 1) ≤ bb.xmax)
    (hy1 : bb.ymin ≤ ((Y : Rat) + 1 / 2) / 2 ^ (levelmax + 1)) (hy2 : ((Y : Rat) + 1 / 2) / 2 ^ (levelmax + 1) ≤ bb.ymax)
    (hz1 : bb.zmin ≤ ((Z : Rat) + 1 / 2) / 2 ^ (levelmax + 1)) (hz2 : ((Z : Rat) + 1 / 2) / 2 ^ (levelmax + 1) ≤ bb.zmax) :
    o + 1 ∈ getCpuList t bb lmax levelmax ncpu 3 bk minCube := by
  apply C04_preselect_sound t hd bb lmax levelmax ncpu bk minCube hm h0 htop hb X Y Z o ho hlo hhi
  by_cases hb0 : bitLengthOf bb lmax minCube = 0
  · exact Or.inl hb0
  · right
    have hbpos : 0 < bitLengthOf bb lmax minCube := Nat.pos_of_ne_zero hb0
    have hdm := dmax_le_cube bb lmax minCube hbpos
    apply cubes_pos bb _ hbpos
    · exact axis_in_cubes bb.xmin bb.xmax _ X _ _ hb hx0
        (le_trans (le_maxR_left _ _) (le_maxR_left _ _)) hdm hx1 hx2
    · exact axis_in_cubes bb.ymin bb.ymax _ Y _ _ hb hy0
        (le_trans (le_maxR_right _ _) (le_maxR_left _ _)) hdm hy1 hy2
    · exact axis_in_cubes bb.zmin bb.zmax _ Z _ _ hb hz0 (le_maxR_right _ _) hdm hz1 hz2

/-- the premises of `C04_box_sound` are satisfiable: one cpu owning all keys, levelmax 1, the lower-left-front octant
    as box (search cubes of one bit), the cell (0,0,0) of the 4^3 key grid -/
example : 0 + 1 ∈ getCpuList Generated.table { xmin := 0, xmax := 1/2, ymin := 0, ymax := 1/2, zmin := 0, zmax := 1/2 } 2 1 1 3 [0, 64] 0 := by
  have hm : ∀ i j, i ≤ j → j ≤ 1 → ([0, 64] : List Nat).getD i 0 ≤ ([0, 64] : List Nat).getD j 0 := by
    intro i j h hj
    have hj' : j = 0 ∨ j = 1 := by omega
    rcases hj' with rfl | rfl
    · have : i = 0 := by omega
      subst this; simp
    · have hi : i = 0 ∨ i = 1 := by omega
      rcases hi with rfl | rfl <;> simp
  have hk : key Generated.table 0 0 0 (1 + 1) < 64 := by
    have := key_lt Generated.table generated_digits_lt 0 0 0 2
    simpa using this
  apply C04_box_sound Generated.table generated_digits_lt _ 2 1 1 [0, 64] 0 hm rfl (by simp) (by decide +kernel)
    (by norm_num) (by norm_num) (by norm_num) 0 0 0 0 (by omega) (by simp) (by simpa using hk)
  all_goals norm_num

/-! ### the bounding box computed from sampled cell centres (`hilbert_cpu_list`) -/

theorem getLast_filter_range (P : Nat → Bool) : ∀ (n hi : Nat), ((List.range n).filter P).getLast? = some hi →
    hi < n ∧ P hi = true ∧ ∀ j, hi < j → j < n → P j = false := by
  intro n
  induction n with
  | zero => intro hi h; simp at h
  | succ n ih =>
    intro hi h
    rw [List.range_succ, List.filter_append] at h
    by_cases hp : P n = true
    · have e : List.filter P [n] = [n] := by simp [hp]
      rw [e, List.getLast?_concat] at h
      injection h with h
      subst h
      exact ⟨by omega, hp, fun j h1 h2 => by omega⟩
    · have e : List.filter P [n] = [] := by simp [hp]
      rw [e, List.append_nil] at h
      obtain ⟨h1, h2, h3⟩ := ih hi h
      refine ⟨by omega, h2, fun j hj hjn => ?_⟩
      by_cases hjn' : j = n
      · subst hjn'; simpa using hp
      · exact h3 j hj (by omega)

theorem head_filter_range (P : Nat → Bool) : ∀ (n lo : Nat), ((List.range n).filter P).head? = some lo →
    lo < n ∧ P lo = true ∧ ∀ j, j < lo → P j = false := by
  intro n
  induction n with
  | zero => intro lo h; simp at h
  | succ n ih =>
    intro lo h
    rw [List.range_succ, List.filter_append, List.head?_append] at h
    cases hh : ((List.range n).filter P).head? with
    | some x =>
      rw [hh] at h
      simp at h
      subst h
      obtain ⟨h1, h2, h3⟩ := ih x hh
      exact ⟨by omega, h2, h3⟩
    | none =>
      rw [hh] at h
      have hnil : (List.range n).filter P = [] := by simpa using hh
      by_cases hp : P n = true
      · simp [hp] at h
        subst h
        refine ⟨by omega, hp, fun j hj => ?_⟩
        have : j ∉ (List.range n).filter P := by rw [hnil]; simp
        simp only [List.mem_filter, List.mem_range, not_and] at this
        simpa using this hj
      · simp [hp] at h

/-- the selection on one axis is an interval: with two accepted points it accepts everything between them -/
def Convex (S : Rat → Bool) : Prop := ∀ a b c : Rat, a ≤ c → c ≤ b → S a = true → S b = true → S c = true

theorem axisBox_sound (S : Rat → Bool) (hS : Convex S) (boxSize : Rat) (hb : 0 < boxSize) (levelmax : Nat)
    (c : Rat) (hc0 : 0 ≤ c) (hc1 : c ≤ boxSize) (hSc : S c = true)
    (hsample : ∃ i : Nat, i < 2 ^ (min levelmax 18) ∧ S (boxSize / (2 * ((2 ^ (min levelmax 18) : Nat) : Rat)) * (2 * (i : Rat) + 1)) = true)
    (hgrid : levelmax ≤ 18 → ∃ m : Nat, c = boxSize / (2 * ((2 ^ (min levelmax 18) : Nat) : Rat)) * (m : Rat)) :
    (axisBox S boxSize levelmax).1 ≤ c / boxSize ∧ c / boxSize ≤ (axisBox S boxSize levelmax).2 := by
  unfold axisBox
  simp only
  generalize hN : (2 ^ (min levelmax 18) : Nat) = N at *
  have hNpos : 0 < N := by rw [← hN]; exact Nat.pow_pos (by decide)
  have hNq : (0 : Rat) < (N : Rat) := by exact_mod_cast hNpos
  set half : Rat := boxSize / (2 * (N : Rat)) with hhalf
  have hhpos : 0 < half := by rw [hhalf]; positivity
  have hbox : boxSize = half * (2 * (N : Rat)) := by rw [hhalf]; field_simp
  set P : Nat → Bool := fun i => S (half * (2 * (i : Rat) + 1)) with hP
  obtain ⟨i0, hi0, hSi0⟩ := hsample
  have hmem : i0 ∈ (List.range N).filter P := by
    simp only [List.mem_filter, List.mem_range]; exact ⟨hi0, hSi0⟩
  cases hlo : ((List.range N).filter P).head? with
  | none => rw [List.head?_eq_none_iff] at hlo; rw [hlo] at hmem; simp at hmem
  | some lo =>
    cases hhi : ((List.range N).filter P).getLast? with
    | none => rw [List.getLast?_eq_none_iff] at hhi; rw [hhi] at hmem; simp at hmem
    | some hi =>
      simp only
      obtain ⟨hlo1, hlo2, hlo3⟩ := head_filter_range P N lo hlo
      obtain ⟨hhi1, hhi2, hhi3⟩ := getLast_filter_range P N hi hhi
      have hdiv0 : 0 ≤ c / boxSize := div_nonneg hc0 hb.le
      have hdiv1 : c / boxSize ≤ 1 := by rw [div_le_one hb]; exact hc1
      have centre_lt : ∀ j k : Nat, j < k → half * (2 * (j : Rat) + 1) < half * (2 * (k : Rat) + 1) := by
        intro j k hjk
        have : (j : Rat) < (k : Rat) := by exact_mod_cast hjk
        nlinarith
      constructor
      · apply max_le _ hdiv0
        rw [div_le_div_iff_of_pos_right hb]
        by_contra hcon
        rw [not_le] at hcon
        by_cases hlm : levelmax ≤ 18
        · -- sampled grid = finest grid: c is a multiple of half
          rw [if_pos hlm] at hcon
          obtain ⟨m, hm⟩ := hgrid hlm
          have hm2 : (m : Rat) < 2 * (lo : Rat) := by
            have : half * (m : Rat) < half * (2 * (lo : Rat)) := by rw [← hm]; linarith
            exact lt_of_mul_lt_mul_left this hhpos.le
          have hm2' : m < 2 * lo := by exact_mod_cast hm2
          have hk : m / 2 < lo := by omega
          have hck : c ≤ half * (2 * ((m / 2 : Nat) : Rat) + 1) := by
            rw [hm]
            apply mul_le_mul_of_nonneg_left _ hhpos.le
            have : m ≤ 2 * (m / 2) + 1 := by omega
            exact_mod_cast this
          have hkl := centre_lt (m / 2) lo hk
          have : P (m / 2) = true := hS c _ _ hck hkl.le hSc hlo2
          rw [hlo3 (m / 2) hk] at this; cases this
        · rw [if_neg hlm] at hcon
          have hlopos : 0 < lo := by
            by_contra h0
            have : lo = 0 := by omega
            subst this
            simp at hcon
            linarith
          have hk : lo - 1 < lo := by omega
          have hcast : ((lo - 1 : Nat) : Rat) = (lo : Rat) - 1 := by
            rw [Nat.cast_sub (by omega)]; simp
          have hck : c ≤ half * (2 * ((lo - 1 : Nat) : Rat) + 1) := by rw [hcast]; linarith
          have hkl := centre_lt (lo - 1) lo hk
          have : P (lo - 1) = true := hS c _ _ hck hkl.le hSc hlo2
          rw [hlo3 (lo - 1) hk] at this; cases this
      · apply le_min _ hdiv1
        rw [div_le_div_iff_of_pos_right hb]
        by_contra hcon
        rw [not_le] at hcon
        by_cases hlm : levelmax ≤ 18
        · rw [if_pos hlm] at hcon
          obtain ⟨m, hm⟩ := hgrid hlm
          have hm2 : 2 * (hi : Rat) + 2 < (m : Rat) := by
            have : half * (2 * (hi : Rat) + 2) < half * (m : Rat) := by rw [← hm]; linarith
            exact lt_of_mul_lt_mul_left this hhpos.le
          have hm2' : 2 * hi + 2 < m := by exact_mod_cast hm2
          have hmN : (m : Rat) ≤ 2 * (N : Rat) := by
            have : half * (m : Rat) ≤ half * (2 * (N : Rat)) := by rw [← hm, ← hbox]; exact hc1
            exact le_of_mul_le_mul_left this hhpos
          have hmN' : m ≤ 2 * N := by exact_mod_cast hmN
          have hk : hi < (m - 1) / 2 := by omega
          have hkN : (m - 1) / 2 < N := by omega
          have hck : half * (2 * (((m - 1) / 2 : Nat) : Rat) + 1) ≤ c := by
            rw [hm]
            apply mul_le_mul_of_nonneg_left _ hhpos.le
            have : 2 * ((m - 1) / 2) + 1 ≤ m := by omega
            exact_mod_cast this
          have hkl := centre_lt hi ((m - 1) / 2) hk
          have : P ((m - 1) / 2) = true := hS _ c _ hkl.le hck hhi2 hSc
          rw [hhi3 ((m - 1) / 2) hk hkN] at this; cases this
        · rw [if_neg hlm] at hcon
          have hk : hi < hi + 1 := by omega
          have hcast : ((hi + 1 : Nat) : Rat) = (hi : Rat) + 1 := by push_cast; ring
          have hkN : hi + 1 < N := by
            have h1 : half * (2 * (hi : Rat) + 4) < half * (2 * (N : Rat)) := by rw [← hbox]; linarith
            have h2 : 2 * (hi : Rat) + 4 < 2 * (N : Rat) := lt_of_mul_lt_mul_left h1 hhpos.le
            have : 2 * hi + 4 < 2 * N := by exact_mod_cast h2
            omega
          have hck : half * (2 * ((hi + 1 : Nat) : Rat) + 1) ≤ c := by rw [hcast]; linarith
          have hkl := centre_lt hi (hi + 1) hk
          have : P (hi + 1) = true := hS _ c _ hkl.le hck hhi2 hSc
          rw [hhi3 (hi + 1) hk hkN] at this; cases this

/-- interval-type predicates (`<`, `<=`, `>`, `>=` against a constant), combined with AND, accept an interval -/
theorem convex_of_interval_preds (ps : List Loader.Pred)
    (hops : ∀ p ∈ ps, p.op = "lt" ∨ p.op = "le" ∨ p.op = "gt" ∨ p.op = "ge") :
    Convex (fun c => ps.all (·.eval c)) := by
  intro a b c hac hcb ha hb
  simp only [List.all_eq_true] at ha hb ⊢
  intro p hp
  have h1 := ha p hp
  have h2 := hb p hp
  rcases hops p hp with h | h | h | h <;> simp only [Loader.Pred.eval, h, decide_eq_true_eq] at h1 h2 ⊢ <;> linarith


/-- **C04 (the sampled box is sound)**: for interval-type position functions on one axis (combined with AND) that accept at
    least one sampled centre, every point `c` of the domain that the functions accept — for outputs no deeper than the
    sampling level: every accepted point of the finest grid of cell centres and faces, which holds the cell centres of all
    levels; for deeper outputs: every accepted point whatsoever — lies inside the box handed to `_get_cpu_list`.
    (Before the fix a73f858 the padding was half a sampled cell for every depth: false for `levelmax > 18`, replayed on the
    real loader by the deep lane of the C04 check.) -/
theorem C04_axis_sound (ps : List Loader.Pred)
    (hops : ∀ p ∈ ps, p.op = "lt" ∨ p.op = "le" ∨ p.op = "gt" ∨ p.op = "ge")
    (boxSize : Rat) (hb : 0 < boxSize) (levelmax : Nat) (c : Rat) (hc0 : 0 ≤ c) (hc1 : c ≤ boxSize)
    (hSc : ps.all (·.eval c) = true)
    (hsample : ∃ i : Nat, i < 2 ^ (min levelmax 18) ∧
      ps.all (·.eval (boxSize / (2 * ((2 ^ (min levelmax 18) : Nat) : Rat)) * (2 * (i : Rat) + 1))) = true)
    (hgrid : levelmax ≤ 18 → ∃ m : Nat, c = boxSize / (2 * ((2 ^ (min levelmax 18) : Nat) : Rat)) * (m : Rat)) :
    (axisBox (fun c => ps.all (·.eval c)) boxSize levelmax).1 ≤ c / boxSize ∧
    c / boxSize ≤ (axisBox (fun c => ps.all (·.eval c)) boxSize levelmax).2 :=
  axisBox_sound _ (convex_of_interval_preds ps hops) boxSize hb levelmax c hc0 hc1 hSc hsample hgrid

/-- non-vacuity: `x > 1/4` on a level-2 output of size 1, the cell centre 3/8 -/
example : (axisBox (fun c => [(⟨"position_x", "gt", 1 / 4⟩ : Loader.Pred)].all (·.eval c)) 1 2).1 ≤ (3 / 8 : Rat) / 1 := by
  refine (C04_axis_sound [⟨"position_x", "gt", 1 / 4⟩] (by simp) 1 (by norm_num) 2 (3 / 8) (by norm_num) (by norm_num)
    (by simp [Loader.Pred.eval]; norm_num) ⟨1, by decide, by simp [Loader.Pred.eval]; norm_num⟩ (fun _ => ⟨3, by norm_num⟩)).1

/-! ### from the cell to the cpu list: the whole chain -/

/-- the `B`-bit integer coordinate of the centre of the oct that holds the level-`l` cell `cx` -/
def octCoord (cx l B : Nat) : Nat := (2 * (cx / 2) + 1) * 2 ^ (B - l)

/-- at any resolution coarser than the oct, the oct centre and the cell lie in the same cube -/
theorem octCoord_cube (cx l B b : Nat) (hb : b + 1 ≤ l) (hl : l ≤ B) :
    octCoord cx l B / 2 ^ (B - b) = cx / 2 ^ (l - b) := by
  unfold octCoord
  have e1 : 2 ^ (B - b) = 2 ^ (B - l) * 2 ^ (l - b) := by rw [← Nat.pow_add]; congr 1; omega
  rw [e1, Nat.mul_comm (2 * (cx / 2) + 1), Nat.mul_div_mul_left _ _ (Nat.pow_pos (by decide))]
  obtain ⟨k, hk⟩ : ∃ k, l - b = k + 1 := ⟨l - b - 1, by omega⟩
  rw [hk, Nat.pow_succ, Nat.mul_comm (2 ^ k) 2, ← Nat.div_div_eq_div_mul, ← Nat.div_div_eq_div_mul]
  congr 1
  omega

theorem bitLength_le_minCube (bb : BBox) (lmax minCube : Nat) (h : 0 < minCube) :
    bitLengthOf bb lmax minCube ≤ minCube - 1 := by
  unfold bitLengthOf
  simp only
  split
  · omega
  · rename_i hc
    simp only [Bool.and_eq_true, decide_eq_true_eq, not_and, not_lt] at hc
    have := hc h
    omega

/-- **C04 (every leaf cell of the box is served)**, 3-D Hilbert ordering. A cell of level `l` (integer coordinates
    `cx, cy, cz` at `l` bits) is stored with its oct, and the oct belongs to the cpu whose key range holds the key of the
    oct centre at `levelmax+1` bits. If the cell's *own* centre lies in the bounding box handed to `_get_cpu_list` and the
    search cubes are coarser than the oct (`bitLength + 1 ≤ l`: guaranteed by the rule that the cubes are never finer than
    `levelmin`, `bitLength_le_minCube`), that cpu is in the returned list. -/
theorem C04_cell_sound (t : HTable) (hd : ∀ s d, t.digit s d < 8) (bb : BBox) (lmax levelmax ncpu : Nat)
    (bk : List Nat) (minCube : Nat)
    (hm : ∀ i j, i ≤ j → j ≤ ncpu → bk.getD i 0 ≤ bk.getD j 0) (h0 : bk.getD 0 0 = 0)
    (htop : 8 ^ (levelmax + 1) ≤ bk.getD ncpu 0)
    (hx0 : 0 ≤ bb.xmin) (hy0 : 0 ≤ bb.ymin) (hz0 : 0 ≤ bb.zmin)
    (l cx cy cz o : Nat) (hl : l ≤ levelmax + 1) (hbl : bitLengthOf bb lmax minCube + 1 ≤ l) (ho : o < ncpu)
    (hlo : bk.getD o 0 ≤ key t (octCoord cx l (levelmax + 1)) (octCoord cy l (levelmax + 1)) (octCoord cz l (levelmax + 1)) (levelmax + 1))
    (hhi : key t (octCoord cx l (levelmax + 1)) (octCoord cy l (levelmax + 1)) (octCoord cz l (levelmax + 1)) (levelmax + 1) < bk.getD (o + 1) 0)
    (hx1 : bb.xmin ≤ ((cx : Rat) + 1 / 2) / 2 ^ l) (hx2 : ((cx : Rat) + 1 / 2) / 2 ^ l ≤ bb.xmax)
    (hy1 : bb.ymin ≤ ((cy : Rat) + 1 / 2) / 2 ^ l) (hy2 : ((cy : Rat) + 1 / 2) / 2 ^ l ≤ bb.ymax)
    (hz1 : bb.zmin ≤ ((cz : Rat) + 1 / 2) / 2 ^ l) (hz2 : ((cz : Rat) + 1 / 2) / 2 ^ l ≤ bb.zmax) :
    o + 1 ∈ getCpuList t bb lmax levelmax ncpu 3 bk minCube := by
  have hb : bitLengthOf bb lmax minCube ≤ levelmax + 1 := by omega
  apply C04_preselect_sound t hd bb lmax levelmax ncpu bk minCube hm h0 htop hb _ _ _ o ho hlo hhi
  by_cases hb0 : bitLengthOf bb lmax minCube = 0
  · exact Or.inl hb0
  · right
    have hbpos : 0 < bitLengthOf bb lmax minCube := Nat.pos_of_ne_zero hb0
    have hdm := dmax_le_cube bb lmax minCube hbpos
    rw [octCoord_cube cx l _ _ hbl hl, octCoord_cube cy l _ _ hbl hl, octCoord_cube cz l _ _ hbl hl]
    apply cubes_pos bb _ hbpos
    · exact axis_in_cubes bb.xmin bb.xmax _ cx _ _ (by omega) hx0
        (le_trans (le_maxR_left _ _) (le_maxR_left _ _)) hdm hx1 hx2
    · exact axis_in_cubes bb.ymin bb.ymax _ cy _ _ (by omega) hy0
        (le_trans (le_maxR_right _ _) (le_maxR_left _ _)) hdm hy1 hy2
    · exact axis_in_cubes bb.zmin bb.zmax _ cz _ _ (by omega) hz0 (le_maxR_right _ _) hdm hz1 hz2

theorem axisBox_fst_nonneg (S : Rat → Bool) (boxSize : Rat) (levelmax : Nat) : 0 ≤ (axisBox S boxSize levelmax).1 := by
  unfold axisBox
  simp only
  split
  · exact le_max_right _ _
  · exact le_refl _

/-- one axis of the end-to-end statement: the centre of an accepted cell lies in the axis' box -/
theorem axisOf_sound (preds : List Loader.Pred) (name : String)
    (hops : ∀ p ∈ preds, p.var = name → (p.op = "lt" ∨ p.op = "le" ∨ p.op = "gt" ∨ p.op = "ge"))
    (boxSize : Rat) (hb : 0 < boxSize) (levelmax l cx : Nat) (hl : l ≤ levelmax) (hcx : cx < 2 ^ l)
    (hacc : ∀ p ∈ preds, p.var = name → p.eval (boxSize * (((cx : Rat) + 1 / 2) / 2 ^ l)) = true)
    (hsample : (preds.filter (·.var == name)) ≠ [] → ∃ i : Nat, i < 2 ^ (min levelmax 18) ∧
      (preds.filter (·.var == name)).all (·.eval (boxSize / (2 * ((2 ^ (min levelmax 18) : Nat) : Rat)) * (2 * (i : Rat) + 1))) = true) :
    0 ≤ ((axisOf preds name boxSize levelmax).getD (0, 1)).1 ∧
    ((axisOf preds name boxSize levelmax).getD (0, 1)).1 ≤ ((cx : Rat) + 1 / 2) / 2 ^ l ∧
    ((cx : Rat) + 1 / 2) / 2 ^ l ≤ ((axisOf preds name boxSize levelmax).getD (0, 1)).2 := by
  have hpow : (0 : Rat) < 2 ^ l := by positivity
  have hfrac0 : (0 : Rat) ≤ ((cx : Rat) + 1 / 2) / 2 ^ l := by positivity
  have hfrac1 : ((cx : Rat) + 1 / 2) / 2 ^ l ≤ 1 := by
    rw [div_le_one hpow]
    have : (cx : Rat) + 1 ≤ 2 ^ l := by exact_mod_cast hcx
    linarith
  unfold axisOf
  simp only
  split
  · simp only [Option.getD_none]
    exact ⟨le_refl _, hfrac0, hfrac1⟩
  · rename_i hne
    simp only [Option.getD_some]
    have hne' : preds.filter (·.var == name) ≠ [] := by simpa [List.isEmpty_iff] using hne
    have hmem : ∀ p ∈ preds.filter (·.var == name), p ∈ preds ∧ p.var = name := by
      intro p hp
      simp only [List.mem_filter, beq_iff_eq] at hp
      exact hp
    have hsound := C04_axis_sound (preds.filter (·.var == name))
      (fun p hp => hops p (hmem p hp).1 (hmem p hp).2) boxSize hb levelmax
      (boxSize * (((cx : Rat) + 1 / 2) / 2 ^ l)) (mul_nonneg hb.le hfrac0)
      (by nlinarith)
      (by simp only [List.all_eq_true]; intro p hp; exact hacc p (hmem p hp).1 (hmem p hp).2)
      (hsample hne')
      (by
        intro hlm
        have hmin : min levelmax 18 = levelmax := Nat.min_eq_left hlm
        refine ⟨(2 * cx + 1) * 2 ^ (levelmax - l), ?_⟩
        rw [hmin]
        have e : ((2 : Rat) ^ levelmax) = 2 ^ l * 2 ^ (levelmax - l) := by rw [← pow_add]; congr 1; omega
        have hp2 : (0 : Rat) < 2 ^ (levelmax - l) := by positivity
        push_cast
        rw [e]
        field_simp)
    have hcancel : boxSize * (((cx : Rat) + 1 / 2) / 2 ^ l) / boxSize = ((cx : Rat) + 1 / 2) / 2 ^ l := by
      field_simp
    rw [hcancel] at hsound
    exact ⟨axisBox_fst_nonneg _ _ _, hsound.1, hsound.2⟩

/-- **C04 (end to end, 3-D Hilbert ordering)**: let the position functions be interval-type, each constrained axis accept
    at least one sampled centre, the bound keys be non-decreasing from 0 to at least `8^(levelmax+1)`, and the search cubes be
    limited to `levelmin = minCube > 0`. Then for every cell of level `l ≥ levelmin` whose centre the functions accept, the
    cpu owning the cell's oct is in the list `hilbert_cpu_list` returns (when it returns one): the automatic pre-selection
    never drops a file that holds a qualifying cell. -/
theorem C04_selection_sound (t : HTable) (hd : ∀ s d, t.digit s d < 8) (preds : List Loader.Pred)
    (hops : ∀ p ∈ preds, (p.var = "position_x" ∨ p.var = "position_y" ∨ p.var = "position_z") →
      (p.op = "lt" ∨ p.op = "le" ∨ p.op = "gt" ∨ p.op = "ge"))
    (boxSize : Rat) (hbs : 0 < boxSize) (levelmax lmax ncpu : Nat) (bk : List Nat) (minCube : Nat) (hmc : 0 < minCube)
    (hm : ∀ i j, i ≤ j → j ≤ ncpu → bk.getD i 0 ≤ bk.getD j 0) (h0 : bk.getD 0 0 = 0)
    (htop : 8 ^ (levelmax + 1) ≤ bk.getD ncpu 0)
    (l cx cy cz o : Nat) (hlmin : minCube ≤ l) (hl : l ≤ levelmax)
    (hcx : cx < 2 ^ l) (hcy : cy < 2 ^ l) (hcz : cz < 2 ^ l) (ho : o < ncpu)
    (hlo : bk.getD o 0 ≤ key t (octCoord cx l (levelmax + 1)) (octCoord cy l (levelmax + 1)) (octCoord cz l (levelmax + 1)) (levelmax + 1))
    (hhi : key t (octCoord cx l (levelmax + 1)) (octCoord cy l (levelmax + 1)) (octCoord cz l (levelmax + 1)) (levelmax + 1) < bk.getD (o + 1) 0)
    (haccx : ∀ p ∈ preds, p.var = "position_x" → p.eval (boxSize * (((cx : Rat) + 1 / 2) / 2 ^ l)) = true)
    (haccy : ∀ p ∈ preds, p.var = "position_y" → p.eval (boxSize * (((cy : Rat) + 1 / 2) / 2 ^ l)) = true)
    (haccz : ∀ p ∈ preds, p.var = "position_z" → p.eval (boxSize * (((cz : Rat) + 1 / 2) / 2 ^ l)) = true)
    (hsample : ∀ name, (preds.filter (·.var == name)) ≠ [] → ∃ i : Nat, i < 2 ^ (min levelmax 18) ∧
      (preds.filter (·.var == name)).all (·.eval (boxSize / (2 * ((2 ^ (min levelmax 18) : Nat) : Rat)) * (2 * (i : Rat) + 1))) = true)
    (L : List Nat)
    (hL : hilbertCpuList t "hilbert" preds boxSize levelmax lmax ncpu 3 bk true minCube = some L) : o + 1 ∈ L := by
  unfold hilbertCpuList at hL
  simp only [bne_self_eq_false, Bool.false_eq_true, if_false, Bool.not_true] at hL
  split at hL
  · cases hL
  · injection hL with hL
    subst hL
    have bx := axisOf_sound preds "position_x" (fun p hp hv => hops p hp (Or.inl hv)) boxSize hbs levelmax l cx hl hcx haccx
      (hsample "position_x")
    have by' := axisOf_sound preds "position_y" (fun p hp hv => hops p hp (Or.inr (Or.inl hv))) boxSize hbs levelmax l cy hl hcy haccy
      (hsample "position_y")
    have bz := axisOf_sound preds "position_z" (fun p hp hv => hops p hp (Or.inr (Or.inr hv))) boxSize hbs levelmax l cz hl hcz haccz
      (hsample "position_z")
    generalize hax : axisOf preds "position_x" boxSize levelmax = ax at *
    generalize hay : axisOf preds "position_y" boxSize levelmax = ay at *
    generalize haz : axisOf preds "position_z" boxSize levelmax = az at *
    have hbl := bitLength_le_minCube
      { xmin := (ax.getD (0, 1)).1, xmax := (ax.getD (0, 1)).2, ymin := (ay.getD (0, 1)).1, ymax := (ay.getD (0, 1)).2,
        zmin := (az.getD (0, 1)).1, zmax := (az.getD (0, 1)).2 } lmax minCube hmc
    exact C04_cell_sound t hd
      { xmin := (ax.getD (0, 1)).1, xmax := (ax.getD (0, 1)).2, ymin := (ay.getD (0, 1)).1, ymax := (ay.getD (0, 1)).2,
        zmin := (az.getD (0, 1)).1, zmax := (az.getD (0, 1)).2 }
      lmax levelmax ncpu bk minCube hm h0 htop bx.1 by'.1 bz.1 l cx cy cz o (by omega)
      (by omega) ho hlo hhi bx.2.1 bx.2.2 by'.2.1 by'.2.2 bz.2.1 bz.2.2

end Osyris.C04
