/-
C08  Unit conversion preserves the physical quantity; defined units have true values.
`C08_constants_true` mentions the table extracted from config/defaults.py and is re-proved on every run.
-/
import OsyrisModel
import OsyrisModel.Generated.Constants
import OsyrisModel.Reference.Constants
import OsyrisProofs.C02

namespace Osyris.C08
open Osyris Osyris.C02

/-- **C08 (conversion preserves the physical quantity)** -/
theorem C08_to_preserves_phys (a a' : ArrV) (u : U) (s : Bool) (hc : Consistent a.unit u)
    (hu : u.factor ≠ 0) (h : a.to u = .ok (a', s)) :
    a'.phys = a.phys ∧ a'.shape = a.shape ∧ a'.unit.dim = u.dim ∧ a'.unit.factor = u.factor := by
  obtain ⟨_, hdata, hf, hd, hs⟩ := to_spec a a' u s hc hu h
  refine ⟨?_, hs, hd, hf⟩
  unfold ArrV.phys
  rw [hdata, hf, List.map_map]
  apply List.map_congr_left
  intro x _
  simp only [Function.comp, U.ratio]
  field_simp

/-- `to` raises exactly when the dimensions differ (for a consistent catalogue) -/
theorem C08_to_raises_iff (a : ArrV) (u : U) (hsame : a.unit.same u = true → a.unit.dim = u.dim) :
    (∃ e, a.to u = .error e) ↔ a.unit.dim ≠ u.dim := by
  constructor
  · rintro ⟨e, he⟩; exact (to_err a u e he).2
  · intro hd
    refine ⟨.dimErr, ?_⟩
    unfold ArrV.to
    split
    · rename_i hs; exact absurd (hsame hs) hd
    · split
      · rfl
      · rename_i hconv; exact absurd (by simpa [U.convertible] using hconv) hd

/-- converting there and back reproduces the original values (exactly, over ℚ) -/
theorem C08_to_roundtrip (a b c : ArrV) (u : U) (s1 s2 : Bool)
    (hc1 : Consistent a.unit u) (hc2 : Consistent b.unit a.unit)
    (hu : u.factor ≠ 0) (ha : a.unit.factor ≠ 0)
    (h1 : a.to u = .ok (b, s1)) (h2 : b.to a.unit = .ok (c, s2)) :
    c.data = a.data ∧ c.phys = a.phys := by
  obtain ⟨_, hd1, hf1, _, _⟩ := to_spec a b u s1 hc1 hu h1
  obtain ⟨_, hd2, hf2, _, _⟩ := to_spec b c a.unit s2 hc2 ha h2
  have hdata : c.data = a.data := by
    rw [hd2, hd1, List.map_map]
    conv_rhs => rw [← List.map_id a.data]
    apply List.map_congr_left
    intro x _
    simp only [Function.comp, U.ratio, hf1, id]
    field_simp
  refine ⟨hdata, ?_⟩
  unfold ArrV.phys; rw [hdata, hf2]

/-- chains: a -> b -> c and a -> c give the same values -/
theorem C08_to_chain (a b c d : ArrV) (u v : U) (s1 s2 s3 : Bool)
    (hc1 : Consistent a.unit u) (hc2 : Consistent b.unit v) (hc3 : Consistent a.unit v)
    (hu : u.factor ≠ 0) (hv : v.factor ≠ 0)
    (h1 : a.to u = .ok (b, s1)) (h2 : b.to v = .ok (c, s2)) (h3 : a.to v = .ok (d, s3)) :
    c.data = d.data := by
  obtain ⟨_, hd1, hf1, _, _⟩ := to_spec a b u s1 hc1 hu h1
  obtain ⟨_, hd2, _, _, _⟩ := to_spec b c v s2 hc2 hv h2
  obtain ⟨_, hd3, _, _, _⟩ := to_spec a d v s3 hc3 hv h3
  rw [hd2, hd1, hd3, List.map_map]
  apply List.map_congr_left
  intro x _
  simp only [Function.comp, U.ratio, hf1]
  field_simp

/-- for a Vector the conversion applies identically to every component -/
theorem C08_vector_componentwise (v w : VecV) (u : U) (h : v.to u = .ok w) :
    ∃ cs, v.comps.mapM (·.toVal u) = .ok cs ∧
      w = VecV.rename { comps := cs, name := "" } "" := by
  unfold VecV.to VecV.mapComps at h
  simp only [bind, Except.bind] at h
  cases hm : v.comps.mapM (·.toVal u) with
  | error e => rw [hm] at h; cases h
  | ok cs =>
    rw [hm] at h
    simp only at h
    refine ⟨cs, rfl, ?_⟩
    unfold VecV.ofArrs at h
    split at h
    · cases h
    · split at h
      · cases h
      · split at h
        · cases h
        · split at h
          · cases h
          · cases h; rfl

/-- **C08 (defined units have true values)**: every constant defined by the current
    `config/defaults.py` agrees (name, unit, aliases, value within 1e-3) with the committed
    reference table, and none is missing.  Re-proved against the source on every run. -/
theorem C08_constants_true : Reference.tableOk Generated.constants = true := by
  decide +kernel

theorem C08_constants_each (c : Const) (h : c ∈ Generated.constants) : Reference.constOk c = true := by
  have := C08_constants_true
  unfold Reference.tableOk at this
  simp only [Bool.and_eq_true, List.all_eq_true] at this
  exact this.1 c h

end Osyris.C08
