/-
C08  Unit conversion preserves the physical quantity; defined units have true values.
`C08_constants_true` mentions the table extracted from config/defaults.py and is re-proved on every run.
-/
import OsyrisModel
import OsyrisModel.Generated.Constants
import OsyrisModel.Reference.Constants
import OsyrisProofs.C02
import OsyrisProofs.Lemmas.Sym

namespace Osyris.C08
open Osyris Osyris.C02

/-- **C08 (conversion preserves the physical quantity)** -/
theorem C08_to_preserves_phys (a a' : ArrV) (u : U) (s : Bool) (hc : Consistent a.unit u)
    (hu : u.factor ≠ 0) (h : a.to u = .ok (a', s)) :
    a'.phys = a.phys ∧ a'.shape = a.shape ∧ a'.unit.dim = u.dim ∧ a'.unit.factor = u.factor := by
  obtain ⟨_, hdata, hf, hd, hs⟩ := to_spec a a' u s hc hu h
  refine ⟨?_, hs, hd, hf⟩
  unfold ArrV.phys
  rw [hdata, hf, List.map_map]
  apply List.map_congr_left
  intro x _
  simp only [Function.comp, U.ratio]
  field_simp

/-- `to` raises exactly when the dimensions differ (for a consistent catalogue) -/
theorem C08_to_raises_iff (a : ArrV) (u : U) (hsame : a.unit.same u = true → a.unit.dim = u.dim) :
    (∃ e, a.to u = .error e) ↔ a.unit.dim ≠ u.dim := by
  constructor
  · rintro ⟨e, he⟩; exact (to_err a u e he).2
  · intro hd
    refine ⟨.dimErr, ?_⟩
    unfold ArrV.to
    split
    · rename_i hs; exact absurd (hsame hs) hd
    · split
      · rfl
      · rename_i hconv; exact absurd (by simpa [U.convertible] using hconv) hd

/-- converting there and back reproduces the original values (exactly, over ℚ) -/
theorem C08_to_roundtrip (a b c : ArrV) (u : U) (s1 s2 : Bool)
    (hc1 : Consistent a.unit u) (hc2 : Consistent b.unit a.unit)
    (hu : u.factor ≠ 0) (ha : a.unit.factor ≠ 0)
    (h1 : a.to u = .ok (b, s1)) (h2 : b.to a.unit = .ok (c, s2)) :
    c.data = a.data ∧ c.phys = a.phys := by
  obtain ⟨_, hd1, hf1, _, _⟩ := to_spec a b u s1 hc1 hu h1
  obtain ⟨_, hd2, hf2, _, _⟩ := to_spec b c a.unit s2 hc2 ha h2
  have hdata : c.data = a.data := by
    rw [hd2, hd1, List.map_map]
    conv_rhs => rw [← List.map_id a.data]
    apply List.map_congr_left
    intro x _
    simp only [Function.comp, U.ratio, hf1, id]
    field_simp
  refine ⟨hdata, ?_⟩
  unfold ArrV.phys; rw [hdata, hf2]

/-- chains: a -> b -> c and a -> c give the same values -/
theorem C08_to_chain (a b c d : ArrV) (u v : U) (s1 s2 s3 : Bool)
    (hc1 : Consistent a.unit u) (hc2 : Consistent b.unit v) (hc3 : Consistent a.unit v)
    (hu : u.factor ≠ 0) (hv : v.factor ≠ 0)
    (h1 : a.to u = .ok (b, s1)) (h2 : b.to v = .ok (c, s2)) (h3 : a.to v = .ok (d, s3)) :
    c.data = d.data := by
  obtain ⟨_, hd1, hf1, _, _⟩ := to_spec a b u s1 hc1 hu h1
  obtain ⟨_, hd2, _, _, _⟩ := to_spec b c v s2 hc2 hv h2
  obtain ⟨_, hd3, _, _, _⟩ := to_spec a d v s3 hc3 hv h3
  rw [hd2, hd1, hd3, List.map_map]
  apply List.map_congr_left
  intro x _
  simp only [Function.comp, U.ratio, hf1]
  field_simp

/-- for a Vector the conversion applies identically to every component -/
theorem C08_vector_componentwise (v w : VecV) (u : U) (h : v.to u = .ok w) :
    ∃ cs, v.comps.mapM (·.toVal u) = .ok cs ∧
      w = VecV.rename { comps := cs, name := "" } "" := by
  unfold VecV.to VecV.mapComps at h
  simp only [bind, Except.bind] at h
  cases hm : v.comps.mapM (·.toVal u) with
  | error e => rw [hm] at h; cases h
  | ok cs =>
    rw [hm] at h
    simp only at h
    refine ⟨cs, rfl, ?_⟩
    unfold VecV.ofArrs at h
    split at h
    · cases h
    · split at h
      · cases h
      · split at h
        · cases h
        · split at h
          · cases h
          · cases h; rfl

/-- **C08 (defined units have true values)**: every constant defined by the current
    `config/defaults.py` agrees (name, unit, aliases, value within 1e-3) with the committed
    reference table, and none is missing.  Re-proved against the source on every run. -/
theorem C08_constants_true : Reference.tableOk Generated.constants = true := by
  decide +kernel

theorem C08_constants_each (c : Const) (h : c ∈ Generated.constants) : Reference.constOk c = true := by
  have := C08_constants_true
  unfold Reference.tableOk at this
  simp only [Bool.and_eq_true, List.all_eq_true] at this
  exact this.1 c h


/-! ### Equivalent spellings (`osyris.units` on unit expressions)

`UExpr.eval` is what the correspondence check compares `osyris.units(spelling)` with, for every
spelling of a tree.  The theorems below say that the rewrites a spelling may apply to the tree itself
(reordering the factors, regrouping a product, writing a quotient as a product with a power `-1`,
distributing a power over a product) do not change the unit — literally: same factor, same
dimension vector, same symbolic container (pint's `Unit.__eq__`). -/

namespace Spelling

/-- atoms as `osyris.units(name)` delivers them: container in normal form, full dimension vector -/
def WF : UExpr → Prop
  | .atom u => Sym.NF u.sym ∧ u.dim.length = ndims
  | .mul a b => WF a ∧ WF b
  | .div a b => WF a ∧ WF b
  | .pow a _ => WF a

theorem dim_add_length {a b : Dim} (ha : a.length = ndims) (hb : b.length = ndims) : (Dim.add a b).length = ndims := by
  simp [Dim.add, ha, hb]
theorem dim_sub_length {a b : Dim} (ha : a.length = ndims) (hb : b.length = ndims) : (Dim.sub a b).length = ndims := by
  simp [Dim.sub, ha, hb]
theorem dim_smul_length {a : Dim} (k : Rat) (ha : a.length = ndims) : (Dim.smul k a).length = ndims := by
  simp [Dim.smul, ha]

theorem eval_wf : ∀ (e : UExpr), WF e → Sym.NF e.eval.sym ∧ e.eval.dim.length = ndims
  | .atom _, h => h
  | .mul a b, h => by
    obtain ⟨ha1, ha2⟩ := eval_wf a h.1
    obtain ⟨hb1, hb2⟩ := eval_wf b h.2
    exact ⟨Sym.mul_nf _ ha1, dim_add_length ha2 hb2⟩
  | .div a b, h => by
    obtain ⟨ha1, ha2⟩ := eval_wf a h.1
    obtain ⟨hb1, hb2⟩ := eval_wf b h.2
    exact ⟨Sym.mul_nf _ ha1, dim_sub_length ha2 hb2⟩
  | .pow a k, h => by
    obtain ⟨ha1, ha2⟩ := eval_wf a h
    exact ⟨Sym.smul_nf _ ha1, dim_smul_length _ ha2⟩

theorem dim_add_comm (a b : Dim) : Dim.add a b = Dim.add b a := by
  unfold Dim.add
  rw [List.zipWith_comm]
  congr 1; funext x y; exact add_comm y x

theorem dim_add_assoc (a b c : Dim) : Dim.add (Dim.add a b) c = Dim.add a (Dim.add b c) := by
  unfold Dim.add
  induction a generalizing b c with
  | nil => simp
  | cons x xs ih =>
    cases b with
    | nil => simp
    | cons y ys =>
      cases c with
      | nil => simp
      | cons z zs => simp [ih, add_assoc]

theorem dim_sub_eq (a b : Dim) : Dim.sub a b = Dim.add a (Dim.smul (-1) b) := by
  unfold Dim.sub Dim.add Dim.smul
  induction a generalizing b with
  | nil => simp
  | cons x xs ih =>
    cases b with
    | nil => simp
    | cons y ys => simp [ih]; ring

theorem dim_smul_add (k : Rat) (a b : Dim) : Dim.smul k (Dim.add a b) = Dim.add (Dim.smul k a) (Dim.smul k b) := by
  unfold Dim.add Dim.smul
  induction a generalizing b with
  | nil => simp
  | cons x xs ih =>
    cases b with
    | nil => simp
    | cons y ys => simp [ih]; ring

/-- **C08 (spellings)**: reordering the factors of a product gives the same unit -/
theorem C08_spelling_mul_comm (a b : UExpr) (ha : WF a) (hb : WF b) :
    (UExpr.mul a b).eval = (UExpr.mul b a).eval := by
  obtain ⟨ha1, _⟩ := eval_wf a ha
  obtain ⟨hb1, _⟩ := eval_wf b hb
  simp only [UExpr.eval, U.mul]
  rw [Sym.mul_comm ha1 hb1, dim_add_comm a.eval.dim, mul_comm a.eval.factor]

/-- regrouping a product gives the same unit -/
theorem C08_spelling_mul_assoc (a b c : UExpr) (ha : WF a) (hb : WF b) (hc : WF c) :
    (UExpr.mul (UExpr.mul a b) c).eval = (UExpr.mul a (UExpr.mul b c)).eval := by
  obtain ⟨ha1, _⟩ := eval_wf a ha
  obtain ⟨hb1, _⟩ := eval_wf b hb
  obtain ⟨hc1, _⟩ := eval_wf c hc
  simp only [UExpr.eval, U.mul]
  rw [Sym.mul_assoc ha1 hb1 hc1, dim_add_assoc, mul_assoc]

/-- `a / b` and `a * b ** -1` are the same unit -/
theorem C08_spelling_div_as_pow (a b : UExpr) :
    (UExpr.div a b).eval = (UExpr.mul a (UExpr.pow b (-1))).eval := by
  simp only [UExpr.eval, U.div, U.mul, U.powInt]
  rw [dim_sub_eq]
  have : a.eval.factor / b.eval.factor = a.eval.factor * b.eval.factor ^ (-1 : Int) := by
    rw [zpow_neg_one, div_eq_mul_inv]
  rw [this]
  norm_num

/-- `(a * b) ** k` and `a ** k * b ** k` are the same unit -/
theorem C08_spelling_pow_mul (a b : UExpr) (k : Int) (ha : WF a) (hb : WF b) :
    (UExpr.pow (UExpr.mul a b) k).eval = (UExpr.mul (UExpr.pow a k) (UExpr.pow b k)).eval := by
  obtain ⟨ha1, _⟩ := eval_wf a ha
  obtain ⟨hb1, _⟩ := eval_wf b hb
  simp only [UExpr.eval, U.mul, U.powInt]
  rw [Sym.smul_mul _ ha1 hb1, dim_smul_add, mul_zpow]

/-- the premises are satisfiable: `m * s` with pint's containers -/
example : WF (.mul (.atom ⟨1, [1,0,0,0,0,0,0,0], [("meter", 1)]⟩) (.atom ⟨1, [0,0,1,0,0,0,0,0], [("second", 1)]⟩)) := by
  refine ⟨⟨⟨by norm_num, by simp, trivial⟩, by decide⟩, ⟨⟨by norm_num, by simp, trivial⟩, by decide⟩⟩

end Spelling

end Osyris.C08
