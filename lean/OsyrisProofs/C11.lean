/-
C11  Thick maps reduce the sampled column and scale units consistently.

Property theorems (the ones listed in Audit/C11.lean):
  slab_sound, nearPlane_thick_sound    a cell containing a point of the slab passes |(c−o)·n| ≤ dz/2 + ½·diag·s
  slab_unsound_witness                 the coded distance ½·diag·dz rejects a cell of size 1 cut by a slab of thickness 1/4
  footprint_z, pixHits_of_contains_thick   the coded depth index range contains every depth sample inside the cell
  mem_select_thick                     SOUND slab and radial pre-selection keep every cell containing a sample of the slab
  C11_voxel                            every depth sample = value of a loaded cell containing it, NaN iff none (any order, any schedule)
  C11_column                           pixel = reduce op [sample z_k] (× depth step for sum / nansum), samples as in C11_voxel
  reduce_nan_propagates, reduce_nansum_all_missing, reduce_nan_all_missing, reduce_nan_eq, reduce_sum_some
                                       numpy semantics of the eight reductions
  C11_units, C11_units_const           × zspacing and unit × length exactly for thick sum / nansum; a constant column integrates to v·dz
  roundHalfEven_nearest, depth_count_nearest, roundHalfEven_tie_even   the default depth count is the integer nearest to depth / pixel, ties to even
  C11_sched                            every interleaving gives the serial pixel when hitting cells agree
  mkGrid_thick                         the grid `run` builds = the grid of the theorems
Helper lemmas live here as well. Non-vacuity `example`s at the end.
Scope: C11_voxel / C11_column are stated for 3-D data with dx given (as C03_map).
-/
import OsyrisProofs.C03

namespace Osyris.C11
open Osyris.MapModel Osyris.C03

/-! ### slab pre-selection -/

/-- **slab_sound** (generic ordered field): `zp` = depth of the sample point, `a` = offset of the cell
    centre from the sample point, `n` = unit normal -/
theorem slab_sound {K : Type} [Field K] [LinearOrder K] [IsStrictOrderedRing K] (ax ay az nx ny nz s diag dz zp : K)
    (hx : |ax| ≤ s / 2) (hy : |ay| ≤ s / 2) (hz : |az| ≤ s / 2)
    (hn : nx * nx + ny * ny + nz * nz = 1) (hd : 3 ≤ diag * diag) (hd0 : 0 ≤ diag) (hzp : |zp| ≤ dz / 2) :
    |zp + (ax * nx + ay * ny + az * nz)| ≤ dz / 2 + 1 / 2 * diag * s :=
  C03.slab_sound ax ay az nx ny nz s diag dz zp hx hy hz hn hd hd0 hzp

/-- the model's sound slab test keeps every cell containing a point of the slab -/
theorem nearPlane_thick_sound (cfg : Cfg) (c : Cell) (dz x y z : Rat) (hdz : cfg.dz = some dz) (hs : cfg.slab = .sound)
    (ho : Ortho cfg.u cfg.v cfg.n) (hd : 3 ≤ cfg.diag * cfg.diag) (hd0 : 0 ≤ cfg.diag) (hz : |z| ≤ dz / 2)
    (hc : Contains3 c (cfg.o.add (comb cfg.u cfg.v cfg.n x y z))) : nearPlane cfg c = true := by
  have := proj_close c cfg.o _ cfg.n cfg.diag z ho.nn (comb_dot_n ho x y z) hd hd0 hc
  unfold nearPlane
  simp only [hdz, hs, decide_eq_true_eq, absQ_eq_abs]
  have h1 : |(c.c.sub cfg.o).dot cfg.n| ≤ |z| + |z - (c.c.sub cfg.o).dot cfg.n| := by
    have := abs_sub_abs_le_abs_sub ((c.c.sub cfg.o).dot cfg.n) z
    rw [abs_sub_comm] at this
    linarith
  linarith

def sCfg (diag : Rat) (slab : Sel) : Cfg :=
  { ndim := 3, o := ⟨1/2, 1/2, 1/16⟩, u := ⟨1, 0, 0⟩, v := ⟨0, 1, 0⟩, n := ⟨0, 0, 1⟩, dx := some 1, dy := none, dz := some (1/4),
    nx := 2, ny := 2, nz := some 1, op := .mean, diag := diag, slab := slab, radial := .sound, depth := .coded, depth2d := .coded, scale := 1 }

def sCell : Cell := { c := ⟨1/2, 1/2, 1/2⟩, s := 1, vals := [some 7] }

/-- **slab_unsound_witness**: a cell of size 1 (the unit cube), a slab of thickness 1/4 around the plane
    z = 1/16. The cell contains every point of the slab above z = 0 (in particular every sample of the
    mid-plane), but its centre is 7/16 away from the plane: for every stand-in of sqrt(3) below 7/2 the
    coded distance ½·diag·dz rejects it; the sound distance keeps it. -/
theorem slab_unsound_witness (diag : Rat) (hd : 3 ≤ diag * diag) (hd0 : 0 ≤ diag) (hd2 : diag < 7 / 2) :
    nearPlane (sCfg diag .coded) sCell = false ∧
    (∀ x y z : Rat, |x| ≤ 1 / 2 → |y| ≤ 1 / 2 → -(1 / 16) ≤ z → z ≤ 1 / 8 →
      Contains3 sCell ((sCfg diag .coded).o.add (comb ⟨1, 0, 0⟩ ⟨0, 1, 0⟩ ⟨0, 0, 1⟩ x y z))) ∧
    nearPlane (sCfg diag .sound) sCell = true := by
  refine ⟨?_, ?_, ?_⟩
  · simp only [nearPlane, sCfg, sCell, V3.sub, V3.dot, absQ_eq_abs, decide_eq_false_iff_not, not_le]
    norm_num
    linarith
  · intro x y z hx hy hz1 hz2
    obtain ⟨x1, x2⟩ := abs_le.mp hx
    obtain ⟨y1, y2⟩ := abs_le.mp hy
    simp only [Contains3, sCfg, sCell, comb, V3.add, V3.smul]
    refine ⟨abs_le.mpr ⟨by linarith, by linarith⟩, abs_le.mpr ⟨by linarith, by linarith⟩, abs_le.mpr ⟨by linarith, by linarith⟩⟩
  · have hd1 : 1 ≤ diag := by nlinarith
    simp only [nearPlane, sCfg, sCell, V3.sub, V3.dot, absQ_eq_abs, decide_eq_true_eq]
    norm_num
    linarith

/-! ### the depth grid -/

/-- the grid `mkGrid` builds for a thick map with `nz` depth samples -/
def thickGrid (cfg : Cfg) (w : Window) (nz : Nat) : Grid :=
  { ndim := cfg.ndim, u := cfg.u, v := cfg.v, n := cfg.n, xlo := w.xmin, ylo := w.ymin, zlo := w.zmin,
    xsp := (w.xmax - w.xmin) / (cfg.nx : Rat), ysp := (w.ymax - w.ymin) / (cfg.ny : Rat), zsp := (w.zmax - w.zmin) / (nz : Rat),
    nx := cfg.nx, ny := cfg.ny, nz := nz, zc0 := w.zmin + (1 : Rat) / 2 * ((w.zmax - w.zmin) / (nz : Rat)),
    zstep := (w.zmax - w.zmin) / (nz : Rat), diag := cfg.diag, zfull := cfg.ndim != 3 && cfg.depth2d == .sound }

/-- the depth count `mkGrid` uses -/
def depthCountOf (cfg : Cfg) (w : Window) : Int :=
  match cfg.nz with
  | some k => (k : Int)
  | none => depthCount (w.zmax - w.zmin) ((w.xmax - w.xmin) / (cfg.nx : Rat)) ((w.ymax - w.ymin) / (cfg.ny : Rat))

theorem mkGrid_thick (cfg : Cfg) (w : Window) (dz : Rat) (hdz : cfg.dz = some dz) (hnx : cfg.nx ≠ 0) (hny : cfg.ny ≠ 0)
    (hx : (w.xmax - w.xmin) / (cfg.nx : Rat) ≠ 0) (hy : (w.ymax - w.ymin) / (cfg.ny : Rat) ≠ 0)
    (hn : 0 < depthCountOf cfg w) (hz : (w.zmax - w.zmin) / (((depthCountOf cfg w).toNat : Nat) : Rat) ≠ 0) :
    mkGrid cfg w = .ok (thickGrid cfg w (depthCountOf cfg w).toNat) := by
  have hth : cfg.thick = true := by unfold Cfg.thick; rw [hdz]; rfl
  have hn' : ¬ (depthCountOf cfg w ≤ 0) := not_le.mpr hn
  unfold mkGrid
  simp only [hnx, hny, hx, hy, hth, or_self, if_false, if_true]
  split_ifs with h1 h2
  · exact absurd h1 hn'
  · exact absurd h2 hz
  · rfl

theorem zc_thick (cfg : Cfg) (w : Window) (nz k : Nat) :
    (thickGrid cfg w nz).zc k = w.zmin + ((k : Rat) + 1 / 2) * ((w.zmax - w.zmin) / (nz : Rat)) := by
  simp only [Grid.zc, thickGrid]; ring

theorem sample_thick (cfg : Cfg) (w : Window) (dz : Rat) (hdz : cfg.dz = some dz) (nz i j k : Nat) :
    Spec.sample cfg w nz i j k = cfg.o.add ((thickGrid cfg w nz).pos i j k) := by
  have hth : cfg.thick = true := by unfold Cfg.thick; rw [hdz]; rfl
  unfold Spec.sample
  simp only [hth, if_true, point_eq, pos_eq, zc_thick]
  rfl

/-- **footprint_z** (with the other two axes): a cell that contains the sample point of voxel (i, j, k)
    writes that voxel -/
theorem pixHits_of_contains_thick (cfg : Cfg) (c : Cell) (dx dy dz : Rat) (nz i j k : Nat)
    (h3 : cfg.ndim = 3) (ho : Ortho cfg.u cfg.v cfg.n) (hd : 3 ≤ cfg.diag * cfg.diag) (hd0 : 0 ≤ cfg.diag)
    (hpx : 0 < dx) (hpy : 0 < dy) (hpz : 0 < dz) (hi : i < cfg.nx) (hj : j < cfg.ny) (hk : k < nz)
    (hc : Contains3 c (cfg.o.add ((thickGrid cfg (winOf dx dy dz) nz).pos i j k))) :
    (k, j, i) ∈ pixHits (thickGrid cfg (winOf dx dy dz) nz) (toK cfg c) := by
  set g := thickGrid cfg (winOf dx dy dz) nz with hg
  have hnx : (0 : Rat) < cfg.nx := by exact_mod_cast (Nat.zero_lt_of_lt hi)
  have hny : (0 : Rat) < cfg.ny := by exact_mod_cast (Nat.zero_lt_of_lt hj)
  have hnz : (0 : Rat) < nz := by exact_mod_cast (Nat.zero_lt_of_lt hk)
  have hxsp : 0 < g.xsp := by
    show 0 < (-(1 : Rat) / 2 * dx + dx - -(1 : Rat) / 2 * dx) / (cfg.nx : Rat)
    apply div_pos _ hnx; linarith
  have hysp : 0 < g.ysp := by
    show 0 < (-(1 : Rat) / 2 * dy + dy - -(1 : Rat) / 2 * dy) / (cfg.ny : Rat)
    apply div_pos _ hny; linarith
  have hzsp : 0 < g.zsp := by
    show 0 < (-(1 : Rat) / 2 * dz + dz - -(1 : Rat) / 2 * dz) / (nz : Rat)
    apply div_pos _ hnz; linarith
  rw [pos_eq] at hc
  have hgu : g.u = cfg.u := rfl
  have hgv : g.v = cfg.v := rfl
  have hgn : g.n = cfg.n := rfl
  rw [hgu, hgv, hgn] at hc
  have cx := proj_close c cfg.o _ cfg.u cfg.diag _ ho.uu (comb_dot_u ho _ _ _) hd hd0 hc
  have cy := proj_close c cfg.o _ cfg.v cfg.diag _ ho.vv (comb_dot_v ho _ _ _) hd hd0 hc
  have cz := proj_close c cfg.o _ cfg.n cfg.diag _ ho.nn (comb_dot_n ho _ _ _) hd hd0 hc
  rw [mem_pixHits]
  refine ⟨?_, ?_, ?_, ?_⟩
  · unfold zRange
    have hzf : g.zfull = false := by simp [hg, thickGrid, h3]
    simp only [hzf, Bool.false_eq_true, if_false]
    rw [zc_thick] at cz
    exact footprint_axis _ _ _ _ _ _ hzsp hk cz
  · exact footprint_axis _ _ _ _ _ _ hysp hj cy
  · exact footprint_axis _ _ _ _ _ _ hxsp hi cx
  · rw [hit_iff g cfg c _ (by show cfg.ndim = 3; exact h3), pos_eq, hgu, hgv, hgn]
    exact hc

/-- SOUND slab and radial pre-selection keep every cell that contains a sample point of the slab -/
theorem mem_select_thick (cfg : Cfg) (mesh : List Cell) (c : Cell) (hm : c ∈ mesh) (dx dy dz x y z : Rat)
    (h3 : cfg.ndim = 3) (hdx : cfg.dx = some dx) (hdy : cfg.dyEff = some dy) (hdz : cfg.dz = some dz)
    (hs : cfg.slab = .sound) (hr : cfg.radial = .sound) (ho : Ortho cfg.u cfg.v cfg.n)
    (hd : 3 ≤ cfg.diag * cfg.diag) (hd0 : 0 ≤ cfg.diag)
    (hx : |x| ≤ dx / 2) (hy : |y| ≤ dy / 2) (hz : |z| ≤ dz / 2)
    (hc : Contains3 c (cfg.o.add (comb cfg.u cfg.v cfg.n x y z))) : c ∈ select cfg mesh := by
  have hdze : cfg.dzEff = some dz := by unfold Cfg.dzEff; rw [hdz]
  unfold select
  simp only [hdx, hdy, hdze]
  exact List.mem_filter.mpr ⟨List.mem_filter.mpr ⟨hm, nearPlane_thick_sound cfg c dz x y z hdz hs ho hd hd0 hz hc⟩,
    radial_sound cfg c dx dy dz x y z hr h3 ho hd hd0 hx hy hz hc⟩

/-! ### C11: samples and columns -/

/-- **C11_voxel** (3-D, dx given, SOUND slab and radial pre-selection): for every mesh, origin, orthonormal
    basis, window, thickness, pixel and depth counts and layer, for EVERY processing order of the selected
    cells and EVERY rearrangement of their element stores (any thread schedule), the buffer element of
    depth sample k of pixel (i, j) holds the value of a loaded cell containing
    `origin + x_i u + y_j v + z_k n`, and NaN exactly when no loaded cell contains that point -/
theorem C11_voxel (cfg : Cfg) (mesh : List Cell) (dx dy dz : Rat) (cells : List Cell) (nz nl l i j k : Nat)
    (h3 : cfg.ndim = 3) (hdx : cfg.dx = some dx) (hdy : cfg.dyEff = some dy) (hdz : cfg.dz = some dz)
    (hs : cfg.slab = .sound) (hr : cfg.radial = .sound) (ho : Ortho cfg.u cfg.v cfg.n)
    (hd : 3 ≤ cfg.diag * cfg.diag) (hd0 : 0 ≤ cfg.diag)
    (hpx : 0 < dx) (hpy : 0 < dy) (hpz : 0 < dz) (hi : i < cfg.nx) (hj : j < cfg.ny) (hk : k < nz) (hl : l < nl)
    (hperm : cells.Perm (select cfg mesh)) (evs : List Ev)
    (hev : evs.Perm ((cells.map (toK cfg)).flatMap (writes (thickGrid cfg (winOf dx dy dz) nz) nl))) :
    let g := thickGrid cfg (winOf dx dy dz) nz
    let p := Spec.sample cfg (winOf dx dy dz) nz i j k
    let val := (exec (initMem g nl) evs).getD (flat g l k j i) none
    (Spec.locate 3 mesh p = [] → val = none) ∧
    (Spec.locate 3 mesh p ≠ [] → ∃ c ∈ Spec.locate 3 mesh p, val = c.vals.getD l none) := by
  intro g p val
  have hp : p = cfg.o.add (g.pos i j k) := sample_thick cfg _ dz hdz nz i j k
  have hx : |g.xc i| ≤ dx / 2 := centre_abs_le dx cfg.nx i hpx hi
  have hy : |g.yc j| ≤ dy / 2 := centre_abs_le dy cfg.ny j hpy hj
  have hz : |g.zc k| ≤ dz / 2 := by rw [zc_thick]; exact centre_abs_le dz nz k hpz hk
  have hwrites : ∀ c ∈ mesh, Contains3 c p → toK cfg c ∈ cells.map (toK cfg) ∧ (k, j, i) ∈ pixHits g (toK cfg c) := by
    intro c hm hc
    rw [hp] at hc
    have hc' := hc
    rw [pos_eq] at hc'
    have hsel : c ∈ select cfg mesh :=
      mem_select_thick cfg mesh c hm dx dy dz _ _ _ h3 hdx hdy hdz hs hr ho hd hd0 hx hy hz hc'
    exact ⟨List.mem_map.mpr ⟨c, hperm.mem_iff.mpr hsel, rfl⟩,
           pixHits_of_contains_thick cfg c dx dy dz nz i j k h3 ho hd hd0 hpx hpy hpz hi hj hk hc⟩
  have hback : ∀ kc ∈ cells.map (toK cfg), (k, j, i) ∈ pixHits g kc → ∃ c ∈ Spec.locate 3 mesh p, kc.vals = c.vals := by
    intro kc hkc hpix
    obtain ⟨c, hc, rfl⟩ := List.mem_map.mp hkc
    have hm : c ∈ mesh := select_sub cfg mesh c (hperm.mem_iff.mp hc)
    have hh := ((mem_pixHits g _ k j i).mp hpix).2.2.2
    rw [hit_iff g cfg c _ (by show cfg.ndim = 3; exact h3)] at hh
    exact ⟨c, (mem_locate mesh p c).mpr ⟨hm, by rw [hp]; exact hh⟩, rfl⟩
  have himg := image_getD g nl (cells.map (toK cfg)) evs hev l k j i hl (by show k < nz; exact hk)
    (by show j < cfg.ny; exact hj) (by show i < cfg.nx; exact hi)
  rcases himg with ⟨hno, hv⟩ | ⟨kc, hkc, hpix, hv⟩
  · refine ⟨fun _ => hv, ?_⟩
    intro hne
    obtain ⟨c, hc⟩ := List.exists_mem_of_ne_nil _ hne
    obtain ⟨hm, hcc⟩ := (mem_locate mesh p c).mp hc
    obtain ⟨h1, h2⟩ := hwrites c hm hcc
    exact absurd h2 (hno _ h1)
  · obtain ⟨c, hc, hvals⟩ := hback kc hkc hpix
    refine ⟨?_, fun _ => ⟨c, hc, by show val = _; rw [← hvals]; exact hv⟩⟩
    intro hnil
    rw [hnil] at hc
    cases hc

/-- a depth sample agrees with the Spec: a value of a loaded cell containing the point, NaN iff none -/
def SampleOk (mesh : List Cell) (l : Nat) (p : V3) (v : Val) : Prop :=
  (Spec.locate 3 mesh p = [] → v = none) ∧ (Spec.locate 3 mesh p ≠ [] → ∃ c ∈ Spec.locate 3 mesh p, v = c.vals.getD l none)

/-- **C11_column**: the returned pixel is `reduce op` of the column of the `nz` depth samples, each of
    which agrees with the Spec (C11_voxel), multiplied by the depth step for sum / nansum -/
theorem C11_column (cfg : Cfg) (mesh : List Cell) (dx dy dz : Rat) (cells : List Cell) (nz nl l i j : Nat)
    (h3 : cfg.ndim = 3) (hdx : cfg.dx = some dx) (hdy : cfg.dyEff = some dy) (hdz : cfg.dz = some dz)
    (hs : cfg.slab = .sound) (hr : cfg.radial = .sound) (ho : Ortho cfg.u cfg.v cfg.n)
    (hd : 3 ≤ cfg.diag * cfg.diag) (hd0 : 0 ≤ cfg.diag)
    (hpx : 0 < dx) (hpy : 0 < dy) (hpz : 0 < dz) (hi : i < cfg.nx) (hj : j < cfg.ny) (hl : l < nl)
    (hperm : cells.Perm (select cfg mesh)) (evs : List Ev)
    (hev : evs.Perm ((cells.map (toK cfg)).flatMap (writes (thickGrid cfg (winOf dx dy dz) nz) nl))) :
    let g := thickGrid cfg (winOf dx dy dz) nz
    ∃ col : List Val, col.length = nz ∧
      (∀ k, k < nz → SampleOk mesh l (Spec.sample cfg (winOf dx dy dz) nz i j k) (col.getD k none)) ∧
      reducedPixel g true cfg.op (exec (initMem g nl) evs) l j i
        = (reduce cfg.op col).map (· * scaleFactor true cfg.op ((-(1 : Rat) / 2 * dz + dz - -(1 : Rat) / 2 * dz) / (nz : Rat))) := by
  intro g
  refine ⟨column g (exec (initMem g nl) evs) l j i, by simp [column]; rfl, ?_, rfl⟩
  intro k hk
  have hcol : (column g (exec (initMem g nl) evs) l j i).getD k none = (exec (initMem g nl) evs).getD (flat g l k j i) none := by
    unfold column
    have hk' : k < g.nz := hk
    simp [List.getD_eq_getElem?_getD, hk']
  rw [hcol]
  exact C11_voxel cfg mesh dx dy dz cells nz nl l i j k h3 hdx hdy hdz hs hr ho hd hd0 hpx hpy hpz hi hj hk hl hperm evs hev

/-- **C11_sched**: for every split of the cells over threads and every interleaving of their atomic
    stores the returned pixel is the pixel of the serial loop, when cells hitting the same voxel agree -/
theorem C11_sched (g : Grid) (nl : Nat) (chunks : List (List KCell)) (sched : List Nat) (thick : Bool) (op : Op) (l j i : Nat)
    (h : ∀ c ∈ chunks.flatten, ∀ c' ∈ chunks.flatten, ∀ p, p ∈ pixHits g c → p ∈ pixHits g c' → c.vals = c'.vals) :
    reducedPixel g thick op (kernelSched g nl chunks sched) l j i = reducedPixel g thick op (kernel g nl chunks.flatten) l j i := by
  rw [C03_sched g nl chunks sched h]

/-! ### reductions (numpy semantics) -/

theorem allSome_false_of_mem {col : List Val} (h : none ∈ col) : allSome col = false := by
  induction col with
  | nil => cases h
  | cons a l ih =>
    cases a with
    | none => rfl
    | some q =>
      have : none ∈ l := by simpa using h
      simp [allSome, ih this]

/-- sum, mean, min, max propagate NaN -/
theorem reduce_nan_propagates (op : Op) (hop : op = .sum ∨ op = .mean ∨ op = .min ∨ op = .max) (col : List Val)
    (h : none ∈ col) : reduce op col = none := by
  have := allSome_false_of_mem h
  rcases hop with rfl | rfl | rfl | rfl <;> simp [reduce, this]

theorem somes_replicate_none (n : Nat) : somes (List.replicate n none) = [] := by
  induction n with
  | zero => rfl
  | succ n ih => simp [List.replicate_succ, somes, ih]

/-- an all-NaN column: nansum gives 0 ... -/
theorem reduce_nansum_all_missing (n : Nat) : reduce .nansum (List.replicate n none) = some 0 := by
  simp [reduce, somes_replicate_none, sumQ]

/-- ... nanmean, nanmin, nanmax give NaN -/
theorem reduce_nan_all_missing (op : Op) (hop : op = .nanmean ∨ op = .nanmin ∨ op = .nanmax) (n : Nat) :
    reduce op (List.replicate n none) = none := by
  rcases hop with rfl | rfl | rfl <;> simp [reduce, somes_replicate_none, minL, maxL]

theorem somes_map_some (vs : List Rat) : somes (vs.map some) = vs := by
  induction vs with
  | nil => rfl
  | cons a l ih => simp [somes, ih]

theorem allSome_map_some (vs : List Rat) : allSome (vs.map some) = true := by
  induction vs with
  | nil => rfl
  | cons a l ih => simp [allSome, ih]

/-- the plain reduction of a column without NaN -/
theorem reduce_sum_some (vs : List Rat) : reduce .sum (vs.map some) = some (sumQ vs) := by
  simp [reduce, somes_map_some, allSome_map_some]

def plainOf : Op → Op
  | .nansum => .sum
  | .nanmean => .mean
  | .nanmin => .min
  | .nanmax => .max
  | o => o

/-- the nan-variants ignore the missing samples: they are the plain reduction of the present ones
    (when there is at least one) -/
theorem reduce_nan_eq (op : Op) (hop : op = .nansum ∨ op = .nanmean ∨ op = .nanmin ∨ op = .nanmax) (col : List Val)
    (hne : somes col ≠ []) : reduce op col = reduce (plainOf op) ((somes col).map some) := by
  have h1 := somes_map_some (somes col)
  have h2 := allSome_map_some (somes col)
  have h3 : ((somes col).map some).isEmpty = false := by
    cases hs : somes col with
    | nil => exact absurd hs hne
    | cons a l => rfl
  have h4 : (somes col).isEmpty = false := by
    cases hs : somes col with
    | nil => exact absurd hs hne
    | cons a l => rfl
  rcases hop with rfl | rfl | rfl | rfl <;> simp [reduce, plainOf, h1, h2, h3, h4]

/-! ### units and depth step -/

/-- **C11_units**: the result is multiplied by the depth step, and its unit by the length unit, exactly
    for a thick map with operation sum or nansum; otherwise value and unit are unchanged -/
theorem C11_units (thick : Bool) (op : Op) (zsp : Rat) :
    (integrates thick op = true ↔ thick = true ∧ (op = .sum ∨ op = .nansum)) ∧
    (integrates thick op = true → scaleFactor thick op zsp = zsp ∧ unitLengthPower thick op = 1) ∧
    (integrates thick op = false → scaleFactor thick op zsp = 1 ∧ unitLengthPower thick op = 0) := by
  refine ⟨?_, ?_, ?_⟩
  · cases thick <;> cases op <;> simp [integrates]
  · intro h; simp [scaleFactor, unitLengthPower, h]
  · intro h; simp [scaleFactor, unitLengthPower, h]

theorem sumQ_replicate (n : Nat) (v : Rat) : sumQ (List.replicate n v) = (n : Rat) * v := by
  induction n with
  | zero => simp [sumQ]
  | succ n ih => rw [List.replicate_succ, sumQ, ih]; push_cast; ring

/-- **C11_units_const**: a column that sees the same value `v` at all `nz` depths integrates to
    `v · depth` whatever the number of samples (sum and nansum × depth step) -/
theorem C11_units_const (op : Op) (hop : op = .sum ∨ op = .nansum) (nz : Nat) (hnz : 0 < nz) (v depth : Rat) :
    (reduce op (List.replicate nz (some v))).map (· * scaleFactor true op (depth / (nz : Rat))) = some (v * depth) := by
  have hmap : List.replicate nz (some v) = (List.replicate nz v).map some := by simp
  have hn : (nz : Rat) ≠ 0 := by exact_mod_cast (Nat.pos_iff_ne_zero.mp hnz)
  rcases hop with rfl | rfl
  · rw [hmap, reduce_sum_some, sumQ_replicate]
    simp only [Option.map_some, scaleFactor, integrates, beq_self_eq_true, Bool.true_or, Bool.and_self, if_true]
    congr 1; field_simp
  · rw [hmap]
    simp only [reduce, somes_map_some, sumQ_replicate, Option.map_some, scaleFactor, integrates, beq_self_eq_true, Bool.or_true,
      Bool.and_self, if_true]
    congr 1; field_simp

/-! ### default depth count -/

/-- Python's `round`: the result is within 1/2 of the argument -/
theorem roundHalfEven_nearest (q : Rat) : |(roundHalfEven q : Rat) - q| ≤ 1 / 2 := by
  unfold roundHalfEven
  have h1 : ((q.floor : Int) : Rat) ≤ q := by rw [C05.floor_core_eq]; exact Int.floor_le q
  have h2 : q < ((q.floor : Int) : Rat) + 1 := by rw [C05.floor_core_eq]; exact Int.lt_floor_add_one q
  simp only
  split_ifs with ha hb hc
  · rw [abs_le]; constructor <;> linarith
  · rw [abs_le]; push_cast; constructor <;> linarith
  · rw [abs_le]; constructor <;> linarith
  · rw [abs_le]; push_cast; constructor <;> linarith

/-- on a tie the even neighbour is taken -/
theorem roundHalfEven_tie_even (q : Rat) (h : q - (q.floor : Rat) = 1 / 2) : roundHalfEven q % 2 = 0 := by
  unfold roundHalfEven
  simp only [h, lt_irrefl, if_false]
  split_ifs with hc
  · exact hc
  · omega

/-- **depth_count_nearest**: unless a depth resolution is given, the number of depth samples `n` is
    the integer nearest to depth / pixel size (pixel size = mean of the two pixel spacings):
    `|n − D/p| ≤ 1/2` -/
theorem depth_count_nearest (depth xsp ysp : Rat) :
    |(depthCount depth xsp ysp : Rat) - depth / ((1 : Rat) / 2 * (xsp + ysp))| ≤ 1 / 2 :=
  roundHalfEven_nearest _

/-! ### non-vacuity -/

-- slab_unsound_witness at the stand-in 7/4
example : nearPlane (sCfg (7/4) .coded) sCell = false ∧ nearPlane (sCfg (7/4) .sound) sCell = true :=
  ⟨(slab_unsound_witness (7/4) (by norm_num) (by norm_num) (by norm_num)).1,
   (slab_unsound_witness (7/4) (by norm_num) (by norm_num) (by norm_num)).2.2⟩

def image (r : Except Fail Result) : List (List Val) := match r with | .ok x => x.binned | .error _ => []

-- the whole `map()` on the witness: CODED slab distance -> no cell is selected at all (the call raises) ...
example : (match run (sCfg (7/4) .coded) [sCell] none with | .error e => some e | .ok _ => none) = some Fail.noCells := by
  decide +kernel
-- ... SOUND: the mean over the column is the cell value in all four pixels (C11_column instantiated)
example : image (run (sCfg (7/4) .sound) [sCell] none) = [[some 7, some 7, some 7, some 7]] := by decide +kernel
-- hypotheses of C11_voxel for this configuration
example : (sCfg (7/4) .sound).ndim = 3 ∧ (sCfg (7/4) .sound).dx = some 1 ∧ (sCfg (7/4) .sound).dyEff = some 1 ∧
    (sCfg (7/4) .sound).dz = some (1/4) ∧ (sCfg (7/4) .sound).slab = .sound ∧ (sCfg (7/4) .sound).radial = .sound ∧
    Ortho (sCfg (7/4) .sound).u (sCfg (7/4) .sound).v (sCfg (7/4) .sound).n :=
  ⟨rfl, rfl, rfl, rfl, rfl, rfl, C03.ortho_std⟩
-- sum × depth step with the slab inside the cell (origin at the cell centre): 7 · 1/4 whatever the number of samples (C11_units_const)
def mCfg (op : Op) (nz : Nat) : Cfg := { sCfg (7/4) .sound with o := ⟨1/2, 1/2, 1/2⟩, op := op, nz := some nz }
example : image (run (mCfg .sum 2) [sCell] none) = [[some (7/4), some (7/4), some (7/4), some (7/4)]] ∧
    image (run (mCfg .sum 4) [sCell] none) = [[some (7/4), some (7/4), some (7/4), some (7/4)]] ∧
    image (run (mCfg .max 4) [sCell] none) = [[some 7, some 7, some 7, some 7]] := by
  decide +kernel
-- the slab of the witness sticks out of the cell below z = 0: with four samples the lowest one is missing;
-- sum gives NaN (the pixel is masked), nansum integrates the three samples that are there: 3 · 7 · 1/16
example : image (run { sCfg (7/4) .sound with op := .sum, nz := some 4 } [sCell] none) = [[none, none, none, none]] ∧
    image (run { sCfg (7/4) .sound with op := .nansum, nz := some 4 } [sCell] none)
      = [[some (21/16), some (21/16), some (21/16), some (21/16)]] := by
  decide +kernel
example : (reduce .sum (List.replicate 4 (some 7))).map (· * scaleFactor true .sum ((1/4 : Rat) / (4 : Nat))) = some (7 * (1/4)) :=
  C11_units_const .sum (Or.inl rfl) 4 (by norm_num) 7 (1/4)
-- a slab sticking out of the cell: samples below the cell are missing; sum/mean/min/max give NaN, the nan-variants use what is there
example :
    let col : List Val := [none, some 3, some 5, none]
    reduce .sum col = none ∧ reduce .mean col = none ∧ reduce .min col = none ∧ reduce .max col = none ∧
    reduce .nansum col = some 8 ∧ reduce .nanmean col = some 4 ∧ reduce .nanmin col = some 3 ∧ reduce .nanmax col = some 5 := by
  decide +kernel
example : reduce .nansum [none, none] = some 0 ∧ reduce .nanmean [none, none] = none ∧ reduce .nanmin [none, none] = none := by
  decide +kernel
example : reduce .nanmean [none, some 3, some 5, none] = reduce (plainOf .nanmean) ((somes [none, some 3, some 5, none]).map some) :=
  reduce_nan_eq .nanmean (Or.inr (Or.inl rfl)) _ (by decide)
-- C11_units: the three outcomes
example : unitLengthPower true .sum = 1 ∧ unitLengthPower true .nansum = 1 ∧ unitLengthPower true .mean = 0 ∧
    unitLengthPower false .sum = 0 ∧ scaleFactor true .max 5 = 1 ∧ scaleFactor true .nansum 5 = 5 := by decide +kernel
-- depth_count_nearest: ratio 1.4 -> 1 (the integer nearest to depth/pixel; minimising |depth/n − pixel| would also give 1),
-- ratios 0.5, 1.5, 2.5 -> 0, 2, 2 (ties to even), 7/4 -> 2
example : depthCount (7/5) 1 1 = 1 ∧ depthCount (1/2) 1 1 = 0 ∧ depthCount (3/2) 1 1 = 2 ∧ depthCount (5/2) 1 1 = 2 ∧
    depthCount (7/4) 1 1 = 2 ∧ depthCount 3 1 (1/2) = 4 := by decide +kernel
example : roundHalfEven (5/2) % 2 = 0 := roundHalfEven_tie_even (5/2) (by decide +kernel)
-- mkGrid_thick: the grid `run` builds
example : mkGrid (sCfg (7/4) .sound) (winOf 1 1 (1/4)) = .ok (thickGrid (sCfg (7/4) .sound) (winOf 1 1 (1/4)) 1) :=
  mkGrid_thick _ _ (1/4) rfl (by decide) (by decide) (by norm_num [winOf, sCfg]) (by norm_num [winOf, sCfg])
    (by decide) (by norm_num [winOf, depthCountOf, sCfg])

/-! ### per-layer operations -/

/-- **C11 (per-layer operations)**: in every result of `run`, binned row `l` is the reduction of its own depth columns by
    *its own* operation (the layer's, else the call's), scaled by the depth step exactly when that operation integrates,
    and the row's unit power says the same -/
theorem C11_rows_use_own_operation (cfg : Cfg) (mesh : List Cell) (order : Option (List Nat)) (useArr : Bool) (res : Result)
    (h : run cfg mesh order useArr = .ok res) :
    ∃ mem : Mem, ∀ l, l < res.binned.length →
      res.binned[l]? = some ((List.range res.grid.ny).flatMap fun j => (List.range res.grid.nx).map fun i =>
        (reduce (cfg.opOf l) (column res.grid mem l j i)).map (· * scaleFactor cfg.thick (cfg.opOf l) res.grid.zsp)) ∧
      res.unitPowers[l]? = some (unitLengthPower cfg.thick (cfg.opOf l)) := by
  unfold run at h
  simp only at h
  split at h
  · cases h
  · split at h
    · cases h
    · split at h
      · cases h
      · rename_i g _
        injection h with h
        subst h
        let ks := (select cfg mesh).map (toK cfg)
        let nl := match mesh with | [] => 0 | c :: _ => c.vals.length
        let ordered : List KCell := match order with
          | none => ks
          | some idx => let a := ks.toArray; idx.filterMap fun i => a[i]?
        let evs := (ordered.map (withCover nl)).flatMap (writes g (nl + 1))
        refine ⟨if useArr then execArr ((nl + 1) * g.nz * g.ny * g.nx) evs else exec (initMem g (nl + 1)) evs, fun l hl => ?_⟩
        simp only [List.length_map, List.length_range] at hl
        constructor
        · simp only [List.getElem?_map, List.getElem?_range hl, Option.map_some]; rfl
        · simp only [List.getElem?_map, List.getElem?_range hl, Option.map_some]

end Osyris.C11
