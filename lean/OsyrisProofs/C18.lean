/-
C18  Every accepted map orientation yields an orthonormal, correctly oriented basis.

The model is unnormalised (see OsyrisModel/Basis.lean): `normalize` divides every vector by its
own positive length, so "orthonormal after normalisation" is "pairwise orthogonal and
non-zero" here, and "n parallel to the requested normal" is "n is a positive multiple of it".
`C18_normalize_unit` closes the gap for any length `s` with `s² = |v|²`.
-/
import OsyrisModel.Basis
import Mathlib.Algebra.Order.Field.Rat
import Mathlib.Tactic.Linarith
import Mathlib.Tactic.Ring
import Mathlib.Tactic.FieldSimp
import Mathlib.Tactic.LinearCombination
import Mathlib.Tactic.Positivity

namespace Osyris.C18
open Osyris.Basis Osyris.Basis.V3

/-- `a` is a positive multiple of `b` -/
def Parallel (a b : V3) : Prop := ∃ k : Rat, 0 < k ∧ a = smul k b

/-- pairwise orthogonal, all three non-zero: orthonormal once each vector is divided by its length -/
structure Orthogonal (b : Basis) : Prop where
  nu : dot b.n b.u = 0
  nv : dot b.n b.v = 0
  uv : dot b.u b.v = 0
  n0 : b.n ≠ zero
  u0 : b.u ≠ zero
  v0 : b.v ≠ zero

/-! ### helper lemmas -/

theorem V3.ext' {a b : V3} (hx : a.x = b.x) (hy : a.y = b.y) (hz : a.z = b.z) : a = b := by
  cases a; cases b; simp_all

theorem ne_zero_iff (v : V3) : v ≠ zero ↔ v.x ≠ 0 ∨ v.y ≠ 0 ∨ v.z ≠ 0 := by
  constructor
  · intro h
    by_contra hc
    simp only [not_or, not_not] at hc
    exact h (V3.ext' hc.1 hc.2.1 hc.2.2)
  · rintro h rfl
    simp [zero] at h

theorem normSq_pos {v : V3} (h : v ≠ zero) : 0 < normSq v := by
  unfold normSq dot
  rcases (ne_zero_iff v).mp h with h | h | h
  · have := mul_self_pos.mpr h; nlinarith [mul_self_nonneg v.y, mul_self_nonneg v.z]
  · have := mul_self_pos.mpr h; nlinarith [mul_self_nonneg v.x, mul_self_nonneg v.z]
  · have := mul_self_pos.mpr h; nlinarith [mul_self_nonneg v.x, mul_self_nonneg v.y]

theorem ne_zero_of_normSq_pos {v : V3} (h : 0 < normSq v) : v ≠ zero := by
  rintro rfl
  simp [normSq, dot, zero] at h

theorem dot_comm (a b : V3) : dot a b = dot b a := by unfold dot; ring

/-- Lagrange's identity -/
theorem normSq_cross (a b : V3) : normSq (cross a b) = normSq a * normSq b - dot a b * dot a b := by
  unfold normSq dot cross; ring

/-! ### property theorems -/

/-- **perp_orth**: the perpendicular chosen for a non-zero vector is perpendicular to it and non-zero -/
theorem perp_orth (v : V3) (hv : v ≠ zero) : dot (perpendicular v) v = 0 ∧ perpendicular v ≠ zero := by
  unfold perpendicular
  by_cases hz : v.z = 0
  · rw [if_pos hz]
    constructor
    · unfold dot; simp only [hz]; ring
    · rw [ne_zero_iff]
      rcases (ne_zero_iff v).mp hv with h | h | h
      · exact Or.inr (Or.inl h)
      · exact Or.inl (by simpa using h)
      · exact absurd hz h
  · rw [if_neg hz]
    constructor
    · unfold dot; simp only; field_simp; ring
    · rw [ne_zero_iff]; exact Or.inl (by norm_num)

/-- **cross_orth**: `a × b` is perpendicular to `a` and to `b` -/
theorem cross_orth (a b : V3) : dot (cross a b) a = 0 ∧ dot (cross a b) b = 0 := by
  unfold dot cross; constructor <;> ring

/-- **right-handedness**: for `u ⟂ n` and `v = n × u`, `u × v = |u|² n` -/
theorem u_cross_v (n u : V3) (h : dot u n = 0) : cross u (cross n u) = smul (normSq u) n := by
  unfold dot at h
  apply V3.ext' <;> simp only [cross, smul, normSq, dot]
  · linear_combination (-u.x) * h
  · linear_combination (-u.y) * h
  · linear_combination (-u.z) * h

/-- **normalisation**: dividing by a length `s` (`s² = |v|²`, `s ≠ 0`) gives a unit vector
    that is a positive multiple of `v` when `s > 0` -/
theorem C18_normalize_unit (v : V3) (s : Rat) (hs : s * s = normSq v) (h0 : 0 < s) :
    normSq (smul (1 / s) v) = 1 ∧ Parallel (smul (1 / s) v) v := by
  constructor
  · unfold normSq dot smul at *
    simp only
    have : s ≠ 0 := ne_of_gt h0
    field_simp
    linarith
  · exact ⟨1 / s, by positivity, rfl⟩

/-- **basis from a normal only** (`VectorBasis(n)`, `get_direction(Vector)`): pairwise orthogonal,
    non-zero vectors; `n` is the requested normal itself; right-handed: `u × v = |u|² n` with
    `|u|² > 0`, so that after normalisation `u × v = n` -/
theorem C18_basis_normal (n : V3) (hn : n ≠ zero) :
    let b := mkBasis n none none
    Orthogonal b ∧ b.n = n ∧ cross b.u b.v = smul (normSq b.u) b.n ∧ 0 < normSq b.u := by
  intro b
  obtain ⟨h1, h2⟩ := perp_orth n hn
  obtain ⟨h3, h4⟩ := cross_orth n (perpendicular n)
  have hb : b = ⟨n, perpendicular n, cross n (perpendicular n)⟩ := rfl
  have hv : cross n (perpendicular n) ≠ zero := by
    apply ne_zero_of_normSq_pos
    rw [normSq_cross, dot_comm n, h1]
    have := mul_pos (normSq_pos hn) (normSq_pos h2)
    linarith
  refine ⟨⟨?_, ?_, ?_, hn, h2, hv⟩, rfl, ?_, normSq_pos h2⟩
  · rw [hb, dot_comm]; exact h1
  · rw [hb, dot_comm]; exact h3
  · rw [hb, dot_comm]; exact h4
  · rw [hb]; exact u_cross_v n (perpendicular n) h1

/-- **basis from a normal and a perpendicular in-plane vector** (`VectorBasis(n, u)`) -/
theorem C18_basis_nu (n u : V3) (hn : n ≠ zero) (hu : u ≠ zero) (h : dot u n = 0) :
    let b := mkBasis n (some u) none
    Orthogonal b ∧ b.n = n ∧ b.u = u ∧ cross b.u b.v = smul (normSq b.u) b.n := by
  intro b
  obtain ⟨h3, h4⟩ := cross_orth n u
  have hb : b = ⟨n, u, cross n u⟩ := rfl
  have hv : cross n u ≠ zero := by
    apply ne_zero_of_normSq_pos
    rw [normSq_cross, dot_comm n, h]
    have := mul_pos (normSq_pos hn) (normSq_pos hu)
    linarith
  refine ⟨⟨?_, ?_, ?_, hn, hu, hv⟩, rfl, rfl, ?_⟩
  · rw [hb, dot_comm]; exact h
  · rw [hb, dot_comm]; exact h3
  · rw [hb, dot_comm]; exact h4
  · rw [hb]; exact u_cross_v n u h

/-- **a complete basis is taken as it is** (`VectorBasis(n, u, v)`, `get_direction(VectorBasis)`):
    an orthogonal triple stays orthogonal, with the same normal -/
theorem C18_basis_given (n u v : V3) (h : Orthogonal ⟨n, u, v⟩) :
    getDirection (.basis n u v) none none none = .basis ⟨n, u, v⟩ ∧ Orthogonal (mkBasis n (some u) (some v)) :=
  ⟨rfl, h⟩

/-- `roll` keeps a basis orthogonal; the new normal is the old `u`, the old normal becomes `v` -/
theorem C18_roll (b : Basis) (h : Orthogonal b) : Orthogonal b.roll ∧ b.roll.n = b.u ∧ b.roll.u = b.v ∧ b.roll.v = b.n := by
  have hb : b.roll = ⟨b.u, b.v, b.n⟩ := rfl
  refine ⟨⟨?_, ?_, ?_, h.u0, h.v0, h.n0⟩, rfl, rfl, rfl⟩
  · rw [hb]; exact h.uv
  · rw [hb, dot_comm]; exact h.nu
  · rw [hb, dot_comm]; exact h.nv

/-- **a normal Vector**: `get_direction(v)` is the basis of `C18_basis_normal` -/
theorem C18_vector (v : V3) (hv : v ≠ zero) (c : Option Cloud) (w : Option (Rat × Rat)) (o : Option V3) :
    ∃ b, getDirection (.vec v) c w o = .basis b ∧ Orthogonal b ∧ b.n = v ∧
      cross b.u b.v = smul (normSq b.u) b.n ∧ 0 < normSq b.u := by
  obtain ⟨h1, h2, h3, h4⟩ := C18_basis_normal v hv
  exact ⟨_, rfl, h1, h2, h3, h4⟩

/-- **letters and three-letter orders, in any case**: each of the 6 + 48 accepted strings gives an
    orthonormal basis whose normal is the axis named by the first letter (finite table) -/
theorem C18_letters : ∀ s ∈ letters ++ triples, stringFormOk s = true := by
  decide +kernel

theorem C18_table_size : (letters ++ triples).length = 54 ∧ (letters ++ triples).Nodup := by
  decide +kernel

/-- the single letters give the cyclic (right-handed) completion -/
theorem C18_single_letters :
    getDirection (.str ['x']) none none none = .basis ⟨⟨1, 0, 0⟩, ⟨0, 1, 0⟩, ⟨0, 0, 1⟩⟩ ∧
    getDirection (.str ['y']) none none none = .basis ⟨⟨0, 1, 0⟩, ⟨0, 0, 1⟩, ⟨1, 0, 0⟩⟩ ∧
    getDirection (.str ['z']) none none none = .basis ⟨⟨0, 0, 1⟩, ⟨1, 0, 0⟩, ⟨0, 1, 0⟩⟩ := by
  decide +kernel

/-! ### 'top' and 'side' -/

theorem smul_cross (m : Rat) (r v : V3) : cross (smul m r) v = smul m (cross r v) := by
  apply V3.ext' <;> simp only [cross, smul] <;> ring

/-- the angular momentum as coded, `Σ (m r) × v`, is the Spec's `Σ m (r × v)` -/
theorem C18_angMom_eq_spec (R : Rat) (rs : List (V3 × Rat × V3)) : angMom R rs = Spec.angMom R rs := by
  unfold angMom Spec.angMom
  congr 1
  funext acc p
  rw [smul_cross]

theorem lower_top : lower ['t', 'o', 'p'] = ['t', 'o', 'p'] := by decide +kernel
theorem lower_side : lower ['s', 'i', 'd', 'e'] = ['s', 'i', 'd', 'e'] := by decide +kernel

/-- **'top'**: the normal is the angular momentum `L = Σ_{|r−o|<R} m (r−o) × v` itself
    (`n ∥ L`), and the basis is orthogonal and right-handed -/
theorem C18_top (c : Cloud) (w : Option (Rat × Rat)) (o : Option V3) (R : Rat)
    (hR : sphereRad w c.pos = some R) (hL : Spec.angMom R (rows c o) ≠ zero) :
    ∃ b, getDirection (.str ['t', 'o', 'p']) (some c) w o = .basis b ∧
      b.n = Spec.angMom R (rows c o) ∧ Parallel b.n (Spec.angMom R (rows c o)) ∧ Orthogonal b ∧
      cross b.u b.v = smul (normSq b.u) b.n ∧ 0 < normSq b.u := by
  obtain ⟨h1, h2, h3, h4⟩ := C18_basis_normal _ hL
  refine ⟨mkBasis (Spec.angMom R (rows c o)) none none, ?_, h2, ⟨1, by norm_num, ?_⟩, h1, h3, h4⟩
  · unfold getDirection
    simp only [lower_top, cloudL, hR, C18_angMom_eq_spec]
    simp
  · rw [h2]; apply V3.ext' <;> simp [smul]

/-- **'side'**: the angular momentum lies in the image plane (`L · n' = 0`); it is the vertical
    image axis `v'`; the basis is orthogonal -/
theorem C18_side (c : Cloud) (w : Option (Rat × Rat)) (o : Option V3) (R : Rat)
    (hR : sphereRad w c.pos = some R) (hL : Spec.angMom R (rows c o) ≠ zero) :
    ∃ b, getDirection (.str ['s', 'i', 'd', 'e']) (some c) w o = .basis b ∧
      dot (Spec.angMom R (rows c o)) b.n = 0 ∧ b.v = Spec.angMom R (rows c o) ∧ Orthogonal b := by
  obtain ⟨h1, h2, _, _⟩ := C18_basis_normal _ hL
  obtain ⟨r1, r2, _, r4⟩ := C18_roll _ h1
  refine ⟨(mkBasis (Spec.angMom R (rows c o)) none none).roll, ?_, ?_, ?_, r1⟩
  · unfold getDirection
    simp only [lower_side, cloudL, hR, C18_angMom_eq_spec]
    simp
  · rw [r2]; have := h1.nu; rwa [h2] at this
  · rw [r4, h2]

/-! ### non-vacuity -/

-- perp_orth: both branches (z = 0 and z ≠ 0), including x + y = 0
example : perpendicular ⟨1, 2, 0⟩ = ⟨-2, 1, 0⟩ ∧ perpendicular ⟨1, -1, 3⟩ = ⟨1, 1, 0⟩ ∧
    perpendicular ⟨1, 2, 4⟩ = ⟨1, 1, -3/4⟩ := by decide +kernel
example : (⟨1, 2, 0⟩ : V3) ≠ zero := by decide +kernel
-- cross_orth / u_cross_v on a concrete pair: n = (0,0,2), u = (3,0,0): v = (0,6,0), u × v = 9 n
example : cross ⟨0, 0, 2⟩ ⟨3, 0, 0⟩ = ⟨0, 6, 0⟩ ∧ cross ⟨3, 0, 0⟩ ⟨0, 6, 0⟩ = smul 9 ⟨0, 0, 2⟩ := by decide +kernel
-- C18_normalize_unit: (3,4,0) has length 5
example : normSq (smul (1 / 5) ⟨3, 4, 0⟩) = 1 := (C18_normalize_unit ⟨3, 4, 0⟩ 5 (by decide +kernel) (by norm_num)).1
-- C18_basis_normal / C18_vector
example : mkBasis ⟨1, 2, 2⟩ none none = ⟨⟨1, 2, 2⟩, ⟨1, 1, -3/2⟩, ⟨-5, 7/2, -1⟩⟩ := by decide +kernel
-- C18_basis_nu: hypothesis satisfiable
example : dot ⟨0, 1, 0⟩ ⟨1, 0, 1⟩ = 0 ∧ (mkBasis ⟨1, 0, 1⟩ (some ⟨0, 1, 0⟩) none).v = ⟨-1, 0, 1⟩ := by decide +kernel
-- C18_basis_given / C18_roll: an orthogonal triple exists
example : Orthogonal ⟨⟨0, 0, 1⟩, ⟨1, 0, 0⟩, ⟨0, 1, 0⟩⟩ :=
  ⟨by decide +kernel, by decide +kernel, by decide +kernel, by decide +kernel, by decide +kernel, by decide +kernel⟩
-- C18_letters: the table contains mixed-case triples, and strings outside it are not accepted
example : ['Z', 'y', 'X'] ∈ letters ++ triples ∧ stringFormOk ['x', 'x', 'y', 'z'] = false ∧
    getDirection (.str ['w']) none none none = .none ∧ getDirection .other none none none = .valueErr := by
  decide +kernel
-- C18_top / C18_side: two particles orbiting the z axis, window 4 x 4 (R = 2); a third outside R is ignored
def cloudEx : Cloud :=
  { pos := [⟨1, 0, 0⟩, ⟨-1, 0, 0⟩, ⟨5, 0, 0⟩], vel := [⟨0, 1, 0⟩, ⟨0, -1, 0⟩, ⟨0, 0, 7⟩], mass := [2, 3, 11] }
example : sphereRad (some (4, 4)) cloudEx.pos = some 2 ∧ Spec.angMom 2 (rows cloudEx none) = ⟨0, 0, 5⟩ ∧
    getDirection (.str ['T', 'o', 'P']) (some cloudEx) (some (4, 4)) none = .basis ⟨⟨0, 0, 5⟩, ⟨1, 1, 0⟩, ⟨-5, 5, 0⟩⟩ ∧
    getDirection (.str ['s', 'i', 'd', 'e']) (some cloudEx) (some (4, 4)) none = .basis ⟨⟨1, 1, 0⟩, ⟨-5, 5, 0⟩, ⟨0, 0, 5⟩⟩ := by
  decide +kernel
-- the data-extent rule: extents 6, 0, 0 -> R = 1, nothing strictly inside |r| < 1
example : sphereRad none cloudEx.pos = some 1 ∧ Spec.angMom 1 (rows cloudEx none) = zero := by decide +kernel

end Osyris.C18
