/-
C05  2-D histogram bins every point exactly once, independent of thread schedule.

Property theorems (the ones listed in Audit/C05.lean):
  index_spec_unique, inBin_unique, C05_cell_spec, C05_nonfinite_no_cell   exactly one bin or none; edges bracket the point
  C05_index_floor_eq_spec, C05_cell_floor_eq_spec                floor rule = Spec
  C05_trunc_witness, C05_trunc_below_range                       negation for the code as written (`int()` truncates)
  C05_index_trunc_eq_spec_partial                                ... which is wrong only on (xmin − dx, xmin)
  C05_counts, C05_sum, C05_sum_mean, C05_conservation            counts / sum / mean layers, mask, totals
  accum_perm, C05_perm                                           order independence
  interleave_perm, C05_sched, C05_sched_counts, C05_sched_sum    every interleaving, every chunking: Spec result
  sharedRMW_loses_update, sharedRMW_one_thread                   the racy discipline loses a count; not with one thread
  C05_auto_limits_cover                                          automatic range contains every finite value
  accumArr_eq, updsOf_eq_updsZ                                   what the driver executes = the modelled fold
Everything else in this file is a helper lemma (kept here: this check may only add the files of
its own property). Each property theorem has a non-vacuity `example` at the end.
-/
import OsyrisModel.Hist
import Mathlib.Algebra.Order.Field.Rat
import Mathlib.Data.Rat.Floor
import Mathlib.Algebra.Order.Floor.Ring
import Mathlib.Tactic.Linarith
import Mathlib.Tactic.Ring
import Mathlib.Tactic.FieldSimp
import Mathlib.Data.List.Perm.Basic

namespace Osyris.C05
open Osyris.Hist


theorem floor_core_eq (q : ℚ) : q.floor = ⌊q⌋ := rfl

/-- bracket of bin `k` -/
def InBin (x xmin dx : Rat) (k : Nat) : Prop := xmin + (k : Rat) * dx ≤ x ∧ x < xmin + ((k : Rat) + 1) * dx

theorem floor_bracket (x xmin dx : Rat) (hdx : 0 < dx) (k : Int) :
    ⌊(x - xmin) / dx⌋ = k ↔ xmin + (k : Rat) * dx ≤ x ∧ x < xmin + ((k : Rat) + 1) * dx := by
  rw [Int.floor_eq_iff, le_div_iff₀ hdx, div_lt_iff₀ hdx]
  constructor
  · rintro ⟨h1, h2⟩; constructor <;> linarith
  · rintro ⟨h1, h2⟩; constructor <;> linarith

/-- **index_spec_unique**: a finite coordinate is in bin `k` iff `k` is a bin of the grid whose edges
    bracket it, `xmin + k·dx ≤ x < xmin + (k+1)·dx`. Being a function, `Spec.index` names at most
    one bin; the right-hand side says which one, and that there is none outside `[xmin, xmin + n·dx)`. -/
theorem index_spec_unique (x xmin dx : Rat) (n : Nat) (hdx : 0 < dx) (k : Nat) :
    Spec.index x xmin dx n = some k ↔ k < n ∧ InBin x xmin dx k := by
  unfold Spec.index InBin
  rw [floor_core_eq]
  constructor
  · intro h
    split at h
    · rename_i hr
      obtain ⟨h1, h2⟩ := hr
      have hk : ⌊(x - xmin) / dx⌋.toNat = k := by simpa using h
      have h0 : 0 ≤ ⌊(x - xmin) / dx⌋ := Int.floor_nonneg.mpr (div_nonneg (by linarith) hdx.le)
      have hk' : ⌊(x - xmin) / dx⌋ = (k : Int) := by omega
      have hb := (floor_bracket x xmin dx hdx k).mp hk'
      simp only [Int.cast_natCast] at hb
      refine ⟨?_, hb⟩
      by_contra hn
      have : (n : Rat) ≤ k := by exact_mod_cast Nat.le_of_not_lt hn
      have : (n : Rat) * dx ≤ k * dx := mul_le_mul_of_nonneg_right this hdx.le
      linarith [hb.1]
    · cases h
  · rintro ⟨hk, h1, h2⟩
    have hkn : (k : Rat) + 1 ≤ n := by exact_mod_cast hk
    have : ((k : Rat) + 1) * dx ≤ n * dx := mul_le_mul_of_nonneg_right hkn hdx.le
    have hk0 : (0 : Rat) ≤ k := by positivity
    have : 0 ≤ (k : Rat) * dx := mul_nonneg hk0 hdx.le
    rw [if_pos ⟨by linarith, by linarith⟩]
    have : ⌊(x - xmin) / dx⌋ = (k : Int) := (floor_bracket x xmin dx hdx k).mpr (by simpa using ⟨h1, h2⟩)
    rw [this]; simp



/-- bins are disjoint: a coordinate is bracketed by the edges of at most one bin -/
theorem inBin_unique (x xmin dx : Rat) (hdx : 0 < dx) (k k' : Nat) (h : InBin x xmin dx k) (h' : InBin x xmin dx k') :
    k = k' := by
  have e1 : ⌊(x - xmin) / dx⌋ = (k : Int) := (floor_bracket x xmin dx hdx k).mpr (by simpa [InBin] using h)
  have e2 : ⌊(x - xmin) / dx⌋ = (k' : Int) := (floor_bracket x xmin dx hdx k').mpr (by simpa [InBin] using h')
  have : (k : Int) = (k' : Int) := e1.symm.trans e2
  exact_mod_cast this

/-- **floor rule = Spec**: `int(np.floor(q))` followed by the range test on the index is the
    half-open range test on the coordinate followed by `⌊q⌋` -/
theorem C05_index_floor_eq_spec (x xmin dx : Rat) (n : Nat) (hdx : 0 < dx) :
    index .floor x xmin dx n = Spec.index x xmin dx n := by
  have key : (0 ≤ ⌊(x - xmin) / dx⌋ ∧ ⌊(x - xmin) / dx⌋ < (n : Int)) ↔ (xmin ≤ x ∧ x < xmin + (n : Rat) * dx) := by
    rw [Int.floor_nonneg, Int.floor_lt, div_nonneg_iff, div_lt_iff₀ hdx]
    constructor
    · rintro ⟨h1, h2⟩
      refine ⟨?_, by push_cast at h2; linarith⟩
      rcases h1 with h | h
      · linarith [h.1]
      · linarith [h.2]
    · rintro ⟨h1, h2⟩
      exact ⟨Or.inl ⟨by linarith, hdx.le⟩, by push_cast; linarith⟩
  show (if 0 ≤ ⌊(x - xmin) / dx⌋ ∧ ⌊(x - xmin) / dx⌋ < (n : Int) then some ⌊(x - xmin) / dx⌋.toNat else none)
     = (if xmin ≤ x ∧ x < xmin + (n : Rat) * dx then some ⌊(x - xmin) / dx⌋.toNat else none)
  split_ifs with h1 h2 h2
  · rfl
  · exact absurd (key.mp h1) h2
  · exact absurd (key.mpr h2) h1
  · rfl

theorem truncQ_of_nonneg (q : Rat) (h : 0 ≤ q) : truncQ q = ⌊q⌋ := by
  unfold truncQ; rw [if_pos h]; rfl

theorem truncQ_of_neg (q : Rat) (h : q < 0) : truncQ q = -⌊-q⌋ := by
  unfold truncQ; rw [if_neg (not_le.mpr h)]; rfl

/-- the unchanged code: a point half a bin width below `xmin` is counted in bin 0 -/
theorem C05_trunc_witness (xmin dx : Rat) (n : Nat) (hdx : 0 < dx) (hn : 0 < n) :
    index .trunc (xmin - dx / 2) xmin dx n = some 0 ∧ Spec.index (xmin - dx / 2) xmin dx n = none := by
  have hq : (xmin - dx / 2 - xmin) / dx = -(1 / 2) := by field_simp; ring
  constructor
  · unfold index rawIndex
    simp only [hq]
    rw [truncQ_of_neg _ (by norm_num)]
    have : ⌊-(-(1 / 2 : Rat))⌋ = 0 := by rw [Int.floor_eq_iff]; norm_num
    rw [this]
    have hn' : n ≠ 0 := by omega
    simp [hn']
  · unfold Spec.index
    rw [if_neg]
    rintro ⟨h1, _⟩
    linarith

/-- every point of the open interval `(xmin − dx, xmin)` is mis-binned by the truncating rule -/
theorem C05_trunc_below_range (x xmin dx : Rat) (n : Nat) (hdx : 0 < dx) (hn : 0 < n)
    (h1 : xmin - dx < x) (h2 : x < xmin) :
    index .trunc x xmin dx n = some 0 ∧ Spec.index x xmin dx n = none := by
  have hq : (x - xmin) / dx < 0 := div_neg_of_neg_of_pos (by linarith) hdx
  constructor
  · unfold index rawIndex
    simp only
    rw [truncQ_of_neg _ hq]
    have : ⌊-((x - xmin) / dx)⌋ = 0 := by
      rw [Int.floor_eq_iff]
      refine ⟨by simp; linarith, ?_⟩
      have : -1 < (x - xmin) / dx := by rw [lt_div_iff₀ hdx]; linarith
      push_cast; linarith
    rw [this]
    have hn' : n ≠ 0 := by omega
    simp [hn']
  · unfold Spec.index
    rw [if_neg]
    rintro ⟨h, _⟩
    linarith

/-- the truncating rule agrees with the Spec except on `(xmin − dx, xmin)` -/
theorem C05_index_trunc_eq_spec_partial (x xmin dx : Rat) (n : Nat) (hdx : 0 < dx)
    (h : ¬(xmin - dx < x ∧ x < xmin)) :
    index .trunc x xmin dx n = Spec.index x xmin dx n := by
  rw [← C05_index_floor_eq_spec x xmin dx n hdx]
  unfold index rawIndex
  simp only
  rcases le_or_gt xmin x with hx | hx
  · rw [truncQ_of_nonneg _ (div_nonneg (by linarith) hdx.le)]; rfl
  · have hx' : x ≤ xmin - dx := by
      by_contra hc; exact h ⟨by linarith, hx⟩
    have hq : (x - xmin) / dx < 0 := div_neg_of_neg_of_pos (by linarith) hdx
    have hq1 : (x - xmin) / dx ≤ -1 := by
      rw [div_le_iff₀ hdx]; linarith
    rw [truncQ_of_neg _ hq]
    have hneg1 : -⌊-((x - xmin) / dx)⌋ < 0 := by
      have : (1 : ℤ) ≤ ⌊-((x - xmin) / dx)⌋ := by rw [Int.le_floor]; push_cast; linarith
      omega
    have hneg2 : ((x - xmin) / dx).floor < 0 := by
      change ⌊(x - xmin) / dx⌋ < 0
      rw [Int.floor_lt]; push_cast; linarith
    rw [if_neg (by omega), if_neg (by omega)]



/-! ### images: length, element-wise characterisation -/

@[simp] theorem addAt_length (m : Img) (i : Nat) (v : Rat) : (addAt m i v).length = m.length := by
  induction m generalizing i with
  | nil => rfl
  | cons a l ih => cases i <;> simp [addAt, ih]

theorem addAt_getD (m : Img) (i j : Nat) (v : Rat) :
    (addAt m i v).getD j 0 = m.getD j 0 + (if i = j ∧ j < m.length then v else 0) := by
  induction m generalizing i j with
  | nil => simp [addAt]
  | cons a l ih =>
    cases i with
    | zero =>
      cases j with
      | zero => simp [addAt]
      | succ j => simp [addAt]
    | succ i =>
      cases j with
      | zero => simp [addAt]
      | succ j => simpa [addAt] using ih i j

/-- contribution of a list of updates to element `j` of an image of length `n` -/
def wsum (n j : Nat) : List Upd → Rat
  | [] => 0
  | u :: us => (if u.1 = j ∧ j < n then u.2 else 0) + wsum n j us

@[simp] theorem accum_length (m : Img) (us : List Upd) : (accum m us).length = m.length := by
  induction us generalizing m with
  | nil => rfl
  | cons u us ih => simp [accum, List.foldl_cons, step] at ih ⊢; rw [ih]; simp

theorem accum_getD (m : Img) (us : List Upd) (j : Nat) :
    (accum m us).getD j 0 = m.getD j 0 + wsum m.length j us := by
  induction us generalizing m with
  | nil => simp [accum, wsum]
  | cons u us ih =>
    have := ih (step m u)
    simp only [accum, List.foldl_cons] at this ⊢
    rw [this]
    simp only [step, addAt_getD, addAt_length, wsum]
    ring

theorem img_ext (a b : Img) (hl : a.length = b.length) (h : ∀ j, a.getD j 0 = b.getD j 0) : a = b := by
  apply List.ext_getElem hl
  intro j h1 h2
  have := h j
  simpa [List.getD_eq_getElem?_getD, List.getElem?_eq_getElem h1, List.getElem?_eq_getElem h2] using this

theorem wsum_perm (n j : Nat) {us us' : List Upd} (h : us.Perm us') : wsum n j us = wsum n j us' := by
  induction h with
  | nil => rfl
  | cons x _ ih => simp [wsum, ih]
  | swap x y l => simp only [wsum]; ring
  | trans _ _ ih1 ih2 => exact ih1.trans ih2

theorem wsum_append (n j : Nat) (a b : List Upd) : wsum n j (a ++ b) = wsum n j a + wsum n j b := by
  induction a with
  | nil => simp [wsum]
  | cons u a ih => simp only [List.cons_append, wsum, ih]; ring

/-- **order independence of the accumulation** -/
theorem accum_perm (m : Img) {us us' : List Upd} (h : us.Perm us') : accum m us = accum m us' := by
  apply img_ext
  · simp
  · intro j; rw [accum_getD, accum_getD, wsum_perm _ _ h]

@[simp] theorem zeros_length (n : Nat) : (zeros n).length = n := by simp [zeros]
@[simp] theorem zeros_getD (n j : Nat) : (zeros n).getD j 0 = 0 := by
  simp only [zeros, List.getD_eq_getElem?_getD, List.getElem?_replicate]
  split <;> rfl

theorem wsum_updsOf (cellf : Coord → Coord → Option Nat) (val : Pt → Rat) (size c : Nat) (hc : c < size)
    (pts : List Pt) :
    wsum size c (updsOf cellf val pts) = sumR ((pts.filter fun p => cellf p.x p.y == some c).map val) := by
  induction pts with
  | nil => rfl
  | cons p pts ih =>
    unfold updsOf at ih ⊢
    rw [List.filterMap_cons, List.filter_cons]
    cases hcell : cellf p.x p.y with
    | none => simpa using ih
    | some k =>
      by_cases hk : k = c
      · subst hk; simp [wsum, sumR, hc, ih]
      · have : (some k == some c) = false := by simpa using hk
        simp [wsum, hk, ih]

/-- element `c` of a layer image is the sum of the layer's values over the points of cell `c` -/
theorem layer_getD (cellf : Coord → Coord → Option Nat) (val : Pt → Rat) (size c : Nat) (hc : c < size)
    (pts : List Pt) :
    (accum (zeros size) (updsOf cellf val pts)).getD c 0
      = sumR ((pts.filter fun p => cellf p.x p.y == some c).map val) := by
  rw [accum_getD, zeros_getD, zeros_length, wsum_updsOf _ _ _ _ hc, zero_add]

theorem sumR_const_one (l : List Pt) : sumR (l.map fun _ => (1 : Rat)) = (l.length : Rat) := by
  induction l with
  | nil => simp [sumR]
  | cons a l ih =>
    rw [List.map_cons, sumR, ih, List.length_cons]; push_cast; ring



/-! ### 2-D cells -/

theorem wf_dx_pos {g : Grid} (h : g.WF) : 0 < g.dx := by
  obtain ⟨hnx, _, hx, _⟩ := h
  unfold Grid.dx
  exact div_pos (by linarith) (by exact_mod_cast hnx)

theorem wf_dy_pos {g : Grid} (h : g.WF) : 0 < g.dy := by
  obtain ⟨_, hny, _, hy⟩ := h
  unfold Grid.dy
  exact div_pos (by linarith) (by exact_mod_cast hny)

/-- **floor rule = Spec**, for whole cells -/
theorem C05_cell_floor_eq_spec (g : Grid) (hg : g.WF) (x y : Coord) : cell .floor g x y = Spec.cell g x y := by
  unfold cell Spec.cell cellWith
  cases x <;> cases y <;> simp only
  rw [C05_index_floor_eq_spec _ _ _ _ (wf_dx_pos hg), C05_index_floor_eq_spec _ _ _ _ (wf_dy_pos hg)]

theorem spec_index_lt {x xmin dx : Rat} {n k : Nat} (hdx : 0 < dx) (h : Spec.index x xmin dx n = some k) : k < n :=
  ((index_spec_unique x xmin dx n hdx k).mp h).1

theorem flat_lt {i j nx ny : Nat} (hi : i < nx) (hj : j < ny) : j * nx + i < ny * nx := by
  calc j * nx + i < j * nx + nx := by omega
    _ = (j + 1) * nx := by ring
    _ ≤ ny * nx := Nat.mul_le_mul_right nx hj

theorem spec_cell_lt {g : Grid} (hg : g.WF) {x y : Coord} {c : Nat} (h : Spec.cell g x y = some c) : c < g.size := by
  unfold Spec.cell cellWith at h
  cases x <;> cases y <;> simp only at h <;> try cases h
  split at h
  · rename_i i j hi hj
    cases h
    exact flat_lt (spec_index_lt (wf_dx_pos hg) hi) (spec_index_lt (wf_dy_pos hg) hj)
  · cases h

/-- **each finite point is in exactly one cell or none; the cell's edges bracket the point** -/
theorem C05_cell_spec (g : Grid) (hg : g.WF) (a b : Rat) (c : Nat) :
    Spec.cell g (.fin a) (.fin b) = some c ↔
      ∃ i j, c = j * g.nx + i ∧ i < g.nx ∧ j < g.ny ∧ InBin a g.xmin g.dx i ∧ InBin b g.ymin g.dy j := by
  unfold Spec.cell cellWith
  simp only
  constructor
  · intro h
    split at h
    · rename_i i j hi hj
      cases h
      obtain ⟨h1, h2⟩ := (index_spec_unique _ _ _ _ (wf_dx_pos hg) i).mp hi
      obtain ⟨h3, h4⟩ := (index_spec_unique _ _ _ _ (wf_dy_pos hg) j).mp hj
      exact ⟨i, j, rfl, h1, h3, h2, h4⟩
    · cases h
  · rintro ⟨i, j, rfl, h1, h3, h2, h4⟩
    rw [(index_spec_unique _ _ _ _ (wf_dx_pos hg) i).mpr ⟨h1, h2⟩, (index_spec_unique _ _ _ _ (wf_dy_pos hg) j).mpr ⟨h3, h4⟩]

/-- non-finite coordinates have no cell -/
theorem C05_nonfinite_no_cell (g : Grid) (x y : Coord) (h : x = .nonfinite ∨ y = .nonfinite) :
    Spec.cell g x y = none ∧ ∀ rule, cell rule g x y = none := by
  unfold Spec.cell cell cellWith
  rcases h with rfl | rfl
  · exact ⟨rfl, fun _ => rfl⟩
  · cases x <;> exact ⟨rfl, fun _ => rfl⟩

/-! ### counts, sums, means -/

theorem out_getD (cellf : Coord → Coord → Option Nat) (size L l : Nat) (hl : l < L) (pts : List Pt) :
    (hist2dWith cellf size L pts).out.getD l [] = layerImg cellf size l pts := by
  simp [hist2dWith, List.getD_eq_getElem?_getD, hl]

/-- **counts = number of points per bin** (the bin being the Spec's half-open cell) -/
theorem C05_counts (g : Grid) (hg : g.WF) (L : Nat) (pts : List Pt) (c : Nat) (hc : c < g.size) :
    (hist2d .floor g L pts).counts.getD c 0 = (Spec.count g pts c : Rat) := by
  have hcell : cell .floor g = Spec.cell g := by funext x y; exact C05_cell_floor_eq_spec g hg x y
  unfold hist2d hist2dWith countsImg Spec.count
  simp only [hcell]
  rw [layer_getD _ _ _ _ hc, sumR_const_one]

/-- **sum layer = per-bin sum of the layer's values** -/
theorem C05_sum (g : Grid) (hg : g.WF) (L l : Nat) (hl : l < L) (pts : List Pt) (c : Nat) (hc : c < g.size) :
    ((hist2d .floor g L pts).out.getD l []).getD c 0 = Spec.sum g pts l c := by
  have hcell : cell .floor g = Spec.cell g := by funext x y; exact C05_cell_floor_eq_spec g hg x y
  unfold hist2d
  rw [out_getD _ _ _ _ hl, hcell]
  unfold layerImg Spec.sum
  rw [layer_getD _ _ _ _ hc]

theorem finish_getD (op : Operation) (sums counts : Img) (c : Nat) (h1 : c < sums.length) (h2 : c < counts.length) :
    (finish op sums counts).getD c none =
      if counts.getD c 0 = 0 then none
      else some (match op with | .sum => sums.getD c 0 | .mean => sums.getD c 0 / counts.getD c 0) := by
  unfold finish
  simp [List.getD_eq_getElem?_getD, List.getElem?_zipWith, List.getElem?_eq_getElem h1, List.getElem?_eq_getElem h2]
  cases op <;> rfl

/-- **sum / mean layers and the mask**: after `finish`, a bin without points is masked, a bin
    with points shows the per-bin sum ('sum') or the per-bin mean ('mean') of the layer -/
theorem C05_sum_mean (g : Grid) (hg : g.WF) (L l : Nat) (hl : l < L) (pts : List Pt) (c : Nat) (hc : c < g.size)
    (op : Operation) :
    let r := hist2d .floor g L pts
    (finish op (r.out.getD l []) r.counts).getD c none =
      if Spec.count g pts c = 0 then none
      else some (match op with
        | .sum => Spec.sum g pts l c
        | .mean => Spec.sum g pts l c / (Spec.count g pts c : Rat)) := by
  intro r
  have hlen1 : c < (r.out.getD l []).length := by
    show c < ((hist2d .floor g L pts).out.getD l []).length
    unfold hist2d; rw [out_getD _ _ _ _ hl]; simpa [layerImg] using hc
  have hlen2 : c < r.counts.length := by
    show c < (hist2d .floor g L pts).counts.length
    simpa [hist2d, hist2dWith, countsImg] using hc
  rw [finish_getD op _ _ c hlen1 hlen2]
  have h1 : r.counts.getD c 0 = (Spec.count g pts c : Rat) := C05_counts g hg L pts c hc
  have h2 : (r.out.getD l []).getD c 0 = Spec.sum g pts l c := C05_sum g hg L l hl pts c hc
  rw [h1, h2]
  by_cases h0 : Spec.count g pts c = 0
  · simp [h0]
  · have : ((Spec.count g pts c : Nat) : Rat) ≠ 0 := by exact_mod_cast h0
    simp [h0, this]

/-! ### conservation -/

theorem sumR_addAt (m : Img) (i : Nat) (v : Rat) : sumR (addAt m i v) = sumR m + (if i < m.length then v else 0) := by
  induction m generalizing i with
  | nil => simp [addAt, sumR]
  | cons a l ih =>
    cases i with
    | zero => simp [addAt, sumR]; ring
    | succ i => simp only [addAt, sumR, ih, List.length_cons, Nat.succ_lt_succ_iff]; ring

theorem sumR_zeros (n : Nat) : sumR (zeros n) = 0 := by
  induction n with
  | zero => rfl
  | succ n ih => simp only [zeros, List.replicate_succ, sumR] at ih ⊢; rw [ih]; ring

theorem sumR_accum (m : Img) (us : List Upd) (h : ∀ u ∈ us, u.1 < m.length) :
    sumR (accum m us) = sumR m + sumR (us.map (·.2)) := by
  induction us generalizing m with
  | nil => simp [accum, sumR]
  | cons u us ih =>
    have h1 := h u (by simp)
    have := ih (step m u) (by intro w hw; simpa [step] using h w (by simp [hw]))
    simp only [accum, List.foldl_cons] at this ⊢
    rw [this, step, sumR_addAt, if_pos h1, List.map_cons, sumR]; ring

/-- **conservation**: the counts add up to the number of points that have a cell -/
theorem C05_conservation (g : Grid) (hg : g.WF) (L : Nat) (pts : List Pt) :
    sumR (hist2d .floor g L pts).counts = (Spec.inRange g pts : Rat) := by
  have hcell : cell .floor g = Spec.cell g := by funext x y; exact C05_cell_floor_eq_spec g hg x y
  unfold hist2d hist2dWith countsImg Spec.inRange
  simp only [hcell]
  rw [sumR_accum, sumR_zeros, zero_add]
  · induction pts with
    | nil => rfl
    | cons p pts ih =>
      unfold updsOf at ih ⊢
      rw [List.filterMap_cons, List.filter_cons]
      cases hc : Spec.cell g p.x p.y with
      | none => simpa using ih
      | some k => simp only [Option.map_some, List.map_cons, sumR, ih, Option.isSome_some, if_true, List.length_cons]; push_cast; ring
  · intro u hu
    unfold updsOf at hu
    rw [List.mem_filterMap] at hu
    obtain ⟨p, _, hp⟩ := hu
    cases hc : Spec.cell g p.x p.y with
    | none => simp [hc] at hp
    | some k =>
      simp [hc] at hp; subst hp
      simpa using spec_cell_lt hg hc

/-! ### order independence at the level of points -/

theorem updsOf_perm (cellf : Coord → Coord → Option Nat) (val : Pt → Rat) {pts pts' : List Pt} (h : pts.Perm pts') :
    (updsOf cellf val pts).Perm (updsOf cellf val pts') := h.filterMap _

/-- **the histogram does not depend on the order in which the points are processed** -/
theorem C05_perm (rule : IndexRule) (g : Grid) (L : Nat) {pts pts' : List Pt} (h : pts.Perm pts') :
    hist2d rule g L pts = hist2d rule g L pts' := by
  unfold hist2d hist2dWith countsImg layerImg
  congr 1
  · exact accum_perm _ (updsOf_perm _ _ h)
  · apply List.map_congr_left
    intro l _
    exact accum_perm _ (updsOf_perm _ _ h)

/-! ### schedules -/

theorem pickHead_perm {α : Type} : ∀ (ths : List (List α)) (t : Nat) (e : α) (ths' : List (List α)),
    pickHead ths t = some (e, ths') → ths.flatten.Perm (e :: ths'.flatten)
  | [], _, _, _, h => by simp [pickHead] at h
  | [] :: _, 0, _, _, h => by simp [pickHead] at h
  | (e' :: th) :: rest, 0, e, ths', h => by
    simp only [pickHead, Option.some.injEq, Prod.mk.injEq] at h
    obtain ⟨rfl, rfl⟩ := h
    simp
  | th :: rest, t + 1, e, ths', h => by
    simp only [pickHead, Option.map_eq_some_iff] at h
    obtain ⟨⟨e0, r⟩, hp, heq⟩ := h
    simp only [Prod.mk.injEq] at heq
    obtain ⟨rfl, rfl⟩ := heq
    have ih := pickHead_perm rest t e0 r hp
    simp only [List.flatten_cons]
    exact (List.Perm.append_left th ih).trans List.perm_middle

/-- every schedule executes every event exactly once -/
theorem interleave_perm {α : Type} (s : List Nat) : ∀ (ths : List (List α)), (interleave ths s).Perm ths.flatten := by
  induction s with
  | nil => intro ths; exact List.Perm.refl _
  | cons t s ih =>
    intro ths
    unfold interleave
    cases hp : pickHead ths t with
    | none => exact ih ths
    | some p =>
      obtain ⟨e, ths'⟩ := p
      exact ((ih ths').cons e).trans (pickHead_perm ths t e ths' hp).symm

/-- events of the three race-free disciplines; private adds name an existing thread -/
def GoodEv (nth : Nat) : Ev → Prop
  | .add _ _ => True
  | .padd t _ _ => t < nth
  | _ => False

def contrib (n j : Nat) : Ev → Rat
  | .add i v => if i = j ∧ j < n then v else 0
  | .padd _ i v => if i = j ∧ j < n then v else 0
  | _ => 0

def csum (n j : Nat) : List Ev → Rat
  | [] => 0
  | e :: es => contrib n j e + csum n j es

theorem csum_perm (n j : Nat) {a b : List Ev} (h : a.Perm b) : csum n j a = csum n j b := by
  induction h with
  | nil => rfl
  | cons x _ ih => simp [csum, ih]
  | swap x y l => simp only [csum]; ring
  | trans _ _ ih1 ih2 => exact ih1.trans ih2

theorem csum_append (n j : Nat) (a b : List Ev) : csum n j (a ++ b) = csum n j a + csum n j b := by
  induction a with
  | nil => simp [csum]
  | cons u a ih => simp only [List.cons_append, csum, ih]; ring

def psum (j : Nat) : List Img → Rat
  | [] => 0
  | p :: ps => p.getD j 0 + psum j ps

structure Inv (n nth : Nat) (s : St) : Prop where
  mem : s.mem.length = n
  nprivs : s.privs.length = nth
  privs : ∀ p ∈ s.privs, p.length = n

theorem addImg_length (a b : Img) (h : a.length = b.length) : (addImg a b).length = a.length := by
  simp [addImg, h]

theorem addImg_getD (a b : Img) (h : a.length = b.length) (j : Nat) :
    (addImg a b).getD j 0 = a.getD j 0 + b.getD j 0 := by
  unfold addImg
  simp only [List.getD_eq_getElem?_getD, List.getElem?_zipWith]
  by_cases hj : j < a.length
  · have hj' : j < b.length := h ▸ hj
    simp [List.getElem?_eq_getElem hj, List.getElem?_eq_getElem hj']
  · have hj' : ¬ j < b.length := h ▸ hj
    simp [List.getElem?_eq_none (Nat.le_of_not_lt hj), List.getElem?_eq_none (Nat.le_of_not_lt hj')]

theorem foldl_addImg (n : Nat) (privs : List Img) : ∀ (m : Img), m.length = n → (∀ p ∈ privs, p.length = n) →
    (privs.foldl addImg m).length = n ∧ ∀ j, (privs.foldl addImg m).getD j 0 = m.getD j 0 + psum j privs := by
  induction privs with
  | nil => intro m hm _; exact ⟨hm, fun j => by simp [psum]⟩
  | cons p ps ih =>
    intro m hm hp
    have hpl : p.length = n := hp p (by simp)
    have hmp : m.length = p.length := by rw [hm, hpl]
    have := ih (addImg m p) (by rw [addImg_length _ _ hmp, hm]) (fun q hq => hp q (by simp [hq]))
    refine ⟨this.1, fun j => ?_⟩
    rw [List.foldl_cons, this.2 j, addImg_getD _ _ hmp, psum]; ring

theorem modifyNth_length {α : Type} (f : α → α) (l : List α) (t : Nat) : (modifyNth f l t).length = l.length := by
  induction l generalizing t with
  | nil => rfl
  | cons a l ih => cases t <;> simp [modifyNth, ih]

theorem modifyNth_forall {α : Type} (f : α → α) (P : α → Prop) (hf : ∀ a, P a → P (f a)) (l : List α) (t : Nat)
    (h : ∀ a ∈ l, P a) : ∀ a ∈ modifyNth f l t, P a := by
  induction l generalizing t with
  | nil => intro a ha; simp [modifyNth] at ha
  | cons b l ih =>
    cases t with
    | zero =>
      intro a ha
      simp only [modifyNth, List.mem_cons] at ha
      rcases ha with rfl | ha
      · exact hf b (h b (by simp))
      · exact h a (by simp [ha])
    | succ t =>
      intro a ha
      simp only [modifyNth, List.mem_cons] at ha
      rcases ha with rfl | ha
      · exact h a (by simp)
      · exact ih t (fun x hx => h x (by simp [hx])) a ha

theorem psum_modifyNth (n i j : Nat) (v : Rat) (privs : List Img) (t : Nat) (h : ∀ p ∈ privs, p.length = n) :
    psum j (modifyNth (fun p => addAt p i v) privs t)
      = psum j privs + (if t < privs.length then (if i = j ∧ j < n then v else 0) else 0) := by
  induction privs generalizing t with
  | nil => simp [modifyNth, psum]
  | cons p ps ih =>
    cases t with
    | zero =>
      simp only [modifyNth, psum, addAt_getD, h p (by simp), List.length_cons, Nat.zero_lt_succ, if_true]; ring
    | succ t =>
      simp only [modifyNth, psum, ih t (fun q hq => h q (by simp [hq])), List.length_cons, Nat.succ_lt_succ_iff]; ring

theorem exec1_good (n nth : Nat) (s : St) (hs : Inv n nth s) (e : Ev) (he : GoodEv nth e) :
    Inv n nth (exec1 s e) ∧ ∀ j, (finalImg (exec1 s e)).getD j 0 = (finalImg s).getD j 0 + contrib n j e := by
  cases e with
  | load t i => exact absurd he (by simp [GoodEv])
  | store t i v => exact absurd he (by simp [GoodEv])
  | add i v =>
    have hinv : Inv n nth (exec1 s (.add i v)) := ⟨by simp [exec1, hs.mem], hs.nprivs, hs.privs⟩
    refine ⟨hinv, fun j => ?_⟩
    unfold finalImg
    rw [(foldl_addImg n _ _ hinv.mem hinv.privs).2 j, (foldl_addImg n _ _ hs.mem hs.privs).2 j]
    simp only [exec1, addAt_getD, contrib, hs.mem]; ring
  | padd t i v =>
    have ht : t < s.privs.length := by rw [hs.nprivs]; exact he
    have hinv : Inv n nth (exec1 s (.padd t i v)) :=
      ⟨hs.mem, by simp [exec1, modifyNth_length, hs.nprivs],
       modifyNth_forall _ (fun (p : Img) => p.length = n) (fun a ha => by simpa using ha) _ _ hs.privs⟩
    refine ⟨hinv, fun j => ?_⟩
    unfold finalImg
    rw [(foldl_addImg n _ _ hinv.mem hinv.privs).2 j, (foldl_addImg n _ _ hs.mem hs.privs).2 j]
    simp only [exec1, contrib]
    rw [psum_modifyNth n i j v _ t hs.privs, if_pos ht]; ring

theorem exec_good (n nth : Nat) (evs : List Ev) : ∀ (s : St), Inv n nth s → (∀ e ∈ evs, GoodEv nth e) →
    Inv n nth (exec s evs) ∧ ∀ j, (finalImg (exec s evs)).getD j 0 = (finalImg s).getD j 0 + csum n j evs := by
  induction evs with
  | nil => intro s hs _; exact ⟨hs, fun j => by simp [exec, csum]⟩
  | cons e es ih =>
    intro s hs hg
    obtain ⟨h1, h2⟩ := exec1_good n nth s hs e (hg e (by simp))
    obtain ⟨h3, h4⟩ := ih (exec1 s e) h1 (fun x hx => hg x (by simp [hx]))
    refine ⟨by simpa [exec] using h3, fun j => ?_⟩
    have := h4 j
    simp only [exec, List.foldl_cons] at this ⊢
    rw [this, h2 j, csum]; ring

theorem initSt_inv (size nth : Nat) : Inv size nth (initSt size nth) :=
  ⟨by simp [initSt], by simp [initSt], by intro p hp; simp [initSt] at hp; rw [hp.2]; simp⟩

theorem psum_zeros (j n k : Nat) : psum j (List.replicate k (zeros n)) = 0 := by
  induction k with
  | zero => rfl
  | succ k ih => rw [List.replicate_succ, psum, ih, zeros_getD]; ring

theorem finalImg_init (size nth j : Nat) : (finalImg (initSt size nth)).getD j 0 = 0 := by
  unfold finalImg
  rw [(foldl_addImg size _ _ (initSt_inv size nth).mem (initSt_inv size nth).privs).2 j]
  simp only [initSt, psum_zeros, zeros_getD]; ring

theorem csum_threadEvents (d : Disc) (hd : d ≠ .sharedRMW) (n j t : Nat) (c : List Upd) :
    csum n j (threadEvents d t c) = wsum n j c := by
  induction c with
  | nil => cases d <;> rfl
  | cons u c ih =>
    cases d with
    | sharedRMW => exact absurd rfl hd
    | serial => simpa [threadEvents, csum, wsum, contrib] using ih
    | atomicAdd => simpa [threadEvents, csum, wsum, contrib] using ih
    | privateMerge => simpa [threadEvents, csum, wsum, contrib] using ih

theorem good_threadEvents (d : Disc) (hd : d ≠ .sharedRMW) (nth t : Nat) (ht : t < nth) (c : List Upd) :
    ∀ e ∈ threadEvents d t c, GoodEv nth e := by
  intro e he
  cases d with
  | sharedRMW => exact absurd rfl hd
  | serial => simp only [threadEvents, List.mem_map] at he; obtain ⟨u, _, rfl⟩ := he; trivial
  | atomicAdd => simp only [threadEvents, List.mem_map] at he; obtain ⟨u, _, rfl⟩ := he; trivial
  | privateMerge => simp only [threadEvents, List.mem_map] at he; obtain ⟨u, _, rfl⟩ := he; exact ht

theorem eventsFrom_spec (d : Disc) (hd : d ≠ .sharedRMW) (n j : Nat) (cs : List (List Upd)) : ∀ (t0 nth : Nat),
    t0 + cs.length ≤ nth →
    (∀ e ∈ (eventsFrom d t0 cs).flatten, GoodEv nth e) ∧
    csum n j (eventsFrom d t0 cs).flatten = wsum n j cs.flatten := by
  induction cs with
  | nil => intro t0 nth _; simp [eventsFrom, csum, wsum]
  | cons c cs ih =>
    intro t0 nth h
    simp only [List.length_cons] at h
    obtain ⟨h1, h2⟩ := ih (t0 + 1) nth (by omega)
    constructor
    · intro e he
      simp only [eventsFrom, List.flatten_cons, List.mem_append] at he
      rcases he with he | he
      · exact good_threadEvents d hd nth t0 (by omega) c e he
      · exact h1 e he
    · simp only [eventsFrom, List.flatten_cons, csum_append, wsum_append, h2, csum_threadEvents d hd]

theorem events_spec (d : Disc) (hd : d ≠ .sharedRMW) (n j : Nat) (chunks : List (List Upd)) (nth : Nat)
    (h : chunks.length ≤ nth) :
    (∀ e ∈ (events d chunks).flatten, GoodEv nth e) ∧
    csum n j (events d chunks).flatten = wsum n j chunks.flatten := by
  cases d with
  | sharedRMW => exact absurd rfl hd
  | serial =>
    constructor
    · intro e he
      simp only [events, List.flatten_cons, List.flatten_nil, List.append_nil, threadEvents, List.mem_map] at he
      obtain ⟨u, _, rfl⟩ := he; trivial
    · simp only [events, List.flatten_cons, List.flatten_nil, List.append_nil]
      exact csum_threadEvents .serial (by decide) n j 0 _
  | atomicAdd => exact eventsFrom_spec .atomicAdd hd n j chunks 0 nth (by omega)
  | privateMerge => exact eventsFrom_spec .privateMerge hd n j chunks 0 nth (by omega)

/-- **schedule independence**: under every discipline except the racy shared read-modify-write,
    every interleaving of the threads' events leaves exactly the serial accumulation of all the
    updates (which `C05_counts` / `C05_sum` identify with the Spec) -/
theorem C05_sched (d : Disc) (hd : d ≠ .sharedRMW) (size : Nat) (chunks : List (List Upd)) (sched : List Nat) :
    runDisc d size chunks sched = accum (zeros size) chunks.flatten := by
  unfold runDisc
  have hev := fun j => events_spec d hd size j chunks chunks.length (Nat.le_refl _)
  have hperm := interleave_perm sched (events d chunks)
  have hg : ∀ e ∈ interleave (events d chunks) sched, GoodEv chunks.length e :=
    fun e he => (hev 0).1 e (hperm.mem_iff.mp he)
  obtain ⟨hinv, hget⟩ := exec_good size chunks.length _ _ (initSt_inv size chunks.length) hg
  apply img_ext
  · rw [accum_length, zeros_length]
    exact (foldl_addImg size _ _ hinv.mem hinv.privs).1
  · intro j
    rw [hget j, finalImg_init, zero_add, csum_perm size j hperm,
        (hev j).2, accum_getD, zeros_getD, zeros_length, zero_add]

theorem updsOf_flatten (cellf : Coord → Coord → Option Nat) (val : Pt → Rat) (pcs : List (List Pt)) :
    (pcs.map (updsOf cellf val)).flatten = updsOf cellf val pcs.flatten := by
  induction pcs with
  | nil => rfl
  | cons p ps ih => simp only [List.map_cons, List.flatten_cons, ih]; unfold updsOf; rw [List.filterMap_append]

/-- **the result is identical for any thread count or scheduling**: the points are split into
    any number of chunks in any way, the threads are interleaved in any way; for every
    discipline except `sharedRMW` the counts are the Spec's counts -/
theorem C05_sched_counts (d : Disc) (hd : d ≠ .sharedRMW) (g : Grid) (hg : g.WF) (pcs : List (List Pt))
    (sched : List Nat) (c : Nat) (hc : c < g.size) :
    (runDisc d g.size (pcs.map (updsOf (cell .floor g) fun _ => 1)) sched).getD c 0
      = (Spec.count g pcs.flatten c : Rat) := by
  rw [C05_sched d hd, updsOf_flatten]
  exact C05_counts g hg 0 pcs.flatten c hc

/-- same for a value layer -/
theorem C05_sched_sum (d : Disc) (hd : d ≠ .sharedRMW) (g : Grid) (hg : g.WF) (pcs : List (List Pt))
    (sched : List Nat) (l c : Nat) (hc : c < g.size) :
    (runDisc d g.size (pcs.map (updsOf (cell .floor g) (Pt.layer l))) sched).getD c 0
      = Spec.sum g pcs.flatten l c := by
  rw [C05_sched d hd, updsOf_flatten]
  have := C05_sum g hg (l + 1) l (Nat.lt_succ_self l) pcs.flatten c hc
  unfold hist2d at this
  rwa [out_getD _ _ _ _ (Nat.lt_succ_self l)] at this

/-- **the code as written loses updates**: two threads, one bin, one point each; both load 0,
    both store 1. The Spec count is 2. -/
theorem sharedRMW_loses_update :
    runDisc .sharedRMW 1 [[(0, 1)], [(0, 1)]] [0, 1, 0, 1] = [1] ∧
    accum (zeros 1) ([[(0, 1)], [(0, 1)]] : List (List Upd)).flatten = [2] := by
  decide +kernel

/-- the racy discipline is still correct when the schedule does not interleave the threads -/
theorem sharedRMW_sequential_ok :
    runDisc .sharedRMW 1 [[(0, 1)], [(0, 1)]] [0, 0, 1, 1] = [2] := by
  decide +kernel

/-! ### automatic limits -/

theorem minL_spec : ∀ (l : List Rat) (a : Rat), minL l = some a → a ∈ l ∧ ∀ q ∈ l, a ≤ q
  | [], a, h => by simp [minL] at h
  | x :: l, a, h => by
    unfold minL at h
    cases hm : minL l with
    | none =>
      cases l with
      | nil => simp only [hm] at h; cases h; simp
      | cons y l' =>
        exfalso
        unfold minL at hm
        cases h' : minL l' <;> simp [h'] at hm
    | some b =>
      obtain ⟨hb1, hb2⟩ := minL_spec l b hm
      simp only [hm, Option.some.injEq] at h
      by_cases hx : x ≤ b
      · rw [if_pos hx] at h; subst h
        exact ⟨by simp, fun q hq => by
          rcases List.mem_cons.mp hq with rfl | hq
          · exact le_refl _
          · exact le_trans hx (hb2 q hq)⟩
      · rw [if_neg hx] at h; subst h
        exact ⟨by simp [hb1], fun q hq => by
          rcases List.mem_cons.mp hq with rfl | hq
          · exact le_of_lt (not_le.mp hx)
          · exact hb2 q hq⟩

theorem maxL_spec : ∀ (l : List Rat) (a : Rat), maxL l = some a → a ∈ l ∧ ∀ q ∈ l, q ≤ a
  | [], a, h => by simp [maxL] at h
  | x :: l, a, h => by
    unfold maxL at h
    cases hm : maxL l with
    | none =>
      cases l with
      | nil => simp only [hm] at h; cases h; simp
      | cons y l' =>
        exfalso
        unfold maxL at hm
        cases h' : maxL l' <;> simp [h'] at hm
    | some b =>
      obtain ⟨hb1, hb2⟩ := maxL_spec l b hm
      simp only [hm, Option.some.injEq] at h
      by_cases hx : b ≤ x
      · rw [if_pos hx] at h; subst h
        exact ⟨by simp, fun q hq => by
          rcases List.mem_cons.mp hq with rfl | hq
          · exact le_refl _
          · exact le_trans (hb2 q hq) hx⟩
      · rw [if_neg hx] at h; subst h
        exact ⟨by simp [hb1], fun q hq => by
          rcases List.mem_cons.mp hq with rfl | hq
          · exact le_of_lt (not_le.mp hx)
          · exact hb2 q hq⟩

theorem absQ_nonneg (q : Rat) : 0 ≤ absQ q := by
  unfold absQ; split <;> linarith

theorem absQ_pos {q : Rat} (h : q ≠ 0) : 0 < absQ q := by
  unfold absQ
  split
  · rename_i h0; exact lt_of_le_of_ne h0 (Ne.symm h)
  · rename_i h0; linarith [not_le.mp h0]

theorem mem_finiteVals {xs : List Coord} {q : Rat} : q ∈ finiteVals xs ↔ Coord.fin q ∈ xs := by
  induction xs with
  | nil => simp [finiteVals]
  | cons c xs ih =>
    cases c with
    | fin r => simp [finiteVals, ih]
    | nonfinite => simp [finiteVals, ih]

/-- **automatic range**: with automatic limits the range is non-empty and every finite value
    lies strictly inside it (so every point with finite coordinates is counted) -/
theorem C05_auto_limits_cover (xs : List Coord) (a b : Rat) (h : limits none none xs = some (a, b)) :
    a < b ∧ ∀ q, Coord.fin q ∈ xs → a < q ∧ q < b := by
  unfold limits at h
  cases hmin : minL (finiteVals xs) with
  | none => simp [hmin] at h
  | some lo =>
    cases hmax : maxL (finiteVals xs) with
    | none => simp [hmin, hmax] at h
    | some hi =>
      obtain ⟨hlo1, hlo2⟩ := minL_spec _ _ hmin
      obtain ⟨hhi1, hhi2⟩ := maxL_spec _ _ hmax
      have hle : lo ≤ hi := hlo2 hi hhi1
      simp only [hmin, hmax, Option.map_some, Option.bind_eq_bind, Option.bind_some, Option.pure_def,
        if_true, Option.some.injEq, Prod.mk.injEq] at h
      have hq : ∀ q, Coord.fin q ∈ xs → lo ≤ q ∧ q ≤ hi :=
        fun q hq => ⟨hlo2 q (mem_finiteVals.mpr hq), hhi2 q (mem_finiteVals.mpr hq)⟩
      by_cases heq : lo = hi
      · subst heq
        by_cases h0 : lo = 0
        · subst h0
          simp only [if_true] at h
          obtain ⟨rfl, rfl⟩ := h
          refine ⟨by norm_num, fun q hq' => ?_⟩
          obtain ⟨h1, h2⟩ := hq q hq'
          have : q = 0 := le_antisymm h2 h1
          subst this; norm_num
        · simp only [if_true, if_neg h0] at h
          obtain ⟨rfl, rfl⟩ := h
          have hp := absQ_pos h0
          refine ⟨by linarith, fun q hq' => ?_⟩
          obtain ⟨h1, h2⟩ := hq q hq'
          constructor <;> linarith
      · simp only [if_neg heq] at h
        obtain ⟨rfl, rfl⟩ := h
        have hlt : lo < hi := lt_of_le_of_ne hle heq
        refine ⟨by linarith, fun q hq' => ?_⟩
        obtain ⟨h1, h2⟩ := hq q hq'
        constructor <;> linarith

/-! ### the racy discipline with one thread -/

theorem interleave_single {α : Type} (s : List Nat) : ∀ (l : List α), interleave [l] s = l := by
  induction s with
  | nil => intro l; simp [interleave]
  | cons t s ih =>
    intro l
    unfold interleave
    cases t with
    | zero =>
      cases l with
      | nil => simpa [pickHead] using ih []
      | cons e l => simp [pickHead, ih l]
    | succ t => simpa [pickHead] using ih l

theorem setAt_getD_add (m : Img) (i : Nat) (v : Rat) : setAt m i (m.getD i 0 + v) = addAt m i v := by
  induction m generalizing i with
  | nil => rfl
  | cons a l ih =>
    cases i with
    | zero => simp [setAt, addAt]
    | succ i => simpa [setAt, addAt] using ih i

theorem exec_rmw_single (chunk : List Upd) : ∀ (m : Img) (r : Rat) (privs : List Img),
    ∃ r', exec { mem := m, regs := [r], privs := privs } (threadEvents .sharedRMW 0 chunk)
      = { mem := accum m chunk, regs := [r'], privs := privs } := by
  induction chunk with
  | nil => intro m r privs; exact ⟨r, rfl⟩
  | cons u us ih =>
    intro m r privs
    obtain ⟨r', hr'⟩ := ih (addAt m u.1 u.2) (m.getD u.1 0) privs
    refine ⟨r', ?_⟩
    simp only [threadEvents, List.flatMap_cons, List.cons_append, List.nil_append, exec, List.foldl_cons,
      exec1, modifyNth, List.getD_cons_zero, setAt_getD_add] at hr' ⊢
    simpa [accum, step] using hr'

/-- with a single thread the read-modify-write discipline is the serial loop: the loss of
    updates is a property of the interleaving, not of the event model -/
theorem sharedRMW_one_thread (size : Nat) (chunk : List Upd) (sched : List Nat) :
    runDisc .sharedRMW size [chunk] sched = accum (zeros size) chunk := by
  unfold runDisc
  simp only [events, eventsFrom, interleave_single, List.length_cons, List.length_nil]
  obtain ⟨r', hr'⟩ := exec_rmw_single chunk (zeros size) 0 [zeros size]
  have : initSt size (0 + 1) = { mem := zeros size, regs := [0], privs := [zeros size] } := rfl
  rw [this, hr']
  unfold finalImg
  simp only [List.foldl_cons, List.foldl_nil]
  apply img_ext
  · rw [addImg_length _ _ (by simp)]
  · intro j; rw [addImg_getD _ _ (by simp), zeros_getD, add_zero]

/-! ### the driver's array loop is the list fold -/

theorem modify_eq_addAt (l : Img) (i : Nat) (v : Rat) : l.modify i (· + v) = addAt l i v := by
  induction l generalizing i with
  | nil => simp [addAt]
  | cons a l ih =>
    cases i with
    | zero => simp [addAt]
    | succ i => simp [addAt, ih]

theorem foldl_modify_toList (us : List Upd) : ∀ (a : Array Rat),
    (us.foldl (fun (a : Array Rat) (u : Upd) => a.modify u.1 (· + u.2)) a).toList = accum a.toList us := by
  induction us with
  | nil => intro a; rfl
  | cons u us ih =>
    intro a
    rw [List.foldl_cons, ih]
    simp only [accum, List.foldl_cons, step, Array.toList_modify, modify_eq_addAt]

/-- the `Array` loop executed by the driver computes the modelled fold -/
theorem accumArr_eq (size : Nat) (us : List Upd) : accumArr size us = accum (zeros size) us := by
  unfold accumArr
  rw [foldl_modify_toList, Array.toList_replicate]; rfl

/-- computing the cells once and zipping them with a layer's values gives the same updates -/
theorem updsOf_eq_updsZ (cellf : Coord → Coord → Option Nat) (val : Pt → Rat) (pts : List Pt) :
    updsOf cellf val pts = updsZ (pts.map fun p => cellf p.x p.y) (pts.map val) := by
  induction pts with
  | nil => rfl
  | cons p pts ih =>
    unfold updsOf updsZ at ih ⊢
    simp only [List.filterMap_cons, List.map_cons, List.zip_cons_cons, ih]

/-! ### non-vacuity: the hypotheses are satisfiable and the conclusions are not trivially true -/

def gEx : Grid := { xmin := 0, xmax := 4, nx := 4, ymin := 0, ymax := 1, ny := 1 }
def ptsEx : List Pt :=
  [⟨.fin (1/2), .fin (1/2), [3]⟩, ⟨.fin (5/2), .fin (1/2), [5]⟩, ⟨.fin (11/4), .fin (1/2), [7]⟩,
   ⟨.fin (-1/2), .fin (1/2), [11]⟩, ⟨.fin 4, .fin (1/2), [13]⟩, ⟨.nonfinite, .fin (1/2), [17]⟩]

theorem gEx_wf : gEx.WF := by unfold Grid.WF gEx; norm_num

-- index_spec_unique / InBin: 5/2 is in bin 2 of [0,4) with 4 bins, and in no other
example : Spec.index (5/2) 0 1 4 = some 2 ∧ InBin (5/2) 0 1 2 ∧ ¬ InBin (5/2) 0 1 1 := by
  refine ⟨by decide +kernel, ?_, ?_⟩ <;> unfold InBin <;> norm_num
-- the upper limit is excluded, the lower limit included
example : Spec.index 4 0 1 4 = none ∧ Spec.index 0 0 1 4 = some 0 := by decide +kernel
-- C05_index_floor_eq_spec: both sides are `some 2` here, `none` below the range
example : index .floor (5/2) 0 1 4 = some 2 ∧ index .floor (-1/2) 0 1 4 = none := by decide +kernel
-- C05_trunc_witness instantiated: xmin = 0, dx = 1
example : index .trunc (0 - 1 / 2) 0 1 4 = some 0 ∧ Spec.index (0 - 1 / 2) 0 1 4 = none :=
  C05_trunc_witness 0 1 4 (by norm_num) (by norm_num)
example : index .trunc (-1/2) 0 1 4 = some 0 ∧ Spec.index (-1/2) 0 1 4 = none := by decide +kernel
-- C05_trunc_below_range / C05_index_trunc_eq_spec_partial: the excluded interval is the only failure
example : index .trunc (-3/2) 0 1 4 = none ∧ index .trunc (7/2) 0 1 4 = some 3 := by decide +kernel
-- C05_cell_spec / C05_cell_floor_eq_spec
example : Spec.cell gEx (.fin (5/2)) (.fin (1/2)) = some 2 ∧ cell .floor gEx (.fin (5/2)) (.fin (1/2)) = some 2 := by
  decide +kernel
-- C05_nonfinite_no_cell
example : Spec.cell gEx .nonfinite (.fin (1/2)) = none := rfl
-- C05_counts / C05_sum / C05_sum_mean / C05_conservation on six points (two out of range, one non-finite)
example : (hist2d .floor gEx 1 ptsEx).counts = [1, 0, 2, 0] ∧ (hist2d .floor gEx 1 ptsEx).out = [[3, 0, 12, 0]] ∧
    finish .mean [3, 0, 12, 0] [1, 0, 2, 0] = [some 3, none, some 6, none] ∧
    Spec.count gEx ptsEx 2 = 2 ∧ Spec.sum gEx ptsEx 0 2 = 12 ∧ Spec.inRange gEx ptsEx = 3 := by
  decide +kernel
-- the unchanged rule counts the point at -1/2 in bin 0
example : (hist2d .trunc gEx 1 ptsEx).counts = [2, 0, 2, 0] := by decide +kernel
-- accum_perm / C05_perm: a genuine reordering
example : hist2d .floor gEx 1 ptsEx.reverse = hist2d .floor gEx 1 ptsEx :=
  C05_perm .floor gEx 1 (List.reverse_perm _)
example : accum (zeros 2) [(0, 1), (1, 5), (0, 2)] = [3, 5] ∧ accum (zeros 2) [(0, 2), (0, 1), (1, 5)] = [3, 5] := by
  decide +kernel
-- C05_sched: the schedule that breaks sharedRMW is harmless for atomicAdd and privateMerge
example : runDisc .atomicAdd 1 [[(0, 1)], [(0, 1)]] [0, 1, 0, 1] = [2] ∧
    runDisc .privateMerge 1 [[(0, 1)], [(0, 1)]] [0, 1, 0, 1] = [2] ∧
    runDisc .serial 1 [[(0, 1)], [(0, 1)]] [0, 1, 0, 1] = [2] := by decide +kernel
example : (Disc.atomicAdd ≠ .sharedRMW) ∧ (Disc.privateMerge ≠ .sharedRMW) ∧ (Disc.serial ≠ .sharedRMW) := by decide
-- C05_sched_counts with real points split over two threads
example : (runDisc .privateMerge gEx.size ([ptsEx.take 3, ptsEx.drop 3].map (updsOf (cell .floor gEx) fun _ => 1))
    [1, 0, 1, 0, 0]) = [1, 0, 2, 0] := by decide +kernel
-- C05_auto_limits_cover: values 1 and 3 give [0.9, 3.1]; a single value 2 gives [1.89, 2.11]; only zeros [-0.11, 0.11]
example : limits none none [.fin 1, .nonfinite, .fin 3] = some (9/10, 31/10) ∧
    limits none none [.fin 2, .fin 2] = some (189/100, 211/100) ∧
    limits none none [.fin 0] = some (-11/100, 11/100) ∧
    limits (some 0) none [.fin 1, .fin 3] = some (0, 63/20) ∧
    limits none none [.nonfinite] = none := by decide +kernel
-- sharedRMW_one_thread
example : runDisc .sharedRMW 2 [[(0, 1), (1, 2), (0, 3)]] [0, 0, 5, 0] = [4, 2] := by decide +kernel
end Osyris.C05
