/-
C19  Plot calls do not modify their inputs; per-layer options override call options.

Model: OsyrisModel/LayerOpts.lean.  Part 1 holds the lemmas (closed forms of the heap-level
algorithm), part 2 the property theorems, each with a non-vacuity `example`.
`generated_*` obligations mention the tables extracted from core/layer.py, plot/parser.py and the
entry points (re-proved on every run).
-/
import OsyrisModel.LayerOpts

namespace Osyris.LayerOpts

/-! ## Part 1: lemmas -/

theorem alSet_absent {α} (d : AL α) (k : String) (v : α) (h : alHas d k = false) : alSet d k v = d ++ [(k, v)] := by
  simp [alSet, h]

theorem alHas_append {α} (d e : AL α) (k : String) : alHas (d ++ e) k = (alHas d k || alHas e k) := by
  simp [alHas]

theorem alHas_single {α} (k k' : String) (v : α) : alHas [(k, v)] k' = (k == k') := by
  simp [alHas]

/-- merging entries with pairwise different keys, none of them present: they are appended in order -/
theorem alUpdate_fresh (d e : AL Tok) (hn : (e.map (·.1)).Nodup) (hd : ∀ kv ∈ e, alHas d kv.1 = false) :
    alUpdate d e = d ++ e := by
  induction e generalizing d with
  | nil => simp [alUpdate]
  | cons kv r ih =>
    have h1 : alHas d kv.1 = false := hd kv (by simp)
    have hn' : kv.1 ∉ r.map (·.1) ∧ (r.map (·.1)).Nodup := by
      rw [List.map_cons, List.nodup_cons] at hn; exact hn
    simp only [alUpdate, List.foldl_cons]
    rw [alSet_absent d kv.1 kv.2 h1]
    have := ih (d ++ [(kv.1, kv.2)]) hn'.2 (by
      intro x hx
      rw [alHas_append, alHas_single, hd x (by simp [hx])]
      have hne : (kv.1 == x.1) = false := by
        apply beq_false_of_ne
        intro heq
        apply hn'.1
        rw [heq]
        exact List.mem_map_of_mem hx
      simp [hne])
    simp only [alUpdate] at this
    rw [this]
    simp
theorem orCall_eq (a b : Option Tok) : orCall a b = (a <|> b) := by cases a <;> rfl

theorem covers_iff (l : List String) : covers l = true ↔
    (l.contains "mode" = true ∧ l.contains "operation" = true ∧ l.contains "norm" = true ∧ l.contains "vmin" = true ∧
     l.contains "vmax" = true ∧ l.contains "bins" = true ∧ l.contains "weights" = true) := by
  simp [covers, referenceFields, Field.all, Field.name]

def Fields.orElse (own call : Fields) : Fields :=
  { mode := orCall own.mode call.mode, operation := orCall own.operation call.operation,
    norm := orCall own.norm call.norm, vmin := orCall own.vmin call.vmin, vmax := orCall own.vmax call.vmax,
    bins := orCall own.bins call.bins, weights := orCall own.weights call.weights }

theorem fill_complete (fs : List String) (h : covers fs = true) (own call : Fields) :
    own.fill fs call = own.orElse call := by
  obtain ⟨h1, h2, h3, h4, h5, h6, h7⟩ := (covers_iff fs).mp h
  simp only [Fields.fill, Fields.orElse, h1, h2, h3, h4, h5, h6, h7, fillOpt, orCall, if_true]

theorem forward_complete (T : Tables) (hc : covers T.copy = true) (hi : covers T.init = true) (o : Fields) :
    o.forward T = o := by
  obtain ⟨h1, h2, h3, h4, h5, h6, h7⟩ := (covers_iff _).mp hc
  obtain ⟨i1, i2, i3, i4, i5, i6, i7⟩ := (covers_iff _).mp hi
  simp only [Fields.forward, h1, h2, h3, h4, h5, h6, h7, i1, i2, i3, i4, i5, i6, i7, keepOpt, Bool.and_self, if_true]

theorem get_at (P : Heap) (x : Obj) (R : Heap) : (P ++ x :: R)[P.length]? = some x := by
  simp
theorem get_at1 (P : Heap) (x y : Obj) (R : Heap) : (P ++ x :: y :: R)[P.length + 1]? = some y := by
  simp
theorem set_at (P : Heap) (x z : Obj) (R : Heap) : (P ++ x :: R).set P.length z = P ++ z :: R := by
  simp
theorem set_at1 (P : Heap) (x y z : Obj) (R : Heap) : (P ++ x :: y :: R).set (P.length + 1) z = P ++ x :: z :: R := by
  simp [List.set_append_right]

/-- a fresh (dict, Layer) pair appended at the end of the heap -/
def block (n : Nat) (ℓ : Layer) : List Obj := [Obj.dict ℓ.kwargs, Obj.layer { toFields := ℓ.toFields, kw := n }]

theorem layerAt_block (P : Heap) (ℓ : Layer) (R : Heap) :
    layerAt (P ++ block P.length ℓ ++ R) (P.length + 1) = some { toFields := ℓ.toFields, kw := P.length } := by
  simp only [block, List.append_assoc, List.cons_append, List.nil_append, layerAt, get_at1]

theorem dictAt_block (P : Heap) (ℓ : Layer) (R : Heap) :
    dictAt (P ++ block P.length ℓ ++ R) P.length = some ℓ.kwargs := by
  simp only [block, List.append_assoc, List.cons_append, List.nil_append, dictAt, get_at]

theorem readLayer_block (P : Heap) (ℓ : Layer) (R : Heap) :
    readLayer (P ++ block P.length ℓ ++ R) (P.length + 1) = some ℓ := by
  simp only [readLayer, layerAt_block, dictAt_block]

theorem set_block_dict (P : Heap) (ℓ : Layer) (R : Heap) (d : AL Tok) :
    (P ++ block P.length ℓ ++ R).set P.length (.dict d) = P ++ block P.length { ℓ with kwargs := d } ++ R := by
  simp only [block, List.append_assoc, List.cons_append, List.nil_append, set_at]

theorem set_block_layer (P : Heap) (ℓ : Layer) (R : Heap) (f : Fields) :
    (P ++ block P.length ℓ ++ R).set (P.length + 1) (.layer { toFields := f, kw := P.length }) =
      P ++ block P.length { ℓ with toFields := f } ++ R := by
  simp only [block, List.append_assoc, List.cons_append, List.nil_append, set_at1]

theorem copyH_eq (T : Tables) (h : Heap) (a : Nat) :
    copyH T h a = (readLayer h a).map fun ℓ => (h ++ block h.length (ℓ.copyT T), h.length + 1) := by
  unfold copyH
  cases readLayer h a <;> simp [block, Layer.copyT]

theorem fillH_block (T : Tables) (P : Heap) (ℓ c : Layer) :
    fillH T (P ++ block P.length ℓ) (P.length + 1) c =
      some (P ++ block P.length { toFields := ℓ.toFields.fill T.parse c.toFields,
                                  kwargs := mergeKw T.parseGuard ℓ.kwargs c.kwargs }) := by
  have h1 := layerAt_block P ℓ []
  have h2 := dictAt_block P ℓ []
  have s1 := set_block_layer P ℓ [] (ℓ.toFields.fill T.parse c.toFields)
  simp only [List.append_nil] at h1 h2 s1
  unfold fillH
  simp only [h1, h2, s1]
  have s2 := set_block_dict P { ℓ with toFields := ℓ.toFields.fill T.parse c.toFields } [] (mergeKw T.parseGuard ℓ.kwargs c.kwargs)
  simp only [List.append_nil] at s2
  rw [s2]

/-- `parse_layer` on the heap, in closed form: the caller's heap followed by one new (kwargs dict, Layer) pair
    holding the value `parseLayerT` computes -/
theorem parseLayerH_eq (T : Tables) (hc : T.parseCopies = true) (h : Heap) (a : Nat) (c : Layer) :
    parseLayerH T h a c = (readLayer h a).map fun ℓ => (h ++ block h.length (parseLayerT T ℓ c), h.length + 1) := by
  unfold parseLayerH
  simp only [hc, if_true, copyH_eq]
  cases readLayer h a with
  | none => rfl
  | some ℓ =>
    simp only [Option.map_some, fillH_block, parseLayerT, hc, if_true]

def blocks (n : Nat) : List Layer → List Obj
  | [] => []
  | ℓ :: r => block n ℓ ++ blocks (n + 2) r

def addrs (n : Nat) : List NormOut → List (Nat × NormOut)
  | [] => []
  | x :: r => (n + 1, x) :: addrs (n + 2) r

def normed (w : Bool) (p : Layer) (n : NormOut) : Layer :=
  if w then { p with kwargs := alSet p.kwargs "norm" n.tok } else p

/-- the Layer values `parseAll` leaves on the heap (one new pair per layer, in order), the norms, the first error -/
def pv (T : Tables) (w : Bool) (c : Layer) : Heap → List Nat → List Layer × List NormOut × Option Err
  | _, [] => ([], [], none)
  | h, a :: r =>
    match readLayer h a with
    | none => ([], [], some .typeErr)
    | some ℓ =>
      let p := parseLayerT T ℓ c
      let n := normOf w p
      if n == .runtimeErr then ([p], [], some .runtimeErr) else
      let q := normed w p n
      let rest := pv T w c (h ++ block h.length q) r
      (q :: rest.1, n :: rest.2.1, rest.2.2)

theorem block_length (n : Nat) (ℓ : Layer) : (block n ℓ).length = 2 := rfl

theorem storeNorm_block (w : Bool) (h : Heap) (p : Layer) (n : NormOut) :
    storeNorm w (h ++ block h.length p) (h.length + 1) n = h ++ block h.length (normed w p n) := by
  have h1 := layerAt_block h p []
  have h2 := dictAt_block h p []
  have s2 := set_block_dict h p [] (alSet p.kwargs "norm" n.tok)
  simp only [List.append_nil] at h1 h2 s2
  unfold storeNorm normed
  cases w <;> simp only [h1, h2, s2, if_true] <;> simp

theorem parseAll_eq (T : Tables) (hc : T.parseCopies = true) (w : Bool) (c : Layer) (as : List Nat) :
    ∀ h : Heap, parseAll T w c h as =
      (h ++ blocks h.length (pv T w c h as).1,
       match (pv T w c h as).2.2 with
       | none => .ok (addrs h.length (pv T w c h as).2.1)
       | some e => .error e) := by
  induction as with
  | nil => intro h; simp [parseAll, pv, blocks, addrs]
  | cons a r ih =>
    intro h
    unfold parseAll pv
    rw [parseLayerH_eq T hc]
    cases hr : readLayer h a with
    | none => simp [blocks]
    | some ℓ =>
      have hb := readLayer_block h (parseLayerT T ℓ c) []
      simp only [List.append_nil] at hb
      simp only [Option.map_some, hb]
      by_cases hn : (normOf w (parseLayerT T ℓ c) == NormOut.runtimeErr) = true
      · simp [hn, blocks]
      · simp only [hn, storeNorm_block, ih, List.length_append, block_length]
        generalize pv T w c (h ++ block h.length (normed w (parseLayerT T ℓ c) (normOf w (parseLayerT T ℓ c)))) r = R
        obtain ⟨vs, ns, e⟩ := R
        cases e <;> simp [blocks, addrs]

def popL (ℓ : Layer) : Layer := { ℓ with kwargs := popCbar ℓ.kwargs }

theorem blocks_cons_append (P : Heap) (ℓ : Layer) (vs : List Layer) (S : Heap) :
    P ++ blocks P.length (ℓ :: vs) ++ S = (P ++ block P.length ℓ) ++ blocks (P ++ block P.length ℓ).length vs ++ S := by
  simp [blocks, block_length]

theorem renderPops_eq (vs : List Layer) : ∀ (ns : List NormOut) (P S : Heap), vs.length = ns.length →
    renderPops (P ++ blocks P.length vs ++ S) ((addrs P.length ns).map (·.1)) =
      P ++ blocks P.length (vs.map popL) ++ S := by
  induction vs with
  | nil => intro ns P S hl; cases ns <;> simp_all [blocks, addrs, renderPops]
  | cons ℓ r ih =>
    intro ns P S hl
    cases ns with
    | nil => simp at hl
    | cons n ns =>
      have h1 := layerAt_block P ℓ (blocks (P.length + 2) r ++ S)
      have h2 := dictAt_block P ℓ (blocks (P.length + 2) r ++ S)
      have s2 := set_block_dict P ℓ (blocks (P.length + 2) r ++ S) (popCbar ℓ.kwargs)
      simp only [← List.append_assoc] at h1 h2 s2
      simp only [addrs, List.map_cons, renderPops, blocks, ← List.append_assoc, h1, h2, s2]
      have := ih ns (P ++ block P.length (popL ℓ)) S (by simpa using hl)
      simp only [List.length_append, block_length] at this
      simpa [popL, blocks] using this

def outOf (ops : Layer → Option Tok) (ℓ : Layer) (n : NormOut) : LayerOut :=
  { parsed := ℓ.toFields, norm := n, params := ℓ.kwargs, op := ops ℓ }

theorem layerOuts_eq (ops : Layer → Option Tok) (vs : List Layer) : ∀ (ns : List NormOut) (P S : Heap),
    vs.length = ns.length →
    layerOuts (P ++ blocks P.length vs ++ S) ops (addrs P.length ns) = List.zipWith (outOf ops) vs ns := by
  induction vs with
  | nil => intro ns P S hl; cases ns <;> simp_all [addrs, layerOuts]
  | cons ℓ r ih =>
    intro ns P S hl
    cases ns with
    | nil => simp at hl
    | cons n ns =>
      have h1 := readLayer_block P ℓ (blocks (P.length + 2) r ++ S)
      simp only [← List.append_assoc] at h1
      simp only [addrs, layerOuts, blocks, ← List.append_assoc, h1, List.zipWith_cons_cons]
      have := ih ns (P ++ block P.length ℓ) S (by simpa using hl)
      simp only [List.length_append, block_length] at this
      simp only [List.append_assoc] at this ⊢
      simp [this, outOf]

theorem pv_len (T : Tables) (w : Bool) (c : Layer) (as : List Nat) : ∀ h : Heap,
    (pv T w c h as).2.2 = none → (pv T w c h as).1.length = (pv T w c h as).2.1.length := by
  induction as with
  | nil => intro h _; simp [pv]
  | cons a r ih =>
    intro h
    unfold pv
    cases readLayer h a with
    | none => simp
    | some ℓ =>
      by_cases hn : (normOf w (parseLayerT T ℓ c) == NormOut.runtimeErr) = true
      · simp [hn]
      · simp only [hn]
        intro he
        simpa using ih _ he

theorem mapResolution_copy_heap (h : Heap) (c : PlotCall) :
    ∃ S, (mapResolution .copy h c).1 = h ++ S := by
  unfold mapResolution
  cases c.res with
  | default => exact ⟨[], by simp⟩
  | int n => exact ⟨[], by simp⟩
  | ref a =>
    cases hr : resAt h a with
    | none => exact ⟨[], by simp [hr]⟩
    | some d => exact ⟨[Obj.res (normaliseRes c d).1], by simp [hr]⟩

/-- **frame**: whatever a call stores, it stores into objects it created itself — the caller's heap is a
    prefix of the heap after the call (repaired resolution handling; `parse_layer` copies first) -/
theorem runCall_prefix (T : Tables) (hc : T.parseCopies = true) (v : Variant) (hv : v.res = .copy)
    (h : Heap) (c : PlotCall) : ∃ t, (runCall T v h c).1 = h ++ t := by
  unfold runCall
  cases c.fn with
  | map =>
    simp only [parseAll_eq T hc]
    cases he : (pv T true (effectiveCall T Entry.map c.opts) h c.layers).2.2 with
    | some e => exact ⟨_, rfl⟩
    | none =>
      simp only [hv]
      obtain ⟨S, hS⟩ := mapResolution_copy_heap (h ++ blocks h.length (pv T true (effectiveCall T Entry.map c.opts) h c.layers).1) c
      generalize hm : mapResolution ResPolicy.copy (h ++ blocks h.length (pv T true (effectiveCall T Entry.map c.opts) h c.layers).1) c = M at hS
      obtain ⟨h2, r⟩ := M
      simp only at hS
      subst hS
      cases r with
      | none => exact ⟨_, by simp only [List.append_assoc]; rfl⟩
      | some r =>
        obtain ⟨nx, ny, nz⟩ := r
        simp only
        cases c.plot with
        | false => exact ⟨_, by simp only [if_false, Bool.false_eq_true, List.append_assoc]; rfl⟩
        | true =>
          simp only [if_true, renderPops_eq _ _ h S (pv_len T true _ c.layers h he)]
          exact ⟨_, by simp only [List.append_assoc]; rfl⟩
  | histogram2d =>
    simp only [parseAll_eq T hc]
    split
    · exact ⟨[], by simp⟩
    · cases he : (pv T true (effectiveCall T Entry.histogram2d c.opts) h c.layers).2.2 with
      | some e => exact ⟨_, rfl⟩
      | none =>
        simp only
        cases c.plot with
        | false => exact ⟨_, by simp only [if_false, Bool.false_eq_true]; rfl⟩
        | true =>
          have := renderPops_eq _ _ h [] (pv_len T true _ c.layers h he)
          simp only [List.append_nil] at this
          simp only [if_true, this]
          exact ⟨_, rfl⟩
  | histogram1d =>
    simp only [parseAll_eq T hc]
    cases he : (pv T false (effectiveCall T Entry.histogram1d c.opts) h c.layers).2.2 with
    | some e => exact ⟨_, rfl⟩
    | none => exact ⟨_, rfl⟩
  | scatter => exact ⟨_, rfl⟩
  | plot => exact ⟨_, rfl⟩

/-! ### locality: what a call computes depends only on the caller's objects -/

/-- the caller's heap is closed under references, and the call refers into it -/
structure CallWF (h : Heap) (c : PlotCall) : Prop where
  layers : ∀ a ∈ c.layers, a < h.length
  closed : ∀ a o, layerAt h a = some o → o.kw < h.length
  res : ∀ a, c.res = .ref a → a < h.length
  keys : (c.opts.kwargs.map (·.1)).Nodup

theorem get_lt (P R : Heap) (i : Nat) (h : i < P.length) : (P ++ R)[i]? = P[i]? := by
  simp [List.getElem?_append_left, h]

theorem readLayer_append (h E : Heap) (a : Nat) (ha : a < h.length)
    (hcl : ∀ a o, layerAt h a = some o → o.kw < h.length) : readLayer (h ++ E) a = readLayer h a := by
  have hl : layerAt (h ++ E) a = layerAt h a := by simp only [layerAt, get_lt h E a ha]
  unfold readLayer
  rw [hl]
  cases hla : layerAt h a with
  | none => rfl
  | some o =>
    have hk := hcl a o hla
    have hd : dictAt (h ++ E) o.kw = dictAt h o.kw := by simp only [dictAt, get_lt h E o.kw hk]
    simp only [hd]

theorem resAt_append (h E : Heap) (a : Nat) (ha : a < h.length) : resAt (h ++ E) a = resAt h a := by
  simp only [resAt, get_lt h E a ha]

/-- the values of `pv`, read from the caller's heap only -/
def pvB (T : Tables) (w : Bool) (c : Layer) (h : Heap) : List Nat → List Layer × List NormOut × Option Err
  | [] => ([], [], none)
  | a :: r =>
    match readLayer h a with
    | none => ([], [], some .typeErr)
    | some ℓ =>
      let p := parseLayerT T ℓ c
      let n := normOf w p
      if n == .runtimeErr then ([p], [], some .runtimeErr) else
      let rest := pvB T w c h r
      (normed w p n :: rest.1, n :: rest.2.1, rest.2.2)

theorem pv_eq_base (T : Tables) (w : Bool) (c : Layer) (h : Heap)
    (hcl : ∀ a o, layerAt h a = some o → o.kw < h.length) (as : List Nat) :
    (∀ a ∈ as, a < h.length) → ∀ E : Heap, pv T w c (h ++ E) as = pvB T w c h as := by
  induction as with
  | nil => intro _ E; simp [pv, pvB]
  | cons a r ih =>
    intro hin E
    unfold pv pvB
    rw [readLayer_append h E a (hin a (by simp)) hcl]
    cases readLayer h a with
    | none => rfl
    | some ℓ =>
      have := ih (fun x hx => hin x (by simp [hx])) (E ++ block (h ++ E).length (normed w (parseLayerT T ℓ c) (normOf w (parseLayerT T ℓ c))))
      simp only [← List.append_assoc] at this
      simp only [this]

/-! ### the algorithm computes the Spec -/

theorem complete_iff (T : Tables) : T.complete = true ↔
    (covers T.init = true ∧ T.initKwargs = true ∧ covers T.copy = true ∧ T.copySplat = true ∧ covers T.update = true ∧
     T.updateGuard = true ∧ T.parseCopies = true ∧ covers T.parse = true ∧ T.parseGuard = true) := by
  simp [Tables.complete, and_assoc]

theorem mergeKw_spec (own call : AL Tok) (hn : (call.map (·.1)).Nodup) :
    mergeKw true own call = Spec.kwargs own call := by
  simp only [mergeKw, Spec.kwargs, if_true]
  apply alUpdate_fresh
  · exact (List.filter_sublist.map _).nodup hn
  · intro kv hkv
    have := (List.mem_filter.mp hkv).2
    simpa using this

theorem orElse_spec (ℓ c : Layer) : ℓ.toFields.orElse c.toFields = (Spec.merged ℓ c).toFields := by
  simp [Fields.orElse, Spec.merged, Spec.field, Layer.get, Fields.get, orCall_eq]

theorem parseLayerT_spec (T : Tables) (hT : T.complete = true) (ℓ c : Layer) (hn : (c.kwargs.map (·.1)).Nodup) :
    parseLayerT T ℓ c = Spec.merged ℓ c := by
  obtain ⟨hi, hik, hcp, hsp, _, _, hpc, hp, hg⟩ := (complete_iff T).mp hT
  have h1 : (parseLayerT T ℓ c).toFields = (Spec.merged ℓ c).toFields := by
    simp only [parseLayerT, hpc, if_true, Layer.copyT, forward_complete T hcp hi, fill_complete _ hp, orElse_spec]
  have h2 : (parseLayerT T ℓ c).kwargs = (Spec.merged ℓ c).kwargs := by
    simp only [parseLayerT, hpc, if_true, Layer.copyT, copyKwargs, hsp, hik, hg, Bool.and_self, mergeKw_spec _ _ hn]
    rfl
  cases hp1 : parseLayerT T ℓ c
  cases hp2 : Spec.merged ℓ c
  simp_all

theorem updateT_spec (T : Tables) (hT : T.complete = true) (ℓ c : Layer) (hn : (c.kwargs.map (·.1)).Nodup) :
    updateT T ℓ c = Spec.merged ℓ c := by
  obtain ⟨_, _, _, _, hu, hug, _, _, _⟩ := (complete_iff T).mp hT
  have h1 : (updateT T ℓ c).toFields = (Spec.merged ℓ c).toFields := by
    simp only [updateT, fill_complete _ hu, orElse_spec]
  have h2 : (updateT T ℓ c).kwargs = (Spec.merged ℓ c).kwargs := by
    simp only [updateT, hug, mergeKw_spec _ _ hn]
    rfl
  cases hp1 : updateT T ℓ c
  cases hp2 : Spec.merged ℓ c
  simp_all

def opsL (w : Bool) (ℓ : Layer) : Option Tok := if w then ℓ.operation else none

theorem outOf_spec (w plot : Bool) (eff ℓ : Layer) :
    outOf (opsL w) (if plot then popL (normed w (Spec.merged ℓ eff) (normOf w (Spec.merged ℓ eff)))
                    else normed w (Spec.merged ℓ eff) (normOf w (Spec.merged ℓ eff)))
      (normOf w (Spec.merged ℓ eff)) = Spec.layerOut w plot eff ℓ := by
  cases w <;> cases plot <;> simp [outOf, opsL, popL, normed, normOf, Spec.layerOut]

theorem specLayerOuts_eq (T : Tables) (hT : T.complete = true) (w plot : Bool) (eff : Layer)
    (hn : (eff.kwargs.map (·.1)).Nodup) (h : Heap) (as : List Nat) :
    Spec.layerOuts w plot eff h as =
      match (pvB T w eff h as).2.2 with
      | none => .ok (List.zipWith (outOf (opsL w))
          (if plot then (pvB T w eff h as).1.map popL else (pvB T w eff h as).1) (pvB T w eff h as).2.1)
      | some e => .error e := by
  induction as with
  | nil => cases plot <;> simp [Spec.layerOuts, pvB]
  | cons a r ih =>
    unfold Spec.layerOuts pvB
    cases readLayer h a with
    | none => rfl
    | some ℓ =>
      simp only [parseLayerT_spec T hT ℓ eff hn]
      have hnorm : (Spec.layerOut w plot eff ℓ).norm = normOf w (Spec.merged ℓ eff) := by
        cases w <;> simp [Spec.layerOut, normOf]
      rw [hnorm]
      by_cases hb : (normOf w (Spec.merged ℓ eff) == NormOut.runtimeErr) = true
      · simp [hb]
      · simp only [hb, ih]
        generalize pvB T w eff h r = R
        obtain ⟨vs, ns, e⟩ := R
        cases e with
        | some e => simp
        | none =>
          have := outOf_spec w plot eff ℓ
          cases plot <;> simp_all
theorem alHas_eq_isSome {α} (d : AL α) (k : String) : alHas d k = (alGet? d k).isSome := by
  induction d with
  | nil => rfl
  | cons kv r ih =>
    simp only [alHas, alGet?, List.any_cons, List.find?_cons] at ih ⊢
    cases h : (kv.1 == k) <;> simp [ih]

theorem alGet?_alSet_absent {α} (d : AL α) (k k' : String) (v : α) (h : alGet? d k = none) :
    alGet? (alSet d k v) k' = if k == k' then some v else alGet? d k' := by
  have hh : alHas d k = false := by rw [alHas_eq_isSome, h]; rfl
  simp only [alSet, hh, Bool.false_eq_true, if_false, alGet?, List.find?_append]
  by_cases hk : (k == k') = true
  · have : k = k' := by simpa using hk
    subst this
    simp only [alGet?] at h
    have h' : List.find? (fun kv => kv.fst == k) d = none := by simpa using h
    simp [h']
  · simp only [hk, Bool.false_eq_true, if_false]
    cases List.find? (fun kv => kv.fst == k') d <;> simp [hk]

theorem normaliseRes_snd (c : PlotCall) (d : AL Nat) :
    (normaliseRes c d).2 =
      some ((alGet? d "x").getD defaultResolution, (alGet? d "y").getD defaultResolution,
        if c.thick then some ((alGet? d "z").getD (depthResolution c.wx c.wy c.wz
          ((alGet? d "x").getD defaultResolution) ((alGet? d "y").getD defaultResolution))) else none) := by
  unfold normaliseRes
  cases hx : alGet? d "x" <;> cases hy : alGet? d "y" <;> cases hz : alGet? d "z" <;> cases c.thick <;>
    simp [alHas_eq_isSome, alGet?_alSet_absent, hx, hy, hz]

theorem shown_layers (P S : Heap) (vs : List Layer) (ns : List NormOut) (plot : Bool) (hl : vs.length = ns.length)
    (ops : Layer → Option Tok) :
    layerOuts (if plot = true then renderPops (P ++ blocks P.length vs ++ S) ((addrs P.length ns).map (·.1))
               else P ++ blocks P.length vs ++ S) ops (addrs P.length ns) =
      List.zipWith (outOf ops) (if plot = true then vs.map popL else vs) ns := by
  cases plot
  · simp only [Bool.false_eq_true, if_false, layerOuts_eq ops vs ns P S hl]
  · simp only [if_true, renderPops_eq vs ns P S hl, layerOuts_eq ops (vs.map popL) ns P S (by simpa using hl)]

theorem sound_iff (T : Tables) : T.sound = true ↔ (T.complete = true ∧ T.forwards = referenceTables.forwards) := by
  simp [Tables.sound]

theorem effectiveCall_ref (T : Tables) (hf : T.forwards = referenceTables.forwards) (fn : Entry) (c : Layer) :
    effectiveCall T fn c = effectiveCall referenceTables fn c := by
  simp only [effectiveCall, hf]

theorem effectiveCall_nodup (T : Tables) (fn : Entry) (c : Layer) (hn : (c.kwargs.map (·.1)).Nodup) :
    ((effectiveCall T fn c).kwargs.map (·.1)).Nodup := by
  unfold effectiveCall
  split
  · simp
  · rename_i fs splat _
    cases splat <;> simp [hn]

theorem mapResolution_copy_snd (h E : Heap) (c : PlotCall) (hres : ∀ a, c.res = .ref a → a < h.length)
    (hfn : c.fn = .map) : (mapResolution .copy (h ++ E) c).2 = Spec.resolution h c := by
  unfold mapResolution Spec.resolution
  cases hr : c.res with
  | default => simp [hfn, normaliseRes_snd, alGet?]
  | int n => simp [hfn, normaliseRes_snd, alGet?]
  | ref a =>
    simp only [resAt_append h E a (hres a hr)]
    cases resAt h a with
    | none => rfl
    | some d => simp [hfn, normaliseRes_snd]

/-- **refinement**: on any heap that extends the caller's, a call (complete tables, repaired variant) returns
    exactly what the Spec computes from the caller's objects -/
theorem runCall_out_ext (T : Tables) (hT : T.sound = true) (h : Heap) (c : PlotCall) (wf : CallWF h c) (E : Heap) :
    (runCall T Variant.repaired (h ++ E) c).2 = (Spec.call h c).2 := by
  obtain ⟨hcomp, hfw⟩ := (sound_iff T).mp hT
  have hpc : T.parseCopies = true := ((complete_iff T).mp hcomp).2.2.2.2.2.2.1
  have hnd := effectiveCall_nodup referenceTables c.fn c.opts wf.keys
  unfold runCall Spec.call
  simp only [effectiveCall_ref T hfw, parseAll_eq T hpc, pv_eq_base T _ _ h wf.closed c.layers wf.layers E]
  cases hfn : c.fn with
  | map =>
    rw [hfn] at hnd
    simp only [specLayerOuts_eq T hcomp true c.plot _ hnd h c.layers]
    cases he : (pvB T true (effectiveCall referenceTables Entry.map c.opts) h c.layers).2.2 with
    | some e => rfl
    | none =>
      have hl := pv_len T true (effectiveCall referenceTables Entry.map c.opts) c.layers (h ++ E)
      rw [pv_eq_base T _ _ h wf.closed c.layers wf.layers E] at hl
      have hl := hl he
      simp only [Variant.repaired]
      have hm := mapResolution_copy_snd h (E ++ blocks (h ++ E).length (pvB T true (effectiveCall referenceTables Entry.map c.opts) h c.layers).1) c wf.res hfn
      obtain ⟨S, hS⟩ := mapResolution_copy_heap (h ++ E ++ blocks (h ++ E).length (pvB T true (effectiveCall referenceTables Entry.map c.opts) h c.layers).1) c
      simp only [← List.append_assoc] at hm
      generalize mapResolution ResPolicy.copy (h ++ E ++ blocks (h ++ E).length (pvB T true (effectiveCall referenceTables Entry.map c.opts) h c.layers).1) c = M at hm hS
      obtain ⟨h2, r⟩ := M
      simp only at hm hS
      subst hm hS
      cases Spec.resolution h c with
      | none => rfl
      | some r =>
        obtain ⟨nx, ny, nz⟩ := r
        simp only [shown_layers (h ++ E) S _ _ c.plot hl]
        rfl
  | histogram2d =>
    rw [hfn] at hnd
    simp only [specLayerOuts_eq T hcomp true c.plot _ hnd h c.layers]
    have hres : hist2dResolution (h ++ E) c = (Spec.resolution h c).map fun r => (r.1, r.2.1) := by
      unfold hist2dResolution
      unfold Spec.resolution
      cases hr : c.res with
      | default => simp [hfn]
      | int n => simp [hfn, alGet?]
      | ref a =>
        simp only [resAt_append h E a (wf.res a hr)]
        cases resAt h a with
        | none => rfl
        | some d =>
          simp only [hfn]
          cases alGet? d "x" <;> cases alGet? d "y" <;> rfl
    rw [hres]
    cases Spec.resolution h c with
    | none => rfl
    | some r =>
      obtain ⟨nx, ny, nz⟩ := r
      simp only [Option.map_some]
      cases he : (pvB T true (effectiveCall referenceTables Entry.histogram2d c.opts) h c.layers).2.2 with
      | some e => rfl
      | none =>
        have hl := pv_len T true (effectiveCall referenceTables Entry.histogram2d c.opts) c.layers (h ++ E)
        rw [pv_eq_base T _ _ h wf.closed c.layers wf.layers E] at hl
        have hl := hl he
        have hs := shown_layers (h ++ E) [] _ _ c.plot hl (fun ℓ => ℓ.operation)
        simp only [List.append_nil] at hs
        simp only [hs]
        rfl
  | histogram1d =>
    rw [hfn] at hnd
    simp only [specLayerOuts_eq T hcomp false false _ hnd h c.layers]
    cases he : (pvB T false (effectiveCall referenceTables Entry.histogram1d c.opts) h c.layers).2.2 with
    | some e => rfl
    | none =>
      have hl := pv_len T false (effectiveCall referenceTables Entry.histogram1d c.opts) c.layers (h ++ E)
      rw [pv_eq_base T _ _ h wf.closed c.layers wf.layers E] at hl
      have hl := hl he
      have hs := shown_layers (h ++ E) [] _ _ false hl (fun _ => none)
      simp only [List.append_nil, Bool.false_eq_true, if_false] at hs
      simp only [hs]
      rfl
  | scatter => rfl
  | plot => rfl

/-- decidable form of `CallWF` (for the examples) -/
def callWFb (h : Heap) (c : PlotCall) : Bool :=
  c.layers.all (fun a => decide (a < h.length)) &&
  h.all (fun o => match o with | .layer l => decide (l.kw < h.length) | _ => true) &&
  (match c.res with | .ref a => decide (a < h.length) | _ => true) &&
  decide (c.opts.kwargs.map (·.1)).Nodup

theorem callWF_of_b (h : Heap) (c : PlotCall) (hb : callWFb h c = true) : CallWF h c := by
  simp only [callWFb, Bool.and_eq_true, List.all_eq_true, decide_eq_true_eq] at hb
  obtain ⟨⟨⟨h1, h2⟩, h3⟩, h4⟩ := hb
  refine ⟨h1, ?_, ?_, h4⟩
  · intro a o hla
    unfold layerAt at hla
    split at hla
    · rename_i o' hget
      cases hla
      have := h2 (.layer o) (List.mem_of_getElem? hget)
      simpa using this
    · cases hla
  · intro a ha
    rw [ha] at h3
    simpa using h3

end Osyris.LayerOpts

/-! ## Part 2: property theorems -/

namespace Osyris.C19
open Osyris Osyris.LayerOpts

/-! ### precedence -/

/-- **every option field of `parse_layer`'s result is the layer's value if the layer sets it, otherwise
    the call's** — for all layers and calls (all set/unset patterns at once: case split on the field and
    on one `Option`, no enumeration of patterns) -/
theorem C19_precedence (ℓ c : Layer) (f : Field) : (parseLayer ℓ c).get f = Spec.field ℓ c f := by
  cases f <;> simp [parseLayer, Layer.get, Fields.get, Spec.field, Layer.copy, orCall_eq]

example : (parseLayer { mode := some "image", vmin := some "0" } { mode := some "contour", vmax := some "9", vmin := some "5" }).toFields
    = { mode := some "image", vmin := some "0", vmax := some "9" } := by decide

/-- extra keyword options: the layer's entries first (unchanged), then the call's entries for keys the
    layer does not have, in the call's order -/
theorem C19_kwargs_precedence (ℓ c : Layer) (hn : (c.kwargs.map (·.1)).Nodup) :
    (parseLayer ℓ c).kwargs = Spec.kwargs ℓ.kwargs c.kwargs := by
  have := mergeKw_spec ℓ.kwargs c.kwargs hn
  simpa [parseLayer, Layer.copy, mergeKw] using this

example : (parseLayer { kwargs := [("cmap", "magma"), ("cbar", "False")] }
    { kwargs := [("alpha", "1/2"), ("cmap", "viridis"), ("zorder", "3")] }).kwargs
    = [("cmap", "magma"), ("cbar", "False"), ("alpha", "1/2"), ("zorder", "3")] := by decide

/-- the same for `Layer.update` (which fills `self` in place) -/
theorem C19_update_precedence (ℓ c : Layer) (f : Field) : (ℓ.update c).get f = Spec.field ℓ c f := by
  cases f <;> simp [Layer.update, Layer.get, Fields.get, Spec.field, orCall_eq]

theorem C19_update_kwargs_precedence (ℓ c : Layer) (hn : (c.kwargs.map (·.1)).Nodup) :
    (ℓ.update c).kwargs = Spec.kwargs ℓ.kwargs c.kwargs := by
  have := mergeKw_spec ℓ.kwargs c.kwargs hn
  simpa [Layer.update, mergeKw] using this

example : ({ operation := some "mean", kwargs := [("cmap", "magma")] } : Layer).update
    { operation := some "sum", bins := some "20", kwargs := [("cmap", "jet"), ("lw", "2")] }
    = { operation := some "mean", bins := some "20", kwargs := [("cmap", "magma"), ("lw", "2")] } := by decide

/-- the algorithm driven by *any* tables that are complete is the Spec: a field missing from `copy`,
    `update` or `parse_layer`'s chain, a missing `layer.copy()`, or an unguarded merge is what
    `Tables.complete` excludes -/
theorem C19_precedence_tables (T : Tables) (hT : T.complete = true) (ℓ c : Layer)
    (hn : (c.kwargs.map (·.1)).Nodup) :
    parseLayerT T ℓ c = Spec.merged ℓ c ∧ updateT T ℓ c = Spec.merged ℓ c :=
  ⟨parseLayerT_spec T hT ℓ c hn, updateT_spec T hT ℓ c hn⟩

/-- a table that lost a field is *not* harmless: with `vmin` dropped from `Layer.copy` a layer-level
    vmin is lost and the call's value wins -/
example : (parseLayerT { referenceTables with copy := ["mode", "operation", "norm", "vmax", "bins", "weights"] }
    { vmin := some "0" } { vmin := some "5" }).vmin = some "5" := by decide

/-! ### obligations on the tables extracted from /repo -/

/-- the field lists extracted from the current source are the reference list, in `__init__`, `copy`,
    `update` and `parse_layer` alike; parse_layer copies first; both merges are guarded; every entry
    point forwards the documented options.  Dropping a field from any of them breaks this. -/
theorem generated_fields_complete :
    Generated.layerInitFields = referenceFields ∧ Generated.layerCopyFields = referenceFields ∧
    Generated.layerUpdateFields = referenceFields ∧ Generated.parseLayerFields = referenceFields ∧
    referenceFields = ["mode", "operation", "norm", "vmin", "vmax", "bins", "weights"] ∧
    generatedTables.complete = true ∧ generatedTables.sound = true := by
  decide

/-- **C19 precedence for the code as it is now** -/
theorem C19_precedence_current (ℓ c : Layer) (hn : (c.kwargs.map (·.1)).Nodup) :
    parseLayerT generatedTables ℓ c = Spec.merged ℓ c ∧ updateT generatedTables ℓ c = Spec.merged ℓ c :=
  C19_precedence_tables generatedTables generated_fields_complete.2.2.2.2.2.1 ℓ c hn

/-! ### purity of parse_layer -/

/-- **`parse_layer` does not change its argument**: on the heap, every object that existed before the
    call is unchanged (the caller's Layer, its kwargs dict, everything else), and the returned object
    holds the merged value.  Needs only that the function starts with `layer.copy()`. -/
theorem C19_parse_pure (T : Tables) (hc : T.parseCopies = true) (h : Heap) (a : Nat) (c : Layer)
    (h' : Heap) (b : Nat) (hp : parseLayerH T h a c = some (h', b)) :
    callerView h.length h' = h ∧ readLayer h' a = readLayer h a ∧
    ∃ ℓ, readLayer h a = some ℓ ∧ readLayer h' b = some (parseLayerT T ℓ c) := by
  rw [parseLayerH_eq T hc] at hp
  cases hr : readLayer h a with
  | none => simp [hr] at hp
  | some ℓ =>
    simp only [hr, Option.map_some, Option.some.injEq, Prod.mk.injEq] at hp
    obtain ⟨rfl, rfl⟩ := hp
    refine ⟨by simp [callerView], ?_, ℓ, rfl, ?_⟩
    · -- reading `a` goes through the caller's objects only
      have hla : ∃ o, layerAt h a = some o := by
        unfold readLayer at hr
        cases hl : layerAt h a with
        | none => simp [hl] at hr
        | some o => exact ⟨o, rfl⟩
      obtain ⟨o, ho⟩ := hla
      have ha : a < h.length := by
        unfold layerAt at ho
        split at ho
        · rename_i o' hget; exact (List.getElem?_eq_some_iff.mp hget).1
        · cases ho
      have hd : ∃ d, dictAt h o.kw = some d := by
        unfold readLayer at hr
        simp only [ho] at hr
        cases hdd : dictAt h o.kw with
        | none => simp [hdd] at hr
        | some d => exact ⟨d, rfl⟩
      obtain ⟨d, hd⟩ := hd
      have hk : o.kw < h.length := by
        unfold dictAt at hd
        split at hd
        · rename_i d' hget; exact (List.getElem?_eq_some_iff.mp hget).1
        · cases hd
      have e1 : layerAt (h ++ block h.length (parseLayerT T ℓ c)) a = layerAt h a := by
        simp only [layerAt, get_lt h _ a ha]
      have e2 : dictAt (h ++ block h.length (parseLayerT T ℓ c)) o.kw = dictAt h o.kw := by
        simp only [dictAt, get_lt h _ o.kw hk]
      rw [← hr]
      unfold readLayer
      rw [e1, ho]
      simp only [e2]
    · have := readLayer_block h (parseLayerT T ℓ c) []
      simpa using this

/-- non-vacuity, and the negation for a `parse_layer` that does not copy: then the caller's Layer is filled -/
example : ∃ h' b, parseLayerH referenceTables [.dict [("cmap", "magma")], .layer { mode := some "image", kw := 0 }] 1
      { mode := some "contour", vmin := some "1", kwargs := [("alpha", "1/2")] } = some (h', b) ∧
    readLayer h' 1 = some { mode := some "image", kwargs := [("cmap", "magma")] } ∧
    readLayer h' b = some { mode := some "image", vmin := some "1", kwargs := [("cmap", "magma"), ("alpha", "1/2")] } :=
  ⟨_, _, rfl, by decide, by decide⟩

example : (parseLayerH { referenceTables with parseCopies := false }
      [.dict [("cmap", "magma")], .layer { mode := some "image", kw := 0 }] 1
      { vmin := some "1", kwargs := [("alpha", "1/2")] }).map (fun r => readLayer r.1 1) =
    some (some { mode := some "image", vmin := some "1", kwargs := [("cmap", "magma"), ("alpha", "1/2")] }) := by
  decide

/-! ### frame -/

/-- **frame, all five entry points**: the objects the caller owns are the same after the call as before
    (`parse_layer` copies first; `map` works on a private copy of a resolution dict) -/
theorem C19_frame (T : Tables) (hc : T.parseCopies = true) (v : Variant) (hv : v.res = .copy)
    (h : Heap) (c : PlotCall) : callerView h.length (runCall T v h c).1 = h := by
  obtain ⟨t, ht⟩ := runCall_prefix T hc v hv h c
  simp [callerView, ht]

theorem C19_frame_map (T : Tables) (hc : T.parseCopies = true) (v : Variant) (hv : v.res = .copy) (h : Heap)
    (c : PlotCall) (_ : c.fn = .map) : callerView h.length (runCall T v h c).1 = h := C19_frame T hc v hv h c
theorem C19_frame_histogram2d (T : Tables) (hc : T.parseCopies = true) (v : Variant) (h : Heap)
    (c : PlotCall) (hf : c.fn = .histogram2d) : callerView h.length (runCall T v h c).1 = h := by
  -- histogram2d never stores into the resolution dict: no hypothesis on the variant
  have : runCall T v h c = runCall T ⟨.copy, v.op⟩ h c := by unfold runCall; simp only [hf]
  rw [this]; exact C19_frame T hc ⟨.copy, v.op⟩ rfl h c
theorem C19_frame_histogram1d (T : Tables) (hc : T.parseCopies = true) (v : Variant) (h : Heap)
    (c : PlotCall) (hf : c.fn = .histogram1d) : callerView h.length (runCall T v h c).1 = h := by
  have : runCall T v h c = runCall T ⟨.copy, v.op⟩ h c := by unfold runCall; simp only [hf]
  rw [this]; exact C19_frame T hc ⟨.copy, v.op⟩ rfl h c
theorem C19_frame_scatter (T : Tables) (v : Variant) (h : Heap) (c : PlotCall) (hf : c.fn = .scatter) :
    callerView h.length (runCall T v h c).1 = h := by
  unfold runCall; simp [hf, callerView]
theorem C19_frame_plot (T : Tables) (v : Variant) (h : Heap) (c : PlotCall) (hf : c.fn = .plot) :
    callerView h.length (runCall T v h c).1 = h := by
  unfold runCall; simp [hf, callerView]

/-- frame for the code as it is now, once `map` copies the resolution dict -/
theorem C19_frame_current (op : OpPolicy) (h : Heap) (c : PlotCall) :
    callerView h.length (runCall generatedTables ⟨.copy, op⟩ h c).1 = h :=
  C19_frame generatedTables (by decide) ⟨.copy, op⟩ rfl h c

/-! the witness objects: one Layer (with a `cbar` option, so that render has something to pop), a
    resolution dict `{'x': 8}`; a thick map of depth 1/2, then one of depth 1 -/
def wHeap : Heap := [.dict [("cbar", "False")], .layer { operation := some "mean", kw := 0 }, .res [("x", 8)]]
def wCall1 : PlotCall :=
  { fn := .map, layers := [1], res := .ref 2, thick := true, wx := 1, wy := 1, wz := 1/2, plot := true }
def wCall2 : PlotCall := { wCall1 with wz := 1 }

example : callerView 3 (runCall referenceTables Variant.repaired wHeap wCall1).1 = wHeap ∧
    (runCall referenceTables Variant.repaired wHeap wCall1).1.length = 6 := by decide +kernel

/-- **negation for the code as found**: `map(..., resolution={'x': 8})` leaves the caller's dict with a
    `'y'` entry, a thick map also with `'z'`; a second thick map with another depth then reuses the
    stale `'z'` (8 samples) where the call on its own uses 16 -/
theorem C19_map_mutates_resolution_witness :
    (runCall referenceTables Variant.asFound wHeap { wCall1 with thick := false }).1[2]? =
      some (.res [("x", 8), ("y", 256)]) ∧
    (runCall referenceTables Variant.asFound wHeap wCall1).1[2]? = some (.res [("x", 8), ("y", 256), ("z", 8)]) ∧
    (runSeq referenceTables Variant.asFound wHeap [wCall1, wCall2]).map (·.2.nz) = [some 8, some 8] ∧
    (Spec.seq wHeap [wCall1, wCall2]).map (·.2.nz) = [some 8, some 16] := by
  decide +kernel

/-- the other defect of the code as found: `map` reduces every layer with the call-level operation
    (default "sum"), a layer-level `operation="mean"` is ignored -/
theorem C19_map_ignores_layer_operation_witness :
    (runCall referenceTables Variant.asFound wHeap wCall1).2.layers.map (·.op) = [some "sum"] ∧
    (Spec.call wHeap wCall1).2.layers.map (·.op) = [some "mean"] := by
  decide +kernel

/-! ### what a call returns -/

/-- **a call returns what the Spec computes from the caller's objects** (sound tables, repaired `map`):
    merged options with layer precedence, the norm built from the merged norm / vmin / vmax, the merged
    extra options, the layer's own reduction, the resolution read from — never written to — the dict -/
theorem C19_call_spec (T : Tables) (hT : T.sound = true) (h : Heap) (c : PlotCall) (wf : CallWF h c) :
    (runCall T Variant.repaired h c).2 = (Spec.call h c).2 := by
  have := runCall_out_ext T hT h c wf []
  simpa using this

example : CallWF wHeap wCall1 := callWF_of_b _ _ (by decide)

example : (runCall referenceTables Variant.repaired wHeap wCall1).2.layers.map (fun o => (o.op, o.params)) =
    [(some "mean", [("norm", "new:Normalize")])] := by decide +kernel

/-- **same arguments, same data**: calling again with the same argument objects returns the same result
    (frame: the first call left them untouched; determinism: the result is a function of them) -/
theorem C19_idempotent_data (T : Tables) (hT : T.sound = true) (h : Heap) (c : PlotCall) (wf : CallWF h c) :
    (runCall T Variant.repaired (runCall T Variant.repaired h c).1 c).2 = (runCall T Variant.repaired h c).2 := by
  have hpc : T.parseCopies = true := ((complete_iff T).mp ((sound_iff T).mp hT).1).2.2.2.2.2.2.1
  obtain ⟨t, ht⟩ := runCall_prefix T hpc Variant.repaired rfl h c
  rw [ht, runCall_out_ext T hT h c wf t, C19_call_spec T hT h c wf]

example : (runCall referenceTables Variant.repaired (runCall referenceTables Variant.repaired wHeap wCall1).1 wCall1).2
    = (runCall referenceTables Variant.repaired wHeap wCall1).2 := by decide +kernel

/-- **histories**: in any sequence of calls sharing the caller's objects, every call returns what it
    returns on its own, and the caller's objects are never changed -/
theorem C19_history (T : Tables) (hT : T.sound = true) (h : Heap) (cs : List PlotCall)
    (wf : ∀ c ∈ cs, CallWF h c) :
    (runSeq T Variant.repaired h cs).map (·.2) = (Spec.seq h cs).map (·.2) ∧
    ∀ r ∈ runSeq T Variant.repaired h cs, callerView h.length r.1 = h := by
  have hpc : T.parseCopies = true := ((complete_iff T).mp ((sound_iff T).mp hT).1).2.2.2.2.2.2.1
  suffices H : ∀ (cs : List PlotCall) (E : Heap), (∀ c ∈ cs, CallWF h c) →
      (runSeq T Variant.repaired (h ++ E) cs).map (·.2) = cs.map (fun c => (Spec.call h c).2) ∧
      ∀ r ∈ runSeq T Variant.repaired (h ++ E) cs, ∃ t, r.1 = h ++ t by
    have := H cs [] wf
    simp only [List.append_nil] at this
    refine ⟨by rw [this.1]; simp [Spec.seq, Function.comp_def], ?_⟩
    intro r hr
    obtain ⟨t, ht⟩ := this.2 r hr
    simp [callerView, ht]
  intro cs
  induction cs with
  | nil => intro E _; simp [runSeq]
  | cons c r ih =>
    intro E hw
    obtain ⟨t, ht⟩ := runCall_prefix T hpc Variant.repaired rfl (h ++ E) c
    have hr := ih (E ++ t) (fun x hx => hw x (by simp [hx]))
    simp only [← List.append_assoc] at hr
    unfold runSeq
    simp only [List.map_cons, ht, runCall_out_ext T hT h c (hw c (by simp)) E, hr.1, List.mem_cons]
    refine ⟨trivial, ?_⟩
    intro x hx
    rcases hx with rfl | hx
    · exact ⟨E ++ t, by simp [ht]⟩
    · exact hr.2 x hx

example : (runSeq referenceTables Variant.repaired wHeap [wCall1, wCall2]).map (·.2.nz) = [some 8, some 16] := by
  decide +kernel

/-- **C19 for the code as it is now**, once `map` copies the resolution dict and reduces per layer -/
theorem C19_history_current (h : Heap) (cs : List PlotCall) (wf : ∀ c ∈ cs, CallWF h c) :
    (runSeq generatedTables Variant.repaired h cs).map (·.2) = (Spec.seq h cs).map (·.2) ∧
    ∀ r ∈ runSeq generatedTables Variant.repaired h cs, callerView h.length r.1 = h :=
  C19_history generatedTables generated_fields_complete.2.2.2.2.2.2 h cs wf

end Osyris.C19
