/-
C02  Array arithmetic equals arithmetic on the physical quantities it represents.
Property theorems (element-wise lemmas: Lemmas/Bmap.lean).  The `_current` theorems and the
`generated_*` obligations mention the tables extracted from /repo and are re-proved on every run.
-/
import OsyrisModel
import OsyrisProofs.Lemmas.Bmap
import OsyrisProofs.Lemmas.Bcast

namespace Osyris.C02
open Osyris

/-- pint assigns one factor and one dimension to a symbolic unit: symbolically equal units
    are the same physical unit (a property of the catalogue handed to the model) -/
def Consistent (a b : U) : Prop := a.same b = true → a.factor = b.factor ∧ a.dim = b.dim

theorem to_spec (a a' : ArrV) (u : U) (s : Bool) (hc : Consistent a.unit u) (hu : u.factor ≠ 0)
    (h : a.to u = .ok (a', s)) :
    a.unit.dim = u.dim ∧ a'.data = a.data.map (· * U.ratio a.unit u) ∧
      a'.unit.factor = u.factor ∧ a'.unit.dim = u.dim ∧ a'.shape = a.shape := by
  unfold ArrV.to at h
  split at h
  · rename_i hs
    cases h
    obtain ⟨hf, hd⟩ := hc hs
    refine ⟨hd, ?_, hf, hd, rfl⟩
    have : U.ratio a.unit u = 1 := by unfold U.ratio; rw [hf]; exact div_self hu
    rw [this]; simp
  · split at h
    · cases h
    · rename_i hconv
      cases h
      have hd : a.unit.dim = u.dim := by
        simpa [U.convertible] using hconv
      exact ⟨hd, rfl, rfl, rfl, rfl⟩

theorem to_err (a : ArrV) (u : U) (e : Err) (h : a.to u = .error e) : e = .dimErr ∧ a.unit.dim ≠ u.dim := by
  unfold ArrV.to at h
  split at h
  · cases h
  · split at h
    · rename_i hconv
      cases h
      refine ⟨rfl, ?_⟩
      simpa [U.convertible] using hconv
    · cases h

/-- what `applyBin` returns -/
theorem applyBin_spec (T : Tables) (op : BinOp) (l r x : ArrV) (h : ArrV.applyBin T op l r = .ok x) :
    ∃ out, bshape l.shape r.shape = some out ∧ x.shape = out ∧
      x.dtype = op.resDType l.dtype r.dtype ∧
      x.data = bmap2 op.fn out l.shape r.shape l.data r.data ∧
      x.unit = wrapUnit T op.npName (op.resDType l.dtype r.dtype) l.unit (op.derivedUnit l.unit r.unit) := by
  unfold ArrV.applyBin at h
  split at h
  · cases h
  · rename_i out hout
    cases h
    exact ⟨out, hout, rfl, rfl, rfl, rfl⟩

/-- strict operators: the right operand is converted to the left unit first, or the call raises -/
theorem strict_spec (T : Tables) (op : BinOp) (hst : op.strict = true) (l r x : ArrV)
    (h : ArrV.binaryOp T op l r = .ok x) :
    ∃ r' s, r.to l.unit = .ok (r', s) ∧ ArrV.applyBin T op l r' = .ok x := by
  unfold ArrV.binaryOp at h
  simp only [hst, if_true, bind, Except.bind] at h
  cases hto : r.to l.unit with
  | error e => simp [hto] at h
  | ok p =>
    obtain ⟨r', s⟩ := p
    simp only [hto, pure, Except.pure] at h
    exact ⟨r', s, rfl, h⟩

/-- **C02 (incompatible dimensions raise)**: `+`, `-` and the comparisons on operands of
    different dimensions raise `DimensionalityError` (value level: nothing is returned,
    so neither operand can have been changed). -/
theorem C02_incompatible_raises (T : Tables) (op : BinOp) (hst : op.strict = true) (l r : ArrV)
    (hsame : ∀ a b : U, a.same b = true → a.dim = b.dim)
    (hd : r.unit.dim ≠ l.unit.dim) : ArrV.binaryOp T op l r = .error .dimErr := by
  unfold ArrV.binaryOp
  simp only [hst, if_true, bind, Except.bind]
  have : r.to l.unit = .error .dimErr := by
    unfold ArrV.to
    split
    · rename_i hs; exact absurd (hsame _ _ hs) hd
    · split
      · rfl
      · rename_i hconv
        exact absurd (by simpa [U.convertible] using hconv) hd
  simp [this]

/-- **C02 (addition / subtraction)**: the result represents the sum (difference) of the
    physical quantities of the operands, element by element after broadcasting, in the
    left operand's unit, for every dtype the unit tables keep. -/
theorem C02_add_sub (T : Tables) (op : BinOp) (hop : op = .add ∨ op = .sub) (l r x : ArrV)
    (hk : T.keeps x.dtype = true)
    (hc : Consistent r.unit l.unit) (hl : l.unit.factor ≠ 0)
    (h : ArrV.binaryOp T op l r = .ok x) :
    ∃ out, bshape l.shape r.shape = some out ∧ x.shape = out ∧ x.unit = l.unit ∧
      x.phys = bmap2 op.fn out l.shape r.shape l.phys r.phys := by
  have hst : op.strict = true := by rcases hop with h | h <;> subst h <;> rfl
  obtain ⟨r', s, hto, hap⟩ := strict_spec T op hst l r x h
  obtain ⟨_, hdata, _, _, hshape⟩ := to_spec r r' l.unit s hc hl hto
  obtain ⟨out, hout, hxs, hdt, hxd, hxu⟩ := applyBin_spec T op l r' x hap
  rw [hshape] at hout hxd
  rw [hdt] at hk
  have hunit : x.unit = l.unit := by
    rw [hxu]; unfold wrapUnit; rw [hk]
    rcases hop with h | h <;> subst h <;> simp [BinOp.derivedUnit]
  refine ⟨out, hout, hxs, hunit, ?_⟩
  unfold ArrV.phys
  rw [hxd, hdata, hunit, bmap2_convert]
  apply bmap2_scale
  intro a b
  unfold U.ratio
  rcases hop with h | h <;> subst h <;> simp only [BinOp.fn] <;> field_simp

/-- **C02 (multiplication / division)**: values and derived unit together represent the
    product (quotient) of the physical quantities, whether or not the operands' units are
    convertible into each other. -/
theorem C02_mul_div (T : Tables) (op : BinOp) (hop : op = .mul ∨ op = .div) (l r x : ArrV)
    (hk : T.keeps x.dtype = true) (ha : T.applyOp op.npName = true)
    (hc : Consistent r.unit l.unit) (hl : l.unit.factor ≠ 0) (hr : r.unit.factor ≠ 0)
    (h : ArrV.binaryOp T op l r = .ok x) :
    ∃ out, bshape l.shape r.shape = some out ∧ x.shape = out ∧
      x.phys = bmap2 op.fn out l.shape r.shape l.phys r.phys := by
  have hst : op.strict = false := by rcases hop with h | h <;> subst h <;> rfl
  unfold ArrV.binaryOp at h
  simp only [hst, Bool.false_eq_true, if_false, bind, Except.bind] at h
  cases hto : r.to l.unit with
  | ok p =>
    obtain ⟨r', s⟩ := p
    simp only [hto, pure, Except.pure] at h
    obtain ⟨_, hdata, hf', _, hshape⟩ := to_spec r r' l.unit s hc hl hto
    obtain ⟨out, hout, hxs, hdt, hxd, hxu⟩ := applyBin_spec T op l r' x h
    rw [hshape] at hout hxd
    rw [hdt] at hk
    refine ⟨out, hout, hxs, ?_⟩
    unfold ArrV.phys
    rw [hxd, hdata, bmap2_convert, hxu]
    unfold wrapUnit; rw [hk, ha]; simp only [if_true]
    apply bmap2_scale
    intro a b
    unfold U.ratio
    rcases hop with h | h <;> subst h <;> simp only [BinOp.fn, BinOp.derivedUnit, U.mul, U.div, hf'] <;> field_simp
  | error e =>
    obtain ⟨he, _⟩ := to_err r l.unit e hto
    subst he
    simp only [hto, pure, Except.pure] at h
    obtain ⟨out, hout, hxs, hdt, hxd, hxu⟩ := applyBin_spec T op l r x h
    rw [hdt] at hk
    refine ⟨out, hout, hxs, ?_⟩
    unfold ArrV.phys
    rw [hxd, hxu]
    unfold wrapUnit; rw [hk, ha]; simp only [if_true]
    apply bmap2_scale
    intro a b
    rcases hop with h | h <;> subst h <;> simp only [BinOp.fn, BinOp.derivedUnit, U.mul, U.div] <;> field_simp


/-- **C02 (negation)** -/
theorem C02_neg (T : Tables) (a x : ArrV) (hk : T.keeps x.dtype = true)
    (h : a.applyUn T .neg = .ok x) :
    x.shape = a.shape ∧ x.unit = a.unit ∧ x.phys = a.phys.map (fun t => -t) := by
  unfold ArrV.applyUn at h
  have hm : a.data.mapM (UnOp.fn? .neg) = some (a.data.map (fun x => -x)) := by
    induction a.data with
    | nil => rfl
    | cons y ys ih => simp [List.mapM_cons, ih, UnOp.fn?]
  have hx : x = { shape := a.shape, dtype := a.dtype, data := a.data.map (fun x => -x),
                  unit := wrapUnit T "negative" a.dtype a.unit a.unit, name := "" } := by
    by_cases hap : T.applyOp "negative" = true
    · simp [hm, hap, req, bind, Except.bind, pure, Except.pure, UnOp.derivedUnit?, UnOp.resDType, UnOp.npName] at h
      exact h.symm
    · simp [hm, hap, req, bind, Except.bind, pure, Except.pure, UnOp.resDType, UnOp.npName] at h
      exact h.symm
  subst hx
  simp only at hk
  have hunit : wrapUnit T "negative" a.dtype a.unit a.unit = a.unit := by
    simp only [wrapUnit, hk, if_true]; split <;> rfl
  refine ⟨rfl, hunit, ?_⟩
  simp only [ArrV.phys, hunit, List.map_map]
  apply List.map_congr_left
  intro t _
  simp [Function.comp]

/-- **C02 (integer powers)**: `a ** k` represents the k-th power of the quantity -/
theorem C02_pow (T : Tables) (a x : ArrV) (k : Int) (hk : T.keeps x.dtype = true)
    (ha : T.applyOp "power" = true) (h : a.powInt T k = .ok x) :
    x.shape = a.shape ∧ x.unit.dim = Dim.smul (k : Rat) a.unit.dim ∧
      x.phys = a.phys.map (fun t => t ^ k) := by
  unfold ArrV.powInt at h
  split at h
  · cases h
  · cases h
    simp only at hk
    refine ⟨rfl, ?_, ?_⟩
    · simp [wrapUnit, hk, ha, U.powInt]
    · simp only [ArrV.phys, wrapUnit, hk, ha, if_true, U.powInt, List.map_map]
      apply List.map_congr_left
      intro t _
      simp [Function.comp, mul_zpow]

theorem mapM_recip (l : List Rat) : ∀ ds : List Rat, l.mapM (UnOp.fn? .reciprocal) = some ds →
    ds.length = l.length ∧ ∀ i, i < l.length → getR ds i = 1 / getR l i := by
  induction l with
  | nil =>
    intro ds hm
    have : ds = [] := by simpa using hm.symm
    subst this; simp
  | cons y ys ih =>
    intro ds hm
    rw [List.mapM_cons] at hm
    simp only [bind, Option.bind] at hm
    cases hy : UnOp.fn? .reciprocal y with
    | none => simp [hy] at hm
    | some y' =>
      simp only [hy] at hm
      cases hys : ys.mapM (UnOp.fn? .reciprocal) with
      | none => simp [hys] at hm
      | some ys' =>
        simp only [hys, pure, Option.some.injEq] at hm
        subst hm
        have := ih ys' hys
        refine ⟨by simp [this.1], ?_⟩
        intro i hi
        cases i with
        | zero =>
          simp only [UnOp.fn?] at hy
          split at hy
          · cases hy
          · cases hy; simp [getR]
        | succ j =>
          have := this.2 j (by simpa using hi)
          simpa [getR] using this

/-- **C02 (k / a)**: `np.reciprocal` inverts the quantity and its unit -/
theorem C02_reciprocal (T : Tables) (a x : ArrV) (hk : T.keeps x.dtype = true)
    (ha : T.applyOp "reciprocal" = true) (h : a.applyUn T .reciprocal = .ok x) :
    x.shape = a.shape ∧ x.unit.dim = Dim.smul (-1) a.unit.dim ∧
      ∀ i, i < a.data.length → getR x.phys i = 1 / getR a.phys i := by
  unfold ArrV.applyUn at h
  simp only [bind, Except.bind, UnOp.derivedUnit?, req, UnOp.npName, ha, if_true] at h
  cases hm : a.data.mapM (UnOp.fn? .reciprocal) with
  | none => simp [hm] at h
  | some ds =>
    simp only [hm, pure, Except.pure] at h
    cases h
    simp only [UnOp.resDType] at hk
    have hel := mapM_recip a.data ds hm
    refine ⟨rfl, ?_, ?_⟩
    · simp [wrapUnit, UnOp.resDType, hk, ha, UnOp.npName, U.inv]
    · intro i hi
      rw [phys_getR, phys_getR]
      simp only [wrapUnit, UnOp.resDType, hk, ha, UnOp.npName, if_true, U.inv]
      rw [hel.2 i hi]
      by_cases h0 : getR a.data i = 0
      · simp [h0]
      · by_cases hf : a.unit.factor = 0
        · simp [hf]
        · field_simp

/-! ### obligations on the tables extracted from /repo (tie (a)): re-proved on every run -/

theorem generated_keeps_numeric : ∀ d : DType, d ≠ .b → Generated.tables.keeps d = true := by
  intro d hd
  cases d <;> first | exact absurd rfl hd | decide

theorem generated_bool_dimensionless : Generated.tables.keeps .b = false := by decide

theorem generated_applies :
    Generated.tables.applyOp "multiply" = true ∧ Generated.tables.applyOp "divide" = true ∧
    Generated.tables.applyOp "power" = true ∧ Generated.tables.applyOp "reciprocal" = true := by
  decide

theorem promote_ne_b (x y : DType) (h : x ≠ .b) : DType.promote x y ≠ .b := by
  cases x <;> cases y <;> simp_all [DType.promote]

theorem arith_dtype_ne_b (op : BinOp) (hop : op = .add ∨ op = .sub ∨ op = .mul ∨ op = .div)
    (x y : DType) (h : x ≠ .b) : op.resDType x y ≠ .b := by
  rcases hop with h' | h' | h' | h' <;> subst h'
  · simpa [BinOp.resDType, BinOp.isCompare, BinOp.isLogic] using promote_ne_b x y h
  · simpa [BinOp.resDType, BinOp.isCompare, BinOp.isLogic] using promote_ne_b x y h
  · simpa [BinOp.resDType, BinOp.isCompare, BinOp.isLogic] using promote_ne_b x y h
  · simp only [BinOp.resDType, BinOp.isCompare, BinOp.isLogic, DType.promoteDiv]
    have := promote_ne_b x y h
    cases hp : DType.promote x y <;> simp_all [DType.isFloat]

/-- **C02 for the code as it is now**: with the tables extracted from the current
    `array.py`, `a + b` / `a - b` represent sum / difference for every numeric dtype. -/
theorem C02_add_sub_current (op : BinOp) (hop : op = .add ∨ op = .sub) (l r x : ArrV)
    (hnb : l.dtype ≠ .b) (hc : Consistent r.unit l.unit) (hl : l.unit.factor ≠ 0)
    (h : ArrV.binaryOp Generated.tables op l r = .ok x) :
    ∃ out, bshape l.shape r.shape = some out ∧ x.shape = out ∧ x.unit = l.unit ∧
      x.phys = bmap2 op.fn out l.shape r.shape l.phys r.phys := by
  have hst : op.strict = true := by rcases hop with h | h <;> subst h <;> rfl
  obtain ⟨r', s, _, hap⟩ := strict_spec _ op hst l r x h
  obtain ⟨_, _, _, hdt, _, _⟩ := applyBin_spec _ op l r' x hap
  have hk : Generated.tables.keeps x.dtype = true := by
    rw [hdt]
    exact generated_keeps_numeric _ (arith_dtype_ne_b op (by rcases hop with h | h <;> simp [h]) _ _ hnb)
  exact C02_add_sub _ op hop l r x hk hc hl h

theorem C02_mul_div_current (op : BinOp) (hop : op = .mul ∨ op = .div) (l r x : ArrV)
    (hnb : l.dtype ≠ .b) (hc : Consistent r.unit l.unit) (hl : l.unit.factor ≠ 0) (hr : r.unit.factor ≠ 0)
    (h : ArrV.binaryOp Generated.tables op l r = .ok x) :
    ∃ out, bshape l.shape r.shape = some out ∧ x.shape = out ∧
      x.phys = bmap2 op.fn out l.shape r.shape l.phys r.phys := by
  have hk : Generated.tables.keeps x.dtype = true := by
    have hst : op.strict = false := by rcases hop with h | h <;> subst h <;> rfl
    have h' := h
    unfold ArrV.binaryOp at h'
    simp only [hst, Bool.false_eq_true, if_false, bind, Except.bind] at h'
    have key : ∀ r', ArrV.applyBin Generated.tables op l r' = .ok x → Generated.tables.keeps x.dtype = true := by
      intro r' hap
      obtain ⟨_, _, _, hdt, _, _⟩ := applyBin_spec _ op l r' x hap
      rw [hdt]
      exact generated_keeps_numeric _ (arith_dtype_ne_b op (by rcases hop with h | h <;> simp [h]) _ _ hnb)
    cases hto : r.to l.unit with
    | ok p => simp only [hto, pure, Except.pure] at h'; exact key _ h'
    | error e =>
      obtain ⟨he, _⟩ := to_err r l.unit e hto
      subst he
      simp only [hto, pure, Except.pure] at h'; exact key _ h'
  have ha : Generated.tables.applyOp op.npName = true := by
    rcases hop with h | h <;> subst h
    · exact generated_applies.1
    · exact generated_applies.2.1
  exact C02_mul_div _ op hop l r x hk ha hc hl hr h

/-! non-vacuity: 3 m + 20 cm (as 1/5 m) in f4 -/
def um : U := ⟨1, [1,0,0,0,0,0,0,0], [("meter", 1)]⟩
def ucm : U := ⟨1/100, [1,0,0,0,0,0,0,0], [("centimeter", 1)]⟩
def a3m : ArrV := { shape := [1], dtype := .f4, data := [3], unit := um }
def b20cm : ArrV := { shape := [1], dtype := .f4, data := [20], unit := ucm }
example : ∃ x, ArrV.binaryOp Reference.tables .add a3m b20cm = .ok x ∧ x.phys = [16/5] := by
  refine ⟨_, rfl, ?_⟩
  decide +kernel

/-- **C02 (broadcast reads are real reads)**: in an element-wise operation on operands whose shapes broadcast to `out`,
    every element of the result is computed from an element that exists in each operand (the model's totalised access never
    falls back to its default; proved in `Lemmas/Bcast.lean`: `bshape_compat`, `bidx_lt`, `unravel_lt`, `ravel_lt`) -/
theorem C02_broadcast_reads_in_range (s t out : List Nat) (h : bshape s t = some out) (i : Nat) (hi : i < shapeSize out) :
    bidx out s i < shapeSize s ∧ bidx out t i < shapeSize t :=
  Bcast.bmap2_reads_in_range s t out h i hi

/-- non-vacuity: a column against a row -/
example : bidx [2, 3] [2, 1] 4 < shapeSize [2, 1] ∧ bidx [2, 3] [3] 4 < shapeSize [3] :=
  C02_broadcast_reads_in_range [2, 1] [3] [2, 3] (by decide) 4 (by decide)

end Osyris.C02
