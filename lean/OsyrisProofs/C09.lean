/-
C09  Vector operations are the component-wise lifting of Array operations.
-/
import OsyrisModel
import OsyrisProofs.Lemmas.Bmap
import OsyrisProofs.C02
import OsyrisProofs.C06

namespace Osyris.C09
open Osyris Osyris.C02

/-! ### component-wise lifting -/

theorem mapM2_spec {α β γ : Type} (f : α → β → Res γ) :
    ∀ (as : List α) (bs : List β) (cs : List γ), as.length = bs.length → mapM2 f as bs = .ok cs →
      cs.length = as.length ∧
      ∀ i (h1 : i < as.length) (h2 : i < bs.length) (h3 : i < cs.length), f as[i] bs[i] = .ok cs[i] := by
  intro as
  induction as with
  | nil =>
    intro bs cs hl h
    cases bs with
    | nil => simp [mapM2, pure, Except.pure] at h; subst h; simp
    | cons b bs => simp at hl
  | cons a as ih =>
    intro bs cs hl h
    cases bs with
    | nil => simp at hl
    | cons b bs =>
      simp only [mapM2, bind, Except.bind] at h
      cases hf : f a b with
      | error e => simp [hf] at h
      | ok c =>
        simp only [hf] at h
        cases hr : mapM2 f as bs with
        | error e => simp [hr] at h
        | ok cs' =>
          simp only [hr, pure, Except.pure] at h
          cases h
          have := ih bs cs' (by simpa using hl) hr
          refine ⟨by simp [this.1], ?_⟩
          intro i h1 h2 h3
          cases i with
          | zero => simpa using hf
          | succ j => simpa using this.2 j (by simpa using h1) (by simpa using h2) (by simpa using h3)

/-- **C09 (lifting)**: `v (op) w` acts component by component exactly like the same
    operation on each component Array (only the component names are reset). -/
theorem C09_lift (T : Tables) (op : BinOp) (v w x : VecV) (h : v.binaryOp T op (.vec w) = .ok x) :
    x.comps.length = v.comps.length ∧ v.comps.length = w.comps.length ∧
    ∀ i (h1 : i < v.comps.length) (h2 : i < w.comps.length) (h3 : i < x.comps.length),
      ∃ c, ArrV.binaryOp T op v.comps[i] w.comps[i] = .ok c ∧
        x.comps[i].data = c.data ∧ x.comps[i].unit = c.unit ∧ x.comps[i].shape = c.shape ∧
        x.comps[i].dtype = c.dtype := by
  unfold VecV.binaryOp at h
  simp only [bind, Except.bind] at h
  split at h
  · cases h
  · rename_i hlen
    have hl : v.comps.length = w.comps.length := by simpa using hlen
    cases hm : mapM2 (ArrV.binaryOp T op) v.comps w.comps with
    | error e => simp [hm] at h
    | ok cs =>
      simp only [hm] at h
      have hx := C06.ofArrs_ok cs "" x h
      have hs := mapM2_spec (ArrV.binaryOp T op) v.comps w.comps cs hl hm
      subst hx
      refine ⟨by simp [VecV.rename, hs.1], hl, ?_⟩
      intro i h1 h2 h3
      have h3' : i < cs.length := by simpa [VecV.rename] using h3
      exact ⟨cs[i], hs.2 i h1 h2 h3', by simp [VecV.rename], by simp [VecV.rename], by simp [VecV.rename], by simp [VecV.rename]⟩

/-- an Array (or number / ndarray / Quantity wrapped into one) is broadcast to all components -/
theorem C09_lift_array (T : Tables) (op : BinOp) (v x : VecV) (a : ArrV) (h : v.binaryOp T op (.arr a) = .ok x) :
    x.comps.length = v.comps.length ∧
    ∀ i (h1 : i < v.comps.length) (h3 : i < x.comps.length),
      ∃ c, ArrV.binaryOp T op v.comps[i] a = .ok c ∧
        x.comps[i].data = c.data ∧ x.comps[i].unit = c.unit ∧ x.comps[i].shape = c.shape := by
  unfold VecV.binaryOp at h
  simp only [bind, Except.bind] at h
  have hrep : (v.comps.map fun _ => a) = List.replicate v.comps.length a := by simp
  simp only [hrep] at h
  split at h
  · cases h
  · cases hm : mapM2 (ArrV.binaryOp T op) v.comps (List.replicate v.comps.length a) with
    | error e => simp [hm] at h
    | ok cs =>
      simp only [hm] at h
      have hx := C06.ofArrs_ok cs "" x h
      have hs := mapM2_spec (ArrV.binaryOp T op) v.comps _ cs (by simp) hm
      subst hx
      refine ⟨by simp [VecV.rename, hs.1], ?_⟩
      intro i h1 h3
      have h3' : i < cs.length := by simpa [VecV.rename] using h3
      have := hs.2 i h1 (by simpa using h1) h3'
      simp only [List.getElem_replicate] at this
      exact ⟨cs[i], this, by simp [VecV.rename], by simp [VecV.rename], by simp [VecV.rename]⟩

/-- operands with a different number of components are rejected -/
theorem C09_nvec_mismatch (T : Tables) (op : BinOp) (v w : VecV) (h : v.comps.length ≠ w.comps.length) :
    v.binaryOp T op (.vec w) = .error .valueErr := by
  unfold VecV.binaryOp
  simp [h]

/-! ### algebraic laws of the scalar and vector product (point-wise, over ℚ) -/

def dot3 (a b : Rat × Rat × Rat) : Rat := a.1 * b.1 + a.2.1 * b.2.1 + a.2.2 * b.2.2
def cross3 (a b : Rat × Rat × Rat) : Rat × Rat × Rat :=
  (a.2.1 * b.2.2 - a.2.2 * b.2.1, a.2.2 * b.1 - a.1 * b.2.2, a.1 * b.2.1 - a.2.1 * b.1)

theorem dot3_comm (a b) : dot3 a b = dot3 b a := by unfold dot3; ring
theorem cross3_anticomm (a b) : cross3 a b = (-(cross3 b a).1, -(cross3 b a).2.1, -(cross3 b a).2.2) := by
  unfold cross3; ext <;> simp <;> ring
theorem dot3_cross3_self (a b) : dot3 a (cross3 a b) = 0 := by unfold dot3 cross3; ring
theorem lagrange (a b) : dot3 (cross3 a b) (cross3 a b) + (dot3 a b) ^ 2 = dot3 a a * dot3 b b := by
  unfold dot3 cross3; ring

end Osyris.C09
