/-
C09  Vector operations are the component-wise lifting of Array operations.
-/
import OsyrisModel
import OsyrisProofs.Lemmas.Bmap
import OsyrisProofs.C02
import OsyrisProofs.C06
import Mathlib.Tactic.Ring
import Mathlib.Tactic.Linarith

set_option linter.unusedSimpArgs false

namespace Osyris.C09
open Osyris Osyris.C02

/-! ### component-wise lifting -/

theorem mapM2_spec {α β γ : Type} (f : α → β → Res γ) :
    ∀ (as : List α) (bs : List β) (cs : List γ), as.length = bs.length → mapM2 f as bs = .ok cs →
      cs.length = as.length ∧
      ∀ i (h1 : i < as.length) (h2 : i < bs.length) (h3 : i < cs.length), f as[i] bs[i] = .ok cs[i] := by
  intro as
  induction as with
  | nil =>
    intro bs cs hl h
    cases bs with
    | nil => simp [mapM2, pure, Except.pure] at h; subst h; simp
    | cons b bs => simp at hl
  | cons a as ih =>
    intro bs cs hl h
    cases bs with
    | nil => simp at hl
    | cons b bs =>
      simp only [mapM2, bind, Except.bind] at h
      cases hf : f a b with
      | error e => simp [hf] at h
      | ok c =>
        simp only [hf] at h
        cases hr : mapM2 f as bs with
        | error e => simp [hr] at h
        | ok cs' =>
          simp only [hr, pure, Except.pure] at h
          cases h
          have := ih bs cs' (by simpa using hl) hr
          refine ⟨by simp [this.1], ?_⟩
          intro i h1 h2 h3
          cases i with
          | zero => simpa using hf
          | succ j => simpa using this.2 j (by simpa using h1) (by simpa using h2) (by simpa using h3)

/-- **C09 (lifting)**: `v (op) w` acts component by component exactly like the same
    operation on each component Array (only the component names are reset). -/
theorem C09_lift (T : Tables) (op : BinOp) (v w x : VecV) (h : v.binaryOp T op (.vec w) = .ok x) :
    x.comps.length = v.comps.length ∧ v.comps.length = w.comps.length ∧
    ∀ i (h1 : i < v.comps.length) (h2 : i < w.comps.length) (h3 : i < x.comps.length),
      ∃ c, ArrV.binaryOp T op v.comps[i] w.comps[i] = .ok c ∧
        x.comps[i].data = c.data ∧ x.comps[i].unit = c.unit ∧ x.comps[i].shape = c.shape ∧
        x.comps[i].dtype = c.dtype := by
  unfold VecV.binaryOp at h
  simp only [bind, Except.bind] at h
  split at h
  · cases h
  · rename_i hlen
    have hl : v.comps.length = w.comps.length := by simpa using hlen
    cases hm : mapM2 (ArrV.binaryOp T op) v.comps w.comps with
    | error e => simp [hm] at h
    | ok cs =>
      simp only [hm] at h
      have hx := C06.ofArrs_ok cs "" x h
      have hs := mapM2_spec (ArrV.binaryOp T op) v.comps w.comps cs hl hm
      subst hx
      refine ⟨by simp [VecV.rename, hs.1], hl, ?_⟩
      intro i h1 h2 h3
      have h3' : i < cs.length := by simpa [VecV.rename] using h3
      exact ⟨cs[i], hs.2 i h1 h2 h3', by simp [VecV.rename], by simp [VecV.rename], by simp [VecV.rename], by simp [VecV.rename]⟩

/-- an Array (or number / ndarray / Quantity wrapped into one) is broadcast to all components -/
theorem C09_lift_array (T : Tables) (op : BinOp) (v x : VecV) (a : ArrV) (h : v.binaryOp T op (.arr a) = .ok x) :
    x.comps.length = v.comps.length ∧
    ∀ i (h1 : i < v.comps.length) (h3 : i < x.comps.length),
      ∃ c, ArrV.binaryOp T op v.comps[i] a = .ok c ∧
        x.comps[i].data = c.data ∧ x.comps[i].unit = c.unit ∧ x.comps[i].shape = c.shape := by
  unfold VecV.binaryOp at h
  simp only [bind, Except.bind] at h
  have hrep : (v.comps.map fun _ => a) = List.replicate v.comps.length a := by simp
  simp only [hrep] at h
  split at h
  · cases h
  · cases hm : mapM2 (ArrV.binaryOp T op) v.comps (List.replicate v.comps.length a) with
    | error e => simp [hm] at h
    | ok cs =>
      simp only [hm] at h
      have hx := C06.ofArrs_ok cs "" x h
      have hs := mapM2_spec (ArrV.binaryOp T op) v.comps _ cs (by simp) hm
      subst hx
      refine ⟨by simp [VecV.rename, hs.1], ?_⟩
      intro i h1 h3
      have h3' : i < cs.length := by simpa [VecV.rename] using h3
      have := hs.2 i h1 (by simpa using h1) h3'
      simp only [List.getElem_replicate] at this
      exact ⟨cs[i], this, by simp [VecV.rename], by simp [VecV.rename], by simp [VecV.rename]⟩

/-- operands with a different number of components are rejected -/
theorem C09_nvec_mismatch (T : Tables) (op : BinOp) (v w : VecV) (h : v.comps.length ≠ w.comps.length) :
    v.binaryOp T op (.vec w) = .error .valueErr := by
  unfold VecV.binaryOp
  simp [h]

/-! ### algebraic laws of the scalar and vector product (point-wise, over ℚ) -/

def dot3 (a b : Rat × Rat × Rat) : Rat := a.1 * b.1 + a.2.1 * b.2.1 + a.2.2 * b.2.2
def cross3 (a b : Rat × Rat × Rat) : Rat × Rat × Rat :=
  (a.2.1 * b.2.2 - a.2.2 * b.2.1, a.2.2 * b.1 - a.1 * b.2.2, a.1 * b.2.1 - a.2.1 * b.1)

theorem dot3_comm (a b) : dot3 a b = dot3 b a := by unfold dot3; ring
theorem cross3_anticomm (a b) : cross3 a b = (-(cross3 b a).1, -(cross3 b a).2.1, -(cross3 b a).2.2) := by
  unfold cross3; ext <;> simp <;> ring
theorem dot3_cross3_self (a b) : dot3 a (cross3 a b) = 0 := by unfold dot3 cross3; ring
theorem lagrange (a b) : dot3 (cross3 a b) (cross3 a b) + (dot3 a b) ^ 2 = dot3 a a * dot3 b b := by
  unfold dot3 cross3; ring


/-! ### scalar and vector product on the physical quantities -/

theorem bshapeRev_self (s : List Nat) : bshapeRev s s = some s := by
  induction s with
  | nil => rfl
  | cons x xs ih => simp [bshapeRev, ih]

theorem bshape_self (s : List Nat) : bshape s s = some s := by
  simp [bshape, bshapeRev_self]

theorem getR_bmap2_self (f : Rat → Rat → Rat) (s : List Nat) (A B : List Rat) (i : Nat) (hi : i < shapeSize s) :
    getR (bmap2 f s s s A B) i = f (getR A i) (getR B i) := by
  unfold bmap2 getR
  simp [List.getD_eq_getElem?_getD, hi, bidx]

/-- factor of the unit a product carries: depends on the operands' units only -/
def mulFactor (ul ur : U) : Rat :=
  if ur.same ul || ur.convertible ul then ul.factor * ul.factor else ul.factor * ur.factor

theorem mul_unit_factor (T : Tables) (l r x : ArrV) (hk : T.keeps x.dtype = true) (ha : T.applyOp "multiply" = true)
    (hc : Consistent r.unit l.unit) (hl : l.unit.factor ≠ 0)
    (h : ArrV.binaryOp T .mul l r = .ok x) : x.unit.factor = mulFactor l.unit r.unit := by
  unfold ArrV.binaryOp at h
  simp only [BinOp.strict, Bool.false_eq_true, if_false, bind, Except.bind] at h
  cases hto : r.to l.unit with
  | ok p =>
    obtain ⟨r', s⟩ := p
    simp only [hto, pure, Except.pure] at h
    obtain ⟨_, _, hf', _, _⟩ := to_spec r r' l.unit s hc hl hto
    obtain ⟨out, _, _, hdt, _, hxu⟩ := applyBin_spec T .mul l r' x h
    rw [hdt] at hk
    have hcase : (r.unit.same l.unit || r.unit.convertible l.unit) = true := by
      unfold ArrV.to at hto
      by_cases hs : r.unit.same l.unit = true
      · simp [hs]
      · simp only [hs, if_false, Bool.false_eq_true] at hto
        by_cases hcv : r.unit.convertible l.unit = true
        · simp [hcv]
        · simp [hcv] at hto
    rw [hxu]
    simp [wrapUnit, hk, ha, BinOp.npName, BinOp.derivedUnit, U.mul, hf', mulFactor, hcase]
  | error e =>
    obtain ⟨he, hd⟩ := to_err r l.unit e hto
    subst he
    simp only [hto, pure, Except.pure] at h
    obtain ⟨out, _, _, hdt, _, hxu⟩ := applyBin_spec T .mul l r x h
    rw [hdt] at hk
    have hcase : (r.unit.same l.unit || r.unit.convertible l.unit) = false := by
      unfold ArrV.to at hto
      by_cases hs : r.unit.same l.unit = true
      · simp [hs] at hto
      · simp only [hs, if_false, Bool.false_eq_true] at hto
        by_cases hcv : r.unit.convertible l.unit = true
        · simp [hcv] at hto
        · simp [hs, hcv]
    rw [hxu]
    simp [wrapUnit, hk, ha, BinOp.npName, BinOp.derivedUnit, U.mul, mulFactor, hcase]

/-- **C09 (scalar product)**: for 3-component Vectors whose components share one shape and one
    unit each, `dot` represents the scalar product of the *physical* vectors, element by element —
    also when the two operands are in different compatible units — and its unit is the one the
    values are expressed in. -/
theorem C09_dot_phys (T : Tables) (a1 a2 a3 b1 b2 b3 x : ArrV) (s : List Nat) (ua ub : U)
    (hsa : a1.shape = s ∧ a2.shape = s ∧ a3.shape = s) (hsb : b1.shape = s ∧ b2.shape = s ∧ b3.shape = s)
    (hua : a1.unit = ua ∧ a2.unit = ua ∧ a3.unit = ua) (hub : b1.unit = ub ∧ b2.unit = ub ∧ b3.unit = ub)
    (hkeep : ∀ d, T.keeps d = true) (ha : T.applyOp "multiply" = true)
    (hc : Consistent ub ua) (hfa : ua.factor ≠ 0) (hfb : ub.factor ≠ 0)
    (h : VecV.dot T { comps := [a1, a2, a3] } { comps := [b1, b2, b3] } = .ok x) :
    x.shape = s ∧ ∀ i, i < shapeSize s →
      getR x.phys i = dot3 (getR a1.phys i, getR a2.phys i, getR a3.phys i)
                           (getR b1.phys i, getR b2.phys i, getR b3.phys i) := by
  unfold VecV.dot at h
  simp only [mapM2, bind, Except.bind, pure, Except.pure] at h
  cases h1 : ArrV.binaryOp T .mul a1 b1 with
  | error e => simp [h1] at h
  | ok p1 =>
  cases h2 : ArrV.binaryOp T .mul a2 b2 with
  | error e => simp [h1, h2] at h
  | ok p2 =>
  cases h3 : ArrV.binaryOp T .mul a3 b3 with
  | error e => simp [h1, h2, h3] at h
  | ok p3 =>
  simp only [h1, h2, h3] at h
  cases h
  have hmul : ∀ (a b p : ArrV), a.shape = s → b.shape = s → a.unit = ua → b.unit = ub →
      ArrV.binaryOp T .mul a b = .ok p →
      p.shape = s ∧ p.unit.factor = mulFactor ua ub ∧
      ∀ i, i < shapeSize s → getR p.data i * mulFactor ua ub = getR a.phys i * getR b.phys i := by
    intro a b p hsa' hsb' hua' hub' hp
    have hcons : Consistent b.unit a.unit := by rw [hua', hub']; exact hc
    obtain ⟨out, hout, hps, hphys⟩ := C02_mul_div T .mul (Or.inl rfl) a b p (hkeep _) ha hcons
      (by rw [hua']; exact hfa) (by rw [hub']; exact hfb) hp
    rw [hsa', hsb', bshape_self] at hout
    cases hout
    have hf := mul_unit_factor T a b p (hkeep _) ha hcons (by rw [hua']; exact hfa) hp
    rw [hua', hub'] at hf
    refine ⟨hps, hf, ?_⟩
    intro i hi
    have := congrArg (fun l => getR l i) hphys
    rw [phys_getR, hsa', hsb', getR_bmap2_self _ _ _ _ _ hi, hf] at this
    simpa [BinOp.fn] using this
  obtain ⟨hs1, hf1, hv1⟩ := hmul a1 b1 p1 hsa.1 hsb.1 hua.1 hub.1 h1
  obtain ⟨hs2, hf2, hv2⟩ := hmul a2 b2 p2 hsa.2.1 hsb.2.1 hua.2.1 hub.2.1 h2
  obtain ⟨hs3, hf3, hv3⟩ := hmul a3 b3 p3 hsa.2.2 hsb.2.2 hua.2.2 hub.2.2 h3
  have hvs : VecV.shape { comps := [a1, a2, a3] } = s := by simp [VecV.shape, hsa.1]
  refine ⟨hvs, ?_⟩
  intro i hi
  rw [phys_getR]
  simp only [List.foldl_cons, List.foldl_nil, hvs, hs1, hs2, hs3]
  rw [getR_bmap2_self _ _ _ _ _ hi, getR_bmap2_self _ _ _ _ _ hi, getR_bmap2_self _ _ _ _ _ hi]
  have hz : getR (List.replicate (shapeSize s) (0 : Rat)) i = 0 := by
    simp [getR, List.getD_eq_getElem?_getD, hi]
  rw [hz, hf1]
  unfold dot3
  simp only
  rw [← hv1 i hi, ← hv2 i hi, ← hv3 i hi]
  ring


/-- product of two same-shape Arrays with uniform units, at the level of physical values -/
theorem mul_phys (T : Tables) (s : List Nat) (ua ub : U) (hkeep : ∀ d, T.keeps d = true) (ha : T.applyOp "multiply" = true)
    (hc : Consistent ub ua) (hfa : ua.factor ≠ 0) (hfb : ub.factor ≠ 0)
    (a b p : ArrV) (hsa : a.shape = s) (hsb : b.shape = s) (hua : a.unit = ua) (hub : b.unit = ub)
    (hp : ArrV.binaryOp T .mul a b = .ok p) :
    p.shape = s ∧ p.unit = (if ub.same ua || ub.convertible ua then ua.mul ua else ua.mul ub) ∧
    ∀ i, i < shapeSize s → getR p.phys i = getR a.phys i * getR b.phys i := by
  have hcons : Consistent b.unit a.unit := by rw [hua, hub]; exact hc
  obtain ⟨out, hout, hps, hphys⟩ := C02_mul_div T .mul (Or.inl rfl) a b p (hkeep _) ha hcons
    (by rw [hua]; exact hfa) (by rw [hub]; exact hfb) hp
  rw [hsa, hsb, bshape_self] at hout
  cases hout
  refine ⟨hps, ?_, ?_⟩
  · -- the unit is determined by the operand units alone
    unfold ArrV.binaryOp at hp
    simp only [BinOp.strict, Bool.false_eq_true, if_false, bind, Except.bind] at hp
    cases hto : b.to a.unit with
    | ok q =>
      obtain ⟨b', st⟩ := q
      simp only [hto, pure, Except.pure] at hp
      obtain ⟨_, _, _, _, hxu⟩ := applyBin_spec T .mul a b' p hp |>.choose_spec
      have hb'u : b'.unit = a.unit ∨ (b'.unit = b.unit ∧ b.unit.same a.unit = true) := by
        unfold ArrV.to at hto
        by_cases hs : b.unit.same a.unit = true
        · simp only [hs, if_true] at hto; cases hto; exact Or.inr ⟨rfl, hs⟩
        · simp only [hs, if_false, Bool.false_eq_true] at hto
          by_cases hcv : b.unit.convertible a.unit = true
          · simp only [hcv, Bool.not_true, Bool.false_eq_true, if_false] at hto; cases hto; exact Or.inl rfl
          · simp [hcv] at hto
      have hcase : (ub.same ua || ub.convertible ua) = true := by
        rw [← hua, ← hub]
        unfold ArrV.to at hto
        by_cases hs : b.unit.same a.unit = true
        · simp [hs]
        · simp only [hs, if_false, Bool.false_eq_true] at hto
          by_cases hcv : b.unit.convertible a.unit = true
          · simp [hcv]
          · simp [hcv] at hto
      rw [hxu]
      simp only [wrapUnit, hkeep, ha, BinOp.npName, if_true, BinOp.derivedUnit, hcase]
      rcases hb'u with h1 | ⟨h1, h2⟩
      · rw [h1, hua]
      · -- symbolically equal units of a consistent catalogue are the same unit
        rw [h1]
        have hfd := hcons h2
        have hsym : b.unit.sym = a.unit.sym := by
          unfold U.same at h2; exact beq_iff_eq.mp h2
        have hbeq : b.unit = a.unit := by
          rcases hbu : b.unit with ⟨f1, d1, s1⟩
          rcases hau : a.unit with ⟨f2, d2, s2⟩
          rw [hbu, hau] at hfd hsym
          simp only at hfd hsym
          rw [hfd.1, hfd.2, hsym]
        rw [hbeq, hua]
    | error e =>
      obtain ⟨he, hd⟩ := to_err b a.unit e hto
      subst he
      simp only [hto, pure, Except.pure] at hp
      obtain ⟨_, _, _, _, hxu⟩ := applyBin_spec T .mul a b p hp |>.choose_spec
      have hcase : (ub.same ua || ub.convertible ua) = false := by
        rw [← hua, ← hub]
        unfold ArrV.to at hto
        by_cases hs : b.unit.same a.unit = true
        · simp [hs] at hto
        · simp only [hs, if_false, Bool.false_eq_true] at hto
          by_cases hcv : b.unit.convertible a.unit = true
          · simp [hcv] at hto
          · simp [hs, hcv]
      rw [hxu]
      simp [wrapUnit, hkeep, ha, BinOp.npName, BinOp.derivedUnit, hcase, hua, hub]
  · intro i hi
    have := congrArg (fun l => getR l i) hphys
    rw [hsa, hsb, getR_bmap2_self _ _ _ _ _ hi] at this
    simpa [BinOp.fn] using this

/-- difference of two same-shape, same-unit Arrays at the level of physical values -/
theorem sub_phys (T : Tables) (s : List Nat) (u : U) (hkeep : ∀ d, T.keeps d = true) (hf : u.factor ≠ 0)
    (p q x : ArrV) (hsp : p.shape = s) (hsq : q.shape = s) (hup : p.unit = u) (huq : q.unit = u)
    (hx : ArrV.binaryOp T .sub p q = .ok x) :
    x.shape = s ∧ x.unit = u ∧ ∀ i, i < shapeSize s → getR x.phys i = getR p.phys i - getR q.phys i := by
  have hcons : Consistent q.unit p.unit := by
    intro _; rw [hup, huq]; exact ⟨rfl, rfl⟩
  obtain ⟨out, hout, hxs, hxu, hphys⟩ := C02_add_sub T .sub (Or.inr rfl) p q x (hkeep _) hcons (by rw [hup]; exact hf) hx
  rw [hsp, hsq, bshape_self] at hout
  cases hout
  refine ⟨hxs, by rw [hxu, hup], ?_⟩
  intro i hi
  have := congrArg (fun l => getR l i) hphys
  rw [hsp, hsq, getR_bmap2_self _ _ _ _ _ hi] at this
  simpa [BinOp.fn] using this


/-- **C09 (vector product)**: for 3-component Vectors whose components share one shape and one
    unit each, every component of `cross` represents the corresponding component of the vector
    product of the physical vectors — also for operands in different compatible units. Together
    with `cross3_anticomm`, `dot3_cross3_self` and `lagrange` this gives the algebraic laws on
    the physical quantities. -/
theorem C09_cross_phys (T : Tables) (a1 a2 a3 b1 b2 b3 : ArrV) (x : VecV) (s : List Nat) (ua ub : U)
    (hsa : a1.shape = s ∧ a2.shape = s ∧ a3.shape = s) (hsb : b1.shape = s ∧ b2.shape = s ∧ b3.shape = s)
    (hua : a1.unit = ua ∧ a2.unit = ua ∧ a3.unit = ua) (hub : b1.unit = ub ∧ b2.unit = ub ∧ b3.unit = ub)
    (hkeep : ∀ d, T.keeps d = true) (ha : T.applyOp "multiply" = true)
    (hc : Consistent ub ua) (hfa : ua.factor ≠ 0) (hfb : ub.factor ≠ 0)
    (h : VecV.cross T { comps := [a1, a2, a3] } { comps := [b1, b2, b3] } = .ok x) :
    ∃ x1 x2 x3 : ArrV, x.comps.map (·.data) = [x1.data, x2.data, x3.data] ∧ x.comps.map (·.unit) = [x1.unit, x2.unit, x3.unit] ∧
      ∀ i, i < shapeSize s →
        (getR x1.phys i, getR x2.phys i, getR x3.phys i) =
          cross3 (getR a1.phys i, getR a2.phys i, getR a3.phys i) (getR b1.phys i, getR b2.phys i, getR b3.phys i) := by
  unfold VecV.cross at h
  simp only [bind, Except.bind] at h
  -- the six products
  have M := mul_phys T s ua ub hkeep ha hc hfa hfb
  set pu : U := (if ub.same ua || ub.convertible ua then ua.mul ua else ua.mul ub) with hpu
  have hpf : pu.factor ≠ 0 := by
    rw [hpu]; split <;> simp [U.mul, hfa, hfb]
  cases e1 : ArrV.binaryOp T .mul a2 b3 with
  | error e => simp [e1] at h
  | ok m1 =>
  cases e2 : ArrV.binaryOp T .mul a3 b2 with
  | error e => simp [e1, e2] at h
  | ok m2 =>
  cases e3 : ArrV.binaryOp T .sub m1 m2 with
  | error e => simp [e1, e2, e3] at h
  | ok x1 =>
  cases e4 : ArrV.binaryOp T .mul a3 b1 with
  | error e => simp [e1, e2, e3, e4] at h
  | ok m3 =>
  cases e5 : ArrV.binaryOp T .mul a1 b3 with
  | error e => simp [e1, e2, e3, e4, e5] at h
  | ok m4 =>
  cases e6 : ArrV.binaryOp T .sub m3 m4 with
  | error e => simp [e1, e2, e3, e4, e5, e6] at h
  | ok x2 =>
  cases e7 : ArrV.binaryOp T .mul a1 b2 with
  | error e => simp [e1, e2, e3, e4, e5, e6, e7] at h
  | ok m5 =>
  cases e8 : ArrV.binaryOp T .mul a2 b1 with
  | error e => simp [e1, e2, e3, e4, e5, e6, e7, e8] at h
  | ok m6 =>
  cases e9 : ArrV.binaryOp T .sub m5 m6 with
  | error e => simp [e1, e2, e3, e4, e5, e6, e7, e8, e9] at h
  | ok x3 =>
  simp only [e1, e2, e3, e4, e5, e6, e7, e8, e9] at h
  have hx := C06.ofArrs_ok [x1, x2, x3] "" x h
  obtain ⟨s1, u1, v1⟩ := M a2 b3 m1 hsa.2.1 hsb.2.2 hua.2.1 hub.2.2 e1
  obtain ⟨s2, u2, v2⟩ := M a3 b2 m2 hsa.2.2 hsb.2.1 hua.2.2 hub.2.1 e2
  obtain ⟨s3, u3, v3⟩ := M a3 b1 m3 hsa.2.2 hsb.1 hua.2.2 hub.1 e4
  obtain ⟨s4, u4, v4⟩ := M a1 b3 m4 hsa.1 hsb.2.2 hua.1 hub.2.2 e5
  obtain ⟨s5, u5, v5⟩ := M a1 b2 m5 hsa.1 hsb.2.1 hua.1 hub.2.1 e7
  obtain ⟨s6, u6, v6⟩ := M a2 b1 m6 hsa.2.1 hsb.1 hua.2.1 hub.1 e8
  have S := sub_phys T s pu hkeep hpf
  obtain ⟨_, _, w1⟩ := S m1 m2 x1 s1 s2 u1 u2 e3
  obtain ⟨_, _, w2⟩ := S m3 m4 x2 s3 s4 u3 u4 e6
  obtain ⟨_, _, w3⟩ := S m5 m6 x3 s5 s6 u5 u6 e9
  refine ⟨x1, x2, x3, ?_, ?_, ?_⟩
  · subst hx; simp [VecV.rename]
  · subst hx; simp [VecV.rename]
  · intro i hi
    rw [w1 i hi, w2 i hi, w3 i hi, v1 i hi, v2 i hi, v3 i hi, v4 i hi, v5 i hi, v6 i hi]
    simp [cross3]


/-- the fold of `normSq`: position `i` accumulates the squares of the components' entries -/
theorem normSq_fold_get (cs : List ArrV) (i : Nat) : ∀ (acc : List Rat), i < acc.length →
    (∀ c ∈ cs, i < c.data.length) →
    getR (cs.foldl (fun acc c => List.zipWith (· + ·) acc (c.data.map fun t => t * t)) acc) i =
      getR acc i + (cs.map fun c => getR c.data i * getR c.data i).sum := by
  induction cs with
  | nil => intro acc _ _; simp
  | cons c cs ih =>
    intro acc hacc hlen
    have hc : i < c.data.length := hlen c (by simp)
    simp only [List.foldl_cons, List.map_cons, List.sum_cons]
    rw [ih _ (by simp [hacc, hc]) (fun c' hc' => hlen c' (by simp [hc']))]
    have : getR (List.zipWith (· + ·) acc (c.data.map fun t => t * t)) i = getR acc i + getR c.data i * getR c.data i := by
      unfold getR
      simp [List.getD_eq_getElem?_getD, List.getElem?_zipWith, hacc, hc]
    rw [this]; ring

theorem normSq_get (v : VecV) (x : ArrV) (rest : List ArrV) (hv : v.comps = x :: rest) (i : Nat)
    (hlen : ∀ c ∈ v.comps, i < c.data.length) :
    getR v.normSq i = (v.comps.map fun c => getR c.data i * getR c.data i).sum := by
  unfold VecV.normSq
  rw [hv] at hlen ⊢
  simp only [List.map_cons, List.sum_cons]
  have hx : i < x.data.length := hlen x (by simp)
  rw [normSq_fold_get rest i _ (by simp [hx]) (fun c hc => hlen c (by simp [hc]))]
  congr 1
  unfold getR
  simp [List.getD_eq_getElem?_getD, hx]

theorem phys_get (a : ArrV) (i : Nat) : getR a.phys i = getR a.data i * a.unit.factor := by
  unfold ArrV.phys getR
  simp only [List.getD_eq_getElem?_getD, List.getElem?_map]
  cases a.data[i]? <;> simp


/-- **C09 (norm)**: for a Vector with at least one component whose components share one unit (factor `f`), the squared norm
    the model computes, expressed in physical terms, is the sum of the squared physical components — `norm` is the Euclidean
    norm of the physical vector, in the Vector's unit (the implementation returns its square root; a 1-component Vector is the
    recorded finding) -/
theorem C09_norm_phys (v : VecV) (x : ArrV) (rest : List ArrV) (hv : v.comps = x :: rest) (f : Rat)
    (hunits : ∀ c ∈ v.comps, c.unit.factor = f) (i : Nat) (hlen : ∀ c ∈ v.comps, i < c.data.length) :
    getR v.normSq i * (f * f) = (v.comps.map fun c => getR c.phys i * getR c.phys i).sum := by
  rw [normSq_get v x rest hv i hlen]
  have : ∀ cs : List ArrV, (∀ c ∈ cs, c.unit.factor = f) →
      (cs.map fun c => getR c.phys i * getR c.phys i).sum = (cs.map fun c => getR c.data i * getR c.data i).sum * (f * f) := by
    intro cs
    induction cs with
    | nil => intro _; simp
    | cons c cs ih =>
      intro h
      simp only [List.map_cons, List.sum_cons]
      rw [ih (fun c' hc' => h c' (by simp [hc'])), phys_get, h c (by simp)]; ring
  exact (this v.comps hunits).symm

end Osyris.C09
