/-
C10  numpy functions on Arrays return dimensionally correct units or refuse.
`generated_*` obligations mention the tables extracted from array.py (re-proved on every run).
-/
import OsyrisModel
import OsyrisProofs.C02

namespace Osyris.C10
open Osyris

/-- class A (selection, ordering, linear statistics): the operand's unit is returned, for
    every dtype the tables keep — whatever the contents of APPLY_OP_TO_UNIT -/
theorem C10_classA (T : Tables) (name : String) (dt : DType) (u : U) (k : Rat)
    (hk : T.keeps dt = true) (hn : name ∈ catalogueA) :
    npUnit T name dt u [some u] k = specUnit .preserving name [some u] k := by
  simp only [catalogueA, List.mem_cons, List.mem_nil_iff, or_false] at hn
  rcases hn with h | h | h | h | h | h | h | h | h | h | h | h | h | h | h | h | h | h | h <;>
    subst h <;> simp [npUnit, pintUnit, specUnit, hk, UPow.ofU]

/-- class C (multiply, divide, sqrt, square, cbrt, power, reciprocal): the derived unit,
    provided the name is in APPLY_OP_TO_UNIT -/
theorem C10_classC (T : Tables) (name : String) (dt : DType) (su : U) (args : List (Option U)) (k : Rat)
    (hk : T.keeps dt = true) (ha : T.applyOp name = true) :
    npUnit T name dt su args k = specUnit .transforming name args k := by
  simp [npUnit, specUnit, hk, ha]

/-- class D (predicates): boolean results are dimensionless -/
theorem C10_classD (T : Tables) (name : String) (su : U) (args : List (Option U)) (k : Rat)
    (hb : T.keeps .b = false) :
    npUnit T name .b su args k = specUnit .predicate name args k := by
  simp [npUnit, specUnit, hb]

/-- class B with operands that all share the unit of the dispatching Array is correct -/
theorem C10_classB_same_unit (T : Tables) (name : String) (dt : DType) (u : U) (n : Nat) (k : Rat)
    (hk : T.keeps dt = true) (hn : name ∈ catalogueB) :
    npUnit T name dt u (List.replicate (n + 1) (some u)) k =
      specUnit .sameUnit name (List.replicate (n + 1) (some u)) k := by
  have hspec : specUnit .sameUnit name (List.replicate (n + 1) (some u)) k = some (UPow.ofU u) := by
    simp [specUnit, List.replicate_succ]
  rw [hspec]
  simp only [catalogueB, List.mem_cons, List.mem_nil_iff, or_false] at hn
  rcases hn with h | h | h | h | h | h | h | h | h <;>
    subst h <;> simp [npUnit, pintUnit, hk, List.replicate_succ] <;> split <;> rfl

/-- class B as coded *does* combine operands of different units as if they shared one
    (negation witness; known finding, replayed by the harness: np.add(1 m, 1 cm) = 2 m) -/
theorem C10_classB_mixes_witness (T : Tables) (hk : T.keeps .f8 = true) (hna : T.applyOp "add" = false) :
    npUnit T "add" .f8 C02.um [some C02.um, some C02.ucm] 1 = some (UPow.ofU C02.um) ∧
    specUnit .sameUnit "add" [some C02.um, some C02.ucm] 1 = none := by
  constructor
  · simp [npUnit, hk, hna]
  · decide +kernel

/-! ### obligations on the tables extracted from /repo -/

theorem generated_classC : ∀ name ∈ catalogueC ++ ["true_divide"], Generated.tables.applyOp name = true := by
  decide

theorem generated_add_not_applied : Generated.tables.applyOp "add" = false := by decide

/-- **C10 for the code as it is now** -/
theorem C10_classC_current (name : String) (dt : DType) (hd : dt ≠ .b) (su : U) (args : List (Option U)) (k : Rat)
    (hn : name ∈ catalogueC) :
    npUnit Generated.tables name dt su args k = specUnit .transforming name args k :=
  C10_classC _ name dt su args k (C02.generated_keeps_numeric dt hd)
    (generated_classC name (by simp [hn]))

theorem C10_classA_current (name : String) (dt : DType) (hd : dt ≠ .b) (u : U) (k : Rat) (hn : name ∈ catalogueA) :
    npUnit Generated.tables name dt u [some u] k = specUnit .preserving name [some u] k :=
  C10_classA _ name dt u k (C02.generated_keeps_numeric dt hd) hn

theorem C10_classD_current (name : String) (su : U) (args : List (Option U)) (k : Rat) :
    npUnit Generated.tables name .b su args k = specUnit .predicate name args k :=
  C10_classD _ name su args k C02.generated_bool_dimensionless

end Osyris.C10
