/-
C03  A map pixel shows the value of the loaded cell containing its sample point.

Property theorems (the ones listed in Audit/C03.lean):
  plane_dist, plane_dist_2d            a cell containing a point of the plane passes |(c−o)·n| ≤ ½·diag·s   (generic ordered field)
  normSq_add_le, radial_sound          ... and the sound radial test |c−o| ≤ ½·s·diag + max(dx,dy,dz)·0.6·diag
  radial_unsound_witness               the coded radial test rejects a cell that contains every pixel of the window (all admissible diag)
  footprint_lo, footprint_hi, footprint_axis, footprint_flat_z, pixHits_of_contains_flat
                                       the coded `int()`/max/min index ranges contain every pixel whose sample point is in the cell
  exec_getD, image_getD                last store wins; a pixel holds the values of SOME cell hitting it, or NaN if none does
  exec_perm_of_agree, paint_perm       the image does not depend on the processing order when hitting cells agree
  mem_select_flat                      SOUND pre-selection keeps every cell containing a sample point
  C03_map_events, C03_map, C03_map_pixel   SOUND pre-selection, every processing order: pixel ∈ values of Spec.locate, NaN iff no loaded cell contains the point
  C03_map_sched                        ... for every split over threads and every interleaving, faces included (C03_faces)
  C03_sched                            every interleaving of the threads' atomic stores gives the serial image when hitting cells agree
  execArr_eq, window_given, mkGrid_flat    what the driver executes / what `run` builds = the objects of the theorems
Scope: C03_map* are stated for 3-D data with dx given (2-D data: the same argument with `plane_dist_2d` and the fixed
basis; dx omitted: the window is the extent of the selected cells, the theorems apply to that window).
Everything else is a helper lemma (kept here: this check may only add the files of its own property).
Non-vacuity `example`s at the end.
-/
import OsyrisModel.MapModel
import OsyrisProofs.C05
import Mathlib.Tactic.Ring
import Mathlib.Tactic.Linarith
import Mathlib.Tactic.Positivity
import Mathlib.Tactic.NormNum
import Mathlib.Tactic.LinearCombination
import Mathlib.Tactic.FieldSimp
import Mathlib.Algebra.Order.Field.Basic
import Mathlib.Algebra.Order.AbsoluteValue.Basic
import Mathlib.Data.List.Perm.Basic

namespace Osyris.C03
open Osyris.MapModel

/-! ### geometry over a generic ordered field -/

section generic
variable {K : Type} [Field K] [LinearOrder K] [IsStrictOrderedRing K]

theorem sq_le_of_abs_le {a b : K} (h : |a| ≤ b) : a * a ≤ b * b := by
  have := abs_le.mp h; nlinarith [this.1, this.2]

/-- Cauchy–Schwarz in three dimensions, as a polynomial inequality -/
theorem cauchy3 (ax ay az nx ny nz : K) :
    (ax * nx + ay * ny + az * nz) ^ 2 ≤ (ax*ax + ay*ay + az*az) * (nx*nx + ny*ny + nz*nz) := by
  nlinarith [sq_nonneg (ax*ny - ay*nx), sq_nonneg (ax*nz - az*nx), sq_nonneg (ay*nz - az*ny)]

theorem abs_le_of_sq_le {a b : K} (hb : 0 ≤ b) (h : a ^ 2 ≤ b ^ 2) : |a| ≤ b := by
  have := abs_le_of_sq_le_sq' h hb
  exact abs_le.mpr ⟨this.1, this.2⟩

/-- **plane_dist** -/
theorem plane_dist (ax ay az nx ny nz s diag : K)
    (hx : |ax| ≤ s / 2) (hy : |ay| ≤ s / 2) (hz : |az| ≤ s / 2)
    (hn : nx * nx + ny * ny + nz * nz = 1) (hd : 3 ≤ diag * diag) (hd0 : 0 ≤ diag) :
    |ax * nx + ay * ny + az * nz| ≤ 1 / 2 * diag * s := by
  have hs : 0 ≤ s := by have := abs_nonneg ax; linarith
  have hax := sq_le_of_abs_le hx
  have hay := sq_le_of_abs_le hy
  have haz := sq_le_of_abs_le hz
  have cs := cauchy3 ax ay az nx ny nz
  apply abs_le_of_sq_le (by positivity)
  rw [hn] at cs
  have hs2 : 0 ≤ (s/2)*(s/2) := mul_self_nonneg _
  nlinarith [mul_le_mul_of_nonneg_left hd hs2]

theorem plane_dist_2d (ax ay nx ny nz s diag : K)
    (hx : |ax| ≤ s / 2) (hy : |ay| ≤ s / 2)
    (hn : nx * nx + ny * ny + nz * nz = 1) (hd : 2 ≤ diag * diag) (hd0 : 0 ≤ diag) :
    |ax * nx + ay * ny + 0 * nz| ≤ 1 / 2 * diag * s := by
  have hs : 0 ≤ s := by have := abs_nonneg ax; linarith
  have hax := sq_le_of_abs_le hx
  have hay := sq_le_of_abs_le hy
  have cs := cauchy3 ax ay 0 nx ny nz
  apply abs_le_of_sq_le (by positivity)
  rw [hn] at cs
  have hs2 : 0 ≤ (s/2)*(s/2) := mul_self_nonneg _
  nlinarith [mul_le_mul_of_nonneg_left hd hs2]

/-- **slab_sound** -/
theorem slab_sound (ax ay az nx ny nz s diag dz zp : K)
    (hx : |ax| ≤ s / 2) (hy : |ay| ≤ s / 2) (hz : |az| ≤ s / 2)
    (hn : nx * nx + ny * ny + nz * nz = 1) (hd : 3 ≤ diag * diag) (hd0 : 0 ≤ diag)
    (hzp : |zp| ≤ dz / 2) :
    |zp + (ax * nx + ay * ny + az * nz)| ≤ dz / 2 + 1 / 2 * diag * s := by
  have := plane_dist ax ay az nx ny nz s diag hx hy hz hn hd hd0
  calc |zp + (ax * nx + ay * ny + az * nz)| ≤ |zp| + |ax * nx + ay * ny + az * nz| := abs_add_le _ _
    _ ≤ dz / 2 + 1 / 2 * diag * s := by linarith

/-- triangle inequality for squared norms -/
theorem normSq_add_le (ax ay az bx by' bz A B : K) (hA : 0 ≤ A) (hB : 0 ≤ B)
    (ha : ax*ax + ay*ay + az*az ≤ A * A) (hb : bx*bx + by'*by' + bz*bz ≤ B * B) :
    (ax+bx)*(ax+bx) + (ay+by')*(ay+by') + (az+bz)*(az+bz) ≤ (A + B) * (A + B) := by
  have cs := cauchy3 ax ay az bx by' bz
  have hab : ax * bx + ay * by' + az * bz ≤ A * B := by
    have h1 : (ax * bx + ay * by' + az * bz) ^ 2 ≤ (A * B) ^ 2 := by
      have ha0 : 0 ≤ ax*ax + ay*ay + az*az := by nlinarith [mul_self_nonneg ax, mul_self_nonneg ay, mul_self_nonneg az]
      have hb0 : 0 ≤ bx*bx + by'*by' + bz*bz := by nlinarith [mul_self_nonneg bx, mul_self_nonneg by', mul_self_nonneg bz]
      calc (ax * bx + ay * by' + az * bz) ^ 2 ≤ (ax*ax + ay*ay + az*az) * (bx*bx + by'*by' + bz*bz) := cs
        _ ≤ (A * A) * (B * B) := mul_le_mul ha hb hb0 (by positivity)
        _ = (A * B) ^ 2 := by ring
    have := abs_le_of_sq_le (mul_nonneg hA hB) h1
    exact (abs_le.mp this).2
  nlinarith

end generic

/-! ### footprint -/

theorem absQ_eq_abs (q : Rat) : absQ q = |q| := by
  unfold absQ
  split
  · rename_i h; rw [abs_of_nonneg h]
  · rename_i h; rw [abs_of_neg (not_le.mp h)]

theorem truncQ_le_of_nonneg (q : ℚ) (h : 0 ≤ q) : (truncQ q : ℚ) ≤ q := by
  rw [show truncQ q = ⌊q⌋ from C05.truncQ_of_nonneg q h]
  exact Int.floor_le q

theorem truncQ_nonpos_of_neg (q : ℚ) (h : q < 0) : truncQ q ≤ 0 := by
  rw [show truncQ q = -⌊-q⌋ from C05.truncQ_of_neg q h]
  have : (0:ℤ) ≤ ⌊-q⌋ := Int.floor_nonneg.mpr (by linarith)
  omega

/-- lower footprint bound -/
theorem footprint_lo (A : ℚ) (i : ℕ) (h : A ≤ (i : ℚ) + 1/2) : max (truncQ A) 0 ≤ (i : ℤ) := by
  rcases le_or_gt 0 A with hA | hA
  · have h1 := truncQ_le_of_nonneg A hA
    have : (truncQ A : ℚ) < (i : ℚ) + 1 := by linarith
    have : truncQ A < (i : ℤ) + 1 := by exact_mod_cast this
    omega
  · have := truncQ_nonpos_of_neg A hA
    omega

/-- upper footprint bound -/
theorem footprint_hi (B : ℚ) (i nx : ℕ) (hi : i < nx) (h : (i : ℚ) + 1/2 ≤ B) :
    (i : ℤ) < min (truncQ B + 1) nx := by
  have hi0 : (0:ℚ) ≤ i := by positivity
  have hB : 0 ≤ B := by linarith
  have : (i : ℤ) ≤ truncQ B := by
    rw [show truncQ B = ⌊B⌋ from C05.truncQ_of_nonneg B hB]
    rw [Int.le_floor]; push_cast; linarith
  have : (i : ℤ) < nx := by exact_mod_cast hi
  omega

theorem mem_rangeI {a b : Int} {i : Nat} (ha : 0 ≤ a) : i ∈ rangeI a b ↔ a ≤ (i : Int) ∧ (i : Int) < b := by
  unfold rangeI
  rw [List.mem_range'_1]
  constructor
  · rintro ⟨h1, h2⟩; constructor <;> omega
  · rintro ⟨h1, h2⟩; constructor <;> omega

theorem fpLo_nonneg (X h lo sp : Rat) : 0 ≤ fpLo X h lo sp := by unfold fpLo; exact le_max_right _ _

/-- **footprint** (one axis): a pixel whose centre `lo + (i+½)Δ` is within `h` of the projected cell
    centre `X` lies inside the coded index range `[max(int((X−h−lo)/Δ),0), min(int((X+h−lo)/Δ)+1, n))` -/
theorem footprint_axis (X h lo sp : Rat) (n i : Nat) (hsp : 0 < sp) (hi : i < n)
    (hc : |(lo + ((i : Rat) + 1 / 2) * sp) - X| ≤ h) :
    i ∈ rangeI (fpLo X h lo sp) (fpHi X h lo sp n) := by
  rw [mem_rangeI (fpLo_nonneg _ _ _ _)]
  obtain ⟨h1, h2⟩ := abs_le.mp hc
  constructor
  · unfold fpLo
    apply footprint_lo
    rw [div_le_iff₀ hsp]; linarith
  · unfold fpHi
    apply footprint_hi _ _ _ hi
    rw [le_div_iff₀ hsp]; linarith

/-- converse: pixels inside the coded range are pixels of the grid -/
theorem lt_of_mem_range_fp (X h lo sp : Rat) (n i : Nat) (hm : i ∈ rangeI (fpLo X h lo sp) (fpHi X h lo sp n)) : i < n := by
  rw [mem_rangeI (fpLo_nonneg _ _ _ _)] at hm
  have : fpHi X h lo sp n ≤ n := by unfold fpHi; exact min_le_right _ _
  omega



/-! ### stores -/

theorem set_getD (m : Mem) (i j : Nat) (v : Val) :
    (m.set i v).getD j none = if i = j ∧ j < m.length then v else m.getD j none := by
  simp only [List.getD_eq_getElem?_getD, List.getElem?_set]
  by_cases hij : i = j
  · subst hij
    by_cases hl : i < m.length
    · simp [hl]
    · simp [hl]
  · simp [hij]

@[simp] theorem exec_nil (m : Mem) : exec m [] = m := rfl
@[simp] theorem exec_cons (m : Mem) (e : Ev) (es : List Ev) : exec m (e :: es) = exec (m.set e.1 e.2) es := rfl

@[simp] theorem exec_length (evs : List Ev) : ∀ (m : Mem), (exec m evs).length = m.length := by
  induction evs with
  | nil => intro m; rfl
  | cons e es ih => intro m; rw [exec_cons, ih, List.length_set]

/-- **last store wins**: after a sequence of stores an element holds the value of some store to it,
    or its initial value if there is none -/
theorem exec_getD (evs : List Ev) : ∀ (m : Mem) (j : Nat), j < m.length →
    ((∀ e ∈ evs, e.1 ≠ j) ∧ (exec m evs).getD j none = m.getD j none) ∨
    (∃ e ∈ evs, e.1 = j ∧ (exec m evs).getD j none = e.2) := by
  induction evs with
  | nil => intro m j _; left; exact ⟨by simp, rfl⟩
  | cons e es ih =>
    intro m j hj
    rw [exec_cons]
    rcases ih (m.set e.1 e.2) j (by rw [List.length_set]; exact hj) with ⟨hno, hval⟩ | ⟨e', he', hj', hval⟩
    · by_cases hej : e.1 = j
      · right
        refine ⟨e, by simp, hej, ?_⟩
        rw [hval, set_getD, if_pos ⟨hej, hj⟩]
      · left
        refine ⟨?_, ?_⟩
        · intro x hx
          rcases List.mem_cons.mp hx with rfl | hx
          · exact hej
          · exact hno x hx
        · rw [hval, set_getD, if_neg (fun h => hej h.1)]
    · right
      exact ⟨e', by simp [he'], hj', hval⟩

theorem exec_getD_out (evs : List Ev) (m : Mem) (j : Nat) (hj : m.length ≤ j) : (exec m evs).getD j none = none := by
  rw [List.getD_eq_getElem?_getD, List.getElem?_eq_none (by rw [exec_length]; exact hj)]; rfl

theorem mem_ext (a b : Mem) (hl : a.length = b.length) (h : ∀ j, a.getD j none = b.getD j none) : a = b := by
  apply List.ext_getElem hl
  intro j h1 h2
  have := h j
  simpa [List.getD_eq_getElem?_getD, List.getElem?_eq_getElem h1, List.getElem?_eq_getElem h2] using this

/-- stores to the same element carry the same value -/
def Agree (evs : List Ev) : Prop := ∀ e ∈ evs, ∀ e' ∈ evs, e.1 = e'.1 → e.2 = e'.2

/-- **order independence of agreeing stores** -/
theorem exec_perm_of_agree (m : Mem) {evs evs' : List Ev} (hp : evs.Perm evs') (ha : Agree evs) :
    exec m evs = exec m evs' := by
  apply mem_ext
  · simp
  · intro j
    by_cases hj : j < m.length
    · rcases exec_getD evs m j hj with ⟨hno, hv⟩ | ⟨e, he, hej, hv⟩ <;>
        rcases exec_getD evs' m j hj with ⟨hno', hv'⟩ | ⟨e', he', hej', hv'⟩
      · rw [hv, hv']
      · exact absurd hej' (hno e' (hp.mem_iff.mpr he'))
      · exact absurd hej (hno' e (hp.mem_iff.mp he))
      · rw [hv, hv']
        exact ha e he e' (hp.mem_iff.mpr he') (hej.trans hej'.symm)
    · rw [exec_getD_out _ _ _ (Nat.le_of_not_lt hj), exec_getD_out _ _ _ (Nat.le_of_not_lt hj)]

/-- the `Array` loop executed by the driver computes the modelled fold of stores -/
theorem foldl_set_toList (evs : List Ev) : ∀ (a : Array Val),
    (evs.foldl (fun (a : Array Val) (e : Ev) => a.setIfInBounds e.1 e.2) a).toList = exec a.toList evs := by
  induction evs with
  | nil => intro a; rfl
  | cons e es ih => intro a; rw [List.foldl_cons, ih, Array.toList_setIfInBounds]; rfl

theorem execArr_eq (size : Nat) (evs : List Ev) : execArr size evs = exec (List.replicate size none) evs := by
  unfold execArr
  rw [foldl_set_toList, Array.toList_replicate]

/-! ### flat indices -/

theorem mul_add_inj {n a b a' b' : Nat} (hb : b < n) (hb' : b' < n) (h : a * n + b = a' * n + b') : a = a' ∧ b = b' := by
  have hn : 0 < n := by omega
  have h1 : (a * n + b) / n = a := by
    rw [Nat.add_comm, Nat.add_mul_div_right _ _ hn, Nat.div_eq_of_lt hb, Nat.zero_add]
  have h2 : (a' * n + b') / n = a' := by
    rw [Nat.add_comm, Nat.add_mul_div_right _ _ hn, Nat.div_eq_of_lt hb', Nat.zero_add]
  have ha : a = a' := by rw [← h1, ← h2, h]
  subst ha
  exact ⟨rfl, by omega⟩

theorem flat_inj (g : Grid) {l k j i l' k' j' i' : Nat} (hi : i < g.nx) (hi' : i' < g.nx) (hj : j < g.ny) (hj' : j' < g.ny)
    (hk : k < g.nz) (hk' : k' < g.nz) (h : flat g l k j i = flat g l' k' j' i') : l = l' ∧ k = k' ∧ j = j' ∧ i = i' := by
  unfold flat at h
  obtain ⟨h1, rfl⟩ := mul_add_inj hi hi' h
  obtain ⟨h2, rfl⟩ := mul_add_inj hj hj' h1
  obtain ⟨rfl, rfl⟩ := mul_add_inj hk hk' h2
  exact ⟨rfl, rfl, rfl, rfl⟩

theorem flat_lt (g : Grid) {nl l k j i : Nat} (hl : l < nl) (hk : k < g.nz) (hj : j < g.ny) (hi : i < g.nx) :
    flat g l k j i < nl * g.nz * g.ny * g.nx := by
  unfold flat
  have h1 : l * g.nz + k < nl * g.nz := by
    calc l * g.nz + k < l * g.nz + g.nz := by omega
      _ = (l + 1) * g.nz := by ring
      _ ≤ nl * g.nz := Nat.mul_le_mul_right _ hl
  have h2 : (l * g.nz + k) * g.ny + j < nl * g.nz * g.ny := by
    calc (l * g.nz + k) * g.ny + j < (l * g.nz + k) * g.ny + g.ny := by omega
      _ = (l * g.nz + k + 1) * g.ny := by ring
      _ ≤ nl * g.nz * g.ny := Nat.mul_le_mul_right _ h1
  calc ((l * g.nz + k) * g.ny + j) * g.nx + i < ((l * g.nz + k) * g.ny + j) * g.nx + g.nx := by omega
    _ = ((l * g.nz + k) * g.ny + j + 1) * g.nx := by ring
    _ ≤ nl * g.nz * g.ny * g.nx := Nat.mul_le_mul_right _ h2



/-! ### pixels a cell writes -/

def zRange (g : Grid) (c : KCell) : List Nat :=
  if g.zfull then List.range g.nz else rangeI (fpLo c.Z (c.hs * g.diag) g.zlo g.zsp) (fpHi c.Z (c.hs * g.diag) g.zlo g.zsp g.nz)
def yRange (g : Grid) (c : KCell) : List Nat := rangeI (fpLo c.Y (c.hs * g.diag) g.ylo g.ysp) (fpHi c.Y (c.hs * g.diag) g.ylo g.ysp g.ny)
def xRange (g : Grid) (c : KCell) : List Nat := rangeI (fpLo c.X (c.hs * g.diag) g.xlo g.xsp) (fpHi c.X (c.hs * g.diag) g.xlo g.xsp g.nx)

theorem mem_pixHits (g : Grid) (c : KCell) (k j i : Nat) :
    (k, j, i) ∈ pixHits g c ↔ k ∈ zRange g c ∧ j ∈ yRange g c ∧ i ∈ xRange g c ∧ hit g c (g.pos i j k) = true := by
  unfold pixHits zRange yRange xRange
  simp only [List.mem_flatMap, List.mem_filterMap]
  constructor
  · rintro ⟨k', hk', j', hj', i', hi', h⟩
    split at h
    · rename_i hh
      simp only [Option.some.injEq, Prod.mk.injEq] at h
      obtain ⟨rfl, rfl, rfl⟩ := h
      exact ⟨hk', hj', hi', hh⟩
    · cases h
  · rintro ⟨hk, hj, hi, hh⟩
    exact ⟨k, hk, j, hj, i, hi, by rw [if_pos hh]⟩

theorem pixHits_bounds {g : Grid} {c : KCell} {k j i : Nat} (h : (k, j, i) ∈ pixHits g c) : k < g.nz ∧ j < g.ny ∧ i < g.nx := by
  rw [mem_pixHits] at h
  obtain ⟨hk, hj, hi, _⟩ := h
  refine ⟨?_, lt_of_mem_range_fp _ _ _ _ _ _ hj, lt_of_mem_range_fp _ _ _ _ _ _ hi⟩
  unfold zRange at hk
  split at hk
  · exact List.mem_range.mp hk
  · exact lt_of_mem_range_fp _ _ _ _ _ _ hk

theorem mem_writes (g : Grid) (nl : Nat) (c : KCell) (e : Ev) :
    e ∈ writes g nl c ↔ ∃ k j i l, (k, j, i) ∈ pixHits g c ∧ l < nl ∧ e = (flat g l k j i, c.vals.getD l none) := by
  unfold writes
  simp only [List.mem_flatMap, List.mem_map, List.mem_range]
  constructor
  · rintro ⟨⟨k, j, i⟩, hp, l, hl, rfl⟩
    exact ⟨k, j, i, l, hp, hl, rfl⟩
  · rintro ⟨k, j, i, l, hp, hl, rfl⟩
    exact ⟨(k, j, i), hp, l, hl, rfl⟩

@[simp] theorem initMem_length (g : Grid) (nl : Nat) : (initMem g nl).length = nl * g.nz * g.ny * g.nx := by simp [initMem]

theorem initMem_getD (g : Grid) (nl j : Nat) : (initMem g nl).getD j none = none := by
  simp only [initMem, List.getD_eq_getElem?_getD, List.getElem?_replicate]
  split <;> rfl

/-- **a pixel holds the values of some cell that hits it, or NaN**: for every sequence of stores that
    is a rearrangement of the stores of `cells` (any processing order, any thread schedule) -/
theorem image_getD (g : Grid) (nl : Nat) (cells : List KCell) (evs : List Ev)
    (hp : evs.Perm (cells.flatMap (writes g nl))) (l k j i : Nat)
    (hl : l < nl) (hk : k < g.nz) (hj : j < g.ny) (hi : i < g.nx) :
    ((∀ c ∈ cells, (k, j, i) ∉ pixHits g c) ∧ (exec (initMem g nl) evs).getD (flat g l k j i) none = none) ∨
    (∃ c ∈ cells, (k, j, i) ∈ pixHits g c ∧ (exec (initMem g nl) evs).getD (flat g l k j i) none = c.vals.getD l none) := by
  have hlt : flat g l k j i < (initMem g nl).length := by rw [initMem_length]; exact flat_lt g hl hk hj hi
  rcases exec_getD evs (initMem g nl) _ hlt with ⟨hno, hv⟩ | ⟨e, he, hej, hv⟩
  · left
    refine ⟨?_, by rw [hv, initMem_getD]⟩
    intro c hc hpix
    have : (flat g l k j i, c.vals.getD l none) ∈ cells.flatMap (writes g nl) :=
      List.mem_flatMap.mpr ⟨c, hc, (mem_writes g nl c _).mpr ⟨k, j, i, l, hpix, hl, rfl⟩⟩
    exact hno _ (hp.mem_iff.mpr this) rfl
  · right
    have he' := hp.mem_iff.mp he
    obtain ⟨c, hc, hw⟩ := List.mem_flatMap.mp he'
    obtain ⟨k', j', i', l', hpix, hl', rfl⟩ := (mem_writes g nl c e).mp hw
    obtain ⟨hk', hj', hi'⟩ := pixHits_bounds hpix
    obtain ⟨rfl, rfl, rfl, rfl⟩ := flat_inj g hi' hi hj' hj hk' hk hej
    exact ⟨c, hc, hpix, hv⟩

/-- stores of cells that agree wherever they hit the same pixel agree element by element -/
theorem agree_of_cells (g : Grid) (nl : Nat) (cells : List KCell)
    (h : ∀ c ∈ cells, ∀ c' ∈ cells, ∀ p, p ∈ pixHits g c → p ∈ pixHits g c' → c.vals = c'.vals) :
    Agree (cells.flatMap (writes g nl)) := by
  intro e he e' he' heq
  obtain ⟨c, hc, hw⟩ := List.mem_flatMap.mp he
  obtain ⟨c', hc', hw'⟩ := List.mem_flatMap.mp he'
  obtain ⟨k, j, i, l, hpix, _, rfl⟩ := (mem_writes g nl c e).mp hw
  obtain ⟨k', j', i', l', hpix', _, rfl⟩ := (mem_writes g nl c' e').mp hw'
  obtain ⟨hk, hj, hi⟩ := pixHits_bounds hpix
  obtain ⟨hk', hj', hi'⟩ := pixHits_bounds hpix'
  obtain ⟨rfl, rfl, rfl, rfl⟩ := flat_inj g hi hi' hj hj' hk hk' heq
  show c.vals.getD l none = c'.vals.getD l none
  rw [h c hc c' hc' (k, j, i) hpix hpix']

/-- **paint_perm**: if the cells that pass the containment test at a pixel agree (in particular if at
    most one cell does), the painted image is the same for every processing order -/
theorem paint_perm (g : Grid) (nl : Nat) {cells cells' : List KCell} (hp : cells.Perm cells')
    (h : ∀ c ∈ cells, ∀ c' ∈ cells, ∀ p, p ∈ pixHits g c → p ∈ pixHits g c' → c.vals = c'.vals) :
    kernel g nl cells = kernel g nl cells' := by
  unfold kernel
  exact exec_perm_of_agree _ (hp.flatMap_right _) (agree_of_cells g nl cells h)

theorem flatten_map_flatMap (g : Grid) (nl : Nat) (chunks : List (List KCell)) :
    (chunks.map fun ch => ch.flatMap (writes g nl)).flatten = chunks.flatten.flatMap (writes g nl) := by
  induction chunks with
  | nil => rfl
  | cons c cs ih => simp only [List.map_cons, List.flatten_cons, ih, List.flatMap_append]

/-- **C03_sched**: the cells are split over any number of threads in any way, the threads' atomic
    element stores are interleaved in any way; if cells hitting the same pixel agree, the image is the
    image of the serial loop -/
theorem C03_sched (g : Grid) (nl : Nat) (chunks : List (List KCell)) (sched : List Nat)
    (h : ∀ c ∈ chunks.flatten, ∀ c' ∈ chunks.flatten, ∀ p, p ∈ pixHits g c → p ∈ pixHits g c' → c.vals = c'.vals) :
    kernelSched g nl chunks sched = kernel g nl chunks.flatten := by
  unfold kernelSched kernel
  have hperm := C05.interleave_perm sched (chunks.map fun ch => ch.flatMap (writes g nl))
  rw [flatten_map_flatMap] at hperm
  exact (exec_perm_of_agree _ hperm.symm (agree_of_cells g nl _ h)).symm


/-! ### the model's tests in terms of the geometry -/

/-- orthonormal triple (what C18 guarantees about the basis handed to `map`) -/
structure Ortho (u v n : V3) : Prop where
  uu : u.dot u = 1
  vv : v.dot v = 1
  nn : n.dot n = 1
  uv : u.dot v = 0
  un : u.dot n = 0
  vn : v.dot n = 0

/-- the closed cube of the cell contains the point (3-D) -/
def Contains3 (c : Cell) (p : V3) : Prop :=
  |p.x - c.c.x| ≤ c.s / 2 ∧ |p.y - c.c.y| ≤ c.s / 2 ∧ |p.z - c.c.z| ≤ c.s / 2

theorem contains_iff (c : Cell) (p : V3) : Spec.contains 3 c p = true ↔ Contains3 c p := by
  unfold Spec.contains Contains3
  simp [absQ_eq_abs, and_assoc]

theorem mem_locate (mesh : List Cell) (p : V3) (c : Cell) : c ∈ Spec.locate 3 mesh p ↔ c ∈ mesh ∧ Contains3 c p := by
  unfold Spec.locate
  rw [List.mem_filter, contains_iff]

/-- `x u + y v + z n` -/
def comb (u v n : V3) (x y z : Rat) : V3 := (V3.smul x u).add ((V3.smul y v).add (V3.smul z n))

theorem point_eq (o u v n : V3) (x y z : Rat) : Spec.point o u v n x y z = o.add (comb u v n x y z) := rfl
theorem pos_eq (g : Grid) (i j k : Nat) : g.pos i j k = comb g.u g.v g.n (g.xc i) (g.yc j) (g.zc k) := rfl

theorem comb_dot_u {u v n : V3} (h : Ortho u v n) (x y z : Rat) : (comb u v n x y z).dot u = x := by
  have h1 := h.uu; have h2 := h.uv; have h3 := h.un
  simp only [V3.dot, comb, V3.add, V3.smul] at *
  linear_combination x * h1 + y * h2 + z * h3

theorem comb_dot_v {u v n : V3} (h : Ortho u v n) (x y z : Rat) : (comb u v n x y z).dot v = y := by
  have h1 := h.vv; have h2 := h.uv; have h3 := h.vn
  simp only [V3.dot, comb, V3.add, V3.smul] at *
  linear_combination y * h1 + x * h2 + z * h3

theorem comb_dot_n {u v n : V3} (h : Ortho u v n) (x y z : Rat) : (comb u v n x y z).dot n = z := by
  have h1 := h.nn; have h2 := h.un; have h3 := h.vn
  simp only [V3.dot, comb, V3.add, V3.smul] at *
  linear_combination z * h1 + x * h2 + y * h3

theorem comb_normSq {u v n : V3} (h : Ortho u v n) (x y z : Rat) :
    (comb u v n x y z).x * (comb u v n x y z).x + (comb u v n x y z).y * (comb u v n x y z).y
      + (comb u v n x y z).z * (comb u v n x y z).z = x * x + y * y + z * z := by
  have h1 := h.uu; have h2 := h.vv; have h3 := h.nn; have h4 := h.uv; have h5 := h.un; have h6 := h.vn
  simp only [V3.dot, comb, V3.add, V3.smul] at *
  linear_combination x * x * h1 + y * y * h2 + z * z * h3 + 2 * x * y * h4 + 2 * x * z * h5 + 2 * y * z * h6

/-- the projected centre of a cell containing `o + q` is within half the cell diagonal of the
    projection of `q`, along any unit vector -/
theorem proj_close (c : Cell) (o q e : V3) (diag t : Rat) (he : e.dot e = 1) (hq : q.dot e = t)
    (hd : 3 ≤ diag * diag) (hd0 : 0 ≤ diag) (hc : Contains3 c (o.add q)) :
    |t - (c.c.sub o).dot e| ≤ c.s * (1 / 2) * diag := by
  obtain ⟨hx, hy, hz⟩ := hc
  have key : t - (c.c.sub o).dot e
      = ((o.add q).x - c.c.x) * e.x + ((o.add q).y - c.c.y) * e.y + ((o.add q).z - c.c.z) * e.z := by
    rw [← hq]; simp only [V3.dot, V3.sub, V3.add]; ring
  rw [key]
  have := plane_dist _ _ _ e.x e.y e.z c.s diag hx hy hz (by simpa [V3.dot] using he) hd hd0
  linarith

theorem hit_iff (g : Grid) (cfg : Cfg) (c : Cell) (q : V3) (h3 : g.ndim = 3) :
    hit g (toK cfg c) q = true ↔ Contains3 c (cfg.o.add q) := by
  unfold hit Contains3 toK
  simp only [h3, absQ_eq_abs, V3.sub, V3.add, bne_self_eq_false, Bool.false_or, Bool.and_eq_true, decide_eq_true_eq]
  have e1 : q.x - (c.c.x - cfg.o.x) = cfg.o.x + q.x - c.c.x := by ring
  have e2 : q.y - (c.c.y - cfg.o.y) = cfg.o.y + q.y - c.c.y := by ring
  have e3 : q.z - (c.c.z - cfg.o.z) = cfg.o.z + q.z - c.c.z := by ring
  have e4 : c.s * (1 / 2) = c.s / 2 := by ring
  rw [e1, e2, e3, e4, and_assoc]

theorem le_maxQ_left (a b : Rat) : a ≤ maxQ a b := by unfold maxQ; split <;> linarith
theorem le_maxQ_right (a b : Rat) : b ≤ maxQ a b := by unfold maxQ; split <;> linarith

/-- **radial_sound**: a cell containing a point of the window passes the sound radial test
    `|c − o| ≤ ½·s·diag + max(dx,dy,dz)·0.6·diag` (stated on squares, as the model evaluates it) -/
theorem radial_sound (cfg : Cfg) (c : Cell) (dx dy dz x y z : Rat) (hr : cfg.radial = .sound) (h3 : cfg.ndim = 3)
    (ho : Ortho cfg.u cfg.v cfg.n) (hd : 3 ≤ cfg.diag * cfg.diag) (hd0 : 0 ≤ cfg.diag)
    (hx : |x| ≤ dx / 2) (hy : |y| ≤ dy / 2) (hz : |z| ≤ dz / 2)
    (hc : Contains3 c (cfg.o.add (comb cfg.u cfg.v cfg.n x y z))) :
    radialOk cfg dx dy dz c = true := by
  set q := comb cfg.u cfg.v cfg.n x y z with hq
  set M := maxQ (maxQ dx dy) dz with hM
  have hMx : dx ≤ M := le_trans (le_maxQ_left dx dy) (le_maxQ_left _ _)
  have hMy : dy ≤ M := le_trans (le_maxQ_right dx dy) (le_maxQ_left _ _)
  have hMz : dz ≤ M := le_maxQ_right _ _
  have hM0 : 0 ≤ M := by have := abs_nonneg x; linarith
  -- |q|² ≤ R²
  have hqn := comb_normSq ho x y z
  have hxx : x * x ≤ (M / 2) * (M / 2) := sq_le_of_abs_le (by linarith)
  have hyy : y * y ≤ (M / 2) * (M / 2) := sq_le_of_abs_le (by linarith)
  have hzz : z * z ≤ (M / 2) * (M / 2) := sq_le_of_abs_le (by linarith)
  set R := M * ((3 : Rat) / 5) * cfg.diag with hR
  have hR0 : 0 ≤ R := by positivity
  have hqR : q.x * q.x + q.y * q.y + q.z * q.z ≤ R * R := by
    rw [hqn]
    have hM2 : 0 ≤ M * M := mul_self_nonneg M
    nlinarith [mul_le_mul_of_nonneg_left hd hM2]
  -- |c − p|² ≤ t²
  obtain ⟨cx, cy, cz⟩ := hc
  have hs : 0 ≤ c.s := by have := abs_nonneg ((cfg.o.add q).x - c.c.x); linarith
  set t := (1 : Rat) / 2 * c.s * cfg.diag with ht
  have ht0 : 0 ≤ t := by positivity
  set ax := c.c.x - (cfg.o.add q).x with hax
  set ay := c.c.y - (cfg.o.add q).y with hay
  set az := c.c.z - (cfg.o.add q).z with haz
  have hax2 : ax * ax ≤ (c.s / 2) * (c.s / 2) := sq_le_of_abs_le (by rw [hax, abs_sub_comm]; exact cx)
  have hay2 : ay * ay ≤ (c.s / 2) * (c.s / 2) := sq_le_of_abs_le (by rw [hay, abs_sub_comm]; exact cy)
  have haz2 : az * az ≤ (c.s / 2) * (c.s / 2) := sq_le_of_abs_le (by rw [haz, abs_sub_comm]; exact cz)
  have hat : ax * ax + ay * ay + az * az ≤ t * t := by
    have hs2 : 0 ≤ (c.s / 2) * (c.s / 2) := mul_self_nonneg _
    nlinarith [mul_le_mul_of_nonneg_left hd hs2]
  have tri := normSq_add_le ax ay az q.x q.y q.z t R ht0 hR0 hat hqR
  have e1 : (c.c.sub cfg.o).x = ax + q.x := by simp only [hax, V3.sub, V3.add]; ring
  have e2 : (c.c.sub cfg.o).y = ay + q.y := by simp only [hay, V3.sub, V3.add]; ring
  have e3 : (c.c.sub cfg.o).z = az + q.z := by simp only [haz, V3.sub, V3.add]; ring
  have g1 : 0 ≤ radialBound cfg dx dy dz + 1 / 2 * c.s * cfg.diag := by
    show 0 ≤ R + t
    linarith
  have g2 : (c.c.sub cfg.o).x * (c.c.sub cfg.o).x + (c.c.sub cfg.o).y * (c.c.sub cfg.o).y + (c.c.sub cfg.o).z * (c.c.sub cfg.o).z
      ≤ (radialBound cfg dx dy dz + 1 / 2 * c.s * cfg.diag) * (radialBound cfg dx dy dz + 1 / 2 * c.s * cfg.diag) := by
    show _ ≤ (R + t) * (R + t)
    rw [e1, e2, e3]
    linarith
  unfold radialOk
  simp only [hr, h3, beq_self_eq_true, if_true, Bool.and_eq_true, decide_eq_true_eq]
  exact ⟨g1, g2⟩


/-! ### pre-selection and footprint of a cell that contains a sample point -/

theorem nearPlane_flat (cfg : Cfg) (c : Cell) (x y : Rat) (hdz : cfg.dz = none)
    (ho : Ortho cfg.u cfg.v cfg.n) (hd : 3 ≤ cfg.diag * cfg.diag) (hd0 : 0 ≤ cfg.diag)
    (hc : Contains3 c (cfg.o.add (comb cfg.u cfg.v cfg.n x y 0))) : nearPlane cfg c = true := by
  have := proj_close c cfg.o _ cfg.n cfg.diag 0 ho.nn (comb_dot_n ho x y 0) hd hd0 hc
  unfold nearPlane
  simp only [hdz, decide_eq_true_eq, absQ_eq_abs]
  rw [zero_sub, abs_neg] at this
  linarith

theorem select_sub (cfg : Cfg) (mesh : List Cell) (c : Cell) (h : c ∈ select cfg mesh) : c ∈ mesh := by
  unfold select at h
  split at h
  · exact (List.mem_filter.mp (List.mem_filter.mp h).1).1
  · exact (List.mem_filter.mp h).1

theorem dzEff_flat (cfg : Cfg) (dx : Rat) (hdx : cfg.dx = some dx) (hdz : cfg.dz = none) : cfg.dzEff = some dx := by
  unfold Cfg.dzEff; rw [hdz]; exact hdx

/-- SOUND pre-selection keeps every cell that contains a sample point of the window (zero thickness) -/
theorem mem_select_flat (cfg : Cfg) (mesh : List Cell) (c : Cell) (hm : c ∈ mesh) (dx dy x y : Rat)
    (h3 : cfg.ndim = 3) (hdx : cfg.dx = some dx) (hdy : cfg.dyEff = some dy) (hdz : cfg.dz = none)
    (hr : cfg.radial = .sound) (ho : Ortho cfg.u cfg.v cfg.n) (hd : 3 ≤ cfg.diag * cfg.diag) (hd0 : 0 ≤ cfg.diag)
    (hx : |x| ≤ dx / 2) (hy : |y| ≤ dy / 2)
    (hc : Contains3 c (cfg.o.add (comb cfg.u cfg.v cfg.n x y 0))) : c ∈ select cfg mesh := by
  have hdx0 : 0 ≤ dx := by have := abs_nonneg x; linarith
  unfold select
  simp only [hdx, hdy, dzEff_flat cfg dx hdx hdz]
  refine List.mem_filter.mpr ⟨List.mem_filter.mpr ⟨hm, nearPlane_flat cfg c x y hdz ho hd hd0 hc⟩, ?_⟩
  exact radial_sound cfg c dx dy dx x y 0 hr h3 ho hd hd0 hx hy (by simp; linarith) hc

theorem footprint_flat_z (Z h zsp : Rat) (hz : 0 < zsp) (hc : |0 - Z| ≤ h) :
    0 ∈ rangeI (fpLo Z h 0 zsp) (fpHi Z h 0 zsp 1) := by
  rw [mem_rangeI (fpLo_nonneg _ _ _ _)]
  obtain ⟨h1, h2⟩ := abs_le.mp hc
  constructor
  · unfold fpLo
    have := footprint_lo ((Z - h - 0) / zsp) 0 (by
      rw [div_le_iff₀ hz]; push_cast; linarith)
    simpa using this
  · unfold fpHi
    have hB : 0 ≤ (Z + h - 0) / zsp := div_nonneg (by linarith) hz.le
    have : (0 : ℤ) ≤ truncQ ((Z + h - 0) / zsp) := by
      rw [show truncQ ((Z + h - 0) / zsp) = ⌊(Z + h - 0) / zsp⌋ from C05.truncQ_of_nonneg _ hB]
      exact Int.floor_nonneg.mpr hB
    simp only [Nat.cast_one, Nat.cast_zero]
    omega

/-! ### the zero-thickness grid -/

/-- the window `map()` derives from dx, dy, dz -/
def winOf (dx dy dz : Rat) : Window :=
  ⟨-(1 : Rat) / 2 * dx, -(1 : Rat) / 2 * dx + dx, -(1 : Rat) / 2 * dy, -(1 : Rat) / 2 * dy + dy,
   -(1 : Rat) / 2 * dz, -(1 : Rat) / 2 * dz + dz⟩

/-- the grid `mkGrid` builds for a zero-thickness map -/
def flatGrid (cfg : Cfg) (w : Window) : Grid :=
  { ndim := cfg.ndim, u := cfg.u, v := cfg.v, n := cfg.n, xlo := w.xmin, ylo := w.ymin, zlo := 0,
    xsp := (w.xmax - w.xmin) / (cfg.nx : Rat), ysp := (w.ymax - w.ymin) / (cfg.ny : Rat), zsp := w.zmax,
    nx := cfg.nx, ny := cfg.ny, nz := 1, zc0 := 0, zstep := 0, diag := cfg.diag }

theorem window_given (cfg : Cfg) (ks : List KCell) (dx dy dz : Rat) (hdx : cfg.dx = some dx) (hdy : cfg.dyEff = some dy)
    (hdz : cfg.dzEff = some dz) : window cfg ks = some (winOf dx dy dz) := by
  unfold window winOf
  simp only [hdx, hdy, hdz]

theorem mkGrid_flat (cfg : Cfg) (w : Window) (hdz : cfg.dz = none) (hnx : cfg.nx ≠ 0) (hny : cfg.ny ≠ 0)
    (hx : (w.xmax - w.xmin) / (cfg.nx : Rat) ≠ 0) (hy : (w.ymax - w.ymin) / (cfg.ny : Rat) ≠ 0) (hz : w.zmax ≠ 0) :
    mkGrid cfg w = .ok (flatGrid cfg w) := by
  unfold mkGrid flatGrid
  have hth : cfg.thick = false := by unfold Cfg.thick; rw [hdz]; rfl
  simp [hnx, hny, hx, hy, hz, hth]

theorem centre_abs_le (d : Rat) (n i : Nat) (hd : 0 < d) (hi : i < n) :
    |Spec.centre (-(1 : Rat) / 2 * d) (-(1 : Rat) / 2 * d + d) n i| ≤ d / 2 := by
  unfold Spec.centre
  have hn : (0 : Rat) < n := by exact_mod_cast (Nat.zero_lt_of_lt hi)
  have hin : (i : Rat) + 1 ≤ n := by exact_mod_cast hi
  have hi0 : (0 : Rat) ≤ i := by positivity
  have e : (-(1 : Rat) / 2 * d + d - -(1 : Rat) / 2 * d) / (n : Rat) = d / n := by ring
  rw [e, abs_le]
  have h1 : ((i : Rat) + 1 / 2) * (d / n) ≤ d := by
    rw [← mul_div_assoc, div_le_iff₀ hn]; nlinarith
  have h2 : 0 ≤ ((i : Rat) + 1 / 2) * (d / n) := by positivity
  constructor <;> linarith


/-! ### C03 -/

theorem sample_flat (cfg : Cfg) (w : Window) (hdz : cfg.dz = none) (i j : Nat) :
    Spec.sample cfg w 1 i j 0 = cfg.o.add ((flatGrid cfg w).pos i j 0) := by
  have hth : cfg.thick = false := by unfold Cfg.thick; rw [hdz]; rfl
  unfold Spec.sample
  simp only [hth, point_eq, pos_eq, flatGrid, Grid.xc, Grid.yc, Grid.zc, Spec.centre]
  simp

/-- a cell that contains the sample point of pixel (i, j) writes that pixel (zero thickness) -/
theorem pixHits_of_contains_flat (cfg : Cfg) (c : Cell) (dx dy : Rat) (i j : Nat)
    (h3 : cfg.ndim = 3) (ho : Ortho cfg.u cfg.v cfg.n) (hd : 3 ≤ cfg.diag * cfg.diag) (hd0 : 0 ≤ cfg.diag)
    (hpx : 0 < dx) (hpy : 0 < dy) (hi : i < cfg.nx) (hj : j < cfg.ny)
    (hc : Contains3 c (cfg.o.add ((flatGrid cfg (winOf dx dy dx)).pos i j 0))) :
    (0, j, i) ∈ pixHits (flatGrid cfg (winOf dx dy dx)) (toK cfg c) := by
  set g := flatGrid cfg (winOf dx dy dx) with hg
  have hnx : (0 : Rat) < cfg.nx := by exact_mod_cast (Nat.zero_lt_of_lt hi)
  have hny : (0 : Rat) < cfg.ny := by exact_mod_cast (Nat.zero_lt_of_lt hj)
  have hxsp : 0 < g.xsp := by
    show 0 < (-(1 : Rat) / 2 * dx + dx - -(1 : Rat) / 2 * dx) / (cfg.nx : Rat)
    apply div_pos _ hnx; linarith
  have hysp : 0 < g.ysp := by
    show 0 < (-(1 : Rat) / 2 * dy + dy - -(1 : Rat) / 2 * dy) / (cfg.ny : Rat)
    apply div_pos _ hny; linarith
  have hzsp : 0 < g.zsp := by
    show 0 < -(1 : Rat) / 2 * dx + dx
    linarith
  rw [pos_eq] at hc
  have hgu : g.u = cfg.u := rfl
  have hgv : g.v = cfg.v := rfl
  have hgn : g.n = cfg.n := rfl
  rw [hgu, hgv, hgn] at hc
  have cx := proj_close c cfg.o _ cfg.u cfg.diag _ ho.uu (comb_dot_u ho _ _ _) hd hd0 hc
  have cy := proj_close c cfg.o _ cfg.v cfg.diag _ ho.vv (comb_dot_v ho _ _ _) hd hd0 hc
  have cz := proj_close c cfg.o _ cfg.n cfg.diag _ ho.nn (comb_dot_n ho _ _ _) hd hd0 hc
  rw [mem_pixHits]
  refine ⟨?_, ?_, ?_, ?_⟩
  · unfold zRange
    have hzf : g.zfull = false := rfl
    simp only [hzf, Bool.false_eq_true, if_false]
    have hz0 : g.zc 0 = 0 := by simp [Grid.zc, hg, flatGrid]
    rw [hz0] at cz
    exact footprint_flat_z _ _ _ hzsp cz
  · exact footprint_axis _ _ _ _ _ _ hysp hj cy
  · exact footprint_axis _ _ _ _ _ _ hxsp hi cx
  · rw [hit_iff g cfg c _ (by show cfg.ndim = 3; exact h3), pos_eq, hgu, hgv, hgn]
    exact hc

/-- **C03_map_events** (zero thickness, 3-D, SOUND radial pre-selection): for every mesh, origin,
    orthonormal basis, window, pixel counts and layer, for EVERY processing order of the selected cells
    and EVERY rearrangement `evs` of their element stores (any thread schedule), the pixel (i, j) holds
    the value of a loaded cell that contains the sample point `origin + x_i u + y_j v`, and NaN
    (masked) exactly when no loaded cell contains it.
    (Nothing is assumed about the cells: for pairwise interior-disjoint cells `Spec.locate` is a
    singleton off the faces, on a face it lists the touching cells.) -/
theorem C03_map_events (cfg : Cfg) (mesh : List Cell) (dx dy : Rat) (cells : List Cell) (nl l i j : Nat)
    (h3 : cfg.ndim = 3) (hdx : cfg.dx = some dx) (hdy : cfg.dyEff = some dy) (hdz : cfg.dz = none)
    (hr : cfg.radial = .sound) (ho : Ortho cfg.u cfg.v cfg.n) (hd : 3 ≤ cfg.diag * cfg.diag) (hd0 : 0 ≤ cfg.diag)
    (hpx : 0 < dx) (hpy : 0 < dy) (hi : i < cfg.nx) (hj : j < cfg.ny) (hl : l < nl)
    (hperm : cells.Perm (select cfg mesh)) (evs : List Ev)
    (hev : evs.Perm ((cells.map (toK cfg)).flatMap (writes (flatGrid cfg (winOf dx dy dx)) nl))) :
    let g := flatGrid cfg (winOf dx dy dx)
    let p := Spec.sample cfg (winOf dx dy dx) 1 i j 0
    let val := (exec (initMem g nl) evs).getD (flat g l 0 j i) none
    (Spec.locate 3 mesh p = [] → val = none) ∧
    (Spec.locate 3 mesh p ≠ [] → ∃ c ∈ Spec.locate 3 mesh p, val = c.vals.getD l none) := by
  intro g p val
  have hp : p = cfg.o.add (g.pos i j 0) := sample_flat cfg _ hdz i j
  have hx : |g.xc i| ≤ dx / 2 := centre_abs_le dx cfg.nx i hpx hi
  have hy : |g.yc j| ≤ dy / 2 := centre_abs_le dy cfg.ny j hpy hj
  have hz0 : g.zc 0 = 0 := by simp [Grid.zc, g, flatGrid]
  -- every loaded cell containing p is selected and writes the pixel
  have hwrites : ∀ c ∈ mesh, Contains3 c p → toK cfg c ∈ cells.map (toK cfg) ∧ (0, j, i) ∈ pixHits g (toK cfg c) := by
    intro c hm hc
    rw [hp] at hc
    have hc' := hc
    rw [pos_eq, hz0] at hc'
    have hsel : c ∈ select cfg mesh := mem_select_flat cfg mesh c hm dx dy _ _ h3 hdx hdy hdz hr ho hd hd0 hx hy hc'
    exact ⟨List.mem_map.mpr ⟨c, hperm.mem_iff.mpr hsel, rfl⟩,
           pixHits_of_contains_flat cfg c dx dy i j h3 ho hd hd0 hpx hpy hi hj hc⟩
  -- every cell that writes the pixel is a loaded cell containing p
  have hback : ∀ kc ∈ cells.map (toK cfg), (0, j, i) ∈ pixHits g kc → ∃ c ∈ Spec.locate 3 mesh p, kc.vals = c.vals := by
    intro kc hkc hpix
    obtain ⟨c, hc, rfl⟩ := List.mem_map.mp hkc
    have hm : c ∈ mesh := select_sub cfg mesh c (hperm.mem_iff.mp hc)
    have hh := ((mem_pixHits g _ 0 j i).mp hpix).2.2.2
    rw [hit_iff g cfg c _ (by show cfg.ndim = 3; exact h3)] at hh
    exact ⟨c, (mem_locate mesh p c).mpr ⟨hm, by rw [hp]; exact hh⟩, rfl⟩
  have himg := image_getD g nl (cells.map (toK cfg)) evs hev l 0 j i hl (by show 0 < 1; omega)
    (by show j < cfg.ny; exact hj) (by show i < cfg.nx; exact hi)
  rcases himg with ⟨hno, hv⟩ | ⟨kc, hkc, hpix, hv⟩
  · refine ⟨fun _ => hv, ?_⟩
    intro hne
    obtain ⟨c, hc⟩ := List.exists_mem_of_ne_nil _ hne
    obtain ⟨hm, hcc⟩ := (mem_locate mesh p c).mp hc
    obtain ⟨h1, h2⟩ := hwrites c hm hcc
    exact absurd h2 (hno _ h1)
  · obtain ⟨c, hc, hvals⟩ := hback kc hkc hpix
    refine ⟨?_, fun _ => ⟨c, hc, by show val = _; rw [← hvals]; exact hv⟩⟩
    intro hnil
    rw [hnil] at hc
    cases hc

/-- **C03 (the mask is coverage)**: a kernel row in which every loaded cell holds 1 (the row `map` appends for the mask)
    is NaN at pixel (i, j) *exactly* when no loaded cell contains the sample point — whatever the data rows hold, NaN
    included, for every processing order and schedule. (Until fix 4c5ccfa the mask was `isnan` of the last *data* row: a NaN
    value in a cell that contains the point masked the pixel in every layer.) -/
theorem C03_mask_is_coverage (cfg : Cfg) (mesh : List Cell) (dx dy : Rat) (cells : List Cell) (nl l i j : Nat)
    (h3 : cfg.ndim = 3) (hdx : cfg.dx = some dx) (hdy : cfg.dyEff = some dy) (hdz : cfg.dz = none)
    (hr : cfg.radial = .sound) (ho : Ortho cfg.u cfg.v cfg.n) (hd : 3 ≤ cfg.diag * cfg.diag) (hd0 : 0 ≤ cfg.diag)
    (hpx : 0 < dx) (hpy : 0 < dy) (hi : i < cfg.nx) (hj : j < cfg.ny) (hl : l < nl)
    (hperm : cells.Perm (select cfg mesh)) (evs : List Ev)
    (hev : evs.Perm ((cells.map (toK cfg)).flatMap (writes (flatGrid cfg (winOf dx dy dx)) nl)))
    (hcov : ∀ c ∈ mesh, c.vals.getD l none = some 1) :
    (exec (initMem (flatGrid cfg (winOf dx dy dx)) nl) evs).getD (flat (flatGrid cfg (winOf dx dy dx)) l 0 j i) none = none ↔
      Spec.locate 3 mesh (Spec.sample cfg (winOf dx dy dx) 1 i j 0) = [] := by
  have h := C03_map_events cfg mesh dx dy cells nl l i j h3 hdx hdy hdz hr ho hd hd0 hpx hpy hi hj hl hperm evs hev
  simp only at h
  constructor
  · intro hnone
    by_contra hne
    obtain ⟨c, hc, hv⟩ := h.2 hne
    have hm : c ∈ mesh := ((mem_locate mesh _ c).mp hc).1
    rw [hnone, hcov c hm] at hv
    cases hv
  · exact h.1

/-- **C03_map**: the serial kernel, cells in any order -/
theorem C03_map (cfg : Cfg) (mesh : List Cell) (dx dy : Rat) (cells : List Cell) (nl l i j : Nat)
    (h3 : cfg.ndim = 3) (hdx : cfg.dx = some dx) (hdy : cfg.dyEff = some dy) (hdz : cfg.dz = none)
    (hr : cfg.radial = .sound) (ho : Ortho cfg.u cfg.v cfg.n) (hd : 3 ≤ cfg.diag * cfg.diag) (hd0 : 0 ≤ cfg.diag)
    (hpx : 0 < dx) (hpy : 0 < dy) (hi : i < cfg.nx) (hj : j < cfg.ny) (hl : l < nl)
    (hperm : cells.Perm (select cfg mesh)) :
    let g := flatGrid cfg (winOf dx dy dx)
    let p := Spec.sample cfg (winOf dx dy dx) 1 i j 0
    let val := (kernel g nl (cells.map (toK cfg))).getD (flat g l 0 j i) none
    (Spec.locate 3 mesh p = [] → val = none) ∧
    (Spec.locate 3 mesh p ≠ [] → ∃ c ∈ Spec.locate 3 mesh p, val = c.vals.getD l none) :=
  C03_map_events cfg mesh dx dy cells nl l i j h3 hdx hdy hdz hr ho hd hd0 hpx hpy hi hj hl hperm _ (List.Perm.refl _)

/-- **C03_faces / schedules**: the same for the kernel under any split of the selected cells over
    threads and any interleaving of their atomic element stores - also where a sample point lies on a
    face and the hitting cells disagree (the pixel then shows one of the touching cells) -/
theorem C03_map_sched (cfg : Cfg) (mesh : List Cell) (dx dy : Rat) (chunks : List (List Cell)) (sched : List Nat) (nl l i j : Nat)
    (h3 : cfg.ndim = 3) (hdx : cfg.dx = some dx) (hdy : cfg.dyEff = some dy) (hdz : cfg.dz = none)
    (hr : cfg.radial = .sound) (ho : Ortho cfg.u cfg.v cfg.n) (hd : 3 ≤ cfg.diag * cfg.diag) (hd0 : 0 ≤ cfg.diag)
    (hpx : 0 < dx) (hpy : 0 < dy) (hi : i < cfg.nx) (hj : j < cfg.ny) (hl : l < nl)
    (hperm : chunks.flatten.Perm (select cfg mesh)) :
    let g := flatGrid cfg (winOf dx dy dx)
    let p := Spec.sample cfg (winOf dx dy dx) 1 i j 0
    let val := (kernelSched g nl (chunks.map fun ch => ch.map (toK cfg)) sched).getD (flat g l 0 j i) none
    (Spec.locate 3 mesh p = [] → val = none) ∧
    (Spec.locate 3 mesh p ≠ [] → ∃ c ∈ Spec.locate 3 mesh p, val = c.vals.getD l none) := by
  have hev := C05.interleave_perm sched ((chunks.map fun ch => ch.map (toK cfg)).map fun ch => ch.flatMap (writes (flatGrid cfg (winOf dx dy dx)) nl))
  rw [flatten_map_flatMap] at hev
  have hfl : (chunks.map fun ch => ch.map (toK cfg)).flatten = chunks.flatten.map (toK cfg) := by
    induction chunks with
    | nil => rfl
    | cons c cs ih => simp [List.flatten_cons, List.map_append]
  rw [hfl] at hev
  exact C03_map_events cfg mesh dx dy chunks.flatten nl l i j h3 hdx hdy hdz hr ho hd hd0 hpx hpy hi hj hl hperm _ hev

/-- `np.sum` over the single depth sample of a zero-thickness map is the identity, nothing is scaled:
    the returned pixel is the stored value -/
theorem reducedPixel_flat (g : Grid) (m : Mem) (l j i : Nat) (hnz : g.nz = 1) :
    reducedPixel g false .sum m l j i = m.getD (flat g l 0 j i) none := by
  unfold reducedPixel column
  rw [hnz]
  show (reduce .sum [m.getD (flat g l 0 j i) none]).map (· * scaleFactor false .sum g.zsp) = _
  cases m.getD (flat g l 0 j i) none with
  | none => rfl
  | some q =>
    show some ((q + 0) * scaleFactor false .sum g.zsp) = some q
    simp [scaleFactor, integrates]

/-- **C03_map_pixel**: the pixel value `map()` returns (after the reduction over the single depth
    sample) is the value of a loaded cell containing the sample point; NaN iff there is none -/
theorem C03_map_pixel (cfg : Cfg) (mesh : List Cell) (dx dy : Rat) (cells : List Cell) (nl l i j : Nat)
    (h3 : cfg.ndim = 3) (hdx : cfg.dx = some dx) (hdy : cfg.dyEff = some dy) (hdz : cfg.dz = none)
    (hr : cfg.radial = .sound) (ho : Ortho cfg.u cfg.v cfg.n) (hd : 3 ≤ cfg.diag * cfg.diag) (hd0 : 0 ≤ cfg.diag)
    (hpx : 0 < dx) (hpy : 0 < dy) (hi : i < cfg.nx) (hj : j < cfg.ny) (hl : l < nl)
    (hperm : cells.Perm (select cfg mesh)) :
    let g := flatGrid cfg (winOf dx dy dx)
    let p := Spec.sample cfg (winOf dx dy dx) 1 i j 0
    let val := reducedPixel g false .sum (kernel g nl (cells.map (toK cfg))) l j i
    (Spec.locate 3 mesh p = [] → val = none) ∧
    (Spec.locate 3 mesh p ≠ [] → ∃ c ∈ Spec.locate 3 mesh p, val = c.vals.getD l none) := by
  intro g p val
  have : val = (kernel g nl (cells.map (toK cfg))).getD (flat g l 0 j i) none := reducedPixel_flat g _ l j i rfl
  rw [this]
  exact C03_map cfg mesh dx dy cells nl l i j h3 hdx hdy hdz hr ho hd hd0 hpx hpy hi hj hl hperm

/-! ### the unchanged radial test -/

def wCfg (diag : Rat) (radial : Sel) : Cfg :=
  { ndim := 3, o := ⟨1/4, 1/4, 1/4⟩, u := ⟨1, 0, 0⟩, v := ⟨0, 1, 0⟩, n := ⟨0, 0, 1⟩, dx := some (1/5), dy := none, dz := none,
    nx := 4, ny := 4, nz := none, op := .sum, diag := diag, slab := .coded, radial := radial, depth := .coded, depth2d := .coded, scale := 1 }

def wCell : Cell := { c := ⟨1/2, 1/2, 1/2⟩, s := 1, vals := [some 7] }

/-- **radial_unsound_witness**: one cell of size 1, a window of 1/5 inside it. For every admissible
    stand-in of sqrt(3) the coded radial test rejects the cell (the selection is empty and every pixel
    is masked) although the cell contains every point of the window; the sound test keeps it. -/
theorem radial_unsound_witness (diag : Rat) (hd : 3 ≤ diag * diag) (hd0 : 0 ≤ diag) :
    select (wCfg diag .coded) [wCell] = [] ∧
    (∀ x y : Rat, |x| ≤ 1 / 10 → |y| ≤ 1 / 10 →
      Contains3 wCell ((wCfg diag .coded).o.add (comb ⟨1, 0, 0⟩ ⟨0, 1, 0⟩ ⟨0, 0, 1⟩ x y 0))) ∧
    select (wCfg diag .sound) [wCell] = [wCell] := by
  have hd1 : 1 ≤ diag := by nlinarith
  have hmax : maxQ (maxQ ((1 : Rat) / 5) (1 / 5)) (1 / 5) = 1 / 5 := by simp [maxQ]
  have hnear : ∀ r, nearPlane (wCfg diag r) wCell = true := by
    intro r
    simp only [nearPlane, wCfg, wCell, V3.sub, V3.dot, absQ_eq_abs, decide_eq_true_eq]
    norm_num
    linarith
  refine ⟨?_, ?_, ?_⟩
  · have hrad : radialOk (wCfg diag .coded) (1 / 5) (1 / 5) (1 / 5) wCell = false := by
      simp only [radialOk, radialBound, hmax, wCfg, wCell, V3.sub, beq_self_eq_true, if_true, Bool.and_eq_false_iff,
        decide_eq_false_iff_not, not_le]
      right
      nlinarith
    have hs : select (wCfg diag .coded) [wCell]
        = ([wCell].filter (nearPlane (wCfg diag .coded))).filter (radialOk (wCfg diag .coded) (1 / 5) (1 / 5) (1 / 5)) := rfl
    rw [hs]
    simp only [List.filter_cons, List.filter_nil, hnear, hrad, if_true]
    rfl
  · intro x y hx hy
    obtain ⟨x1, x2⟩ := abs_le.mp hx
    obtain ⟨y1, y2⟩ := abs_le.mp hy
    simp only [Contains3, wCfg, wCell, comb, V3.add, V3.smul]
    refine ⟨abs_le.mpr ⟨by linarith, by linarith⟩, abs_le.mpr ⟨by linarith, by linarith⟩, abs_le.mpr ⟨by norm_num, by norm_num⟩⟩
  · have hrad : radialOk (wCfg diag .sound) (1 / 5) (1 / 5) (1 / 5) wCell = true := by
      simp only [radialOk, radialBound, hmax, wCfg, wCell, V3.sub, beq_self_eq_true, if_true, Bool.and_eq_true,
        decide_eq_true_eq]
      constructor <;> nlinarith
    have hs : select (wCfg diag .sound) [wCell]
        = ([wCell].filter (nearPlane (wCfg diag .sound))).filter (radialOk (wCfg diag .sound) (1 / 5) (1 / 5) (1 / 5)) := rfl
    rw [hs]
    simp only [List.filter_cons, List.filter_nil, hnear, hrad, if_true]

/-! ### non-vacuity: the hypotheses are satisfiable and the conclusions are not trivially true -/

def eu : V3 := ⟨1, 0, 0⟩
def ev : V3 := ⟨0, 1, 0⟩
def en : V3 := ⟨0, 0, 1⟩

theorem ortho_std : Ortho eu ev en := by constructor <;> simp [V3.dot, eu, ev, en]
-- an oblique orthonormal basis with rational entries
example : Ortho ⟨3/5, 4/5, 0⟩ ⟨-4/5, 3/5, 0⟩ ⟨0, 0, 1⟩ := by constructor <;> norm_num [V3.dot]

-- plane_dist / slab_sound on numbers: cell of size 1 whose corner touches the plane along (3,4,0)/5: distance 7/10 ≤ ½·(7/4)
example : |(1/2 : ℚ) * (3/5) + (1/2) * (4/5) + (1/2) * 0| ≤ 1 / 2 * (7/4) * 1 :=
  plane_dist (1/2) (1/2) (1/2) (3/5) (4/5) 0 1 (7/4) (by norm_num) (by norm_num) (by norm_num) (by norm_num) (by norm_num) (by norm_num)
-- ... and the bound is not slack by more than the stand-in for sqrt 3: with diag = 1 the statement is false
example : ¬ (|(1/2 : ℚ) * (3/5) + (1/2) * (4/5) + (1/2) * 0| ≤ 1 / 2 * 1 * 1) := by norm_num

-- footprint_axis: window [0,4) with 4 pixels, cell centre projected at 1.9 with half size 0.5: pixels 1 and 2
example : rangeI (fpLo (19/10) (1/2) 0 1) (fpHi (19/10) (1/2) 0 1 4) = [1, 2] := by decide +kernel
example : (1 : ℕ) ∈ rangeI (fpLo (19/10) (1/2) 0 1) (fpHi (19/10) (1/2) 0 1 4) :=
  footprint_axis (19/10) (1/2) 0 1 4 1 (by norm_num) (by norm_num) (by norm_num)
-- truncation toward zero: a cell hanging over the lower edge starts at pixel 0, not −1
example : fpLo (1/4) (1/2) 0 1 = 0 ∧ fpHi (15/4) (1/2) 0 1 4 = 4 := by decide +kernel

-- exec_getD: last store wins, untouched elements keep NaN
example : exec [none, none, none] [(0, some 1), (2, some 5), (0, some 2)] = [some 2, none, some 5] := by decide +kernel
-- exec_perm_of_agree needs the agreement: disagreeing stores do depend on the order
example : exec [none] [(0, some 1), (0, some 2)] ≠ exec [none] [(0, some 2), (0, some 1)] := by decide +kernel
example : Agree [(0, some 1), (1, some 2), (0, some 1)] := by
  intro e he e' he' h
  simp only [List.mem_cons, List.mem_nil_iff, or_false] at he he'
  rcases he with rfl | rfl | rfl <;> rcases he' with rfl | rfl | rfl <;> simp_all

/-- 2 x 2 x 2 cells of size 1/2 filling [0,1]^3, values 1..8 (x fastest) -/
def mesh8 : List Cell :=
  (List.range 8).map fun i =>
    { c := ⟨(1 : Rat) / 4 + (1 : Rat) / 2 * ((i % 2 : Nat) : Rat), (1 : Rat) / 4 + (1 : Rat) / 2 * ((i / 2 % 2 : Nat) : Rat),
            (1 : Rat) / 4 + (1 : Rat) / 2 * ((i / 4 : Nat) : Rat)⟩, s := 1 / 2, vals := [some ((i : Rat) + 1)] }

def cfg8 (radial : Sel) : Cfg :=
  { ndim := 3, o := ⟨1/2, 1/2, 1/4⟩, u := eu, v := ev, n := en, dx := some 1, dy := none, dz := none, nx := 4, ny := 4, nz := none,
    op := .sum, diag := 7/4, slab := .coded, radial := radial, depth := .coded, depth2d := .coded, scale := 1 }

def image (r : Except Fail Result) : List (List Val) := match r with | .ok x => x.binned | .error _ => []

-- the whole `map()` on the 8 cells, window = the box, plane through the lower layer.
-- SOUND radial test: every pixel shows the cell under it (C03_map / C03_map_pixel instantiated) ...
example : image (run (cfg8 .sound) mesh8 none) =
    [[some 1, some 1, some 2, some 2, some 1, some 1, some 2, some 2, some 3, some 3, some 4, some 4, some 3, some 3, some 4, some 4]] := by
  decide +kernel
-- ... the CODED radial test drops the cell in the negative quadrant: four pixels are masked
example : image (run (cfg8 .coded) mesh8 none) =
    [[none, none, some 2, some 2, none, none, some 2, some 2, some 3, some 3, some 4, some 4, some 3, some 3, some 4, some 4]] := by
  decide +kernel
-- the Spec at pixel (0,0): the sample point (1/8, 1/8, 1/4) lies in the cell with value 1
example : (Spec.locate 3 mesh8 (Spec.sample (cfg8 .coded) (winOf 1 1 1) 1 0 0 0)).map (·.vals) = [[some 1]] := by decide +kernel
-- hypotheses of C03_map for this configuration
example : (cfg8 .sound).ndim = 3 ∧ (cfg8 .sound).dx = some 1 ∧ (cfg8 .sound).dyEff = some 1 ∧ (cfg8 .sound).dz = none ∧
    (3 : Rat) ≤ (cfg8 .sound).diag * (cfg8 .sound).diag ∧ Ortho (cfg8 .sound).u (cfg8 .sound).v (cfg8 .sound).n :=
  ⟨rfl, rfl, rfl, rfl, by norm_num [cfg8], ortho_std⟩
-- paint_perm / C03_sched: reversed processing order, two threads with an arbitrary schedule: same image
example : image (run (cfg8 .sound) mesh8 (some [3, 2, 1, 0])) = image (run (cfg8 .sound) mesh8 none) := by decide +kernel
example :
    let g := flatGrid (cfg8 .sound) (winOf 1 1 1)
    let ks := (select (cfg8 .sound) mesh8).map (toK (cfg8 .sound))
    kernelSched g 1 [ks.take 2, ks.drop 2] [1, 0, 0, 1, 1, 1, 0] = kernel g 1 ks := by decide +kernel
-- on a face the order matters and either touching cell may show: plane exactly between the two layers
example :
    let cfg := { cfg8 .sound with o := ⟨1/2, 1/2, 1/2⟩ }
    (image (run cfg mesh8 none)).map (·.take 2) = [[some 5, some 5]] ∧
    (image (run cfg mesh8 (some [7, 6, 5, 4, 3, 2, 1, 0]))).map (·.take 2) = [[some 1, some 1]] ∧
    (Spec.locate 3 mesh8 (Spec.sample cfg (winOf 1 1 1) 1 0 0 0)).map (·.vals) = [[some 1], [some 5]] := by decide +kernel
-- radial_unsound_witness at the stand-in 7/4
example : select (wCfg (7/4) .coded) [wCell] = [] ∧ select (wCfg (7/4) .sound) [wCell] = [wCell] :=
  ⟨(radial_unsound_witness (7/4) (by norm_num) (by norm_num)).1, (radial_unsound_witness (7/4) (by norm_num) (by norm_num)).2.2⟩
-- execArr_eq: the driver's array loop
example : execArr 3 [(0, some 1), (2, some 5), (0, some 2), (7, some 9)] = [some 2, none, some 5] := by decide +kernel
-- mkGrid_flat / window_given: the grid `run` builds is the grid of the theorems
example : window (cfg8 .sound) [] = some (winOf 1 1 1) := window_given _ _ 1 1 1 rfl rfl rfl
example : mkGrid (cfg8 .sound) (winOf 1 1 1) = .ok (flatGrid (cfg8 .sound) (winOf 1 1 1)) :=
  mkGrid_flat _ _ rfl (by decide) (by decide) (by norm_num [winOf, cfg8]) (by norm_num [winOf, cfg8]) (by norm_num [winOf])

end Osyris.C03
