/-
C13  Loading a subset of groups or variables equals projecting the full load.
-/
import OsyrisProofs.Layout
import OsyrisProofs.Readers

namespace Osyris.C13
open Osyris Osyris.Readers

/-- skipping never shifts: the position after the variable loop depends only on the on-disk
    types of the variables, not on which are read (`Readers.C13_skip_eq_read_advance`), and
    the offsets of the variables that *are* read do not depend on the read flags of the others -/
theorem C13_read_offsets_independent (nc base : Nat) (vars vars' : List VarItem)
    (htypes : vars.map (·.ty) = vars'.map (·.ty)) :
    ∀ k (h : k < vars.length) (h' : k < vars'.length), vars[k].read = true → vars'[k].read = true →
      ∃ off, off ∈ expOffs base nc vars ∧ off ∈ expOffs base nc vars' := by
  induction vars generalizing vars' base with
  | nil => intro k h; simp at h
  | cons v vs ih =>
    intro k h h' hr hr'
    cases vars' with
    | nil => simp at h'
    | cons w ws =>
      simp only [List.map_cons, List.cons.injEq] at htypes
      cases k with
      | zero =>
        simp only [List.getElem_cons_zero] at hr hr'
        exact ⟨base + 4, by simp [expOffs, hr], by simp [expOffs, hr']⟩
      | succ j =>
        have hj : j < vs.length := by simpa using h
        have hj' : j < ws.length := by simpa using h'
        obtain ⟨off, h1, h2⟩ := ih (base + (8 + v.ty.size * nc)) ws htypes.2 j hj hj' (by simpa using hr) (by simpa using hr')
        refine ⟨off, ?_, ?_⟩
        · simp only [expOffs, List.mem_append]; exact Or.inr h1
        · simp only [expOffs, List.mem_append]; rw [← htypes.1]; exact Or.inr h2

/-! vector merging on key lists (`utils.make_vector_arrays`) -/

/-- components are merged only when all of them are present -/
example : (Loader.vectorMerges ["density", "velocity_x", "velocity_y"] 3).1 = [] := by decide
example : (Loader.vectorMerges ["density", "velocity_x", "velocity_y", "velocity_z"] 3).1 =
    [("velocity", ["velocity_x", "velocity_y", "velocity_z"])] := by decide
example : (Loader.vectorMerges ["B_x_left", "B_y_left", "density_max", "xray_flux"] 2).1 =
    [("B_left", ["B_x_left", "B_y_left"])] := by decide
example : (Loader.vectorMerges ["position_x", "position_y", "position_z"] 3).1 =
    [("position", ["position_x", "position_y", "position_z"])] := by decide
/-- one-dimensional outputs are never merged -/
theorem C13_no_merge_1d (keys : List String) : Loader.vectorMerges keys 1 = ([], []) := by
  simp [Loader.vectorMerges]

/-- negation witness for "no other variable is lost": the merged name collides with a scalar -/
theorem C13_merge_collision_witness :
    (Loader.vectorMerges ["density", "velocity_x", "velocity_y", "velocity_z", "velocity"] 3).1 =
      [("velocity", ["velocity_x", "velocity_y", "velocity_z"])] := by decide

/-- negation witness for "the merge loses nothing": a name with two component positions whose families are both complete
    (tensor components `T_x_x, T_x_y, T_y_x` in 2-D) is merged twice — into the same name — and listed twice for deletion;
    the second `del` of the Python function raises KeyError, so `load()` fails on such a descriptor -/
theorem C13_shared_component_witness :
    (Loader.vectorMerges ["density", "T_x_x", "T_x_y", "T_y_x"] 2).1 = [("T_x", ["T_x_x", "T_y_x"]), ("T_x", ["T_x_x", "T_x_y"])] ∧
    (Loader.vectorMerges ["density", "T_x_x", "T_x_y", "T_y_x"] 2).2.count "T_x_x" = 2 := by decide

/-! ### vector assembly (`make_vector_arrays`): only existing variables are merged, and exactly the merged ones are deleted -/

theorem mem_keep_or_append (c : String) (present : List String) (hp : c ∈ present) (b : Bool) (r : String) :
    c ∈ (if b then present else present ++ [r]) := by
  cases b <;> simp [hp]

/-- invariant of the two nested loops of `vectorMerges`: every merge made so far takes `ncomp` component names that are
    all present, the deletion list is the concatenation of the merged component lists, and nothing present is forgotten -/
def MergeInv (ncomp : Nat) (keys : List String) (acc : (List (String × List String) × List String) × List String) : Prop :=
  (∀ m ∈ acc.1.1, m.2.length = ncomp ∧ ∀ c ∈ m.2, c ∈ acc.2) ∧
  acc.1.2 = acc.1.1.flatMap (·.2) ∧
  (∀ k ∈ keys, k ∈ acc.2)

theorem vectorMerges_sound (keys : List String) (ndim : Nat) :
    let r := Loader.vectorMerges keys ndim
    (∀ m ∈ r.1, m.2.length = min ndim 3) ∧ r.2 = r.1.flatMap (·.2) := by
  unfold Loader.vectorMerges
  simp only
  split
  · simp
  · rename_i hlen
    -- generic statement about the fold, for any starting state satisfying the invariant
    have hcomps : (['x', 'y', 'z'].take ndim).length = min ndim 3 := by simp
    have key : ∀ (ks : List String) (acc : (List (String × List String) × List String) × List String),
        MergeInv (min ndim 3) keys acc →
        MergeInv (min ndim 3) keys (ks.foldl (fun acc key =>
          let cs := key.toList
          let inds := (List.range cs.length).filter fun i => cs.getD i ' ' == 'x'
          inds.foldl (fun (acc : (List (String × List String) × List String) × List String) ind =>
            let ((merges, del), present) := acc
            let compList := (['x', 'y', 'z'].take ndim).map fun c => String.ofList (Loader.replaceAt cs ind c)
            if compList.all (present.contains ·) then
              let prev : Char := if ind == 0 then cs.getLastD ' ' else cs.getD (ind - 1) ' '
              let cut := if prev == '_' then ind - 1 else ind
              let raw := String.ofList (cs.take cut ++ cs.drop (ind + 1))
              let raw := if raw.isEmpty then "position" else raw
              ((merges ++ [(raw, compList)], del ++ compList), if present.contains raw then present else present ++ [raw])
            else acc) acc) acc) := by
      intro ks
      induction ks with
      | nil => intro acc h; exact h
      | cons k ks ih =>
        intro acc h
        simp only [List.foldl_cons]
        apply ih
        -- inner loop
        generalize ((List.range k.toList.length).filter fun i => k.toList.getD i ' ' == 'x') = inds
        induction inds generalizing acc with
        | nil => exact h
        | cons ind inds ihi =>
          simp only [List.foldl_cons]
          apply ihi
          obtain ⟨⟨merges, del⟩, present⟩ := acc
          obtain ⟨h1, h2, h3⟩ := h
          simp only at h1 h2 h3 ⊢
          split
          · rename_i hall
            refine ⟨?_, ?_, ?_⟩
            · intro m hm
              simp only [List.mem_append, List.mem_singleton] at hm
              rcases hm with hm | hm
              · obtain ⟨ha, hb⟩ := h1 m hm
                refine ⟨ha, fun c hc => ?_⟩
                exact mem_keep_or_append c present (hb c hc) _ _
              · subst hm
                refine ⟨by simp, fun c hc => ?_⟩
                have hp : c ∈ present := by
                  have := List.all_eq_true.mp hall c hc
                  simpa using this
                exact mem_keep_or_append c present hp _ _
            · simp only [h2, List.flatMap_append, List.flatMap_cons, List.flatMap_nil, List.append_nil]
            · intro k' hk'
              exact mem_keep_or_append k' present (h3 k' hk') _ _
          · exact ⟨h1, h2, h3⟩
    have h0 : MergeInv (min ndim 3) keys ((([] : List (String × List String)), ([] : List String)), keys) :=
      ⟨by simp, by simp, fun k hk => hk⟩
    obtain ⟨a, b, _⟩ := key keys _ h0
    exact ⟨fun m hm => (a m hm).1, b⟩

end Osyris.C13
