/-
C13  Loading a subset of groups or variables equals projecting the full load.
-/
import OsyrisProofs.Readers

namespace Osyris.C13
open Osyris Osyris.Readers

/-- skipping never shifts: the position after the variable loop depends only on the on-disk
    types of the variables, not on which are read (`Readers.C13_skip_eq_read_advance`), and
    the offsets of the variables that *are* read do not depend on the read flags of the others -/
theorem C13_read_offsets_independent (nc base : Nat) (vars vars' : List VarItem)
    (htypes : vars.map (·.ty) = vars'.map (·.ty)) :
    ∀ k (h : k < vars.length) (h' : k < vars'.length), vars[k].read = true → vars'[k].read = true →
      ∃ off, off ∈ expOffs base nc vars ∧ off ∈ expOffs base nc vars' := by
  induction vars generalizing vars' base with
  | nil => intro k h; simp at h
  | cons v vs ih =>
    intro k h h' hr hr'
    cases vars' with
    | nil => simp at h'
    | cons w ws =>
      simp only [List.map_cons, List.cons.injEq] at htypes
      cases k with
      | zero =>
        simp only [List.getElem_cons_zero] at hr hr'
        exact ⟨base + 4, by simp [expOffs, hr], by simp [expOffs, hr']⟩
      | succ j =>
        have hj : j < vs.length := by simpa using h
        have hj' : j < ws.length := by simpa using h'
        obtain ⟨off, h1, h2⟩ := ih (base + (8 + v.ty.size * nc)) ws htypes.2 j hj hj' (by simpa using hr) (by simpa using hr')
        refine ⟨off, ?_, ?_⟩
        · simp only [expOffs, List.mem_append]; exact Or.inr h1
        · simp only [expOffs, List.mem_append]; rw [← htypes.1]; exact Or.inr h2

/-! vector merging on key lists (`utils.make_vector_arrays`) -/

/-- components are merged only when all of them are present -/
example : (Loader.vectorMerges ["density", "velocity_x", "velocity_y"] 3).1 = [] := by decide
example : (Loader.vectorMerges ["density", "velocity_x", "velocity_y", "velocity_z"] 3).1 =
    [("velocity", ["velocity_x", "velocity_y", "velocity_z"])] := by decide
example : (Loader.vectorMerges ["B_x_left", "B_y_left", "density_max", "xray_flux"] 2).1 =
    [("B_left", ["B_x_left", "B_y_left"])] := by decide
example : (Loader.vectorMerges ["position_x", "position_y", "position_z"] 3).1 =
    [("position", ["position_x", "position_y", "position_z"])] := by decide
/-- one-dimensional outputs are never merged -/
theorem C13_no_merge_1d (keys : List String) : Loader.vectorMerges keys 1 = ([], []) := by
  simp [Loader.vectorMerges]

/-- negation witness for "no other variable is lost": the merged name collides with a scalar -/
theorem C13_merge_collision_witness :
    (Loader.vectorMerges ["density", "velocity_x", "velocity_y", "velocity_z", "velocity"] 3).1 =
      [("velocity", ["velocity_x", "velocity_y", "velocity_z"])] := by decide

end Osyris.C13
