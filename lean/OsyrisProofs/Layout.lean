/-
The record layout of the files `Ramses.encode` writes (the Spec of the format, which every run also diffs against the files
the Python writer produces) is the layout the alignment theorems of Readers.lean are stated about: the skeleton of the amr
header, of every (level, domain) block, of the hydro / grav / rt headers and of a particle file, for every output.
-/
import OsyrisProofs.Readers

namespace Osyris.Layout
open Osyris Osyris.Readers Osyris.Ramses

theorem skelOf_append (a b : File) : skelOf (a ++ b) = skelOf a ++ skelOf b := by simp [skelOf]
theorem skelOf_cons (r : Rec) (f : File) : skelOf (r :: f) = (r.ty, r.count) :: skelOf f := rfl
@[simp] theorem skelOf_nil : skelOf [] = [] := rfl

@[simp] theorem recI_sk (l : List Nat) : ((recI l).ty, (recI l).count) = (Ty.i, l.length) := rfl
@[simp] theorem recD_sk (l : List Rat) : ((recD l).ty, (recD l).count) = (Ty.d, l.length) := rfl
@[simp] theorem zerosI_sk (n : Nat) : ((zerosI n).ty, (zerosI n).count) = (Ty.i, n) := by simp [zerosI, recI]
@[simp] theorem zerosD_sk (n : Nat) : ((zerosD n).ty, (zerosD n).count) = (Ty.d, n) := by simp [zerosD, recD]
@[simp] theorem recOpaque_sk (t : Ty) (n : Nat) : ((recOpaque t n).ty, (recOpaque t n).count) = (t, n) := rfl

theorem skelOf_map_const {α : Type} (l : List α) (f : α → Rec) (t : Ty) (n : Nat)
    (h : ∀ a ∈ l, ((f a).ty, (f a).count) = (t, n)) : skelOf (l.map f) = List.replicate l.length (t, n) := by
  induction l with
  | nil => rfl
  | cons a l ih =>
    simp only [List.map_cons, skelOf_cons, List.length_cons, List.replicate_succ]
    rw [h a (by simp), ih (fun b hb => h b (by simp [hb]))]

theorem skelOf_replicate (k : Nat) (r : Rec) : skelOf (List.replicate k r) = List.replicate k (r.ty, r.count) := by
  simp [skelOf]

/-- **amr block**: a non-empty (level, domain) block written by `encode` has the skeleton `blockSkel` of the alignment
    theorems `amr_own_block_aligned_*` / `amr_stepover_advance`, for every number of octs and every ndim -/
theorem skelOf_amrBlock (o : Output) (lst : List Oct) (h : lst ≠ []) :
    skelOf (amrBlock o lst) = blockSkel lst.length o.ndim := by
  have hne : (lst.length == 0) = false := by
    cases lst with
    | nil => exact absurd rfl h
    | cons a l => simp
  unfold amrBlock blockSkel
  simp only [hne, Bool.false_eq_true, if_false, skelOf_append, skelOf_cons, skelOf_nil, skelOf_replicate]
  have h1 : skelOf ((List.range o.ndim).map fun k => recD (lst.map fun oc => oc.centre.getD k 0)) =
      List.replicate o.ndim (Ty.d, lst.length) := by
    rw [skelOf_map_const _ _ Ty.d lst.length (by intro a _; simp)]; simp
  have h2 : skelOf ((List.range o.twotondim).map fun ind => recI (lst.map fun oc => oc.sons.getD ind 0)) =
      List.replicate o.twotondim (Ty.i, lst.length) := by
    rw [skelOf_map_const _ _ Ty.i lst.length (by intro a _; simp)]; simp
  have h3 : skelOf ((List.range o.twotondim).map fun _ => recI (lst.map (·.owner))) =
      List.replicate o.twotondim (Ty.i, lst.length) := by
    rw [skelOf_map_const _ _ Ty.i lst.length (by intro a _; simp)]; simp
  rw [h1, h2, h3]
  simp only [recI_sk, zerosI_sk, List.length_map]
  have h23 : o.twotondim = 2 ^ o.ndim := rfl
  rw [h23]
  have : List.replicate (2 ^ o.ndim) (Ty.i, lst.length) ++ (List.replicate (2 ^ o.ndim) (Ty.i, lst.length) ++
      List.replicate (2 ^ o.ndim) (Ty.i, lst.length)) = List.replicate (3 * 2 ^ o.ndim) (Ty.i, lst.length) := by
    rw [← List.replicate_add, ← List.replicate_add]; congr 1; omega
  simp only [List.append_assoc, List.cons_append, List.nil_append, this]

theorem amrBlock_nil (o : Output) : amrBlock o [] = [] := by simp [amrBlock]

/-- **amr header**: the header `encode` writes has the skeleton `hdrSkel` of `amr_header_aligned_nb0 / _nbpos`
    (key record of `keyb * (ncpu + 1)` bytes, coarse records of `ncoarse` entries) -/
theorem skelOf_amrHeader (o : Output) (cpu : Nat) :
    skelOf (amrHeader o cpu) =
      hdrSkel o.ncpu o.levelmax o.nboundary o.noutput (o.keyb * (o.ncpu + 1)) o.ncoarse := by
  have hnumbl : ((levels o).flatMap fun l => ((List.range o.ncpu).map (· + 1)).map fun d => (o.heldOf cpu l d).length).length
      = o.ncpu * o.levelmax := by
    simp only [levels, List.length_flatMap, List.length_map, List.length_range, List.map_map, Function.comp_def]
    rw [List.map_const', List.sum_replicate]; simp [Nat.mul_comm]
  have hnumbb : ((levels o).flatMap fun l =>
      ((List.range o.nboundary).map (· + 1)).map fun b => (o.heldOf cpu l (o.ncpu + b)).length).length = o.nboundary * o.levelmax := by
    simp only [levels, List.length_flatMap, List.length_map, List.length_range, List.map_map, Function.comp_def]
    rw [List.map_const', List.sum_replicate]; simp [Nat.mul_comm]
  have hnxyz : o.nxyz.length = 3 := by simp [Output.nxyz]
  unfold amrHeader hdrSkel
  by_cases hb : o.nboundary > 0
  · simp only [hb, if_true, skelOf_append, skelOf_cons, skelOf_nil, recI_sk, recD_sk, zerosI_sk, zerosD_sk, recOpaque_sk,
      List.length_replicate, hnumbl, hnumbb, hnxyz, List.length_cons, List.length_nil]
  · simp only [hb, if_false, skelOf_append, skelOf_cons, skelOf_nil, recI_sk, recD_sk, zerosI_sk, zerosD_sk, recOpaque_sk,
      List.length_replicate, hnumbl, hnxyz, List.length_cons, List.length_nil]

/-- headers of the hydro / grav / rt files -/
theorem skelOf_varHeader_hydro (o : Output) : skelOf (varHeader o .hydro) = hydroHdrSkel := by
  simp [varHeader, hydroHdrSkel, skelOf_cons]
theorem skelOf_varHeader_grav (o : Output) : skelOf (varHeader o .grav) = gravHdrSkel := by
  simp [varHeader, gravHdrSkel, skelOf_cons]
theorem skelOf_varHeader_rt (o : Output) : skelOf (varHeader o .rt) = hydroHdrSkel := by
  simp [varHeader, hydroHdrSkel, skelOf_cons]

/-- **the whole amr file**: header, then for every level and every domain (cpus, then boundary regions) one block with
    the skeleton of the alignment theorems, or nothing when the file holds no oct of that level and domain -/
theorem skelOf_amrFile (o : Output) (cpu : Nat) :
    skelOf (amrFile o cpu) =
      hdrSkel o.ncpu o.levelmax o.nboundary o.noutput (o.keyb * (o.ncpu + 1)) o.ncoarse ++
      (levels o).flatMap fun l => (domains o).flatMap fun d =>
        if (o.heldOf cpu l d).length = 0 then [] else blockSkel (o.heldOf cpu l d).length o.ndim := by
  unfold amrFile
  rw [skelOf_append, skelOf_amrHeader]
  congr 1
  induction (levels o) with
  | nil => rfl
  | cons l ls ih =>
    simp only [List.flatMap_cons, skelOf_append, ih]
    congr 1
    induction (domains o) with
    | nil => rfl
    | cons d ds ihd =>
      simp only [List.flatMap_cons, skelOf_append, ihd]
      congr 1
      by_cases h0 : (o.heldOf cpu l d) = []
      · simp [h0, amrBlock_nil]
      · have : (o.heldOf cpu l d).length ≠ 0 := by simpa using h0
        simp only [this, if_false]
        exact skelOf_amrBlock o _ h0

/-- **particle file**: with five header records, the skeleton is `partHdrSkel` followed by one record per descriptor
    variable, of its own type and `npart` elements -/
theorem skelOf_partFile (o : Output) (p : Part) (cpu : Nat) (h1 h2 h3 h4 h5 : Nat) (hh : p.headerSizes = [h1, h2, h3, h4, h5]) :
    skelOf (partFile o p cpu) = partHdrSkel h1 h2 h3 h4 h5 ++
      (List.zip p.descriptor (p.perCpu.getD (cpu - 1) default).cols).map fun pr => (pr.1.2, pr.2.length) := by
  unfold partFile partHdrSkel
  simp only [hh, skelOf_append, skelOf_cons, skelOf_nil, List.map_cons, List.map_nil, recI_sk, recOpaque_sk,
    List.length_cons, List.length_nil]
  simp [skelOf, List.map_map, Function.comp]

/-- **a (level, domain) block of a hydro / grav / rt file**: the two-record domain header of `domain_header_advance`, then —
    when the file holds octs there — for every child cell one record of `nc` elements per variable, of the type the
    descriptor declares: the layout the variable loop (`readVars_spec`, `var_loop_reads_columns`) walks -/
theorem skelOf_varBlock (o : Output) (k : VarKind) (cpu l d : Nat) :
    skelOf (varBlock o k cpu l d) = domHdrSkel ++
      (if (o.heldOf cpu l d).length = 0 then []
       else (List.range o.twotondim).flatMap fun _ =>
         (List.range (nvarOf o k)).map fun iv => (varTyOf o k iv, (o.heldOf cpu l d).length)) := by
  unfold varBlock domHdrSkel
  simp only [skelOf_append, skelOf_cons, skelOf_nil, recI_sk, List.length_cons, List.length_nil]
  congr 1
  by_cases h0 : (o.heldOf cpu l d).length = 0
  · simp [h0]
  · have hb : ((o.heldOf cpu l d).length == 0) = false := by simpa using h0
    simp only [hb, Bool.false_eq_true, if_false, h0]
    generalize o.twotondim = n
    induction n with
    | zero => simp
    | succ n ih =>
      rw [List.range_succ, List.flatMap_append, skelOf_append, ih, List.flatMap_append]
      congr 1
      simp [skelOf, List.map_map, Function.comp_def]

/-- all-double files (grav, rt, and hydro with the usual descriptor): `2^ndim * nvar` records of `nc` doubles -/
theorem skelOf_varBlock_doubles (o : Output) (k : VarKind) (cpu l d : Nat) (hd : ∀ iv, varTyOf o k iv = .d)
    (h0 : (o.heldOf cpu l d).length ≠ 0) :
    skelOf (varBlock o k cpu l d) = domHdrSkel ++
      List.replicate (o.twotondim * nvarOf o k) (Ty.d, (o.heldOf cpu l d).length) := by
  rw [skelOf_varBlock]
  simp only [h0, if_false, hd]
  congr 1
  generalize o.twotondim = n
  induction n with
  | zero => simp
  | succ n ih =>
    rw [List.range_succ, List.flatMap_append, ih]
    simp only [List.flatMap_cons, List.flatMap_nil, List.append_nil, List.map_const', List.length_range, ← List.replicate_add]
    congr 1
    rw [Nat.succ_mul]

theorem skelOf_varFile_hydro (o : Output) (cpu : Nat) :
    skelOf (varFile o .hydro cpu) = hydroHdrSkel ++
      (levels o).flatMap fun l => (domains o).flatMap fun d => skelOf (varBlock o .hydro cpu l d) := by
  unfold varFile
  rw [skelOf_append, skelOf_varHeader_hydro]
  congr 1
  induction (levels o) with
  | nil => rfl
  | cons l ls ih =>
    simp only [List.flatMap_cons, skelOf_append, ih]
    congr 1
    induction (domains o) with
    | nil => rfl
    | cons d ds ihd => simp only [List.flatMap_cons, skelOf_append, ihd]

/-- the amr file is exactly as long as its header plus its blocks: the walk of `amr_header_aligned_*` followed, for every
    (level, domain), by `amr_own_block_aligned_*` or `amr_stepover_advance` (both advance by `skelBytes (blockSkel nc ndim)`)
    ends at the end of the file -/
theorem totalBytes_amrFile (o : Output) (cpu : Nat) :
    totalBytes (amrFile o cpu) =
      skelBytes (hdrSkel o.ncpu o.levelmax o.nboundary o.noutput (o.keyb * (o.ncpu + 1)) o.ncoarse) +
      ((levels o).map fun l => ((domains o).map fun d =>
        if (o.heldOf cpu l d).length = 0 then 0 else skelBytes (blockSkel (o.heldOf cpu l d).length o.ndim)).sum).sum := by
  rw [← skelBytes_skelOf, skelOf_amrFile]
  unfold skelBytes
  rw [List.map_append, List.sum_append]
  congr 1
  induction (levels o) with
  | nil => rfl
  | cons l ls ih =>
    simp only [List.flatMap_cons, List.map_append, List.sum_append, List.map_cons, List.sum_cons, ih]
    congr 1
    induction (domains o) with
    | nil => rfl
    | cons d ds ihd =>
      simp only [List.flatMap_cons, List.map_append, List.sum_append, List.map_cons, List.sum_cons, ihd]
      congr 1
      split <;> simp

/-- the variable table the loader builds for a hydro file: one item per descriptor variable, with its declared type -/
def hydroItems (o : Output) (read : Nat → Bool) : List VarItem :=
  (List.range (nvarOf o .hydro)).map fun iv => ⟨(o.hydroVars.getD iv ("", .d)).1, varTyOf o .hydro iv, read iv⟩

/-- bytes of one (level, domain) block of the hydro file = the domain header (`domain_header_advance`) plus, when the file
    holds octs there, `2^ndim` times the advance of the variable loop (`readVars_spec` when read, `var_stepover_eq_block` when
    stepped over — the same amount, whatever is read or skipped and whatever the declared types) -/
theorem totalBytes_varBlock_hydro (o : Output) (cpu l d : Nat) (read : Nat → Bool) :
    totalBytes (varBlock o .hydro cpu l d) = skelBytes domHdrSkel +
      (if (o.heldOf cpu l d).length = 0 then 0
       else o.twotondim * varsBytes (o.heldOf cpu l d).length (hydroItems o read)) := by
  rw [← skelBytes_skelOf, skelOf_varBlock]
  unfold skelBytes
  rw [List.map_append, List.sum_append]
  congr 1
  by_cases h0 : (o.heldOf cpu l d).length = 0
  · simp [h0]
  · simp only [h0, if_false]
    have hv : varsBytes (o.heldOf cpu l d).length (hydroItems o read) =
        ((List.range (nvarOf o .hydro)).map fun iv => recBytes (varTyOf o .hydro iv, (o.heldOf cpu l d).length)).sum := by
      simp [varsBytes, hydroItems, List.map_map, Function.comp_def, recBytes]
    rw [hv]
    generalize o.twotondim = n
    induction n with
    | zero => simp
    | succ n ih =>
      rw [List.range_succ, List.flatMap_append, List.map_append, List.sum_append, ih]
      simp only [List.flatMap_cons, List.flatMap_nil, List.append_nil, List.map_map, Function.comp_def]
      rw [Nat.succ_mul]

end Osyris.Layout
