/-
C12  A level-limited load returns the tree truncated at that level, without holes.
Spec-level theorems on the inductive octree (Spec/Octree.lean): truncation keeps
well-formedness, the leaves of the truncated tree fill the root cell (no holes, no overlaps
in volume), their levels do not exceed L; and the level cap computed from the predicates.
-/
import OsyrisModel
import OsyrisProofs.C01
import OsyrisModel.Spec.Octree
import Mathlib.Tactic.Ring
import Mathlib.Tactic.Linarith

namespace Osyris.C12
open Osyris Osyris.Spec Osyris.Spec.Tree

theorem fits_le (D l : Nat) : ∀ t : Tree, fits D l t → l ≤ D
  | .leaf _, h => h
  | .node _ _, h => h.1

mutual
/-- volume conservation: the leaves of a well-formed subtree rooted at a level-`l` cell fill it -/
theorem vol_tree (a D : Nat) (ha : 0 < a) : ∀ (l : Nat) (t : Tree), WF a t → fits D l t →
    vol a D (leaves l t) = a ^ (D - l)
  | l, .leaf v, _, _ => by simp [leaves, vol]
  | l, .node v ks, hwf, hfit => by
    have hlen : ks.length = a := hwf.1
    have hkids := vol_kids a D ha (l+1) ks hwf.2 hfit.2
    simp only [leaves]
    rw [hkids, hlen]
    cases ks with
    | nil => simp at hlen; omega
    | cons k ks' =>
      have hk : l + 1 ≤ D := fits_le D (l+1) k hfit.2.1
      have : D - l = (D - (l+1)) + 1 := by omega
      rw [this, Nat.pow_succ, Nat.mul_comm]
theorem vol_kids (a D : Nat) (ha : 0 < a) : ∀ (l : Nat) (ks : List Tree), WF.WFList a ks → fits.fitsList D l ks →
    vol a D (leaves.leavesList l ks) = ks.length * a ^ (D - l)
  | l, [], _, _ => by simp [leaves.leavesList, vol]
  | l, k :: ks, hwf, hfit => by
    have hk := vol_tree a D ha l k hwf.1 hfit.1
    have hks := vol_kids a D ha l ks hwf.2 hfit.2
    simp only [leaves.leavesList, vol, List.map_append, List.sum_append, List.length_cons] at *
    rw [hk, hks, Nat.add_mul, Nat.one_mul, Nat.add_comm]
end

mutual
theorem truncate_WF (a L : Nat) : ∀ (l : Nat) (t : Tree), WF a t → WF a (truncate L l t)
  | _, .leaf _, _ => by simp [truncate, WF]
  | l, .node v ks, h => by
    simp only [truncate]
    split
    · simp [WF]
    · exact ⟨by rw [truncList_length]; exact h.1, truncList_WF a L (l+1) ks h.2⟩
theorem truncList_WF (a L : Nat) : ∀ (l : Nat) (ks : List Tree), WF.WFList a ks → WF.WFList a (truncate.truncList L l ks)
  | _, [], _ => by simp [truncate.truncList, WF.WFList]
  | l, k :: ks, h => ⟨truncate_WF a L l k h.1, truncList_WF a L l ks h.2⟩
theorem truncList_length (L l : Nat) : ∀ ks : List Tree, (truncate.truncList L l ks).length = ks.length
  | [] => rfl
  | k :: ks => by simp [truncate.truncList, truncList_length L l ks]
end

mutual
theorem truncate_fits (D L : Nat) : ∀ (l : Nat) (t : Tree), fits D l t → fits D l (truncate L l t)
  | _, .leaf _, h => by simpa [truncate] using h
  | l, .node v ks, h => by
    simp only [truncate]
    split
    · exact h.1
    · exact ⟨h.1, truncList_fits D L (l+1) ks h.2⟩
theorem truncList_fits (D L : Nat) : ∀ (l : Nat) (ks : List Tree), fits.fitsList D l ks → fits.fitsList D l (truncate.truncList L l ks)
  | _, [], _ => by simp [truncate.truncList, fits.fitsList]
  | l, k :: ks, h => ⟨truncate_fits D L l k h.1, truncList_fits D L l ks h.2⟩
end

/-- **C12 (no holes, no overlaps — volume)**: the leaves of the tree truncated at any level L fill
    the root cell exactly, for every well-formed tree -/
theorem C12_truncated_volume (a D L : Nat) (ha : 0 < a) (t : Tree) (hwf : WF a t) (hfit : fits D 0 t) :
    vol a D (leaves 0 (truncate L 0 t)) = a ^ D := by
  have := vol_tree a D ha 0 (truncate L 0 t) (truncate_WF a L 0 t hwf) (truncate_fits D L 0 t hfit)
  simpa using this

mutual
/-- every leaf of the truncated tree has level ≤ L (when the root is at or above L) -/
theorem truncate_levels (L : Nat) : ∀ (l : Nat) (t : Tree), l ≤ L → ∀ p ∈ leaves l (truncate L l t), p.1 ≤ L ∨ p.1 = l
  | l, .leaf v, hl, p, hp => by
    simp [truncate, leaves] at hp; subst hp; exact Or.inr rfl
  | l, .node v ks, hl, p, hp => by
    simp only [truncate] at hp
    split at hp
    · simp [leaves] at hp; subst hp; exact Or.inr rfl
    · rename_i hlt
      simp only [leaves] at hp
      have := truncList_levels L (l+1) ks (by omega) p hp
      rcases this with h | h
      · exact Or.inl h
      · exact Or.inl (by omega)
theorem truncList_levels (L : Nat) : ∀ (l : Nat) (ks : List Tree), l ≤ L →
    ∀ p ∈ leaves.leavesList l (truncate.truncList L l ks), p.1 ≤ L ∨ p.1 = l
  | _, [], _, p, hp => by simp [truncate.truncList, leaves.leavesList] at hp
  | l, k :: ks, hl, p, hp => by
    simp only [truncate.truncList, leaves.leavesList, List.mem_append] at hp
    rcases hp with h | h
    · exact truncate_levels L l k hl p h
    · exact truncList_levels L l ks hl p h
end

/-! ### the per-cell rule on the flat cell list is truncation of the tree -/

mutual
theorem flat_above (L : Nat) : ∀ (l : Nat) (t : Tree), L < l → (flat l t).filter (keepCell L) = []
  | l, .leaf v, h => by simp [flat, keepCell]; omega
  | l, .node v ks, h => by
    simp only [flat, List.filter_cons]
    have : keepCell L (l, true, v) = false := by simp [keepCell]; omega
    rw [this]; simpa using flatList_above L (l+1) ks (by omega)
theorem flatList_above (L : Nat) : ∀ (l : Nat) (ks : List Tree), L < l → (flat.flatList l ks).filter (keepCell L) = []
  | _, [], _ => by simp [flat.flatList]
  | l, k :: ks, h => by
    simp only [flat.flatList, List.filter_append, flat_above L l k h, flatList_above L l ks h, List.append_nil]
end

mutual
/-- **C12 (flat rule = truncation)**: filtering the stored cells of any tree with the loader's per-cell rule for the cap
    `L` yields exactly the leaves of the tree truncated at `L`, in file order, each with its own (coarse) value -/
theorem C12_flat_rule_is_truncation (L : Nat) : ∀ (l : Nat) (t : Tree), l ≤ L →
    ((flat l t).filter (keepCell L)).map (fun c => (c.1, c.2.2)) = leaves l (truncate L l t)
  | l, .leaf v, h => by simp [flat, keepCell, truncate, leaves, h]
  | l, .node v ks, h => by
    simp only [flat, truncate, List.filter_cons]
    by_cases hl : l ≥ L
    · have hk : keepCell L (l, true, v) = true := by simp [keepCell]; omega
      rw [hk, if_pos hl]
      simp [leaves, flatList_above L (l+1) ks (by omega)]
    · have hk : keepCell L (l, true, v) = false := by simp [keepCell]; omega
      rw [hk, if_neg hl]
      simpa [leaves] using flatList_truncation L (l+1) ks (by omega)
theorem flatList_truncation (L : Nat) : ∀ (l : Nat) (ks : List Tree), l ≤ L →
    ((flat.flatList l ks).filter (keepCell L)).map (fun c => (c.1, c.2.2)) = leaves.leavesList l (truncate.truncList L l ks)
  | _, [], _ => by simp [flat.flatList, truncate.truncList, leaves.leavesList]
  | l, k :: ks, h => by
    simp only [flat.flatList, List.filter_append, List.map_append, truncate.truncList, leaves.leavesList,
      C12_flat_rule_is_truncation L l k h, flatList_truncation L l ks h]
end

/-- **C12 (no holes, flat form)**: the cells the per-cell rule keeps fill the root cell exactly, whatever the cap -/
theorem C12_flat_rule_volume (a D L : Nat) (ha : 0 < a) (t : Tree) (hwf : WF a t) (hfit : fits D 0 t) :
    vol a D (((flat 0 t).filter (keepCell L)).map (fun c => (c.1, c.2.2))) = a ^ D := by
  rw [C12_flat_rule_is_truncation L 0 t (Nat.zero_le _)]
  exact C12_truncated_volume a D L ha t hwf hfit

/-- non-vacuity: a two-level quadtree capped at level 1 -/
example : ((flat 0 (.node 9 [.leaf 1, .node 2 [.leaf 5, .leaf 6, .leaf 7, .leaf 8], .leaf 3, .leaf 4])).filter (keepCell 1)).map
    (fun c => (c.1, c.2.2)) = [(1, 1), (1, 2), (1, 3), (1, 4)] := by decide

/-- **C12 (rows of a level-limited load)**: the stored cells that pass the loader's per-cell rule for the cap `L` *and* the
    level function `p` are exactly the leaves of the tree truncated at `L` whose level satisfies `p`, in file order -/
theorem C12_rows (L : Nat) (p : Nat → Bool) (t : Tree) :
    ((flat 0 t).filter (fun c => keepCell L c && p c.1)).map (fun c => (c.1, c.2.2)) =
      (leaves 0 (truncate L 0 t)).filter (fun q => p q.1) := by
  rw [← C12_flat_rule_is_truncation L 0 t (Nat.zero_le _), List.filter_map]
  congr 1
  rw [List.filter_filter]
  apply List.filter_congr
  intro c _
  simp [Bool.and_comm]

/-- **C12 (no holes)**: when the level function accepts every level up to the cap, the rows are all the leaves of the
    truncated tree: they fill the domain exactly once -/
theorem C12_rows_tile (a D L : Nat) (ha : 0 < a) (p : Nat → Bool) (hp : ∀ l, l ≤ L → p l = true)
    (t : Tree) (hwf : WF a t) (hfit : fits D 0 t) :
    vol a D (((flat 0 t).filter (fun c => keepCell L c && p c.1)).map (fun c => (c.1, c.2.2))) = a ^ D := by
  rw [C12_rows]
  have hall : (leaves 0 (truncate L 0 t)).filter (fun q => p q.1) = leaves 0 (truncate L 0 t) := by
    apply List.filter_eq_self.mpr
    intro q hq
    rcases truncate_levels L 0 t (Nat.zero_le _) q hq with h | h
    · exact hp _ h
    · exact hp _ (by omega)
  rw [hall]
  exact C12_truncated_volume a D L ha t hwf hfit

/-- `find_max_amr_level`: `lmaxOf` never exceeds levelmax, and a predicate `level <= k` gives min k levelmax -/
theorem C12_lmax_le (o : Ramses.Output) (preds : List Loader.Pred) : LoadEngine.lmaxOf o preds ≤ o.levelmax := by
  unfold LoadEngine.lmaxOf
  simp only []
  split
  · exact Nat.le_refl _
  · have : ∀ (l : List Nat) (acc : Nat), acc ≤ o.levelmax → (∀ x ∈ l, x ≤ o.levelmax) →
        l.foldl (fun (acc : Nat) (l : Nat) => if (preds.filter (·.var == "level")).all (fun p => p.eval ((l : Nat) : Rat)) then l else acc) acc ≤ o.levelmax := by
      intro l
      induction l with
      | nil => intro acc h _; simpa using h
      | cons x xs ih =>
        intro acc h hx
        simp only [List.foldl_cons]
        apply ih
        · split
          · exact hx x (by simp)
          · exact h
        · intro y hy; exact hx y (by simp [hy])
    apply this
    · exact Nat.zero_le _
    · intro x hx
      simp only [List.mem_map, List.mem_range] at hx
      obtain ⟨y, hy, rfl⟩ := hx
      omega

end Osyris.C12
