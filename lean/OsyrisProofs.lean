import OsyrisProofs.C02
import OsyrisProofs.C06
import OsyrisProofs.C20
