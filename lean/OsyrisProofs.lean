import OsyrisProofs.C06
import OsyrisProofs.C20
