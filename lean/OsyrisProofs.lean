import OsyrisProofs.C20
