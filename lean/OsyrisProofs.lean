import OsyrisProofs.C02
import OsyrisProofs.C06
import OsyrisProofs.C07
import OsyrisProofs.C08
import OsyrisProofs.C09
import OsyrisProofs.C10
import OsyrisProofs.C17
import OsyrisProofs.C20
