/-
Line-protocol driver: one JSON case per line on stdin, one JSON result per line on stdout.
`{"engine":"core","prog":[op,...]}` -> `{"out":[obs,...]}`.
A line that does not parse yields `{"err":"bad-op"}` — never a default.
-/
import OsyrisModel
open Lean Osyris

def handle (line : String) : Json :=
  match Json.parse line with
  | .error _ => errJson .badOp
  | .ok j =>
    match getStr? j "engine" with
    | some "core" =>
      match getArr? j "prog" with
      | some ops =>
        let T := if getStr? j "mode" == some "spec" then Reference.tables else Generated.tables
        Json.mkObj [("out", Json.arr (runProg T ops).toArray)]
      | none => errJson .badOp
    | _ => errJson .badOp

partial def loop (hin : IO.FS.Stream) (hout : IO.FS.Stream) : IO Unit := do
  let line ← hin.getLine
  if line.isEmpty then return ()
  let t := line.trimAscii.toString
  if t.isEmpty then loop hin hout else
  hout.putStrLn (handle t).compress
  loop hin hout

def main : IO Unit := do
  let hin ← IO.getStdin
  let hout ← IO.getStdout
  loop hin hout
  hout.flush
