/-
Line-protocol driver: one JSON case per line on stdin, one JSON result per line on stdout.
`{"engine":"core","prog":[op,...]}` -> `{"out":[obs,...]}`.
A line that does not parse yields `{"err":"bad-op"}` — never a default.
-/
import OsyrisModel
import Driver.Geom
import Driver.GeomMap
import Driver.Opts
open Lean Osyris

def handle (line : String) : Json :=
  match Json.parse line with
  | .error _ => errJson .badOp
  | .ok j =>
    match handleGeom j with
    | some r => r
    | none =>
    match handleMap j with
    | some r => r
    | none =>
    match handleOpts j with
    | some r => r
    | none =>
    match getStr? j "engine" with
    | some "core" =>
      match getArr? j "prog" with
      | some ops =>
        let T := if getStr? j "mode" == some "spec" then Reference.tables else Generated.tables
        Json.mkObj [("out", Json.arr (runProg T ops).toArray)]
      | none => errJson .badOp
    | some "loader" => LoadEngine.run j
    | some "history" =>
      -- C15: cpu files opened by each call of a history of load() calls on one dataset
      match (getField? j "output").bind Ramses.Output.fromJson?, getArr? j "reqs" with
      | some o, some rs =>
        match rs.mapM LoadEngine.Request.fromJson? with
        | some reqs =>
          let enc (l : List (List Nat)) : Json := Json.arr (l.map natsToJson).toArray
          Json.mkObj [("model", enc (LoadHistory.run true o none reqs)),
                      ("fresh", enc (reqs.map fun rq => (LoadHistory.step true o none rq).2))]
        | none => errJson .badOp
      | _, _ => errJson .badOp
    | some "hkey" =>
      -- `_hilbert3d`: model = table extracted from the source, spec = committed reference table
      match getArr? j "cases" with
      | some cs =>
        let ks (t : Hilbert.HTable) : Json := Json.arr (cs.map fun (c : Json) =>
          match jsonToNats? c with
          | some [x, y, z, b] => Json.num (JsonNumber.fromNat (Hilbert.key t x y z b))
          | _ => Json.null).toArray
        Json.mkObj [("model", ks Hilbert.Generated.table),
                    ("spec", ks (Hilbert.HTable.ofLists Reference.hilbertNext Reference.hilbertDigit))]
      | none => errJson .badOp
    | some "npunit" =>
      -- C10: unit returned by a numpy function on Arrays (model: as coded; spec: dimensional analysis)
      let parsed : Option (String × DType × U × List (Option U) × Rat × NpClass) := do
        let name ← getStr? j "name"
        let dt ← (getStr? j "resdt").bind DType.fromString?
        let su ← (getField? j "self").bind U.fromJson?
        let argsJ ← getArr? j "args"
        let args ← argsJ.mapM fun (a : Json) => match a with
          | .null => some none
          | x => (U.fromJson? x).map some
        let k := (getRat? j "k").getD 1
        let cls ← (getStr? j "cls").bind NpClass.fromString?
        pure (name, dt, su, args, k, cls)
      match parsed with
      | some (name, dt, su, args, k, cls) =>
        let enc (o : Option UPow) : Json := match o with | some p => p.toJson | none => Json.str "refuse"
        Json.mkObj [("model", enc (npUnit Generated.tables name dt su args k)),
                    ("spec", enc (specUnit cls name args k))]
      | none => errJson .badOp
    | some "cpulist" =>
      -- C04: `_get_cpu_list` called directly (bounding box in box fractions, bound keys, deep levelmax)
      let parsed : Option (Hilbert.BBox × Nat × Nat × Nat × Nat × List Nat × Nat) := do
        let b ← getField? j "bb"
        let bb : Hilbert.BBox := { xmin := ← getRat? b "xmin", xmax := ← getRat? b "xmax", ymin := ← getRat? b "ymin",
                                   ymax := ← getRat? b "ymax", zmin := ← getRat? b "zmin", zmax := ← getRat? b "zmax" }
        pure (bb, ← getNat? j "lmax", ← getNat? j "levelmax", ← getNat? j "ncpu", ← getNat? j "ndim",
              ← getNats? j "bk", (getNat? j "mincube").getD 0)
      match parsed with
      | some (bb, lmax, levelmax, ncpu, ndim, bk, mc) =>
        Json.mkObj [("model", natsToJson (Hilbert.getCpuList Hilbert.Generated.table bb lmax levelmax ncpu ndim bk mc)),
                    ("spec", natsToJson (Hilbert.getCpuList (Hilbert.HTable.ofLists Reference.hilbertNext Reference.hilbertDigit)
                      bb lmax levelmax ncpu ndim bk mc))]
      | none => errJson .badOp
    | some "binplan" =>
      -- C07: kernel and conversion factor `_binary_op` settles on for (operator, left unit, right unit)
      match (getStr? j "name").bind BinOp.fromString?, (getField? j "lu").bind U.fromJson?, (getField? j "ru").bind U.fromJson? with
      | some op, some lu, some ru =>
        match binaryPlan op lu ru with
        | .ok p => Json.mkObj [("np", Json.str p.npName), ("ratio", ratToJson p.ratio), ("converted", Json.bool p.converted)]
        | .error e => errJson e
      | _, _, _ => errJson .badOp
    | some "uexpr" =>
      -- C08: the unit a unit-expression tree denotes (atoms resolved by pint, composition by the model)
      match (getField? j "expr").bind UExpr.fromJson? with
      | some e => Json.mkObj [("unit", e.eval.toJson)]
      | none => errJson .badOp
    | some "consts" =>
      -- Spec oracle for C08: does a reported constant agree with the reference table?
      match getArr? j "consts" with
      | some cs =>
        let parsed := cs.mapM fun (c : Json) => do
          let name ← getStr? c "name"
          let value ← getRat? c "value"
          let unit ← getStr? c "unit"
          let aliases ← match getField? c "aliases" with
            | some (.arr a) => a.toList.mapM fun (x : Json) => match x with | .str s => some s | _ => none
            | _ => none
          pure ({ name := name, value := value, unit := unit, aliases := aliases } : Const)
        match parsed with
        | some l => Json.mkObj [
            ("each", Json.arr (l.map fun c => Json.bool (Reference.constOk c)).toArray),
            ("table", Json.bool (Reference.tableOk l)),
            ("generated", Json.arr (Generated.constants.map fun c => Json.mkObj [
                ("name", Json.str c.name), ("value", ratToJson c.value), ("unit", Json.str c.unit),
                ("aliases", Json.arr (c.aliases.map Json.str).toArray)]).toArray)]
        | none => errJson .badOp
      | none => errJson .badOp
    | _ => errJson .badOp

partial def loop (hin : IO.FS.Stream) (hout : IO.FS.Stream) : IO Unit := do
  let line ← hin.getLine
  if line.isEmpty then return ()
  let t := line.trimAscii.toString
  if t.isEmpty then loop hin hout else
  hout.putStrLn (handle t).compress
  loop hin hout

def main : IO Unit := do
  let hin ← IO.getStdin
  let hout ← IO.getStdout
  loop hin hout
  hout.flush
