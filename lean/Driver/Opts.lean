/-
Driver cases for C19 (OsyrisModel/LayerOpts.lean):
  {"engine":"opts","op":"parse","mode":"model"|"spec","what":"parse_layer"|"update","layer":L,"call":L}
      -> {"fields":{...},"kwargs":[[k,v],...]}
         model: parseLayerT / updateT on the tables extracted from the source; spec: Spec.merged
  {"engine":"opts","op":"seq","mode":"model"|"spec","res_policy":"inplace"|"copy","op_policy":"call"|"layer",
   "heap":[obj,...],"calls":[call,...]}
      -> {"steps":[{"heap":[the caller's objects after the call],"grown":n,"out":{...}},...]}
         model: runSeq on the extracted tables and the variant named in the case; spec: Spec.seq
  {"engine":"opts","op":"tables"} -> the extracted tables and whether they are complete / sound
A Layer L is {"mode":s|null,...,"weights":s|null,"kwargs":[[k,v],...]} (absent = null).
Heap objects: {"t":"layer","f":L without kwargs,"kw":addr} | {"t":"dict","d":[[k,v],...]} | {"t":"res","d":[[k,n],...]}.
A call: {"fn":"map",...,"layers":[addr],"opts":L,"res":null|n|{"ref":addr},"thick":b,"wx":q,"wy":q,"wz":q,"plot":b}.
`handleOpts` returns `none` for any other engine.
-/
import OsyrisModel.LayerOpts
open Lean Osyris

namespace Osyris.OptsDriver
open Osyris.LayerOpts

def optTok (j : Json) (k : String) : Option (Option Tok) :=
  match getField? j k with
  | none => some none
  | some .null => some none
  | some (.str s) => some (some s)
  | _ => none

def fieldsOf (j : Json) : Option Fields := do
  let mode ← optTok j "mode"
  let operation ← optTok j "operation"
  let norm ← optTok j "norm"
  let vmin ← optTok j "vmin"
  let vmax ← optTok j "vmax"
  let bins ← optTok j "bins"
  let weights ← optTok j "weights"
  pure { mode, operation, norm, vmin, vmax, bins, weights }

def pairsOf (j : Json) : Option (AL Tok) :=
  match j with
  | .arr a => a.toList.mapM fun (p : Json) => match p with
    | .arr #[.str k, .str v] => some (k, v)
    | _ => none
  | _ => none

def natPairsOf (j : Json) : Option (AL Nat) :=
  match j with
  | .arr a => a.toList.mapM fun (p : Json) => match p with
    | .arr #[.str k, v] => (jsonToNat? v).map fun n => (k, n)
    | _ => none
  | _ => none

def layerOf (j : Json) : Option Layer := do
  let f ← fieldsOf j
  let kw ← match getField? j "kwargs" with
    | none => some []
    | some .null => some []
    | some x => pairsOf x
  pure { toFields := f, kwargs := kw }

def tokToJson (o : Option Tok) : Json := match o with | some s => Json.str s | none => Json.null

def fieldsToJson (f : Fields) : Json :=
  Json.mkObj [("mode", tokToJson f.mode), ("operation", tokToJson f.operation), ("norm", tokToJson f.norm),
              ("vmin", tokToJson f.vmin), ("vmax", tokToJson f.vmax), ("bins", tokToJson f.bins),
              ("weights", tokToJson f.weights)]

def pairsToJson (d : AL Tok) : Json := Json.arr (d.map fun kv => Json.arr #[Json.str kv.1, Json.str kv.2]).toArray

def natPairsToJson (d : AL Nat) : Json :=
  Json.arr (d.map fun kv => Json.arr #[Json.str kv.1, Json.num (JsonNumber.fromNat kv.2)]).toArray

def objOf (j : Json) : Option Obj :=
  match getStr? j "t" with
  | some "layer" => do
    let f ← (getField? j "f").bind fieldsOf
    let kw ← getNat? j "kw"
    pure (.layer { toFields := f, kw := kw })
  | some "dict" => ((getField? j "d").bind pairsOf).map .dict
  | some "res" => ((getField? j "d").bind natPairsOf).map .res
  | _ => none

def objToJson : Obj → Json
  | .layer o => Json.mkObj [("t", Json.str "layer"), ("f", fieldsToJson o.toFields), ("kw", Json.num (JsonNumber.fromNat o.kw))]
  | .dict d => Json.mkObj [("t", Json.str "dict"), ("d", pairsToJson d)]
  | .res d => Json.mkObj [("t", Json.str "res"), ("d", natPairsToJson d)]

def resArgOf (j : Json) : Option ResArg :=
  match getField? j "res" with
  | none => some .default
  | some .null => some .default
  | some (.num n) => (jsonToNat? (.num n)).map .int
  | some o => (getNat? o "ref").map .ref

def callOf (j : Json) : Option PlotCall := do
  let fn ← (getStr? j "fn").bind Entry.fromString?
  let layers ← match getField? j "layers" with
    | none => some []
    | some x => jsonToNats? x
  let opts ← match getField? j "opts" with
    | none => some {}
    | some .null => some {}
    | some x => layerOf x
  let res ← resArgOf j
  let rat (k : String) : Option Rat := match getField? j k with
    | none => some 1
    | some .null => some 1
    | some x => jsonToRat? x
  let wx ← rat "wx"
  let wy ← rat "wy"
  let wz ← rat "wz"
  pure { fn, layers, opts, res, thick := (getBool? j "thick").getD false, wx, wy, wz,
         plot := (getBool? j "plot").getD false }

def natOptToJson (o : Option Nat) : Json := match o with | some n => Json.num (JsonNumber.fromNat n) | none => Json.null

def normToJson : NormOut → Json
  | .cls n vmin vmax => Json.mkObj [("cls", Json.str n), ("vmin", tokToJson vmin), ("vmax", tokToJson vmax)]
  | .object t => Json.mkObj [("obj", Json.str t)]
  | .runtimeErr => Json.str "err"

def layerOutToJson (o : LayerOut) : Json :=
  Json.mkObj [("fields", fieldsToJson o.parsed), ("norm", normToJson o.norm), ("params", pairsToJson o.params),
              ("op", tokToJson o.op)]

def outToJson (o : CallOut) : Json :=
  Json.mkObj [("err", match o.err with | some e => Json.str e.toString | none => Json.null),
              ("nx", natOptToJson o.nx), ("ny", natOptToJson o.ny), ("nz", natOptToJson o.nz),
              ("layers", Json.arr (o.layers.map layerOutToJson).toArray)]

def strs (l : List String) : Json := Json.arr (l.map Json.str).toArray

def tablesToJson (T : Tables) : Json :=
  Json.mkObj [("init", strs T.init), ("initKwargs", Json.bool T.initKwargs), ("copy", strs T.copy),
              ("copySplat", Json.bool T.copySplat), ("update", strs T.update), ("updateGuard", Json.bool T.updateGuard),
              ("parseCopies", Json.bool T.parseCopies), ("parse", strs T.parse), ("parseGuard", Json.bool T.parseGuard),
              ("forwards", Json.arr (T.forwards.map fun r =>
                 Json.arr #[Json.str r.1, strs r.2.1, Json.bool r.2.2]).toArray),
              ("complete", Json.bool T.complete), ("sound", Json.bool T.sound)]

def handle (j : Json) : Json :=
  match getStr? j "op" with
  | some "tables" => Json.mkObj [("generated", tablesToJson generatedTables), ("reference", tablesToJson referenceTables)]
  | some "parse" =>
    let parsed : Option (Bool × Bool × Layer × Layer) := do
      let md ← getStr? j "mode"
      if md != "model" && md != "spec" then none
      let what ← getStr? j "what"
      if what != "parse_layer" && what != "update" then none
      let ℓ ← (getField? j "layer").bind layerOf
      let c ← (getField? j "call").bind layerOf
      pure (md == "spec", what == "update", ℓ, c)
    match parsed with
    | none => errJson .badOp
    | some (spec, upd, ℓ, c) =>
      let r : Layer := if spec then Spec.merged ℓ c
        else if upd then updateT generatedTables ℓ c else parseLayerT generatedTables ℓ c
      Json.mkObj [("fields", fieldsToJson r.toFields), ("kwargs", pairsToJson r.kwargs)]
  | some "seq" =>
    let parsed : Option (Bool × Variant × Heap × List PlotCall) := do
      let md ← getStr? j "mode"
      if md != "model" && md != "spec" then none
      let rp ← match getStr? j "res_policy" with
        | some "inplace" => some ResPolicy.inplace
        | some "copy" => some ResPolicy.copy
        | none => if md == "spec" then some ResPolicy.copy else none
        | _ => none
      let op ← match getStr? j "op_policy" with
        | some "call" => some OpPolicy.call
        | some "layer" => some OpPolicy.layer
        | none => if md == "spec" then some OpPolicy.layer else none
        | _ => none
      let heap ← (← getArr? j "heap").mapM objOf
      let calls ← (← getArr? j "calls").mapM callOf
      pure (md == "spec", ⟨rp, op⟩, heap, calls)
    match parsed with
    | none => errJson .badOp
    | some (spec, v, heap, calls) =>
      let steps := if spec then Spec.seq heap calls else runSeq generatedTables v heap calls
      Json.mkObj [("steps", Json.arr (steps.map fun s =>
        Json.mkObj [("heap", Json.arr ((callerView heap.length s.1).map objToJson).toArray),
                    ("grown", Json.num (JsonNumber.fromNat (s.1.length - heap.length))),
                    ("out", outToJson s.2)]).toArray)]
  | _ => errJson .badOp

end Osyris.OptsDriver

/-- the C19 engine; `none` = not mine -/
def handleOpts (j : Json) : Option Json :=
  match getStr? j "engine" with
  | some "opts" => some (Osyris.OptsDriver.handle j)
  | _ => none
