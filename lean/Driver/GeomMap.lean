/-
Driver cases for the map properties C03 / C11 (OsyrisModel/MapModel.lean):
  {"engine":"map", ...}       one `osyris.map(..., plot=False)` call: model as coded + Spec
  {"engine":"mapsched", ...}  the kernel under an explicit thread schedule (small cases)
  {"engine":"mapround", ...}  Python `round` on rationals (depth count)
`handleMap` returns `none` for any other engine.

"map" request (rationals as "num/den" strings or JSON integers; integers of "centres", "sizes",
"origin" are divided by "den" when it is given):
  ndim, centres [[x,y,z]], sizes [s], layers [{"kind":"scalar","vals":[q|null]} | {"kind":"vector","vals":[[x,y,z]]}],
  origin, u, v, n, dx|null, dy|null, dz|null (unit of the positions), nx, ny, nz|null, op, diag,
  slab/radial/depth/depth2d "coded"|"sound", scale, order [idx]|null, eps, spec true|false
answer:
  model: x, y, nz, zsp, nsel, window, binned [[q|null]], mask [bool], unitPower, magsExact, slots [[first binned index, isScalar]],
         planeOk / radialOk (per loaded cell: does it pass the two pre-selection tests AS CODED), selMargin (smallest relative
         margin of a pre-selection decision), modelNear / modelAmbig (thick map without dx only: face flags of the model's own
         depth samples, which are not the Spec's)
  spec : cellvals (per cell the binned values), nz, zsp, xs, ys, per pixel: accept (cells containing a sample of the column),
         touch (cells within eps·s, only for nz = 1),
         near, lo / hi per binned layer (reduction of the per-sample minimum / maximum over the containing cells),
         ambig (some sample has two containing cells with different values), empty (no sample has a cell)
-/
import OsyrisModel.MapModel
open Lean Osyris

namespace Osyris.GeomMap
open Osyris.MapModel

def v3Of (den : Rat) (j : Json) : Option V3 :=
  match j with
  | .arr #[a, b, c] => do
    let q (t : Json) : Option Rat := match t with
      | .num _ => (jsonToRat? t).map (· / den)
      | _ => jsonToRat? t
    pure ⟨← q a, ← q b, ← q c⟩
  | _ => none

def ratOf (den : Rat) (t : Json) : Option Rat :=
  match t with
  | .num _ => (jsonToRat? t).map (· / den)
  | _ => jsonToRat? t

def optRatField (j : Json) (k : String) : Option (Option Rat) :=
  match getField? j k with
  | none => some none
  | some .null => some none
  | some v => (jsonToRat? v).map some

def optNatField (j : Json) (k : String) : Option (Option Nat) :=
  match getField? j k with
  | none => some none
  | some .null => some none
  | some v => (jsonToNat? v).map some

def selOf (j : Json) (k : String) : Option Sel :=
  match getStr? j k with
  | some "coded" => some .coded
  | some "sound" => some .sound
  | none => some .coded
  | _ => none

def valToJson (v : Val) : Json := match v with | some q => ratToJson q | none => Json.null
def valsToJson (l : List Val) : Json := Json.arr (l.map valToJson).toArray
def boolsToJson (l : List Bool) : Json := Json.arr (l.map Json.bool).toArray
def natJson (n : Nat) : Json := Json.num (JsonNumber.fromNat n)

def Fail.toString : Fail → String
  | .noCells => "noCells"
  | .zeroDepth => "zeroDepth"
  | .badGrid => "badGrid"

structure Case where
  cfg : Cfg
  layers : List LayerData
  mesh : List Cell
  order : Option (List Nat)
  eps : Rat
  spec : Bool

def parseLayer (j : Json) : Option LayerData :=
  match getStr? j "kind", getArr? j "vals" with
  | some "scalar", some vs => (vs.mapM fun (t : Json) => match t with
      | .null => some none
      | x => (jsonToRat? x).map some).map LayerData.scalar
  | some "vector", some vs => (vs.mapM (v3Of 1)).map LayerData.vector
  | _, _ => none

def parseCase (j : Json) : Option Case := do
  let ndim ← getNat? j "ndim"
  if ndim != 2 && ndim != 3 then none
  let den : Rat := ((getNat? j "den").getD 1 : Nat)
  if den == 0 then none
  let centres ← (← getArr? j "centres").mapM (v3Of den)
  let sizes ← (← getArr? j "sizes").mapM (ratOf den)
  if centres.length != sizes.length then none
  let layers ← (← getArr? j "layers").mapM parseLayer
  let bad := layers.any fun
    | .scalar v => v.length != centres.length
    | .vector w => w.length != centres.length
  if bad then none
  let o ← (getField? j "origin").bind (v3Of den)
  let u ← (getField? j "u").bind (v3Of 1)
  let v ← (getField? j "v").bind (v3Of 1)
  let n ← (getField? j "n").bind (v3Of 1)
  let dx ← optRatField j "dx"
  let dy ← optRatField j "dy"
  let dz ← optRatField j "dz"
  let nx ← getNat? j "nx"
  let ny ← getNat? j "ny"
  let nz ← optNatField j "nz"
  let op ← (getStr? j "op").bind Op.fromString?
  let diag ← getRat? j "diag"
  let slab ← selOf j "slab"
  let radial ← selOf j "radial"
  let depth ← selOf j "depth"
  let depth2d ← selOf j "depth2d"
  let scale := (getRat? j "scale").getD 1
  let order ← match getField? j "order" with
    | none => some none
    | some .null => some none
    | some o => (jsonToNats? o).map some
  let eps := (getRat? j "eps").getD ((1 : Rat) / 1000000000)
  -- a layer's own "op" (Layer(operation=...)) overrides the call-level one for its rows
  let layerJs ← getArr? j "layers"
  let rowOps : List Op := (List.zip layerJs layers).flatMap fun (p : Json × LayerData) =>
    let o := ((getStr? p.1 "op").bind Op.fromString?).getD op
    match p.2 with
    | .scalar _ => [o]
    | .vector _ => [o, o, o]
  let cfg : Cfg := { ndim, o, u, v, n, dx, dy, dz, nx, ny, nz, op, diag, slab, radial, depth, depth2d, scale, rowOps }
  let mesh : List Cell := (List.zip (List.range centres.length) (List.zip centres sizes)).map fun p =>
    { c := p.2.1, s := p.2.2, vals := binVals cfg layers p.1 }
  pure { cfg, layers, mesh, order, eps, spec := (getBool? j "spec").getD true }

/-! ### Spec evaluation -/

structure PixSpec where
  accept : List Nat
  touch : List Nat
  near : Bool
  ambig : Bool
  empty : Bool
  lo : List Val
  hi : List Val

/-- per sample: indices of containing cells, of touching cells, near-face flag -/
def classify (ndim : Nat) (eps : Rat) (mesh : Array Cell) (p : V3) : List Nat × List Nat × Bool := Id.run do
  let mut acc : List Nat := []
  let mut tch : List Nat := []
  let mut near := false
  for h : idx in [0:mesh.size] do
    let c := mesh[idx]
    -- cheap rejection on x before the full test
    let dxq := absQ (p.x - c.c.x)
    let lim := c.s / 2 + eps * c.s
    if dxq ≤ lim then
      let d := Spec.cheb ndim c p
      if d ≤ lim then
        tch := idx :: tch
        if d ≤ c.s / 2 then acc := idx :: acc
      if absQ (d - c.s / 2) ≤ eps * c.s then near := true
  return (acc.reverse, tch.reverse, near)

def optMin (l : List Val) : Val := minL (somes l)
def optMax (l : List Val) : Val := maxL (somes l)

def specPixel (cs : Case) (meshA : Array Cell) (nl : Nat) (pts : List V3) (thick : Bool) (zsp : Rat) : PixSpec :=
  let cls := pts.map (classify cs.cfg.ndim cs.eps meshA)
  let near := cls.any fun c => c.2.2
  let empty := cls.all fun c => c.1.isEmpty
  -- per layer, per sample: candidate values
  let cand (l : Nat) (c : List Nat × List Nat × Bool) : List Val := c.1.map fun i => (meshA[i]?.map fun cell => cell.vals.getD l none).getD none
  let distinct (vs : List Val) : Bool := match vs with
    | [] => false
    | a :: r => r.any (· != a)
  let ambig := (List.range nl).any fun l => cls.any fun c => distinct (cand l c)
  let red (pick : List Val → Val) (l : Nat) : Val :=
    (reduce (cs.cfg.opOf l) (cls.map fun c => pick (cand l c))).map (· * scaleFactor thick (cs.cfg.opOf l) zsp)
  match cls with
  | [one] => { accept := one.1, touch := one.2.1, near, ambig, empty,
               lo := (List.range nl).map (red optMin), hi := (List.range nl).map (red optMax) }
  | _ => { accept := (cls.flatMap fun c => c.1).eraseDups, touch := [], near, ambig, empty,
           lo := (List.range nl).map (red optMin), hi := (List.range nl).map (red optMax) }

def specJson (cs : Case) (res : Option Result) : Json :=
  let cfg := cs.cfg
  -- window of the Spec: from dx / dy / dz; when dx is not given, the window the model derived
  let win : Option Window :=
    match cfg.dx, cfg.dyEff with
    | some dx, some dy =>
      let dz := (cfg.dz).getD 0
      some ⟨-dx / 2, dx / 2, -dy / 2, dy / 2, -dz / 2, dz / 2⟩
    | _, _ => res.map fun r =>
      let g := r.grid
      let dz := (cfg.dz).getD 0
      ⟨g.xlo, g.xlo + g.xsp * (g.nx : Rat), g.ylo, g.ylo + g.ysp * (g.ny : Rat), -dz / 2, dz / 2⟩
  match win with
  | none => Json.mkObj [("err", Json.str "no-window")]
  | some w =>
    if cfg.nx = 0 ∨ cfg.ny = 0 then Json.mkObj [("err", Json.str "badGrid")] else
    let xsp := (w.xmax - w.xmin) / (cfg.nx : Rat)
    let ysp := (w.ymax - w.ymin) / (cfg.ny : Rat)
    let nzI : Int := if cfg.thick then (match cfg.nz with
      | some k => (k : Int)
      | none => depthCount (w.zmax - w.zmin) xsp ysp) else 1
    if nzI ≤ 0 then Json.mkObj [("err", Json.str "zeroDepth")] else
    let nz := nzI.toNat
    let zsp := (w.zmax - w.zmin) / (nz : Rat)
    let meshA := cs.mesh.toArray
    let nl := match cs.mesh with | [] => 0 | c :: _ => c.vals.length
    let pixels : List PixSpec := (List.range cfg.ny).flatMap fun j => (List.range cfg.nx).map fun i =>
      specPixel cs meshA nl ((List.range nz).map fun k => Spec.sample cfg w nz i j k) cfg.thick zsp
    let idxs (f : PixSpec → List Nat) : Json := Json.arr (pixels.map fun p => natsToJson (f p)).toArray
    Json.mkObj [
      ("nz", natJson nz), ("zsp", ratToJson zsp),
      ("xs", ratsToJson ((List.range cfg.nx).map fun i => Spec.centre w.xmin w.xmax cfg.nx i)),
      ("ys", ratsToJson ((List.range cfg.ny).map fun j => Spec.centre w.ymin w.ymax cfg.ny j)),
      ("cellvals", Json.arr (cs.mesh.map fun c => valsToJson c.vals).toArray),
      ("accept", idxs (·.accept)),
      ("touch", if nz == 1 then idxs (·.touch) else Json.null),
      ("near", boolsToJson (pixels.map (·.near))),
      ("ambig", boolsToJson (pixels.map (·.ambig))),
      ("empty", boolsToJson (pixels.map (·.empty))),
      ("lo", Json.arr ((List.range nl).map fun l => valsToJson (pixels.map fun p => p.lo.getD l none)).toArray),
      ("hi", Json.arr ((List.range nl).map fun l => valsToJson (pixels.map fun p => p.hi.getD l none)).toArray)]

/-- smallest relative distance of a cell from the decision boundary of a pre-selection test -/
def selMargin (cfg : Cfg) (mesh : List Cell) : Option Rat :=
  let planeM (c : Cell) : Rat :=
    let dist := absQ ((c.c.sub cfg.o).dot cfg.n)
    let lim : Rat := match cfg.dz, cfg.slab with
      | some dz, .coded => (1 : Rat) / 2 * cfg.diag * dz
      | some dz, .sound => dz / 2 + (1 : Rat) / 2 * cfg.diag * c.s
      | none, _ => (1 : Rat) / 2 * cfg.diag * c.s
    if c.s = 0 then 1 else absQ (dist - lim) / c.s
  let radM (c : Cell) : Rat :=
    match cfg.dx, cfg.dyEff, cfg.dzEff with
    | some dx, some dy, some dz =>
      let r := c.c.sub cfg.o
      let t := (1 : Rat) / 2 * c.s * cfg.diag
      let R := radialBound cfg dx dy dz
      let (q, B) : Rat × Rat := match cfg.radial with
        | .coded => ((r.x - t) * (r.x - t) + (r.y - t) * (r.y - t) + (if cfg.ndim == 3 then (r.z - t) * (r.z - t) else 0), R)
        | .sound => (r.x * r.x + r.y * r.y + (if cfg.ndim == 3 then r.z * r.z else 0), R + t)
      if B = 0 then 1 else absQ (q - B * B) / (B * B)
    | _, _, _ => 1
  minL (mesh.map fun c => minQ (planeM c) (radM c))

def handleMapCase (j : Json) : Json :=
  match parseCase j with
  | none => errJson .badOp
  | some cs =>
    let r := run cs.cfg cs.mesh cs.order
    let slots := Json.arr ((layerSlots cs.layers 0).map fun p => Json.arr #[natJson p.1, Json.bool p.2]).toArray
    -- per cell: does it pass the two pre-selection tests as coded (classification of Spec violations),
    -- and the smallest relative margin of any pre-selection decision of this run (tolerant lane)
    let codedCfg : Cfg := { cs.cfg with slab := .coded, radial := .coded }
    let planeOk := cs.mesh.map (nearPlane codedCfg)
    let radOk := match cs.cfg.dx, cs.cfg.dyEff, cs.cfg.dzEff with
      | some dx, some dy, some dz => cs.mesh.map (radialOk codedCfg dx dy dz)
      | _, _, _ => cs.mesh.map fun _ => true
    let common : List (String × Json) := [("magsExact", Json.bool (magsExact cs.cfg cs.layers)), ("slots", slots),
      ("planeOk", boolsToJson planeOk), ("radialOk", boolsToJson radOk), ("selMargin", valToJson (selMargin cs.cfg cs.mesh))]
    let model : List (String × Json) := match r with
      | .error e => [("err", Json.str (Fail.toString e))]
      | .ok res => [
          ("x", ratsToJson res.x), ("y", ratsToJson res.y),
          ("nz", natJson res.grid.nz), ("zsp", ratToJson res.grid.zsp), ("nsel", natJson res.nsel),
          ("window", ratsToJson [res.grid.xlo, res.grid.xlo + res.grid.xsp * (res.grid.nx : Rat),
                                 res.grid.ylo, res.grid.ylo + res.grid.ysp * (res.grid.ny : Rat)]),
          ("binned", Json.arr (res.binned.map valsToJson).toArray),
          ("mask", boolsToJson res.mask), ("unitPower", natJson res.unitPower),
          ("unitPowers", Json.arr (res.unitPowers.map natJson).toArray)]
    -- a thick map without dx: the model's depth samples are not the Spec's; face flags for the model's own samples
    let own : List (String × Json) := match r, cs.cfg.dx, cs.cfg.dz with
      | .ok res, none, some _ =>
        let g := res.grid
        let meshA := cs.mesh.toArray
        let nl := match cs.mesh with | [] => 0 | c :: _ => c.vals.length
        let pixels : List PixSpec := (List.range g.ny).flatMap fun jj => (List.range g.nx).map fun ii =>
          specPixel cs meshA nl ((List.range g.nz).map fun k => cs.cfg.o.add (g.pos ii jj k)) true g.zsp
        [("modelNear", boolsToJson (pixels.map (·.near))), ("modelAmbig", boolsToJson (pixels.map (·.ambig)))]
      | _, _, _ => []
    let spec : List (String × Json) :=
      if cs.spec then [("spec", specJson cs (match r with | .ok res => some res | .error _ => none))] else []
    Json.mkObj (common ++ model ++ own ++ spec)

/-! ### the kernel under a thread schedule -/

def handleSched (j : Json) : Json :=
  -- a "map" case plus "chunks": [[indices into the selected cells] per thread] and "sched": [thread ids]
  match parseCase j, getArr? j "chunks", getNats? j "sched" with
  | some cs, some chJ, some sched =>
    match chJ.mapM jsonToNats? with
    | none => errJson .badOp
    | some chIdx =>
      let cfg := cs.cfg
      let sel := select cfg cs.mesh
      let ks := (sel.map (toK cfg)).toArray
      match window cfg ks.toList with
      | none => Json.mkObj [("err", Json.str "noCells")]
      | some w =>
        match mkGrid cfg w with
        | .error e => Json.mkObj [("err", Json.str (Fail.toString e))]
        | .ok g =>
          let nl := match cs.mesh with | [] => 0 | c :: _ => c.vals.length
          let chunks : List (List KCell) := chIdx.map fun ch => ch.filterMap fun i => ks[i]?
          Json.mkObj [("sched", valsToJson (kernelSched g nl chunks sched)),
                      ("serial", valsToJson (kernel g nl chunks.flatten))]
  | _, _, _ => errJson .badOp

def handleRound (j : Json) : Json :=
  match getRats? j "qs" with
  | some qs => Json.mkObj [("round", intsToJson (qs.map roundHalfEven))]
  | none => errJson .badOp

end Osyris.GeomMap

/-- the C03 / C11 engines; `none` = not mine -/
def handleMap (j : Json) : Option Json :=
  match getStr? j "engine" with
  | some "map" => some (Osyris.GeomMap.handleMapCase j)
  | some "mapsched" => some (Osyris.GeomMap.handleSched j)
  | some "mapround" => some (Osyris.GeomMap.handleRound j)
  | _ => none
