/-
Stand-alone runner for the C05 / C18 engines (same line protocol as Driver/Main.lean).
Used until `handleGeom` is wired into the main driver, and as its fallback:
  cd /verif/lean && flock .lake.lock lake env lean --run Driver/GeomMain.lean < cases.jsonl
-/
import Driver.Geom
open Lean Osyris

def handleLine (line : String) : Json :=
  match Json.parse line with
  | .error _ => errJson .badOp
  | .ok j =>
    match handleGeom j with
    | some r => r
    | none => errJson .badOp

partial def loop (hin : IO.FS.Stream) (hout : IO.FS.Stream) : IO Unit := do
  let line ← hin.getLine
  if line.isEmpty then return ()
  let t := line.trimAscii.toString
  if t.isEmpty then loop hin hout else
  hout.putStrLn (handleLine t).compress
  loop hin hout

def main : IO Unit := do
  let hin ← IO.getStdin
  let hout ← IO.getStdout
  loop hin hout
  hout.flush
