/-
Driver cases for the geometry / kernel properties:
  {"engine":"hist", ...}   C05  (OsyrisModel/Hist.lean)
  {"engine":"basis", ...}  C18  (OsyrisModel/Basis.lean)
`handleGeom` returns `none` for any other engine.
-/
import OsyrisModel.Hist
import OsyrisModel.Basis
open Lean Osyris

namespace Osyris.Geom

/-! ### hist -/

open Osyris.Hist in
/-- a coordinate: JSON integer (divided by `den`), rational string, or "nan" / "inf" / "-inf" -/
def coordOf (den : Rat) (j : Json) : Option Hist.Coord :=
  match j with
  | .str "nan" => some .nonfinite
  | .str "inf" => some .nonfinite
  | .str "-inf" => some .nonfinite
  | .str s => (parseRat? s).map .fin
  | .num _ => (jsonToRat? j).map fun q => .fin (q / den)
  | _ => none

def valueOf (den : Rat) (j : Json) : Option Rat :=
  match j with
  | .str s => parseRat? s
  | .num _ => (jsonToRat? j).map (· / den)
  | _ => none

def optRat (j : Json) (k : String) : Option (Option Rat) :=
  match getField? j k with
  | none => some none
  | some .null => some none
  | some v => (jsonToRat? v).map some

def transpose (layers : List (List Rat)) (n : Nat) : List (List Rat) :=
  -- values[:, i] for i < n
  let arrs := layers.map List.toArray
  (List.range n).map fun i => arrs.map fun a => a.getD i 0

def ratOptToJson (o : Option Rat) : Json := match o with | some q => ratToJson q | none => Json.null

def minMargin (g : Hist.Grid) (pts : List Hist.Pt) : Option Rat :=
  pts.foldl (fun acc p =>
    let upd (acc : Option Rat) (c : Hist.Coord) (lo d : Rat) : Option Rat :=
      match c with
      | .fin q =>
        let m := Hist.edgeMargin q lo d
        match acc with
        | none => some m
        | some a => some (if m < a then m else a)
      | .nonfinite => acc
    upd (upd acc p.x g.xmin g.dx) p.y g.ymin g.dy) none

open Osyris.Hist in
def handleHist (j : Json) : Json :=
  match getStr? j "level" with
  | some "sched" =>
    -- one layer, explicit chunks of updates and an explicit schedule
    let parsed : Option (Disc × Nat × List (List Upd) × List Nat) := do
      let d ← (getStr? j "disc").bind Disc.fromString?
      let size ← getNat? j "size"
      let cj ← getArr? j "chunks"
      let chunks ← cj.mapM fun (c : Json) => match c with
        | .arr us => us.toList.mapM fun (u : Json) => match u with
          | .arr #[i, v] => do
            let i ← jsonToNat? i
            let v ← jsonToRat? v
            pure (i, v)
          | _ => none
        | _ => none
      let sched ← getNats? j "sched"
      pure (d, size, chunks, sched)
    match parsed with
    | none => errJson .badOp
    | some (d, size, chunks, sched) =>
      Json.mkObj [("img", ratsToJson (runDisc d size chunks sched)),
                  ("serial", ratsToJson (accum (zeros size) chunks.flatten))]
  | lvl =>
    let parsed : Option (Bool × Option IndexRule × List Coord × List Coord × List (List Rat) × List Operation ×
        Nat × Nat × Option Rat × Option Rat × Option Rat × Option Rat) := do
      -- "model": the rule named in the case; "spec": the Spec cell; "both": both results, nested
      let md ← getStr? j "mode"
      if md != "model" && md != "spec" && md != "both" then none
      let spec := md == "spec"
      let rule ← if spec then some none else ((getStr? j "rule").bind IndexRule.fromString?).map some
      let xden : Rat := ((getNat? j "xden").getD 1 : Nat)
      let yden : Rat := ((getNat? j "yden").getD 1 : Nat)
      let vden : Rat := ((getNat? j "vden").getD 1 : Nat)
      let xs ← (← getArr? j "xs").mapM (coordOf xden)
      let ys ← (← getArr? j "ys").mapM (coordOf yden)
      let vj ← getArr? j "values"
      let vals ← vj.mapM fun (l : Json) => match l with
        | .arr a => a.toList.mapM (valueOf vden)
        | _ => none
      let ops ← match getArr? j "ops" with
        | none => some []
        | some l => l.mapM fun (o : Json) => match o with | .str s => Operation.fromString? s | _ => none
      let nx ← getNat? j "nx"
      let ny ← getNat? j "ny"
      let xmin ← optRat j "xmin"
      let xmax ← optRat j "xmax"
      let ymin ← optRat j "ymin"
      let ymax ← optRat j "ymax"
      if xs.length != ys.length then none
      if vals.any (fun l => l.length != xs.length) then none
      pure (spec, rule, xs, ys, vals, ops, nx, ny, xmin, xmax, ymin, ymax)
    match parsed with
    | none => errJson .badOp
    | some (_, rule, xs, ys, vals, ops, nx, ny, xmin, xmax, ymin, ymax) =>
      -- kernel level: the four limits are explicit and used as they are;
      -- histogram2d level: `limits` (automatic / degenerate widening / padding)
      let lims : Option ((Rat × Rat) × (Rat × Rat)) :=
        if lvl == some "kernel" then do
          let a ← xmin; let b ← xmax; let c ← ymin; let d ← ymax
          pure ((a, b), (c, d))
        else do
          let lx ← limits xmin xmax xs
          let ly ← limits ymin ymax ys
          pure (lx, ly)
      match lims with
      | none => Json.mkObj [("err", Json.str "no-range")]
      | some ((x0, x1), (y0, y1)) =>
        let g : Grid := { xmin := x0, xmax := x1, nx := nx, ymin := y0, ymax := y1, ny := ny }
        if nx == 0 || ny == 0 || !(decide (x0 < x1)) || !(decide (y0 < y1)) then
          Json.mkObj [("err", Json.str "bad-grid"), ("xmin", ratToJson x0), ("xmax", ratToJson x1),
                      ("ymin", ratToJson y0), ("ymax", ratToJson y1)]
        else
          let cols := transpose vals xs.length
          let pts : List Pt := (List.zip xs (List.zip ys cols)).map fun p => { x := p.1, y := p.2.1, vals := p.2.2 }
          let compute (rule : Option IndexRule) : List (String × Json) :=
            let cellf : Coord → Coord → Option Nat := match rule with
              | some r => cell r g
              | none => Spec.cell g
            -- countsImg / layerImg, executed on an Array with the cells computed once:
            -- `accumArr` = `accum (zeros _)` (accumArr_eq), `updsZ` = `updsOf` (updsOf_eq_updsZ)
            let cells := pts.map fun p => cellf p.x p.y
            let counts := accumArr g.size (updsZ cells (pts.map fun _ => 1))
            let sums := (List.range vals.length).map fun l => accumArr g.size (updsZ cells (pts.map (Pt.layer l)))
            let inr := (cells.filter Option.isSome).length
            let layers := (List.zip sums ops).map fun p => finish p.2 p.1 counts
            let perPoint : List (String × Json) :=
              if getBool? j "cells" == some true then
                [("cells", Json.arr (cells.map fun (c : Option Nat) => match c with
                  | some k => Json.num (JsonNumber.fromNat k)
                  | none => Json.null).toArray)]
              else []
            [("counts", ratsToJson counts),
             ("sums", Json.arr (sums.map ratsToJson).toArray),
             ("layers", Json.arr (layers.map fun l => Json.arr (l.map ratOptToJson).toArray).toArray),
             ("inrange", Json.num (JsonNumber.fromNat inr))] ++ perPoint
          let common : List (String × Json) := [
            ("xmin", ratToJson x0), ("xmax", ratToJson x1), ("ymin", ratToJson y0), ("ymax", ratToJson y1),
            ("margin", if getBool? j "margin" == some true then ratOptToJson (minMargin g pts) else Json.null)]
          if getStr? j "mode" == some "both" then
            Json.mkObj (common ++ [("model", Json.mkObj (compute rule)), ("spec", Json.mkObj (compute none))])
          else Json.mkObj (common ++ compute rule)

/-! ### basis -/

open Osyris.Basis in
def v3Of (j : Json) : Option Basis.V3 :=
  match jsonToRats? j with
  | some [x, y, z] => some ⟨x, y, z⟩
  | _ => none

open Osyris.Basis in
def v3ToJson (v : Basis.V3) : Json := ratsToJson [v.x, v.y, v.z]

open Osyris.Basis in
def basisToJson (b : Basis.Basis) (extra : List (String × Json)) : Json :=
  Json.mkObj ([("out", Json.str "basis"), ("n", v3ToJson b.n), ("u", v3ToJson b.u), ("v", v3ToJson b.v)] ++ extra)

open Osyris.Basis in
/-- the `VectorBasis` constructor called directly: `VectorBasis(n, u)` and `VectorBasis(n).roll()` -/
def handleCtor (dj : Json) : Option Json :=
  match getStr? dj "kind" with
  | some "nu" => do
    let n ← (getField? dj "n").bind v3Of
    let u ← (getField? dj "u").bind v3Of
    pure (basisToJson (mkBasis n (some u) none) [])
  | some "roll" => do
    let n ← (getField? dj "n").bind v3Of
    pure (basisToJson (mkBasis n none none).roll [])
  | _ => none

open Osyris.Basis in
def handleBasis (j : Json) : Json :=
  match (getField? j "dir").bind handleCtor with
  | some r => r
  | none =>
  let parsed : Option (Dir × Option Cloud × Option (Rat × Rat) × Option V3) := do
    let dj ← getField? j "dir"
    let d ← match getStr? dj "kind" with
      | some "str" => (getStr? dj "s").map fun s => Dir.str s.toList
      | some "vec" => ((getField? dj "v").bind v3Of).map Dir.vec
      | some "basis" => do
        let n ← (getField? dj "n").bind v3Of
        let u ← (getField? dj "u").bind v3Of
        let v ← (getField? dj "v").bind v3Of
        pure (Dir.basis n u v)
      | some "other" => some Dir.other
      | _ => none
    let cloud ← match getField? j "cloud" with
      | none => some none
      | some .null => some none
      | some cj => do
        let pos ← (← getArr? cj "pos").mapM v3Of
        let vel ← (← getArr? cj "vel").mapM v3Of
        let mass ← getRats? cj "mass"
        pure (some ({ pos := pos, vel := vel, mass := mass } : Cloud))
    let win ← match getField? j "win" with
      | none => some none
      | some .null => some none
      | some w => match jsonToRats? w with
        | some [dx, dy] => some (some (dx, dy))
        | _ => none
    let origin ← match getField? j "origin" with
      | none => some none
      | some .null => some none
      | some o => (v3Of o).map some
    pure (d, cloud, win, origin)
  match parsed with
  | none => errJson .badOp
  | some (d, cloud, win, origin) =>
    -- Spec quantities for 'top'/'side': radius and L = Σ m (r × v)
    let specL : Option (Rat × V3) := do
      let c ← cloud
      let R ← sphereRad win c.pos
      pure (R, Spec.angMom R (rows c origin))
    let extra : List (String × Json) := match specL with
      | some (R, L) => [("R", ratToJson R), ("L", v3ToJson L)]
      | none => []
    match getDirection d cloud win origin with
    | .basis b => basisToJson b extra
    | .none => Json.mkObj [("out", Json.str "none")]
    | .valueErr => Json.mkObj [("out", Json.str "valueErr")]
    | .fails => Json.mkObj [("out", Json.str "fails")]

end Osyris.Geom

/-- the C05 / C18 engines; `none` = not mine -/
def handleGeom (j : Json) : Option Json :=
  match getStr? j "engine" with
  | some "hist" => some (Osyris.Geom.handleHist j)
  | some "basis" => some (Osyris.Geom.handleBasis j)
  | _ => none
