/-
C19 model: option precedence of `Layer` / `parse_layer` and the effect of the plotting entry
points on the objects they are given.

* `Layer`: the seven option fields as `Option`s (option values are opaque tokens) plus the
  insertion-ordered `kwargs` dictionary.  A call is the same record: the named parameters of the
  entry point and its `**kwargs`.
* `parseLayer` / `Layer.update`: as parser.py / layer.py code them (copy; `if out.f is None:
  out.f = f` per field; `kwargs.update({k: v for k, v in kwargs.items() if k not in out.kwargs})`).
  `parseLayerT` is the same algorithm driven by the tables *extracted from the source*
  (`Generated/LayerFields.lean`): a field missing from a table is not copied / not filled.
* Spec: `field = layer's value <|> call's value`; kwargs = layer's entries, then the call's
  entries for absent keys.
* Heap: Python objects live at addresses (`Layer` object = option fields + the address of its
  kwargs dict; option dicts; a resolution dict).  `parseLayerH`, `runCall` perform the stores
  the code performs (on the copy made by `Layer.copy`, on the caller's resolution dict in `map`,
  `del params["cbar"]` in render) next to the Spec `heap after = heap before`.
Core Lean only.
-/
import OsyrisModel.Basic
import OsyrisModel.Generated.LayerFields
open Lean

namespace Osyris.LayerOpts

/-- option values are opaque: "image", "log", "1/2", "mass", "obj:3" ... -/
abbrev Tok := String

/-! ### insertion-ordered dictionaries (Python `dict`) -/

abbrev AL (α : Type) := List (String × α)

def alHas {α : Type} (d : AL α) (k : String) : Bool := d.any fun kv => kv.1 == k

def alGet? {α : Type} (d : AL α) (k : String) : Option α := (d.find? fun kv => kv.1 == k).map (·.2)

/-- `d[k] = v`: an existing key keeps its position -/
def alSet {α : Type} (d : AL α) (k : String) (v : α) : AL α :=
  if alHas d k then d.map fun kv => if kv.1 == k then (k, v) else kv else d ++ [(k, v)]

/-- `del d[k]` / `d.pop(k)` -/
def alErase {α : Type} (d : AL α) (k : String) : AL α := d.filter fun kv => !(kv.1 == k)

/-- `d.update(e)` -/
def alUpdate {α : Type} (d e : AL α) : AL α := e.foldl (fun acc kv => alSet acc kv.1 kv.2) d

def alKeys {α : Type} (d : AL α) : List String := d.map (·.1)

/-! ### option fields -/

inductive Field | mode | operation | norm | vmin | vmax | bins | weights
  deriving DecidableEq, Repr, Inhabited

def Field.all : List Field := [.mode, .operation, .norm, .vmin, .vmax, .bins, .weights]

def Field.name : Field → String
  | .mode => "mode" | .operation => "operation" | .norm => "norm" | .vmin => "vmin"
  | .vmax => "vmax" | .bins => "bins" | .weights => "weights"

/-- the reference list of option fields (properties.jsonl C19) -/
def referenceFields : List String := Field.all.map Field.name

structure Fields where
  mode : Option Tok := none
  operation : Option Tok := none
  norm : Option Tok := none
  vmin : Option Tok := none
  vmax : Option Tok := none
  bins : Option Tok := none
  weights : Option Tok := none
  deriving DecidableEq, Repr, Inhabited

def Fields.get (o : Fields) : Field → Option Tok
  | .mode => o.mode | .operation => o.operation | .norm => o.norm | .vmin => o.vmin
  | .vmax => o.vmax | .bins => o.bins | .weights => o.weights

/-- a `Layer` (option part; the arrays it carries are not options) — also the shape of a call:
    named parameters + `**kwargs` -/
structure Layer extends Fields where
  kwargs : AL Tok := []
  deriving DecidableEq, Repr, Inhabited

def Layer.get (ℓ : Layer) (f : Field) : Option Tok := ℓ.toFields.get f

/-! ### what the source says: tables -/

structure Tables where
  init : List String          -- option parameters `Layer.__init__` stores
  initKwargs : Bool           -- `self.kwargs = kwargs`
  copy : List String          -- fields `Layer.copy` forwards
  copySplat : Bool            -- `**self.kwargs`
  update : List String        -- fill chain of `Layer.update`
  updateGuard : Bool          -- `if key not in self.kwargs`
  parseCopies : Bool          -- `out = layer.copy()`
  parse : List String         -- fill chain of `parse_layer`
  parseGuard : Bool           -- `if key not in out.kwargs`
  forwards : List (String × List String × Bool)   -- entry point -> options handed to parse_layer, `**kwargs`
  deriving Repr, DecidableEq

/-- tables read from /repo's working tree (regenerated on every run) -/
def generatedTables : Tables :=
  { init := Generated.layerInitFields, initKwargs := Generated.layerInitKeepsKwargs,
    copy := Generated.layerCopyFields, copySplat := Generated.layerCopyKwargsSplat,
    update := Generated.layerUpdateFields, updateGuard := Generated.layerUpdateKwargsGuarded,
    parseCopies := Generated.parseLayerCopies, parse := Generated.parseLayerFields,
    parseGuard := Generated.parseLayerKwargsGuarded, forwards := Generated.entryForwards }

/-- committed reference: every field everywhere, every guard in place -/
def referenceTables : Tables :=
  { init := referenceFields, initKwargs := true, copy := referenceFields, copySplat := true,
    update := referenceFields, updateGuard := true, parseCopies := true, parse := referenceFields,
    parseGuard := true,
    forwards := [("map", ["mode", "operation", "norm", "vmin", "vmax"], true),
                 ("histogram2d", ["mode", "operation", "norm", "vmin", "vmax"], true),
                 ("histogram1d", ["bins", "weights"], true)] }

/-- every reference field is in the list -/
def covers (l : List String) : Bool := referenceFields.all fun f => l.contains f

/-- the tables say what C19 needs: copy / update / parse_layer all handle every option field,
    parse_layer copies first, and both merges let existing keys win -/
def Tables.complete (T : Tables) : Bool :=
  covers T.init && T.initKwargs && covers T.copy && T.copySplat && covers T.update && T.updateGuard &&
  T.parseCopies && covers T.parse && T.parseGuard

/-- complete, and every entry point hands the documented call-level options to `parse_layer` -/
def Tables.sound (T : Tables) : Bool := T.complete && (T.forwards == referenceTables.forwards)

/-! ### the algorithm, as coded -/

/-- one link of the chain `if out.f is None: out.f = f` (`on`: the chain has a link for this field) -/
def fillOpt (on : Bool) (own call : Option Tok) : Option Tok :=
  if on then (match own with | some v => some v | none => call) else own

def Fields.fill (fs : List String) (own call : Fields) : Fields :=
  { mode := fillOpt (fs.contains "mode") own.mode call.mode,
    operation := fillOpt (fs.contains "operation") own.operation call.operation,
    norm := fillOpt (fs.contains "norm") own.norm call.norm,
    vmin := fillOpt (fs.contains "vmin") own.vmin call.vmin,
    vmax := fillOpt (fs.contains "vmax") own.vmax call.vmax,
    bins := fillOpt (fs.contains "bins") own.bins call.bins,
    weights := fillOpt (fs.contains "weights") own.weights call.weights }

/-- a field reaches the copy only if `copy` forwards it and `__init__` stores it -/
def keepOpt (on : Bool) (v : Option Tok) : Option Tok := if on then v else none

def Fields.forward (T : Tables) (o : Fields) : Fields :=
  let on (f : String) : Bool := T.copy.contains f && T.init.contains f
  { mode := keepOpt (on "mode") o.mode, operation := keepOpt (on "operation") o.operation,
    norm := keepOpt (on "norm") o.norm, vmin := keepOpt (on "vmin") o.vmin,
    vmax := keepOpt (on "vmax") o.vmax, bins := keepOpt (on "bins") o.bins,
    weights := keepOpt (on "weights") o.weights }

def copyKwargs (T : Tables) (d : AL Tok) : AL Tok := if T.copySplat && T.initKwargs then d else []

/-- `out.kwargs.update({k: v for k, v in kwargs.items() if k not in out.kwargs})` -/
def mergeKw (guard : Bool) (own call : AL Tok) : AL Tok :=
  alUpdate own (if guard then call.filter fun kv => !alHas own kv.1 else call)

/-- `Layer.copy` (value) -/
def Layer.copyT (T : Tables) (ℓ : Layer) : Layer :=
  { toFields := ℓ.toFields.forward T, kwargs := copyKwargs T ℓ.kwargs }

/-- `parse_layer(layer, **call)` driven by the extracted tables (value returned) -/
def parseLayerT (T : Tables) (ℓ c : Layer) : Layer :=
  let out := if T.parseCopies then ℓ.copyT T else ℓ
  { toFields := out.toFields.fill T.parse c.toFields, kwargs := mergeKw T.parseGuard out.kwargs c.kwargs }

/-- `layer.update(**call)` driven by the extracted tables (new state of `layer`) -/
def updateT (T : Tables) (ℓ c : Layer) : Layer :=
  { toFields := ℓ.toFields.fill T.update c.toFields, kwargs := mergeKw T.updateGuard ℓ.kwargs c.kwargs }

/-- `Layer.copy` as layer.py codes it -/
def Layer.copy (ℓ : Layer) : Layer :=
  { mode := ℓ.mode, operation := ℓ.operation, norm := ℓ.norm, vmin := ℓ.vmin, vmax := ℓ.vmax,
    bins := ℓ.bins, weights := ℓ.weights, kwargs := ℓ.kwargs }

def orCall (own call : Option Tok) : Option Tok := match own with | some v => some v | none => call

/-- `parse_layer` as parser.py codes it -/
def parseLayer (ℓ c : Layer) : Layer :=
  let out := ℓ.copy
  { mode := orCall out.mode c.mode, operation := orCall out.operation c.operation,
    norm := orCall out.norm c.norm, vmin := orCall out.vmin c.vmin, vmax := orCall out.vmax c.vmax,
    bins := orCall out.bins c.bins, weights := orCall out.weights c.weights,
    kwargs := alUpdate out.kwargs (c.kwargs.filter fun kv => !alHas out.kwargs kv.1) }

/-- `Layer.update` as layer.py codes it (the new state of `self`) -/
def Layer.update (ℓ c : Layer) : Layer :=
  { mode := orCall ℓ.mode c.mode, operation := orCall ℓ.operation c.operation,
    norm := orCall ℓ.norm c.norm, vmin := orCall ℓ.vmin c.vmin, vmax := orCall ℓ.vmax c.vmax,
    bins := orCall ℓ.bins c.bins, weights := orCall ℓ.weights c.weights,
    kwargs := alUpdate ℓ.kwargs (c.kwargs.filter fun kv => !alHas ℓ.kwargs kv.1) }

/-! ### Spec -/

namespace Spec

/-- an option set on the layer wins; the call's value applies only where the layer leaves it unset -/
def field (ℓ c : Layer) (f : Field) : Option Tok := ℓ.get f <|> c.get f

/-- the layer's extra options first, the call's only for keys the layer does not have -/
def kwargs (own call : AL Tok) : AL Tok := own ++ call.filter fun kv => !alHas own kv.1

def merged (ℓ c : Layer) : Layer :=
  { mode := field ℓ c .mode, operation := field ℓ c .operation, norm := field ℓ c .norm,
    vmin := field ℓ c .vmin, vmax := field ℓ c .vmax, bins := field ℓ c .bins,
    weights := field ℓ c .weights, kwargs := kwargs ℓ.kwargs c.kwargs }

end Spec

/-! ### `get_norm` -/

inductive NormOut
  | cls (name : String) (vmin vmax : Option Tok)   -- a new Normalize / LogNorm / SymLogNorm
  | object (tok : Tok)                             -- a norm object is passed through
  | runtimeErr
  deriving DecidableEq, Repr, Inhabited

/-- `get_norm(norm, vmin, vmax)`; tokens starting with "obj:" stand for non-string objects -/
def getNorm (norm vmin vmax : Option Tok) : NormOut :=
  match norm with
  | none => .cls "Normalize" vmin vmax
  | some s =>
    if s.startsWith "obj:" then .object s else
    match s.toLower with
    | "log" => .cls "LogNorm" vmin vmax
    | "symlog" => .cls "SymLogNorm" vmin vmax
    | "linear" => .cls "Normalize" vmin vmax
    | _ => .runtimeErr

def NormOut.tok : NormOut → Tok
  | .cls n _ _ => "new:" ++ n
  | .object t => t
  | .runtimeErr => "err"

/-! ### the heap of argument objects -/

/-- a Layer object: its option fields and the address of its kwargs dict -/
structure LObj extends Fields where
  kw : Nat
  deriving DecidableEq, Repr, Inhabited

inductive Obj
  | layer (o : LObj)
  | dict (d : AL Tok)          -- a kwargs / option dictionary
  | res (d : AL Nat)           -- a resolution dictionary
  deriving DecidableEq, Repr, Inhabited

abbrev Heap := List Obj

def alloc (h : Heap) (o : Obj) : Heap × Nat := (h ++ [o], h.length)

def layerAt (h : Heap) (a : Nat) : Option LObj := match h[a]? with | some (.layer o) => some o | _ => none
def dictAt (h : Heap) (a : Nat) : Option (AL Tok) := match h[a]? with | some (.dict d) => some d | _ => none
def resAt (h : Heap) (a : Nat) : Option (AL Nat) := match h[a]? with | some (.res d) => some d | _ => none

/-- the value of the Layer object at `a` -/
def readLayer (h : Heap) (a : Nat) : Option Layer :=
  match layerAt h a with
  | none => none
  | some o => match dictAt h o.kw with
    | none => none
    | some d => some { toFields := o.toFields, kwargs := d }

/-- `Layer.copy` on the heap: a new Layer object whose kwargs dict is a new dict (`**self.kwargs`) -/
def copyH (T : Tables) (h : Heap) (a : Nat) : Option (Heap × Nat) :=
  match readLayer h a with
  | none => none
  | some ℓ =>
    let h1 := h ++ [Obj.dict (copyKwargs T ℓ.kwargs)]
    some (h1 ++ [Obj.layer { toFields := ℓ.toFields.forward T, kw := h.length }], h.length + 1)

/-- the stores of `parse_layer` after the copy: the fill chain and the kwargs merge, on object `b` -/
def fillH (T : Tables) (h : Heap) (b : Nat) (c : Layer) : Option Heap :=
  match layerAt h b with
  | none => none
  | some o => match dictAt h o.kw with
    | none => none
    | some d =>
      some ((h.set b (.layer { o with toFields := o.toFields.fill T.parse c.toFields })).set o.kw
        (.dict (mergeKw T.parseGuard d c.kwargs)))

/-- `parse_layer` on the heap: returns the new heap and the address of the object it returns -/
def parseLayerH (T : Tables) (h : Heap) (a : Nat) (c : Layer) : Option (Heap × Nat) :=
  if T.parseCopies then
    match copyH T h a with
    | none => none
    | some (h1, b) => (fillH T h1 b c).map fun h2 => (h2, b)
  else (fillH T h a c).map fun h2 => (h2, a)

/-- `layer.update(**call)` on the heap (in place, by design) -/
def updateH (T : Tables) (h : Heap) (a : Nat) (c : Layer) : Option Heap :=
  match layerAt h a with
  | none => none
  | some o => match dictAt h o.kw with
    | none => none
    | some d =>
      some ((h.set a (.layer { o with toFields := o.toFields.fill T.update c.toFields })).set o.kw
        (.dict (mergeKw T.updateGuard d c.kwargs)))

/-! ### the plotting entry points -/

inductive Entry | map | histogram2d | histogram1d | scatter | plot
  deriving DecidableEq, Repr, Inhabited

def Entry.name : Entry → String
  | .map => "map" | .histogram2d => "histogram2d" | .histogram1d => "histogram1d"
  | .scatter => "scatter" | .plot => "plot"

def Entry.fromString? : String → Option Entry
  | "map" => some .map | "histogram2d" => some .histogram2d | "histogram1d" => some .histogram1d
  | "scatter" => some .scatter | "plot" => some .plot | _ => none

/-- how the `resolution` argument is given -/
inductive ResArg
  | default              -- not passed
  | int (n : Nat)
  | ref (a : Nat)        -- a dict owned by the caller
  deriving DecidableEq, Repr, Inhabited

/-- what `map` does with a caller's resolution dict -/
inductive ResPolicy | inplace | copy
  deriving DecidableEq, Repr, Inhabited

/-- where `map` takes the depth reduction from -/
inductive OpPolicy | call | layer
  deriving DecidableEq, Repr, Inhabited

structure Variant where
  res : ResPolicy
  op : OpPolicy
  deriving DecidableEq, Repr, Inhabited

/-- plot/map.py as it is on the unchanged tree -/
def Variant.asFound : Variant := ⟨.inplace, .call⟩
/-- the repaired behaviour -/
def Variant.repaired : Variant := ⟨.copy, .layer⟩

structure PlotCall where
  fn : Entry
  layers : List Nat            -- addresses of the Layer objects handed in
  opts : Layer := {}           -- call-level options as the caller wrote them (passed by value: `**`)
  res : ResArg := .default
  thick : Bool := false        -- `dz` given
  wx : Rat := 1                -- xmax - xmin
  wy : Rat := 1                -- ymax - ymin
  wz : Rat := 1                -- zmax - zmin
  plot : Bool := false
  deriving Repr, Inhabited

/-- defaults of the signatures: `operation="sum"` (map, histogram2d), `bins=50` (histogram1d) -/
def callDefaults : Entry → Fields
  | .map => { operation := some "sum" }
  | .histogram2d => { operation := some "sum" }
  | .histogram1d => { bins := some "50" }
  | _ => {}

/-- the call-level options that reach `parse_layer`: those the entry point forwards by keyword
    (after its own defaults), and `**kwargs` -/
def effectiveCall (T : Tables) (fn : Entry) (c : Layer) : Layer :=
  match T.forwards.find? fun r => r.1 == fn.name with
  | none => {}
  | some (_, fs, splat) =>
    let withDef : Fields := c.toFields.fill referenceFields (callDefaults fn)
    let on (f : String) : Bool := fs.contains f
    { mode := keepOpt (on "mode") withDef.mode, operation := keepOpt (on "operation") withDef.operation,
      norm := keepOpt (on "norm") withDef.norm, vmin := keepOpt (on "vmin") withDef.vmin,
      vmax := keepOpt (on "vmax") withDef.vmax, bins := keepOpt (on "bins") withDef.bins,
      weights := keepOpt (on "weights") withDef.weights,
      kwargs := if splat then c.kwargs else [] }

/-- Python's `round` on an exact value: ties to even -/
def pyRound (q : Rat) : Int :=
  let f := q.floor
  let r := q - (f : Rat)
  if r < 1/2 then f else if 1/2 < r then f + 1 else if f % 2 == 0 then f else f + 1

/-- `round((zmax - zmin) / (0.5 * (xspacing + yspacing)))` -/
def depthResolution (wx wy wz : Rat) (nx ny : Nat) : Nat :=
  (pyRound (wz / ((1/2 : Rat) * (wx / (nx : Rat) + wy / (ny : Rat))))).toNat

def defaultResolution : Nat := 256

/-- what one layer of the returned `Plot` shows -/
structure LayerOut where
  parsed : Fields           -- option fields of the Layer returned by parse_layer
  norm : NormOut
  params : AL Tok           -- `Plot.layers[k]["params"]` (the norm entry holds `NormOut.tok`)
  op : Option Tok           -- the reduction applied to this layer's data
  deriving DecidableEq, Repr, Inhabited

structure CallOut where
  err : Option Err := none
  nx : Option Nat := none
  ny : Option Nat := none
  nz : Option Nat := none
  layers : List LayerOut := []
  deriving DecidableEq, Repr, Inhabited

/-- the stores `map` performs on the resolution dict it works with, and the resolution it then uses:
    `for xy in "xy": if xy not in resolution: resolution[xy] = default`; for thick maps
    `if "z" not in resolution: resolution["z"] = round(...)` -/
def normaliseRes (c : PlotCall) (d : AL Nat) : AL Nat × Option (Nat × Nat × Option Nat) :=
  let d1 := if alHas d "x" then d else alSet d "x" defaultResolution
  let d2 := if alHas d1 "y" then d1 else alSet d1 "y" defaultResolution
  match alGet? d2 "x", alGet? d2 "y" with
  | some nx, some ny =>
    if c.thick then
      let d3 := if alHas d2 "z" then d2 else alSet d2 "z" (depthResolution c.wx c.wy c.wz nx ny)
      (d3, some (nx, ny, alGet? d3 "z"))
    else (d2, some (nx, ny, none))
  | _, _ => (d2, none)

/-- resolution handling of `map`: (heap, nx, ny, nz) -/
def mapResolution (v : ResPolicy) (h : Heap) (c : PlotCall) : Heap × Option (Nat × Nat × Option Nat) :=
  match c.res with
  | .default => (h, (normaliseRes c [("x", defaultResolution), ("y", defaultResolution)]).2)
  | .int n => (h, (normaliseRes c [("x", n), ("y", n)]).2)
  | .ref a =>
    match resAt h a with
    | none => (h, none)
    | some d =>
      match v with
      | .inplace => (h.set a (.res (normaliseRes c d).1), (normaliseRes c d).2)   -- stores go to the caller's dict
      | .copy => (h ++ [Obj.res (normaliseRes c d).1], (normaliseRes c d).2)      -- stores go to a private copy

/-- `get_norm(norm=layer.norm, vmin=layer.vmin, vmax=layer.vmax)` (map, histogram2d); histogram1d builds none -/
def normOf (withNorm : Bool) (ℓ : Layer) : NormOut :=
  if withNorm then getNorm ℓ.norm ℓ.vmin ℓ.vmax else .cls "" none none

/-- `layer.kwargs.update(norm=...)` on the Layer object at `b` -/
def storeNorm (withNorm : Bool) (h : Heap) (b : Nat) (n : NormOut) : Heap :=
  if withNorm then
    match layerAt h b with
    | some o => match dictAt h o.kw with
      | some d => h.set o.kw (.dict (alSet d "norm" n.tok))
      | none => h
    | none => h
  else h

/-- per layer: parse_layer, then the norm store on the returned object.
    Result: heap, and per layer (address of the parsed Layer, its norm) — or the first error. -/
def parseAll (T : Tables) (withNorm : Bool) (c : Layer) :
    Heap → List Nat → Heap × Except Err (List (Nat × NormOut))
  | h, [] => (h, .ok [])
  | h, a :: rest =>
    match parseLayerH T h a c with
    | none => (h, .error .typeErr)          -- not a Layer
    | some (h1, b) =>
      match readLayer h1 b with
      | none => (h1, .error .typeErr)
      | some ℓ =>
        if normOf withNorm ℓ == .runtimeErr then (h1, .error .runtimeErr) else
        match parseAll T withNorm c (storeNorm withNorm h1 b (normOf withNorm ℓ)) rest with
        | (h3, .ok l) => (h3, .ok ((b, normOf withNorm ℓ) :: l))
        | (h3, .error e) => (h3, .error e)

/-- render: `if "cbar" in item["params"]: del item["params"]["cbar"]` on each item's params dict -/
def popCbar (d : AL Tok) : AL Tok := if alHas d "cbar" then alErase d "cbar" else d

def renderPops : Heap → List Nat → Heap
  | h, [] => h
  | h, b :: rest =>
    let h1 := match layerAt h b with
      | some o => match dictAt h o.kw with
        | some d => h.set o.kw (.dict (popCbar d))
        | none => h
      | none => h
    renderPops h1 rest

/-- what the returned Plot shows per layer: read back from the objects the Plot refers to -/
def layerOuts (h : Heap) (ops : Layer → Option Tok) : List (Nat × NormOut) → List LayerOut
  | [] => []
  | (b, n) :: rest =>
    (match readLayer h b with
     | some ℓ => [{ parsed := ℓ.toFields, norm := n, params := ℓ.kwargs, op := ops ℓ }]
     | none => []) ++ layerOuts h ops rest

/-- histogram2d: `nx = resolution["x"]; ny = resolution["y"]` (a KeyError for a missing key), before anything else -/
def hist2dResolution (h : Heap) (c : PlotCall) : Option (Nat × Nat) :=
  match c.res with
  | .default => some (defaultResolution, defaultResolution)
  | .int n => some (n, n)
  | .ref a => match resAt h a with
    | some d => match alGet? d "x", alGet? d "y" with
      | some nx, some ny => some (nx, ny)
      | _, _ => none
    | none => none

/-- one plotting call, as coded: the new heap and what the returned Plot shows -/
def runCall (T : Tables) (v : Variant) (h : Heap) (c : PlotCall) : Heap × CallOut :=
  let eff := effectiveCall T c.fn c.opts
  match c.fn with
  | .map =>
    match parseAll T true eff h c.layers with
    | (h1, .error e) => (h1, { err := some e })
    | (h1, .ok ps) =>
      match mapResolution v.res h1 c with
      | (h2, none) => (h2, { err := some .keyErr })
      | (h2, some (nx, ny, nz)) =>
        let h3 := if c.plot then renderPops h2 (ps.map (·.1)) else h2
        let callOp : Option Tok := orCall c.opts.operation (callDefaults .map).operation
        let ops (ℓ : Layer) : Option Tok := match v.op with | .call => callOp | .layer => ℓ.operation
        (h3, { nx := some nx, ny := some ny, nz := nz, layers := layerOuts h3 ops ps })
  | .histogram2d =>
    match hist2dResolution h c with
    | none => (h, { err := some .keyErr })
    | some (nx, ny) =>
      match parseAll T true eff h c.layers with
      | (h1, .error e) => (h1, { err := some e })
      | (h1, .ok ps) =>
        let h2 := if c.plot then renderPops h1 (ps.map (·.1)) else h1
        (h2, { nx := some nx, ny := some ny, layers := layerOuts h2 (fun ℓ => ℓ.operation) ps })
  | .histogram1d =>
    match parseAll T false eff h c.layers with
    | (h1, .error e) => (h1, { err := some e })
    | (h1, .ok ps) => (h1, { layers := layerOuts h1 (fun _ => none) ps })
  | .scatter =>
    -- `params = {k: v for k, v in kwargs.items() if k not in ["c", "s"]}`: a new dict; render pops cbar from it
    let params := c.opts.kwargs.filter fun kv => !(kv.1 == "c" || kv.1 == "s")
    let shown := alErase params "cbar"
    (h ++ [Obj.dict shown],
     { layers := [{ parsed := {}, norm := .cls "" none none, params := shown, op := none }] })
  | .plot =>
    -- `"params": {**kwargs}`: a new dict per line
    (h ++ [Obj.dict c.opts.kwargs],
     { layers := [{ parsed := {}, norm := .cls "" none none, params := c.opts.kwargs, op := none }] })

/-- a sequence of calls sharing the heap: heap after each call and what each call returned -/
def runSeq (T : Tables) (v : Variant) : Heap → List PlotCall → List (Heap × CallOut)
  | _, [] => []
  | h, c :: rest =>
    let r := runCall T v h c
    r :: runSeq T v r.1 rest

namespace Spec

/-- the resolution a call uses, read from what the caller passed (never written) -/
def resolution (h : Heap) (c : PlotCall) : Option (Nat × Nat × Option Nat) :=
  let d? : Option (AL Nat) := match c.res with
    | .default => some []
    | .int n => some [("x", n), ("y", n)]
    | .ref a => resAt h a
  match d? with
  | none => none
  | some d =>
    match c.fn with
    | .map =>
      let nx := (alGet? d "x").getD defaultResolution
      let ny := (alGet? d "y").getD defaultResolution
      some (nx, ny, if c.thick then some ((alGet? d "z").getD (depthResolution c.wx c.wy c.wz nx ny)) else none)
    | _ =>
      match c.res, alGet? d "x", alGet? d "y" with
      | .default, _, _ => some (defaultResolution, defaultResolution, none)
      | _, some nx, some ny => some (nx, ny, none)
      | _, _, _ => none

/-- what one layer of the result shows: the merged options, the norm built from them, the extra
    options (with the norm entry; without `cbar` once rendered), the layer's own reduction -/
def layerOut (withNorm plot : Bool) (eff ℓ : Layer) : LayerOut :=
  let m := merged ℓ eff
  let n := if withNorm then getNorm m.norm m.vmin m.vmax else .cls "" none none
  let kw := if withNorm then alSet m.kwargs "norm" n.tok else m.kwargs
  { parsed := m.toFields, norm := n, params := if plot then popCbar kw else kw,
    op := if withNorm then m.operation else none }

def layerOuts (withNorm plot : Bool) (eff : Layer) (h : Heap) : List Nat → Except Err (List LayerOut)
  | [] => .ok []
  | a :: rest =>
    match readLayer h a with
    | none => .error .typeErr
    | some ℓ =>
      let o := layerOut withNorm plot eff ℓ
      if o.norm == .runtimeErr then .error .runtimeErr else
      match layerOuts withNorm plot eff h rest with
      | .ok l => .ok (o :: l)
      | .error e => .error e

/-- Spec of one call: nothing the caller owns changes; the result is a function of the caller's
    objects as they are at call time -/
def call (h : Heap) (c : PlotCall) : Heap × CallOut :=
  let eff := effectiveCall referenceTables c.fn c.opts
  let out : CallOut := match c.fn with
    | .map =>
      match layerOuts true c.plot eff h c.layers with
      | .error e => { err := some e }
      | .ok ls => match resolution h c with
        | none => { err := some .keyErr }
        | some (nx, ny, nz) => { nx := some nx, ny := some ny, nz := nz, layers := ls }
    | .histogram2d =>
      match resolution h c with
      | none => { err := some .keyErr }
      | some (nx, ny, _) =>
        match layerOuts true c.plot eff h c.layers with
        | .error e => { err := some e }
        | .ok ls => { nx := some nx, ny := some ny, layers := ls }
    | .histogram1d =>
      match layerOuts false false eff h c.layers with
      | .error e => { err := some e }
      | .ok ls => { layers := ls }
    | .scatter =>
      let shown := alErase (c.opts.kwargs.filter fun kv => !(kv.1 == "c" || kv.1 == "s")) "cbar"
      { layers := [{ parsed := {}, norm := .cls "" none none, params := shown, op := none }] }
    | .plot => { layers := [{ parsed := {}, norm := .cls "" none none, params := c.opts.kwargs, op := none }] }
  (h, out)

def seq (h : Heap) (cs : List PlotCall) : List (Heap × CallOut) := cs.map (call h)

end Spec

/-- the caller's part of a heap: the first `n` objects -/
def callerView (n : Nat) (h : Heap) : Heap := h.take n

end Osyris.LayerOpts
