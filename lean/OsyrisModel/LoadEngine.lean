/-
Driver engine "loader": from an abstract Output and a normalised load request compute
 * model: what the loader model returns on the files `encode` writes (values scaled with the
   *generated* units library),
 * spec : the leaf cells of the (truncated) tree, filtered, scaled with the *reference* library,
 * the record skeleton and payload checksums of the encoded files (to diff against the Python writer),
 * the loader's read requests per file (to diff against the real loader's read trace).
-/
import OsyrisModel.Loader
import OsyrisModel.Generated.UnitsLib
import OsyrisModel.Hilbert
open Lean

namespace Osyris.LoadEngine
open Osyris.Ramses Osyris.Loader

structure Request where
  meshOn : Bool
  partOn : Bool
  meshVars : Option (List String)     -- list form: only these are read (no conditions)
  partVars : Option (List String)
  preds : List Pred                   -- dict form: conditions (all variables read)
  cpuList : Option (List Nat)
  deriving Repr, Inhabited

def Request.fromJson? (j : Json) : Option Request := do
  let strs (k : String) : Option (Option (List String)) :=
    match getField? j k with
    | none => some none
    | some .null => some none
    | some (.arr a) => (a.toList.mapM fun (e : Json) => match e with | .str s => some s | _ => none).map some
    | _ => none
  let predsJ := (getArr? j "preds").getD []
  let preds ← predsJ.mapM fun (p : Json) => do
    pure ({ var := ← getStr? p "var", op := ← getStr? p "op", value := ← getRat? p "value" } : Pred)
  let cpuList : Option (List Nat) := match getField? j "cpu_list" with
    | some (.arr a) => a.toList.mapM jsonToNat?
    | _ => none
  pure { meshOn := (getBool? j "mesh_on").getD true, partOn := (getBool? j "part_on").getD true,
         meshVars := ← strs "mesh_vars", partVars := ← strs "part_vars", preds := preds, cpuList := cpuList }

/-- scale information of one variable: rational factor applied, or the exponents left to the harness -/
structure Scale where
  factor : Rat                -- applied to the values
  pending : Option LibEntry   -- irrational magnitude (sqrt): exponents for the harness
  label : Sym
  deriving Repr, Inhabited

def scaleOf (lib : List LibEntry) (o : Output) (name : String) : Scale :=
  match libLookup lib name with
  | none => ⟨1, none, []⟩
  | some en =>
    match en.ratFactor o.unitD o.unitL o.unitT with
    | some f => ⟨f, none, en.label⟩
    | none => ⟨1, some en, en.label⟩

def readFlag (sel : Option (List String)) (name : String) : Bool :=
  match sel with
  | none => true
  | some l => l.contains name

/-- `find_max_amr_level`: the largest level every level condition accepts -/
def lmaxOf (o : Output) (preds : List Pred) : Nat :=
  let lp := preds.filter (·.var == "level")
  if lp.isEmpty then o.levelmax else
  ((List.range o.levelmax).map (· + 1)).foldl (fun (acc : Nat) (l : Nat) => if lp.all (fun p => p.eval ((l : Nat) : Rat)) then l else acc) 0

def amrVarNames (o : Output) : List (String × Ty) :=
  [("level", Ty.i), ("cpu", Ty.i), ("dx", Ty.d)] ++ (["x", "y", "z"].take o.ndim).map fun c => ("position_" ++ c, Ty.d)

def gravVarNames (o : Output) : List (String × Ty) :=
  [("grav_potential", Ty.d)] ++ (["x", "y", "z"].take o.ndim).map fun c => ("grav_acceleration_" ++ c, Ty.d)

def mkCase (lib : List LibEntry) (o : Output) (rq : Request) : Case :=
  let vs (l : List (String × Ty)) (sel : Option (List String)) : List VarSpec :=
    l.map fun p => ⟨p.1, p.2, readFlag sel p.1, (scaleOf lib o p.1).factor⟩
  let cpus := (List.range o.ncpu).map (· + 1)
  let readers : List MeshReader :=
    [⟨"hydro", vs o.hydroVars rq.meshVars, cpus.map (varFile o .hydro)⟩] ++
    (if o.hasGrav then [⟨"grav", vs (gravVarNames o) rq.meshVars, cpus.map (varFile o .grav)⟩] else []) ++
    (if o.rtVars.isEmpty then [] else [⟨"rt", vs o.rtVars rq.meshVars, cpus.map (varFile o .rt)⟩])
  { ncpu := o.ncpu, ndim := o.ndim, levelmax := o.levelmax, lmax := lmaxOf o rq.preds, boxlen := o.boxlen,
    amrVars := vs (amrVarNames o) rq.meshVars,
    amrFiles := cpus.map (amrFile o),
    meshReaders := if rq.meshOn then readers else [],
    partVars := match o.part with | some p => vs p.descriptor rq.partVars | none => [],
    partFiles := match o.part with
      | some p => if rq.partOn then cpus.map (partFile o p) else []
      | none => [],
    meshOn := rq.meshOn,
    preds := rq.preds,
    cpuList := match rq.cpuList with
      | some l => l
      | none =>
        -- `AmrReader.initialize` runs the Hilbert pre-selection only when the mesh group is loaded
        if !rq.meshOn then cpus else
        match Hilbert.hilbertCpuList Hilbert.Generated.table o.ordering rq.preds (o.boxlen * (scaleOf lib o "x").factor)
            o.levelmax (lmaxOf o rq.preds) o.ncpu o.ndim (o.boundKeys.map fun q => q.floor.toNat) (!rq.preds.isEmpty)
            (minCube := o.levelmin) with
        | some l => l
        | none => cpus }

/-! ### Spec: leaves of the truncated tree -/

def bitOf (ind k : Nat) : Nat := (ind / 2 ^ k) % 2

/-- one row per leaf cell of the tree truncated at `lmax`; columns in code units, scaled by
    the reference library's rational factors -/
def leafCols (o : Output) (rq : Request) : List (String × List Rat) :=
  let lmax := lmaxOf o rq.preds
  let xb (k : Nat) : Rat := ((o.nxOf k / 2 : Nat) : Rat)
  let sc (n : String) : Rat := (scaleOf Reference.unitsLib o n).factor
  let cells : List (Oct × Nat) := o.octs.flatMap fun oc =>
    if oc.owner ≤ o.ncpu && oc.level ≤ lmax then
      (List.range o.twotondim).filterMap fun ind =>
        if oc.sons.getD ind 0 == 0 || oc.level == lmax then some (oc, ind) else none
    else []
  let names : List (String × (Oct × Nat → Rat)) :=
    [("level", fun p => ((p.1.level : Nat) : Rat)), ("cpu", fun p => ((p.1.owner : Nat) : Rat)),
     ("dx", fun p => (1 / 2 : Rat) ^ p.1.level * o.boxlen * sc "dx")] ++
    ((List.range o.ndim).map fun k =>
      ("position_" ++ (["x", "y", "z"].getD k "?"), fun (p : Oct × Nat) =>
        (p.1.centre.getD k 0 + (((bitOf p.2 k : Nat) : Rat) - 1 / 2) * (1 / 2 : Rat) ^ p.1.level - xb k) * o.boxlen *
          sc ("position_" ++ (["x", "y", "z"].getD k "?")))) ++
    ((List.zip (List.range o.hydroVars.length) o.hydroVars).map fun (iv : Nat × (String × Ty)) =>
      (iv.2.1, fun (p : Oct × Nat) => ((p.1.hydro.getD p.2 []).getD iv.1 0) * sc iv.2.1)) ++
    (if o.hasGrav then (List.zip (List.range (1 + o.ndim)) (gravVarNames o)).map fun (iv : Nat × (String × Ty)) =>
      (iv.2.1, fun (p : Oct × Nat) => ((p.1.grav.getD p.2 []).getD iv.1 0) * sc iv.2.1) else []) ++
    ((List.zip (List.range o.rtVars.length) o.rtVars).map fun (iv : Nat × (String × Ty)) =>
      (iv.2.1, fun (p : Oct × Nat) => ((p.1.rt.getD p.2 []).getD iv.1 0) * sc iv.2.1))
  let keep (p : Oct × Nat) : Bool := rq.preds.all fun pr =>
    ((names.find? (fun (nm : String × (Oct × Nat → Rat)) => nm.1 == pr.var)).map
      (fun (nm : String × (Oct × Nat → Rat)) => pr.eval (nm.2 p))).getD true
  let kept := cells.filter keep
  (names.filter fun (nm : String × (Oct × Nat → Rat)) => readFlag rq.meshVars nm.1).map fun (nm : String × (Oct × Nat → Rat)) => (nm.1, kept.map nm.2)

def specPart (o : Output) (rq : Request) : List (String × List Rat) :=
  match o.part with
  | none => []
  | some p =>
    if !rq.partOn then [] else
    let cpus := rq.cpuList.getD ((List.range o.ncpu).map (· + 1))
    (List.zip (List.range p.descriptor.length) p.descriptor).filterMap fun (iv : Nat × (String × Ty)) =>
      if readFlag rq.partVars iv.2.1 then
        some (iv.2.1, cpus.flatMap fun c =>
          (((p.perCpu.getD (c - 1) default).cols.getD iv.1 []).map (· * (scaleOf Reference.unitsLib o iv.2.1).factor)))
      else none

def mergesJson (m : List (String × List String)) : Json :=
  Json.arr (m.map fun e => Json.arr #[Json.str e.1, Json.arr (e.2.map Json.str).toArray]).toArray

/-! ### sinks (`SinkReader.initialize`) -/

/-- one factor of a code-unit expression: `m`, `l`, `t`, optionally `**k` -/
def parseFactor (tok : String) : Option (Char × Int) :=
  match tok.splitOn "**" with
  | [s] => match s.toList with
    | [c] => if c == 'm' || c == 'l' || c == 't' then some (c, 1) else none
    | _ => none
  | [s, k] => match s.toList, k.toInt? with
    | [c], some e => if c == 'm' || c == 'l' || c == 't' then some (c, e) else none
    | _, _ => none
  | _ => none

/-- the unit of one sink column: `none` = not understood (the case generator never produces it) -/
def sinkUnit (lib : List LibEntry) (o : Output) (legacy : String → Option (Rat × Sym)) (u : String) :
    Option (Rat × Sym) :=
  let t := (u.trimAscii.toString.replace "[" "").replace "]" ""
  if t == "1" then some (1, [])
  else if u.contains '[' && u.contains ']' then legacy t
  else
    let toks := (u.trimAscii.toString.splitOn " ").filter (· != "")
    let base (c : Char) : Rat × Sym :=
      let nm := if c == 'm' then "mass" else if c == 'l' then "length" else "time"
      let sc := scaleOf lib o nm
      (sc.factor, sc.label)
    toks.foldlM (fun (acc : Rat × Sym) tok => do
      let (c, e) ← parseFactor tok
      let b := base c
      pure (acc.1 * b.1 ^ e, Sym.mul acc.2 (Sym.smul (e : Rat) b.2))) (1, [])

def sinkCols (lib : List LibEntry) (o : Output) (legacy : String → Option (Rat × Sym)) :
    Option (List (String × List Rat × Sym)) :=
  match o.sink with
  | none => none
  | some s =>
    if s.emptyFile then some [] else
    (List.zip (List.range s.keys.length) (List.zip s.keys s.units)).mapM fun (p : Nat × (String × String)) => do
      let (f, sym) ← sinkUnit lib o legacy p.2.2
      pure (p.2.1, s.rows.map (fun row => row.getD p.1 0 * f), sym)

/-! ### JSON out -/

def colsJson (cols : List (String × List Rat)) : Json :=
  Json.arr (cols.map fun c => Json.arr #[Json.str c.1, ratsToJson c.2]).toArray

def scaleJson (lib : List LibEntry) (o : Output) (names : List String) : Json :=
  Json.arr (names.map fun n =>
    let s := scaleOf lib o n
    Json.mkObj [("name", Json.str n),
      ("label", Json.arr (s.label.map fun p => Json.arr #[Json.str p.1, ratToJson p.2]).toArray),
      ("pending", match s.pending with
        | none => Json.null
        | some en => Json.mkObj [("a", ratToJson en.a), ("b", ratToJson en.b), ("e", ratToJson en.e), ("sqrt4pi", Json.bool en.sqrt4pi)])]).toArray

def checksum (f : File) : Json :=
  let s : Rat := (f.flatMap (·.vals)).foldl (fun acc (v : Rat) => acc * 3 + v) 0
  -- position-sensitive (acc*3+v mod a large prime) to notice reorderings
  let m : Int := 2147483629
  let q : Rat := (f.flatMap (·.vals)).foldl (fun (acc : Rat) (v : Rat) =>
      let x := acc * 3 + v * 4096
      let fl := x.floor
      (((fl % m : Int) : Rat) + (x - fl))) 0
  let _ := s
  ratToJson q

def logJson (l : List Req) : Json :=
  Json.arr (l.map fun r => Json.arr #[Json.num (JsonNumber.fromNat r.off), Json.str r.ty.key,
    Json.num (JsonNumber.fromNat r.mult), Json.bool r.skipHead]).toArray

def splitCols (cols : List (String × List Rat)) (pfx : String) : List (String × List Rat) :=
  cols.filterMap fun c => if c.1.startsWith pfx then some ((c.1.drop pfx.length).toString, c.2) else none

def run (j : Json) : Json :=
  match (getField? j "output").bind Output.fromJson?, (getField? j "req").bind Request.fromJson? with
  | some o, some rq =>
    let spec := getStr? j "mode" == some "spec"
    let wantFiles := (getBool? j "files").getD false
    let filesJ : List (String × Json) :=
      if wantFiles then
        let cpus := (List.range o.ncpu).map (· + 1)
        let kinds : List (String × (Nat → File)) :=
          [("amr", amrFile o), ("hydro", varFile o .hydro)] ++
          (if o.hasGrav then [("grav", varFile o .grav)] else []) ++
          (if o.rtVars.isEmpty then [] else [("rt", varFile o .rt)]) ++
          (match o.part with | some p => [("part", partFile o p)] | none => [])
        [("files", Json.arr (cpus.map fun c => Json.mkObj (kinds.map fun k =>
            (k.1, Json.mkObj [("skeleton", skeletonJson (k.2 c)), ("checksum", checksum (k.2 c))]))).toArray)]
      else []
    let legacy (t : String) : Option (Rat × Sym) :=
      -- legacy bracket units are catalogue units (not code units): their symbolic container is passed in
      match (getArr? j "legacy_units").getD [] |>.find? (fun e => getStr? e "name" == some t) with
      | some e => match getArr? e "sym" with
        | some l => (l.mapM fun (x : Json) => match x with
            | .arr #[.str n, q] => (jsonToRat? q).map fun r => (n, r)
            | _ => none).map fun sym => ((1 : Rat), sym)
        | none => none
      | none => none
    let sinkJ (lib : List LibEntry) : List (String × Json) :=
      match sinkCols lib o legacy with
      | none => [("sink", Json.null)]
      | some cols => [("sink", Json.arr (cols.map fun c => Json.arr #[Json.str c.1, ratsToJson c.2.1,
          Json.arr (c.2.2.map fun p => Json.arr #[Json.str p.1, ratToJson p.2]).toArray]).toArray),
          ("sink_merges", mergesJson (vectorMerges (cols.map (·.1)) o.ndim).1)]
    if spec then
      let mesh := if rq.meshOn then leafCols o rq else []
      let part := specPart o rq
      let meshKeys := mesh.map (·.1)
      let mg := vectorMerges meshKeys o.ndim
      let pmg := vectorMerges (part.map (·.1)) o.ndim
      Json.mkObj ([("mesh", colsJson mesh), ("part", colsJson part),
        ("mesh_scale", scaleJson Reference.unitsLib o meshKeys),
        ("part_scale", scaleJson Reference.unitsLib o (part.map (·.1))),
        ("mesh_merges", mergesJson mg.1), ("part_merges", mergesJson pmg.1),
        ("lmax", Json.num (JsonNumber.fromNat (lmaxOf o rq.preds)))] ++ sinkJ Reference.unitsLib ++ filesJ)
    else
      let cs := mkCase Generated.unitsLib o rq
      match Loader.load cs with
      | .error e => Json.mkObj ([("err", Json.str e.toString)] ++ filesJ)
      | .ok st =>
        let mesh := splitCols st.pieces "mesh:"
        let part := splitCols st.pieces "part:"
        let meshKeys := mesh.map (·.1)
        let mg := vectorMerges meshKeys o.ndim
        let pmg := vectorMerges (part.map (·.1)) o.ndim
        Json.mkObj ([("mesh", colsJson mesh), ("part", colsJson part),
          ("mesh_scale", scaleJson Generated.unitsLib o meshKeys),
          ("part_scale", scaleJson Generated.unitsLib o (part.map (·.1))),
          ("mesh_merges", mergesJson mg.1), ("part_merges", mergesJson pmg.1),
          ("ncells", Json.num (JsonNumber.fromNat st.ncells)), ("nparticles", Json.num (JsonNumber.fromNat st.nparticles)),
          ("lmax", Json.num (JsonNumber.fromNat cs.lmax)), ("cpu_list", natsToJson cs.cpuList),
          ("logs", Json.arr (st.logs.map fun l => Json.arr #[Json.str l.1, logJson l.2]).toArray)] ++
          sinkJ Generated.unitsLib ++ filesJ)
  | _, _ => errJson .badOp

end Osyris.LoadEngine
