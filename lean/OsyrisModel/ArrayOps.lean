/-
Pure (value-level) model of `osyris.core.array`: the `_binary_op` pipeline
(coerce -> convert -> numpy op -> derive unit from name/dtype), `to`, `__getitem__`,
`_wrap_numpy` for the catalogue of C10.  Mirrors array.py statement by statement at the
granularity where the risk lives.  The two *tables* that decide units — the dtype
whitelist and APPLY_OP_TO_UNIT — come from `Generated.ArrayTables` (re-extracted from
/repo on every run).
-/
import OsyrisModel.Units
import OsyrisModel.Nd
import OsyrisModel.Generated.ArrayTables
open Lean

namespace Osyris

/-- value of an Array: what a user can observe of it -/
structure ArrV where
  shape : List Nat
  dtype : DType
  data : List Rat
  unit : U
  name : String := ""
  deriving Repr, Inhabited, DecidableEq

/-- the physical quantity an Array represents: values in root units -/
def ArrV.phys (a : ArrV) : List Rat := a.data.map (· * a.unit.factor)

def boolR (b : Bool) : Rat := if b then 1 else 0

inductive BinOp
  | add | sub | mul | div
  | lt | le | gt | ge | eq | ne
  | land | lor | lxor
  | maximum | minimum
  deriving DecidableEq, Repr, Inhabited

namespace BinOp
/-- numpy `__name__` of the ufunc the operator calls -/
def npName : BinOp → String
  | add => "add" | sub => "subtract" | mul => "multiply" | div => "divide"
  | lt => "less" | le => "less_equal" | gt => "greater" | ge => "greater_equal"
  | eq => "equal" | ne => "not_equal"
  | land => "logical_and" | lor => "logical_or" | lxor => "logical_xor"
  | maximum => "maximum" | minimum => "minimum"

def fromString? : String → Option BinOp
  | "add" => some add | "sub" => some sub | "mul" => some mul | "div" => some div
  | "lt" => some lt | "le" => some le | "gt" => some gt | "ge" => some ge
  | "eq" => some eq | "ne" => some ne
  | "and" => some land | "or" => some lor | "xor" => some lxor
  | "maximum" => some maximum | "minimum" => some minimum
  | _ => none

/-- `strict=` argument the dunder passes to `_binary_op` -/
def strict : BinOp → Bool
  | mul => false | div => false | _ => true

def isCompare : BinOp → Bool
  | lt => true | le => true | gt => true | ge => true | eq => true | ne => true | _ => false
def isLogic : BinOp → Bool
  | land => true | lor => true | lxor => true | _ => false

/-- element function (booleans are 0/1) -/
def fn : BinOp → Rat → Rat → Rat
  | add => (· + ·) | sub => (· - ·) | mul => (· * ·) | div => (· / ·)
  | lt => fun x y => boolR (x < y) | le => fun x y => boolR (x ≤ y)
  | gt => fun x y => boolR (y < x) | ge => fun x y => boolR (y ≤ x)
  | eq => fun x y => boolR (x = y) | ne => fun x y => boolR (x ≠ y)
  | land => fun x y => boolR (x ≠ 0 ∧ y ≠ 0)
  | lor => fun x y => boolR (x ≠ 0 ∨ y ≠ 0)
  | lxor => fun x y => boolR ((x ≠ 0) ≠ (y ≠ 0))
  | maximum => fun x y => if x < y then y else x
  | minimum => fun x y => if y < x then y else x

def resDType (op : BinOp) (x y : DType) : DType :=
  if op.isCompare || op.isLogic then .b
  else if op == div then DType.promoteDiv x y
  else DType.promote x y
end BinOp

/-- The two tables of array.py that decide which unit a numpy result carries. -/
structure Tables where
  /-- the `result.dtype in (...)` test of `_wrap_numpy` -/
  keeps : DType → Bool
  /-- `func.__name__ in APPLY_OP_TO_UNIT` -/
  applyOp : String → Bool

instance : Inhabited Tables := ⟨⟨fun _ => false, fun _ => false⟩⟩

/-- the tables as extracted from /repo's current array.py (tie (a)) -/
def Generated.tables : Tables :=
  { keeps := fun d => Generated.keepsUnit d.toString,
    applyOp := fun n => Generated.applyOpToUnit.contains n }

/-- reference tables used by the Spec oracle: every numeric dtype keeps its unit, and the
    transforming functions of the C10 catalogue transform it -/
def Reference.tables : Tables :=
  { keeps := fun d => d != .b,
    applyOp := fun n => ["multiply", "true_divide", "divide", "sqrt", "power", "reciprocal",
                         "square", "cbrt"].contains n }

/-- unit that `func(*units)` yields for the binary ufuncs that may appear in the tuple -/
def BinOp.derivedUnit (op : BinOp) (ua ub : U) : U :=
  match op with
  | .mul => ua.mul ub
  | .div => ua.div ub
  | _ => ua      -- pint: add/sub/... of two quantities of the same unit keeps it

/-- `Array.to(unit)` on values (`same` = the identity shortcut was taken). -/
def ArrV.to (a : ArrV) (u : U) : Res (ArrV × Bool) :=
  if a.unit.same u then .ok (a, true)
  else if !a.unit.convertible u then .error .dimErr
  else
    let r := U.ratio a.unit u
    -- `_array * ratio.magnitude`: python float times array (weak scalar): ints -> f8
    let dt := if a.dtype.isFloat then a.dtype else .f8
    .ok ({ shape := a.shape, dtype := dt, data := a.data.map (· * r), unit := u, name := "" }, false)

/-- `_wrap_numpy` unit rule for a binary ufunc called as `func(lhs, rhs)`;
    `selfUnit` is the unit of the Array that received the protocol call. -/
def wrapUnit (T : Tables) (name : String) (resDt : DType) (selfUnit derived : U) : U :=
  if T.keeps resDt then
    (if T.applyOp name then derived else selfUnit)
  else U.one

/-- numpy part of a binary op on two Arrays whose units have been settled -/
def ArrV.applyBin (T : Tables) (op : BinOp) (lhs rhs : ArrV) : Res ArrV :=
  match bshape lhs.shape rhs.shape with
  | none => .error .valueErr
  | some out =>
    let dt := op.resDType lhs.dtype rhs.dtype
    let data := bmap2 op.fn out lhs.shape rhs.shape lhs.data rhs.data
    let unit := wrapUnit T op.npName dt lhs.unit (op.derivedUnit lhs.unit rhs.unit)
    .ok { shape := out, dtype := dt, data := data, unit := unit, name := "" }

/-- `_binary_op(op, lhs, rhs, strict)` once `rhs` has been coerced to an Array -/
def ArrV.binaryOp (T : Tables) (op : BinOp) (lhs rhs : ArrV) : Res ArrV := do
  let rhs' ←
    if op.strict then (do let (r, _) ← rhs.to lhs.unit; pure r)
    else (match rhs.to lhs.unit with
          | .ok (r, _) => pure r
          | .error .dimErr => pure rhs
          | .error e => .error e)
  ArrV.applyBin T op lhs rhs'

/-- What `_binary_op` settles before any value is touched: the numpy kernel it will call and the factor the right
    operand's values are multiplied by first (`converted` = they went through `_array * ratio`). The harness uses
    it to evaluate operands holding non-finite values (nan, +-inf), which the rational value domain cannot hold. -/
structure BinPlan where
  npName : String
  ratio : Rat
  converted : Bool
  deriving Repr, DecidableEq

def binaryPlan (op : BinOp) (lu ru : U) : Res BinPlan :=
  if ru.same lu then .ok ⟨op.npName, 1, false⟩
  else if ru.convertible lu then .ok ⟨op.npName, U.ratio ru lu, true⟩
  else if op.strict then .error .dimErr
  else .ok ⟨op.npName, 1, false⟩

/-! ### unary / scalar forms -/

inductive UnOp | neg | lnot | sqrt | square | cbrt | reciprocal | abs
  deriving DecidableEq, Repr, Inhabited

namespace UnOp
def npName : UnOp → String
  | neg => "negative" | lnot => "logical_not" | sqrt => "sqrt" | square => "square"
  | cbrt => "cbrt" | reciprocal => "reciprocal" | abs => "absolute"
def fromString? : String → Option UnOp
  | "neg" => some neg | "not" => some lnot | "sqrt" => some sqrt | "square" => some square
  | "cbrt" => some cbrt | "reciprocal" => some reciprocal | "abs" => some abs
  | _ => none
end UnOp

/-- element function of a unary ufunc; `none` = result not rational (outside exact lane) -/
def UnOp.fn? : UnOp → Rat → Option Rat
  | .neg, x => some (-x)
  | .lnot, x => some (boolR (x = 0))
  | .sqrt, x => ratSqrt? x
  | .square, x => some (x * x)
  | .cbrt, x => ratCbrt? x
  | .reciprocal, x => if x = 0 then none else some (1 / x)
  | .abs, x => some (if x < 0 then -x else x)

def UnOp.resDType : UnOp → DType → DType
  | .lnot, _ => .b
  | .sqrt, d => if d.isFloat then d else .f8
  | .cbrt, d => if d.isFloat then d else .f8
  | _, d => d

/-- what pint returns for `func(1.0 * unit)`; `none` = irrational factor -/
def UnOp.derivedUnit? : UnOp → U → Option U
  | .sqrt, u => u.sqrt?
  | .square, u => some (u.mul u)
  | .cbrt, u => u.cbrt?
  | .reciprocal, u => some u.inv
  | _, u => some u

/-- `np.<unary>(a)` through `_wrap_numpy` -/
def ArrV.applyUn (T : Tables) (op : UnOp) (a : ArrV) : Res ArrV := do
  let data ← req (a.data.mapM op.fn?)
  let dt := op.resDType a.dtype
  let derived ← if T.applyOp op.npName then req (op.derivedUnit? a.unit) else pure a.unit
  pure { shape := a.shape, dtype := dt, data := data,
         unit := wrapUnit T op.npName dt a.unit derived, name := "" }

/-- `a ** k` = `np.power(a, k)` with a Python integer `k` (weak scalar). -/
def ArrV.powInt (T : Tables) (a : ArrV) (k : Int) : Res ArrV :=
  -- numpy raises for integer ** negative integer as soon as there is an element
  if a.dtype.isInt && k < 0 && !a.data.isEmpty then .error .valueErr else
  let dt := a.dtype
  let data := a.data.map (· ^ k)
  .ok { shape := a.shape, dtype := dt, data := data,
        unit := wrapUnit T "power" dt a.unit (a.unit.powInt k), name := "" }

/-- first-axis indexing of values: rows, new shape, data -/
def takeRows (shape : List Nat) (data : List Rat) (rows : List Nat) : List Rat :=
  let rowLen := shapeSize (shape.drop 1)
  rows.flatMap fun r => (List.range rowLen).map fun j => getR data (r * rowLen + j)

def ArrV.getIndex (a : ArrV) (ix : Index) : Res ArrV :=
  match a.shape with
  | [] => .error .indexErr
  | n :: rest => do
    let (rows, dropAxis) ← ix.rows n
    let shape' := if dropAxis then rest else rows.length :: rest
    pure { a with shape := shape', data := takeRows a.shape a.data rows }

def ArrV.toJson (a : ArrV) : Json :=
  Json.mkObj [("k", "arr"), ("shape", natsToJson a.shape), ("dtype", Json.str a.dtype.toString),
              ("data", ratsToJson a.data), ("unit", a.unit.toJson), ("name", Json.str a.name)]

def ArrV.fromJson? (j : Json) : Option ArrV := do
  let shape ← getNats? j "shape"
  let dt ← (getStr? j "dtype").bind DType.fromString?
  let data ← getRats? j "data"
  let unit ← (getField? j "unit").bind U.fromJson?
  let name := (getStr? j "name").getD ""
  if data.length == shapeSize shape then some ⟨shape, dt, data, unit, name⟩ else none

end Osyris
