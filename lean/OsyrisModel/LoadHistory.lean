/-
C15 model: what survives between `load()` calls on one RamsesDataset.  The readers are
created once per dataset; the only field of theirs that a later call *reads before writing* is
`AmrReader.cpu_list` (the Hilbert pre-selection of the last call that initialised the amr
reader).  `Loader.load` uses it whenever the caller passes no `cpu_list`.
-/
import OsyrisModel.LoadEngine
open Lean

namespace Osyris.LoadHistory
open Osyris.Ramses Osyris.LoadEngine

/-- persistent state: `AmrReader.cpu_list` -/
abbrev State := Option (List Nat)

/-- the pre-selection a call computes for itself (`hilbert_cpu_list`), `none` = no pre-selection -/
def ownSelection (o : Output) (rq : Request) : Option (List Nat) :=
  Hilbert.hilbertCpuList Hilbert.Generated.table o.ordering rq.preds
    (o.boxlen * (scaleOf Generated.unitsLib o "x").factor) o.levelmax (lmaxOf o rq.preds) o.ncpu o.ndim
    (o.boundKeys.map fun q => q.floor.toNat) (!rq.preds.isEmpty) (minCube := o.levelmin)

/-- `AmrReader.amrInitialize` as repaired: the field is reset first, then (mesh on) recomputed.
    `resetFirst = false` is the code as it was: with the mesh switched off the old value stays. -/
def amrInitialize (resetFirst : Bool) (o : Output) (st : State) (rq : Request) : State :=
  let st := if resetFirst then none else st
  if !rq.meshOn then st else ownSelection o rq

/-- the cpu files a call opens -/
def cpusUsed (o : Output) (st' : State) (rq : Request) : List Nat :=
  let all := (List.range o.ncpu).map (· + 1)
  if !rq.meshOn && !(rq.partOn && o.part.isSome) then []   -- only sinks: no cpu file is opened
  else match rq.cpuList with
    | some l => l
    | none => st'.getD all

def step (resetFirst : Bool) (o : Output) (st : State) (rq : Request) : State × List Nat :=
  let st' := amrInitialize resetFirst o st rq
  (st', cpusUsed o st' rq)

def run (resetFirst : Bool) (o : Output) : State → List Request → List (List Nat)
  | _, [] => []
  | st, rq :: rest => let r := step resetFirst o st rq; r.2 :: run resetFirst o r.1 rest

end Osyris.LoadHistory
