/-
F4 Fortran records and the loader's byte counters.

A RAMSES file is a list of records `[len][payload][len]`.  osyris never stores a byte
position: it keeps one counter per element type (`offsets["i"]`, `["d"]`, ... and `["n"]` for
the number of records passed) and recomputes the position as Σ count·size + 8·n (+4 to skip
the leading length).  `readAt` succeeds only if that position is the payload start (plus a
whole number of elements) of a record of the requested type with enough elements left —
a misaligned read is an error, never a default.
-/
import OsyrisModel.Basic
import OsyrisModel.Generated.ByteSize
open Lean

namespace Osyris

inductive Ty | b | i | d | s | q | l
  deriving DecidableEq, Repr, Inhabited

def Ty.key : Ty → String
  | .b => "b" | .i => "i" | .d => "d" | .s => "s" | .q => "q" | .l => "l"

def Ty.fromString? : String → Option Ty
  | "b" => some .b | "i" => some .i | "d" => some .d | "s" => some .s | "q" => some .q | "l" => some .l
  | _ => none

/-- element size in bytes, from the `byte_size` table of `read_binary_data` (extracted) -/
def Ty.size (t : Ty) : Nat := Generated.byteSize t.key

/-- bytes one record-count unit of `offsets["n"]` stands for (the two length markers) -/
def lineSize : Nat := Generated.byteSize "n"

structure Rec where
  ty : Ty
  count : Nat
  vals : List Rat      -- payload values (empty for opaque records: strings, skipped headers)
  deriving Repr, Inhabited

def Rec.bytes (r : Rec) : Nat := 8 + r.ty.size * r.count

abbrev File := List Rec

def totalBytes (f : File) : Nat := (f.map Rec.bytes).sum

/-- byte position of the leading length marker of record `k` -/
def recStart (f : File) (k : Nat) : Nat := totalBytes (f.take k)

/-- the record containing byte `off`, and the offset relative to its leading marker -/
def locate : File → Nat → Option (Rec × Nat)
  | [], _ => none
  | r :: rs, off => if off < r.bytes then some (r, off) else locate rs (off - r.bytes)

/-- what `struct.unpack(fmt, content[offset : offset + pack_size])` means on a record list -/
def readAt (f : File) (off : Nat) (ty : Ty) (mult : Nat) (skipHead : Bool) : Except Err (List Rat) :=
  match locate f off with
  | none => .error .misaligned
  | some (r, rel) =>
    if skipHead then
      if rel < 4 then .error .misaligned
      else if r.ty != ty then .error .misaligned
      else if (rel - 4) % ty.size != 0 then .error .misaligned
      else
        let e := (rel - 4) / ty.size
        if e + mult > r.count then .error .misaligned
        else .ok ((List.range mult).map fun k => r.vals.getD (e + k) 0)
    else
      -- reading the leading length marker itself (`skip_head=False`)
      if rel != 0 || ty != .i || mult != 1 then .error .misaligned
      else .ok [((r.bytes - 8 : Nat) : Rat)]

/-- the loader's `offsets` dictionary (keys "bidnsql") -/
structure Cnt where
  b : Nat := 0
  i : Nat := 0
  d : Nat := 0
  n : Nat := 0
  s : Nat := 0
  q : Nat := 0
  l : Nat := 0
  deriving Repr, Inhabited, DecidableEq

def Cnt.get (c : Cnt) : Ty → Nat
  | .b => c.b | .i => c.i | .d => c.d | .s => c.s | .q => c.q | .l => c.l

def Cnt.bump (c : Cnt) (t : Ty) (k : Nat) : Cnt :=
  match t with
  | .b => { c with b := c.b + k } | .i => { c with i := c.i + k } | .d => { c with d := c.d + k }
  | .s => { c with s := c.s + k } | .q => { c with q := c.q + k } | .l => { c with l := c.l + k }

def Cnt.bumpN (c : Cnt) (k : Nat) : Cnt := { c with n := c.n + k }

/-- `offset = Σ offsets[key]·byte_size[key]` (+4 with `skip_head`) -/
def Cnt.off (c : Cnt) (skipHead : Bool) : Nat :=
  c.b * Ty.b.size + c.i * Ty.i.size + c.d * Ty.d.size + c.s * Ty.s.size + c.q * Ty.q.size +
  c.l * Ty.l.size + c.n * lineSize + (if skipHead then 4 else 0)

/-- a read request as the loader issues it -/
structure Req where
  off : Nat
  ty : Ty
  mult : Nat
  skipHead : Bool
  deriving Repr, DecidableEq, Inhabited

/-- the reading interface the generated reader code is written against; two instances:
    a file (execution) and an answer tape (proofs) -/
class RdM (m : Type → Type) where
  rd : Req → m (List Rat)

/-- `utils.read_binary_data(fmt=<mult><ty>, offsets=c, skip_head, increment)`:
    returns the values and the updated counters -/
def rdBin {m : Type → Type} [Monad m] [RdM m] (c : Cnt) (ty : Ty) (mult : Nat)
    (skipHead : Bool := true) (increment : Bool := true) : m (List Rat × Cnt) := do
  let vals ← RdM.rd ⟨c.off skipHead, ty, mult, skipHead⟩
  let c := if increment then c.bump ty mult else c
  pure (vals, c.bumpN 1)

/-- `utils.skip_binary_line`: the record length read from its leading marker -/
def skipLine {m : Type → Type} [Monad m] [RdM m] (c : Cnt) : m (Nat × Cnt) := do
  let (v, c) ← rdBin c .i 1 false false
  pure ((v.getD 0 0).floor.toNat, c)

/-- execution instance: reads come from a file; every request is logged -/
abbrev FileM := ReaderT File (StateT (List Req) (Except Err))

instance : RdM FileM where
  rd r := do
    let f ← read
    modify (· ++ [r])
    match readAt f r.off r.ty r.mult r.skipHead with
    | .ok v => pure v
    | .error e => throw e

/-- proof instance: answers are consumed from a tape in request order; requests are logged.
    A plain state-passing monad (no transformer stack), so that generated code unfolds by
    `run_bind` / `run_pure` rewriting. -/
def TapeM (α : Type) : Type := (List (List Rat) × List Req) → (α × (List (List Rat) × List Req))

def TapeM.run {α : Type} (x : TapeM α) (s : List (List Rat) × List Req) : α × (List (List Rat) × List Req) := x s

instance : Monad TapeM where
  pure a := fun s => (a, s)
  bind x f := fun s => let r := x s; f r.1 r.2

instance : RdM TapeM where
  rd r := fun s =>
    match s.1 with
    | a :: rest => (a, (rest, s.2 ++ [r]))
    | [] => ([], ([], s.2 ++ [r]))

@[simp] theorem TapeM.run_pure {α : Type} (a : α) (s) : (pure a : TapeM α).run s = (a, s) := rfl
@[simp] theorem TapeM.run_bind {α β : Type} (x : TapeM α) (f : α → TapeM β) (s) :
    (x >>= f).run s = (f (x.run s).1).run (x.run s).2 := rfl
@[simp] theorem TapeM.run_map {α β : Type} (g : α → β) (x : TapeM α) (s) :
    (g <$> x).run s = (g (x.run s).1, (x.run s).2) := rfl

/-- natural number carried by a read value -/
def natOf (l : List Rat) (k : Nat) : Nat := (l.getD k 0).floor.toNat

/-- named results of a reader method: (tag, values) in program order -/
abbrev Trace := List (String × List Rat)

end Osyris
