/-
C04 model: the Hilbert key (`_hilbert3d`: an MSB-first transducer over a 12-state diagram),
the CPU pre-selection `_get_cpu_list` (bounding box -> cube level -> up to 8 cubes -> key
intervals -> "last match wins" loops over the bound keys), and `hilbert_cpu_list` (bounding box
from the position predicates sampled on 2^min(levelmax,18) cell centres).
-/
import OsyrisModel.Generated.HilbertTable
import OsyrisModel.Loader
open Lean

namespace Osyris.Hilbert

structure HTable where
  next : Nat → Nat → Nat
  digit : Nat → Nat → Nat

def HTable.ofLists (n d : List (List Nat)) : HTable :=
  ⟨fun s x => (n.getD s []).getD x 0, fun s x => (d.getD s []).getD x 0⟩

/-- the table of the current source (extracted) -/
def Generated.table : HTable := HTable.ofLists Generated.hilbertNext Generated.hilbertDigit

/-- the spatial digit of bit `i`: x is the high bit, z the low bit -/
def sdigit (x y z i : Nat) : Nat := (x / 2 ^ i % 2) * 4 + (y / 2 ^ i % 2) * 2 + (z / 2 ^ i % 2)

/-- spatial digits, most significant first -/
def sdigits (x y z bitLength : Nat) : List Nat :=
  (List.range bitLength).reverse.map (sdigit x y z)

/-- the transducer: output digits for input digits, from state `s` -/
def run (t : HTable) : Nat → List Nat → List Nat
  | _, [] => []
  | s, d :: ds => t.digit s d :: run t (t.next s d) ds

def finalState (t : HTable) : Nat → List Nat → Nat
  | s, [] => s
  | s, d :: ds => finalState t (t.next s d) ds

def ofDigits (ds : List Nat) : Nat := ds.foldl (fun acc d => acc * 8 + d) 0

/-- `_hilbert3d(x, y, z, bit_length)` -/
def key (t : HTable) (x y z bitLength : Nat) : Nat := ofDigits (run t 0 (sdigits x y z bitLength))

/-! ### `_get_cpu_list` -/

structure BBox where
  xmin : Rat := 0
  xmax : Rat := 1
  ymin : Rat := 0
  ymax : Rat := 1
  zmin : Rat := 0
  zmax : Rat := 1
  deriving Repr, Inhabited

def maxR (a b : Rat) : Rat := if a < b then b else a

/-- first level (from 1) whose cell size 0.5^l is smaller than the box, else lmax -/
def cubeLevel (dmax : Rat) (lmax : Nat) : Nat :=
  let rec go (l fuel : Nat) : Nat :=
    match fuel with
    | 0 => lmax
    | fuel + 1 => if (1 / 2 : Rat) ^ l < dmax then l else (if l ≥ lmax then lmax else go (l + 1) fuel)
  if lmax == 0 then 0 else go 1 lmax

/-- numba/Python `int()` on a non-negative rational -/
def truncNat (q : Rat) : Nat := q.floor.toNat

/-- "last match wins, default 0" loops over the bound keys -/
def cpuMin (bk : List Nat) (ncpu b : Nat) : Nat :=
  (List.range ncpu).foldl (fun acc i => if bk.getD i 0 ≤ b ∧ b < bk.getD (i + 1) 0 then i else acc) 0
def cpuMax (bk : List Nat) (ncpu b : Nat) : Nat :=
  (List.range ncpu).foldl (fun acc i => if bk.getD i 0 < b ∧ b ≤ bk.getD (i + 1) 0 then i else acc) 0

/-- append the cpus `r.1+1 .. r.2+1` of every range, skipping the ones already present -/
def collect (ranges : List (Nat × Nat)) : List Nat :=
  ranges.foldl (fun (acc : List Nat) (r : Nat × Nat) =>
    (List.range (r.2 + 1 - r.1)).foldl (fun (acc : List Nat) k =>
      let c := r.1 + k + 1
      if acc.contains c then acc else acc ++ [c]) acc) []

/-- number of bits per axis of the search cubes: `lmin - 1` -/
def bitLengthOf (bb : BBox) (lmax minCube : Nat) : Nat :=
  let dmax := maxR (maxR (bb.xmax - bb.xmin) (bb.ymax - bb.ymin)) (bb.zmax - bb.zmin)
  let lmin0 := cubeLevel dmax lmax
  let lmin := if minCube > 0 && lmin0 > minCube then minCube else lmin0
  lmin - 1

/-- integer coordinates of the search cubes (eight neighbours of the box's lower corner, or the whole domain) -/
def cubes (bb : BBox) (bitLength : Nat) : List (Nat × Nat × Nat) :=
  let maxdom : Nat := 2 ^ bitLength
  let (imin, jmin, kmin) := if bitLength > 0 then
      (truncNat (bb.xmin * (maxdom : Rat)), truncNat (bb.ymin * (maxdom : Rat)), truncNat (bb.zmin * (maxdom : Rat))) else (0, 0, 0)
  let (imax, jmax, kmax) := if bitLength > 0 then (imin + 1, jmin + 1, kmin + 1) else (0, 0, 0)
  let ndom := if bitLength > 0 then 8 else 1
  let idom := [imin, imax, imin, imax, imin, imax, imin, imax]
  let jdom := [jmin, jmin, jmax, jmax, jmin, jmin, jmax, jmax]
  let kdom := [kmin, kmin, kmin, kmin, kmax, kmax, kmax, kmax]
  (List.range ndom).map fun i => (idom.getD i 0, jdom.getD i 0, kdom.getD i 0)

/-- key interval of a cube and the cpu range it selects ("last match wins" loops) -/
def cubeRange (t : HTable) (bitLength levelmax ncpu ndim : Nat) (bk : List Nat) (c : Nat × Nat × Nat) : Nat × Nat :=
  let maxdom : Nat := 2 ^ bitLength
  let dkey : Nat := (2 ^ (levelmax + 1) / maxdom) ^ ndim
  let om := if bitLength > 0 then key t c.1 c.2.1 c.2.2 bitLength else 0
  (cpuMin bk ncpu (om * dkey), cpuMax bk ncpu ((om + 1) * dkey))

/-- `minCube`: the level the search cubes may not be finer than (0 = as coded: no limit) -/
def getCpuList (t : HTable) (bb : BBox) (lmax levelmax ncpu ndim : Nat) (bk : List Nat) (minCube : Nat := 0) : List Nat :=
  let bitLength := bitLengthOf bb lmax minCube
  collect ((cubes bb bitLength).map (cubeRange t bitLength levelmax ncpu ndim bk))

/-- one axis of `hilbert_cpu_list`: the selection `S` (the AND of the functions given for `position_<c>`) is evaluated
    on the cell centres of level `min levelmax 18`; the box runs from the first to the last accepted centre, padded by half
    a sampled cell — by one and a half when the output is deeper than the sampling level — and clipped to the domain.
    Fractions of the box size. -/
def axisBox (S : Rat → Bool) (boxSize : Rat) (levelmax : Nat) : Rat × Rat :=
  let ncells : Nat := 2 ^ (min levelmax 18)
  let half : Rat := boxSize / (2 * (ncells : Rat))
  let pad : Rat := if levelmax ≤ 18 then half else 3 * half
  let centre (i : Nat) : Rat := half * (2 * (i : Rat) + 1)
  let idx := (List.range ncells).filter fun i => S (centre i)
  match idx.head?, idx.getLast? with
  | some lo, some hi => (max ((centre lo - pad) / boxSize) 0, min ((centre hi + pad) / boxSize) 1)
  | _, _ => (0, 0)     -- the code raises on an empty sample (outside the property's quantifier)

/-- the box of one axis as `hilbert_cpu_list` assembles it: `none` = no function on that axis (the whole domain) -/
def axisOf (preds : List Loader.Pred) (name : String) (boxSize : Rat) (levelmax : Nat) : Option (Rat × Rat) :=
  let ps := preds.filter (·.var == name)
  if ps.isEmpty then none else some (axisBox (fun c => ps.all (·.eval c)) boxSize levelmax)

/-- `hilbert_cpu_list`: `none` = no pre-selection (all cpus) -/
def hilbertCpuList (t : HTable) (ordering : String) (preds : List Loader.Pred) (boxSize : Rat) (levelmax lmax ncpu ndim : Nat)
    (bk : List Nat) (isDict : Bool) (minCube : Nat := 0) : Option (List Nat) :=
  if ordering != "hilbert" then none
  else if !isDict then none
  else
    let ax := axisOf preds "position_x" boxSize levelmax
    let ay := axisOf preds "position_y" boxSize levelmax
    let az := axisOf preds "position_z" boxSize levelmax
    if ax.isNone && ay.isNone && az.isNone then none
    else
      let bb : BBox := { xmin := (ax.getD (0, 1)).1, xmax := (ax.getD (0, 1)).2,
                         ymin := (ay.getD (0, 1)).1, ymax := (ay.getD (0, 1)).2,
                         zmin := (az.getD (0, 1)).1, zmax := (az.getD (0, 1)).2 }
      some (getCpuList t bb lmax levelmax ncpu ndim bk minCube)

end Osyris.Hilbert
