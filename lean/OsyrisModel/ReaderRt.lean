/-
Run-time support for the generated reader code (Generated/Readers.lean): loop combinators
with structural recursion (so that proofs about generated loops are plain inductions) and the
variable-table entry.
-/
import OsyrisModel.Fortran

namespace Osyris

/-- one entry of `Reader.variables`: name, on-disk type, whether it is read -/
structure VarItem where
  name : String
  ty : Ty
  read : Bool
  deriving Repr, Inhabited

/-- `for n in range(k): body` -/
def forRangeM {m : Type → Type} [Monad m] {σ : Type} (k : Nat) (body : Nat → σ → m σ) (s : σ) : m σ :=
  let rec go (i fuel : Nat) (s : σ) : m σ :=
    match fuel with
    | 0 => pure s
    | fuel + 1 => do
      let s' ← body i s
      go (i + 1) fuel s'
  go 0 k s

/-- `for item in self.variables.values(): body` -/
def forVarsM {m : Type → Type} [Monad m] {σ : Type} (vars : List VarItem) (body : VarItem → σ → m σ) (s : σ) : m σ :=
  match vars with
  | [] => pure s
  | v :: rest => do
    let s' ← body v s
    forVarsM rest body s'

end Osyris
