/-
The abstract RAMSES output (octree with ownership, ghost copies per file, variables,
particles, sinks) and `encode`: the record lists RAMSES' `backup_amr / backup_hydro /
backup_poisson / rt_backup / backup_part` write for it.  This is the *Spec of the format*
(my formalisation of the Fortran writer); it is independent of the Python writer of the
harness, and the two are diffed record by record on every generated case.
-/
import OsyrisModel.Fortran
import OsyrisModel.ReaderRt
open Lean

namespace Osyris.Ramses

structure Oct where
  id : Nat
  level : Nat                 -- 1-based
  centre : List Rat           -- oct centre in coarse-grid units (incl. boundary offset)
  owner : Nat                 -- 1-based domain: 1..ncpu are cpus, above are boundary regions
  sons : List Nat             -- per child cell: id of the refining oct, 0 = leaf
  hydro : List (List Rat)     -- [ind][ivar]
  grav : List (List Rat)
  rt : List (List Rat)
  deriving Repr, Inhabited

structure Held where
  level : Nat
  dom : Nat
  ids : List Nat
  deriving Repr, Inhabited

structure PartCpu where
  npart : Nat
  cols : List (List Rat)      -- per descriptor variable
  deriving Repr, Inhabited

structure Part where
  descriptor : List (String × Ty)
  headerSizes : List Nat      -- byte sizes of the five records between npart and the columns
  perCpu : List PartCpu
  deriving Repr, Inhabited

structure Sink where
  keys : List String
  units : List String
  rows : List (List Rat)
  emptyFile : Bool
  deriving Repr, Inhabited

structure Output where
  ndim : Nat
  ncpu : Nat
  nboundary : Nat
  levelmin : Nat
  levelmax : Nat
  nx : Nat
  /-- coarse-grid size per axis when the axes differ (a box with boundary regions along some axes only); empty = `nx` on every axis -/
  nxs : List Nat := []
  noutput : Nat
  keyb : Nat
  boxlen : Rat
  unitD : Rat
  unitL : Rat
  unitT : Rat
  time : Rat
  ghostPoison : Rat
  gamma : Rat
  ordering : String
  boundKeys : List Rat
  hydroVars : List (String × Ty)
  rtVars : List (String × Ty)
  hasGrav : Bool
  octs : List Oct
  files : List (List Held)    -- per cpu file (index 0 = cpu 1), blocks sorted by (level, domain)
  part : Option Part
  sink : Option Sink
  deriving Repr, Inhabited

namespace Output

def twotondim (o : Output) : Nat := 2 ^ o.ndim
def nxOf (o : Output) (k : Nat) : Nat := o.nxs.getD k o.nx
def nxyz (o : Output) : List Nat := (List.range 3).map fun k => if k < o.ndim then o.nxOf k else 1
def ncoarse (o : Output) : Nat := o.nxyz.foldl (· * ·) 1
def oct? (o : Output) (id : Nat) : Option Oct := o.octs.find? (·.id == id)
def heldOf (o : Output) (cpu level dom : Nat) : List Oct :=
  match (o.files.getD (cpu - 1) []).find? (fun h => h.level == level && h.dom == dom) with
  | some h => h.ids.filterMap o.oct?
  | none => []

end Output

/-! ### encode -/

def recI (vals : List Nat) : Rec := ⟨.i, vals.length, vals.map fun (n : Nat) => (n : Rat)⟩
def recD (vals : List Rat) : Rec := ⟨.d, vals.length, vals⟩
def recOpaque (ty : Ty) (count : Nat) : Rec := ⟨ty, count, []⟩
def zerosI (n : Nat) : Rec := recI (List.replicate n 0)
def zerosD (n : Nat) : Rec := recD (List.replicate n 0)

def levels (o : Output) : List Nat := (List.range o.levelmax).map (· + 1)
def domains (o : Output) : List Nat := (List.range (o.ncpu + o.nboundary)).map (· + 1)

/-- header of the amr file (record order of `backup_amr`) -/
def amrHeader (o : Output) (cpu : Nat) : File :=
  let lm := o.levelmax
  let numbl := (levels o).flatMap fun l => ((List.range o.ncpu).map (· + 1)).map fun d => (o.heldOf cpu l d).length
  let bnd : File :=
    if o.nboundary > 0 then
      let numbb := (levels o).flatMap fun l =>
        ((List.range o.nboundary).map (· + 1)).map fun b => (o.heldOf cpu l (o.ncpu + b)).length
      [zerosI (o.nboundary * lm), zerosI (o.nboundary * lm), recI numbb]
    else []
  [recI [o.ncpu], recI [o.ndim], recI o.nxyz, recI [lm], recI [1000], recI [o.nboundary],
   recI [o.octs.length], recD [o.boxlen],
   recI [o.noutput, 1, 1], zerosD o.noutput, zerosD o.noutput, recD [o.time],
   recD (List.replicate lm (1/8)), recD (List.replicate lm (1/4)),
   recI [0, 0], zerosD 3, zerosD 7, zerosD 5, zerosD 1,
   zerosI (o.ncpu * lm), zerosI (o.ncpu * lm), recI numbl,
   zerosI (10 * lm)] ++ bnd ++
  [zerosI 5, recOpaque .s 128, recOpaque .s (o.keyb * (o.ncpu + 1)),
   recI (List.replicate o.ncoarse 1), zerosI o.ncoarse, recI (List.replicate o.ncoarse 1)]

/-- one (level, domain) block of the amr file -/
def amrBlock (o : Output) (lst : List Oct) : File :=
  let nc := lst.length
  if nc == 0 then [] else
  [recI (lst.map (·.id)), zerosI nc, zerosI nc] ++
  ((List.range o.ndim).map fun k => recD (lst.map fun oc => oc.centre.getD k 0)) ++
  [zerosI nc] ++ (List.replicate (2 * o.ndim) (zerosI nc)) ++
  ((List.range o.twotondim).map fun ind => recI (lst.map fun oc => oc.sons.getD ind 0)) ++
  ((List.range o.twotondim).map fun _ => recI (lst.map (·.owner))) ++
  (List.replicate o.twotondim (zerosI nc))

def amrFile (o : Output) (cpu : Nat) : File :=
  amrHeader o cpu ++ (levels o).flatMap fun l => (domains o).flatMap fun d => amrBlock o (o.heldOf cpu l d)

inductive VarKind | hydro | grav | rt
  deriving DecidableEq, Repr

def nvarOf (o : Output) : VarKind → Nat
  | .hydro => o.hydroVars.length
  | .grav => 1 + o.ndim
  | .rt => o.rtVars.length

/-- on-disk type of variable `iv` of a mesh file: the descriptor's for hydro, double otherwise -/
def varTyOf (o : Output) (k : VarKind) (iv : Nat) : Ty :=
  match k with
  | .hydro => ((o.hydroVars.getD iv ("", .d)).2)
  | _ => .d

def cellVals (oc : Oct) : VarKind → List (List Rat)
  | .hydro => oc.hydro
  | .grav => oc.grav
  | .rt => oc.rt

def varHeader (o : Output) (k : VarKind) : File :=
  match k with
  | .hydro => [recI [o.ncpu], recI [nvarOf o k], recI [o.ndim], recI [o.levelmax], recI [o.nboundary], recD [o.gamma]]
  | .grav => [recI [o.ncpu], recI [nvarOf o k], recI [o.levelmax], recI [o.nboundary]]
  | .rt => [recI [o.ncpu], recI [nvarOf o k], recI [o.ndim], recI [o.levelmax], recI [o.nboundary], recD [o.gamma + 1/4]]

/-- one (level, domain) block of a hydro / grav / rt file: level, ncache, then per child cell
    one record per variable; ghost copies carry poisoned values -/
def varBlock (o : Output) (k : VarKind) (cpu l d : Nat) : File :=
  let lst := o.heldOf cpu l d
  let nc := lst.length
  let poison : Rat := if d == cpu then 0 else o.ghostPoison
  [recI [l], recI [nc]] ++
  (if nc == 0 then [] else
    (List.range o.twotondim).flatMap fun ind =>
      (List.range (nvarOf o k)).map fun iv =>
        -- every variable is written with the type its descriptor declares (doubles in practice; an int32 flag is legal)
        (⟨varTyOf o k iv, nc, lst.map fun oc => ((cellVals oc k).getD ind []).getD iv 0 + poison⟩ : Rec))

def varFile (o : Output) (k : VarKind) (cpu : Nat) : File :=
  varHeader o k ++ (levels o).flatMap fun l => (domains o).flatMap fun d => varBlock o k cpu l d

def partFile (o : Output) (p : Part) (cpu : Nat) : File :=
  let pc := p.perCpu.getD (cpu - 1) default
  [recI [o.ncpu], recI [o.ndim], recI [pc.npart]] ++
  (p.headerSizes.map fun sz => recOpaque .b sz) ++
  ((List.zip p.descriptor pc.cols).map fun (pr : (String × Ty) × List Rat) => ⟨pr.1.2, pr.2.length, pr.2⟩)

/-! ### JSON -/

def parseVars (j : Json) (k : String) : Option (List (String × Ty)) := do
  let l ← getArr? j k
  l.mapM fun (e : Json) => match e with
    | .arr #[.str n, .str t] => (Ty.fromString? t).map fun ty => (n, ty)
    | _ => none

def parseRatss (j : Json) (k : String) : Option (List (List Rat)) := do
  let l ← getArr? j k
  l.mapM jsonToRats?

def Oct.fromJson? (j : Json) : Option Oct := do
  pure { id := ← getNat? j "id", level := ← getNat? j "level", centre := ← getRats? j "centre",
         owner := ← getNat? j "owner", sons := ← getNats? j "sons",
         hydro := ← parseRatss j "hydro", grav := ← parseRatss j "grav", rt := ← parseRatss j "rt" }

def Output.fromJson? (j : Json) : Option Output := do
  let octsJ ← getArr? j "octs"
  let octs ← octsJ.mapM Oct.fromJson?
  let filesJ ← getArr? j "files"
  let files ← filesJ.mapM fun (f : Json) => match f with
    | .arr a => a.toList.mapM fun (h : Json) => do
        pure ({ level := ← getNat? h "level", dom := ← getNat? h "dom", ids := ← getNats? h "ids" } : Held)
    | _ => none
  let part : Option Part ← match getField? j "part" with
    | some .null => some none
    | none => some none
    | some p => do
      let desc ← parseVars p "descriptor"
      let hs ← getNats? p "header_sizes"
      let pcs ← getArr? p "per_cpu"
      let per ← pcs.mapM fun (c : Json) => do
        pure ({ npart := ← getNat? c "npart", cols := ← parseRatss c "cols" } : PartCpu)
      some (some { descriptor := desc, headerSizes := hs, perCpu := per })
  let sink : Option Sink ← match getField? j "sink" with
    | some .null => some none
    | none => some none
    | some s => do
      let strs (k : String) : Option (List String) := do
        let l ← getArr? s k
        l.mapM fun (e : Json) => match e with | .str x => some x | _ => none
      some (some { keys := ← strs "keys", units := ← strs "units", rows := ← parseRatss s "rows",
                   emptyFile := ← getBool? s "empty_file" })
  pure {
    ndim := ← getNat? j "ndim", ncpu := ← getNat? j "ncpu", nboundary := ← getNat? j "nboundary",
    levelmin := ← getNat? j "levelmin", levelmax := ← getNat? j "levelmax", nx := ← getNat? j "nx", nxs := (getNats? j "nxs").getD [],
    noutput := ← getNat? j "noutput", keyb := ← getNat? j "keyb",
    boxlen := ← getRat? j "boxlen", unitD := ← getRat? j "unit_d", unitL := ← getRat? j "unit_l",
    unitT := ← getRat? j "unit_t", time := ← getRat? j "time", ghostPoison := ← getRat? j "ghost_poison",
    gamma := ← getRat? j "gamma", ordering := ← getStr? j "ordering", boundKeys := ← getRats? j "bound_keys",
    hydroVars := ← parseVars j "hydro_vars", rtVars := ← parseVars j "rt_vars", hasGrav := ← getBool? j "has_grav",
    octs := octs, files := files, part := part, sink := sink }

def skeletonJson (f : File) : Json :=
  Json.arr (f.map fun r => Json.arr #[Json.str r.ty.key, Json.num (JsonNumber.fromNat r.count)]).toArray

def payloadJson (f : File) : Json :=
  Json.arr (f.map fun r => ratsToJson r.vals).toArray

end Osyris.Ramses
