/-
The operation language of the core machine: one JSON object per operation,
`step : Store -> Json -> Store × Json`.  An operation that raises leaves the store as the
real code leaves it (unchanged, except for the documented partial effects of `update` and
`sortby`) and yields `{"err": kind}`.
-/
import OsyrisModel.Machine
import OsyrisModel.Subdomain
open Lean

namespace Osyris

def getVar (j : Json) (k : String) : M Nat := do
  match getNat? j k with
  | some v => lookupVar v
  | none => fail .badOp

def reqM {α : Type} (o : Option α) : M α := match o with | some a => pure a | none => fail .badOp

def okJson : Json := Json.str "ok"

def parseRhs (j : Json) : M Rhs := do
  match getStr? j "k" with
  | some "var" => do pure (.var (← reqM (getNat? j "v")))
  | some "val" => do pure (.val (← reqM ((getField? j "v").bind ArrV.fromJson?)))
  | some "ndview" => do pure (.ndview (← reqM (getNat? j "v")))
  | _ => fail .badOp

/-- the object a right operand denotes, as Array value or Vector value -/
def rhsValue (r : Rhs) : M (Sum ArrV VecV) := do
  match r with
  | .val a => pure (.inl a)
  | .ndview v => do
    -- a plain ndarray operand: the values the buffer holds *now*, without a unit
    let id ← lookupVar v
    match ← getObj id with
    | .arr _ => do
      let a ← readArr id
      pure (.inl { a with unit := U.one, name := "" })
    | _ => fail .typeErr
  | .var v => do
    let id ← lookupVar v
    match ← getObj id with
    | .arr _ => do pure (.inl (← readArr id))
    | .vec _ => do pure (.inr (← readVec id))
    | _ => fail .typeErr

/-- numpy's stable-order argsort on distinct keys (ties: first occurrence first) -/
def argsort (l : List Rat) : List Nat :=
  let idx := (List.range l.length).map fun i => (getR l i, i)
  (idx.mergeSort (fun a b => a.1 < b.1 || (a.1 == b.1 && a.2 ≤ b.2))).map (·.2)

/-- object-level `__getitem__` on an Array: basic indexing gives a view -/
def arrGet (id : Nat) (ix : Index) : M Nat := do
  let a ← getArrO id
  match a.shape with
  | [] => fail .indexErr
  | n :: rest =>
    let (rows, dropAxis) ← liftR (ix.rows n)
    let rowLen := shapeSize rest
    let shape' := if dropAxis then rest else rows.length :: rest
    let idx' := rows.flatMap fun r => (List.range rowLen).map fun k => a.idx.getD (r * rowLen + k) 0
    if ix.isView && !(dropAxis && rest == []) then
      newObj (.arr { a with idx := idx', shape := shape' })
    else
      let b ← getBuf a.buf
      allocArr { shape := shape', dtype := b.dtype, data := idx'.map (getR b.data), unit := a.unit, name := a.name }

def vecGet (id : Nat) (ix : Index) : M Nat := do
  let v ← getVecO id
  let lv ← readVec id
  let _ ← liftR (lv.getIndex ix)
  let cs ← v.comps.mapM fun c => arrGet c ix
  let ids ← (List.zip cs compLetters).mapM fun (p : Nat × String) => aliasArr p.1 (v.name ++ "_" ++ p.2)
  newObj (.vec { comps := ids, name := v.name })

def memberGet (id : Nat) (ix : Index) : M Nat := do
  match ← getObj id with
  | .arr _ => arrGet id ix
  | .vec _ => vecGet id ix
  | _ => fail .typeErr

def objShape (id : Nat) : M (List Nat) := do
  match ← getObj id with
  | .arr a => pure a.shape
  | .vec v => do
    match v.comps with
    | c :: _ => do pure (← getArrO c).shape
    | [] => pure []
  | _ => fail .typeErr

def dgShape (g : DgO) : M (List Nat) :=
  match g.entries with
  | [] => pure []
  | (_, m) :: _ => objShape m

/-- `Datagroup.__setitem__` at object level -/
def dgSet (gid : Nat) (key : String) (vid : Nat) : M Unit := do
  let g ← getDgO gid
  let gs ← dgShape g
  let vs ← objShape vid
  if gs != [] && gs != vs then fail .valueErr
  renameObj vid key
  let g ← getDgO gid
  setObj gid (.dg { g with entries := dictSet g.entries key vid })

def dgIndex (gid : Nat) (ix : Index) : M Nat := do
  let g ← getDgO gid
  let d ← newObj (.dg { entries := [], name := "" })
  for e in g.entries do
    let m ← memberGet e.2 ix
    dgSet d e.1 m
  pure d

/-- deep copy with a memo on object ids (copy.deepcopy semantics) -/
partial def deepCopy (id : Nat) : StateT (List (Nat × Nat)) M Nat := do
  match (← get).find? (·.1 == id) with
  | some p => pure p.2
  | none =>
    let o ← (getObj id : M Obj)
    let nid ← match o with
      | .arr _ => do
        let v ← (readArr id : M ArrV)
        (allocArr v : M Nat)
      | .vec _ => do
        let v ← (readVec id : M VecV)
        let _ ← (liftR (VecV.ofArrs v.comps v.name) : M VecV)
        (allocVec v : M Nat)
      | .dg g => do
        let es ← g.entries.mapM fun (e : String × Nat) => do
          let c ← deepCopy e.2
          pure (e.1, c)
        (newObj (.dg { entries := es, name := g.name }) : M Nat)
      | .ds d => do
        let gs ← d.groups.mapM fun (e : String × Nat) => do
          let c ← deepCopy e.2
          pure (e.1, c)
        (newObj (.ds { groups := gs, metad := d.metad }) : M Nat)
    modify fun m => (id, nid) :: m
    pure nid

def parseIndex (j : Json) : M Index := reqM ((getField? j "ix").bind Index.fromJson?)

/-- Array-typed index: `Array.__getitem__(Array)` checks the dtype first -/
def indexFromArr (a : ArrV) : Res Index :=
  match a.dtype with
  | .b => .ok (.mask (a.data.map (· != 0)))
  | .i4 => .ok (.fancy (a.data.map (·.floor)))
  | .i8 => .ok (.fancy (a.data.map (·.floor)))
  | _ => .error .typeErr

def memberOfId (id : Nat) : M MemberV := readMember id

def readDg (gid : Nat) : M DgV := do
  let g ← getDgO gid
  g.entries.mapM fun (e : String × Nat) => do
    let m ← readMember e.2
    pure (e.1, m)

def stepOp (j : Json) : M Json := do
  let op ← reqM (getStr? j "op")
  let T ← tables
  match op with
  | "arr" => do
    let v ← reqM ((getField? j "v").bind ArrV.fromJson?)
    let id ← allocArr v
    bindVar (← reqM (getNat? j "dst")) id
    pure okJson
  | "vec" => do
    let cs ← reqM (getNats? j "comps")
    let ids ← cs.mapM lookupVar
    let id ← mkVector ids ((getStr? j "name").getD "")
    bindVar (← reqM (getNat? j "dst")) id
    pure okJson
  | "bin" => do
    let bop ← reqM ((getStr? j "name").bind BinOp.fromString?)
    let aid ← getVar j "a"
    let rhs ← parseRhs (← reqM (getField? j "rhs"))
    let inplace := (getBool? j "inplace").getD false
    let dst ← reqM (getNat? j "dst")
    let rv ← rhsValue rhs
    let vecIn (r : VRhs) : M (Sum Nat Err) := do
      match ← vecInplace bop aid r with
      | some e => pure (.inr e)
      | none => pure (.inl aid)
    let res : Sum Nat Err ← match ← getObj aid, rv with
      | .arr _, .inl r =>
        if inplace then do pure (.inl (← arrInplace bop aid r))
        else do
          let l ← readArr aid
          pure (.inl (← allocArr (← liftR (ArrV.binaryOp T bop l r))))
      | .vec _, .inl r =>
        if inplace then vecIn (.arr r)
        else do
          let l ← readVec aid
          pure (.inl (← allocVec (← liftR (l.binaryOp T bop (.arr r)))))
      | .vec _, .inr w =>
        if inplace then vecIn (.vec w)
        else do
          let l ← readVec aid
          pure (.inl (← allocVec (← liftR (l.binaryOp T bop (.vec w)))))
      | _, _ => fail .badOp
    match res with
    | .inl id => do
      bindVar dst id
      pure okJson
    | .inr e => pure (errJson e)     -- partial effect kept, nothing bound
  | "un" => do
    let uop ← reqM ((getStr? j "name").bind UnOp.fromString?)
    let aid ← getVar j "a"
    let res ← match ← getObj aid with
      | .arr _ => do allocArr (← liftR ((← readArr aid).applyUn T uop))
      | .vec _ => do allocVec (← liftR ((← readVec aid).mapComps (·.applyUn T uop)))
      | _ => fail .typeErr
    bindVar (← reqM (getNat? j "dst")) res
    pure okJson
  | "pow" => do
    let k ← reqM (getInt? j "k")
    let aid ← getVar j "a"
    let res ← match ← getObj aid with
      | .arr _ => do allocArr (← liftR ((← readArr aid).powInt T k))
      | .vec _ => do allocVec (← liftR ((← readVec aid).mapComps (·.powInt T k)))
      | _ => fail .typeErr
    bindVar (← reqM (getNat? j "dst")) res
    pure okJson
  | "rbin" => do
    -- `k * a` = `a * k`;  `k / a` = `np.reciprocal(a / k)`;  Vector only: `k + v` = `v + k`, `k - v` = `-(v - k)`
    let name ← reqM (getStr? j "name")
    let aid ← getVar j "a"
    let k ← reqM ((getField? j "lhs").bind ArrV.fromJson?)
    let f (l : ArrV) : Res ArrV :=
      match name with
      | "mul" => ArrV.binaryOp T .mul l k
      | "div" => do let q ← ArrV.binaryOp T .div l k; q.applyUn T .reciprocal
      | "add" => ArrV.binaryOp T .add l k
      | "sub" => do let q ← ArrV.binaryOp T .sub l k; q.applyUn T .neg
      | _ => .error .badOp
    -- a numpy ndarray on the left handles the operator itself: `np.multiply(nd, a)` reaches
    -- `Array.__array_ufunc__` -> `_wrap_numpy`: raw values, unit from `func(nd, 1.0 * a.unit)`, no conversion of `nd`
    let viaUfunc := getStr? j "py" == some "nd"
    let res ← match ← getObj aid with
      | .arr _ => do
        if viaUfunc then
          if name == "mul" then allocArr (← liftR (ArrV.applyBin T .mul (← readArr aid) k))
          else fail .badOp
        else
        -- Array defines no `__radd__` / `__rsub__`: Python raises TypeError
        if name == "add" || name == "sub" then fail .typeErr
        allocArr (← liftR (f (← readArr aid)))
      | .vec _ => do allocVec (← liftR ((← readVec aid).mapComps f))
      | _ => fail .typeErr
    bindVar (← reqM (getNat? j "dst")) res
    pure okJson
  | "to" => do
    let u ← reqM ((getField? j "unit").bind U.fromJson?)
    let aid ← getVar j "a"
    let dst ← reqM (getNat? j "dst")
    match ← getObj aid with
    | .arr _ => do
      let (r, same) ← liftR ((← readArr aid).to u)
      if same then bindVar dst aid else bindVar dst (← allocArr r)
    | .vec v => do
      let lv ← readVec aid
      let _ ← liftR (lv.to u)
      let ids ← (List.zip v.comps compLetters).mapM fun (p : Nat × String) => do
        let (r, same) ← liftR ((← readArr p.1).to u)
        if same then aliasArr p.1 ("_" ++ p.2) else allocArr { r with name := "_" ++ p.2 }
      bindVar dst (← newObj (.vec { comps := ids, name := "" }))
    | _ => fail .typeErr
    pure okJson
  | "get" => do
    let aid ← getVar j "a"
    let dst ← reqM (getNat? j "dst")
    let ix ← match getNat? j "ixvar" with
      | some v => do
        let iid ← lookupVar v
        match ← getObj iid with
        | .arr _ => liftR (indexFromArr (← readArr iid))
        | .vec _ => fail .valueErr
        | _ => fail .typeErr
      | none => parseIndex j
    bindVar dst (← memberGet aid ix)
    pure okJson
  | "copy" => do
    let aid ← getVar j "a"
    let dst ← reqM (getNat? j "dst")
    let deep := (getBool? j "deep").getD false
    match ← getObj aid with
    | .arr _ => do bindVar dst (← allocArr (← readArr aid))
    | .vec _ => do
      -- `Vector(**{c: xyz.copy()})`: the constructor re-validates the components
      let v ← readVec aid
      let _ ← liftR (VecV.ofArrs v.comps v.name)
      bindVar dst (← allocVec v)
    | .dg g =>
      if deep then do
        let (nid, _) ← (deepCopy aid).run []
        bindVar dst nid
      else do
        -- `self.__class__(**{key: array ...})`: a new group holding the same objects
        let d ← newObj (.dg { entries := [], name := "" })
        match ← partialSeq (g.entries.map fun e => dgSet d e.1 e.2) with
        | some e => return (errJson e)      -- renames done before the failure persist
        | none => bindVar dst d
    | .ds d =>
      if deep then do
        let (nid, _) ← (deepCopy aid).run []
        bindVar dst nid
      else do
        for e in d.groups do renameObj e.2 e.1
        bindVar dst (← newObj (.ds { groups := d.groups, metad := d.metad }))
    pure okJson
  | "comp" => do
    let aid ← getVar j "a"
    let c ← reqM (getNat? j "c")
    let v ← getVecO aid
    match v.comps[c]? with
    | some id => bindVar (← reqM (getNat? j "dst")) id
    | none => fail .typeErr    -- `None` component: AttributeError-like
    pure okJson
  | "vec_setcomp" => do
    -- `v.x = a` / `v.z = a`: plain attribute assignment (no validation, no renaming); every operator reads
    -- the components through the attributes, so the Vector is from now on made of the new object
    let vid ← getVar j "a"
    let c ← reqM (getNat? j "c")
    let nid ← getVar j "v"
    let v ← getVecO vid
    match ← getObj nid with
    | .arr _ =>
      if c < v.comps.length then setObj vid (.vec { v with comps := v.comps.set c nid })
      else if c == v.comps.length && c < 3 then setObj vid (.vec { v with comps := v.comps ++ [nid] })
      else fail .badOp
    | _ => fail .badOp
    pure okJson
  | "normsq" => do
    let aid ← getVar j "a"
    match ← getObj aid with
    | .vec _ => do
      let v ← readVec aid
      pure (Json.mkObj [("normsq", ratsToJson v.normSq), ("unit", v.unit.toJson), ("shape", natsToJson v.shape)])
    | .arr _ => do
      let a ← readArr aid
      pure (Json.mkObj [("normsq", ratsToJson (a.data.map fun t => t * t)), ("unit", a.unit.toJson), ("shape", natsToJson a.shape)])
    | _ => fail .typeErr
  | "dot" => do
    let v ← readVec (← getVar j "a")
    let w ← readVec (← getVar j "b")
    bindVar (← reqM (getNat? j "dst")) (← allocArr (← liftR (v.dot T w)))
    pure okJson
  | "cross" => do
    let v ← readVec (← getVar j "a")
    let w ← readVec (← getVar j "b")
    bindVar (← reqM (getNat? j "dst")) (← allocVec (← liftR (v.cross T w)))
    pure okJson
  /- ---------------- Datagroup ---------------- -/
  | "dg_new" => do
    bindVar (← reqM (getNat? j "dst")) (← newObj (.dg { entries := [], name := "" }))
    pure okJson
  | "dg_set" => do
    dgSet (← getVar j "g") (← reqM (getStr? j "key")) (← getVar j "v")
    pure okJson
  | "dg_del" => do
    let gid ← getVar j "g"
    let g ← getDgO gid
    let key ← reqM (getStr? j "key")
    if !(g.entries.any (·.1 == key)) then fail .keyErr
    setObj gid (.dg { g with entries := dictDel g.entries key })
    pure okJson
  | "dg_pop" => do
    let gid ← getVar j "g"
    let g ← getDgO gid
    let key ← reqM (getStr? j "key")
    match dictGet? g.entries key with
    | none => fail .keyErr
    | some id => do
      setObj gid (.dg { g with entries := dictDel g.entries key })
      bindVar (← reqM (getNat? j "dst")) id
      pure okJson
  | "dg_getkey" => do
    let g ← getDgO (← getVar j "g")
    match dictGet? g.entries (← reqM (getStr? j "key")) with
    | none => fail .keyErr
    | some id => do
      bindVar (← reqM (getNat? j "dst")) id
      pure okJson
  | "dg_get" => do
    let g ← getDgO (← getVar j "g")
    let dflt ← getVar j "default"
    let id := (dictGet? g.entries (← reqM (getStr? j "key"))).getD dflt
    bindVar (← reqM (getNat? j "dst")) id
    pure okJson
  | "dg_update" => do
    let gid ← getVar j "g"
    let items ← reqM (getArr? j "items")
    -- `dict(*args)` first collapses duplicate keys (last value, first position)
    let mut pairs : List (String × Nat) := []
    for it in items do
      match it with
      | .arr #[.str k, v] => do
        let vid ← lookupVar (← reqM (jsonToNat? v))
        pairs := dictSet pairs k vid
      | _ => fail .badOp
    -- partial effect: insertions before the failing one stay
    let err ← partialSeq (pairs.map fun p => dgSet gid p.1 p.2)
    match err with
    | some e => pure (errJson e)
    | none => pure okJson
  | "dg_clear" => do
    let gid ← getVar j "g"
    let g ← getDgO gid
    setObj gid (.dg { g with entries := [] })
    pure okJson
  | "dg_index" => do
    let gid ← getVar j "g"
    if (← getDgO gid).entries.isEmpty then
      -- no member is indexed: the index object is never looked at
      bindVar (← reqM (getNat? j "dst")) (← newObj (.dg { entries := [], name := "" }))
      return okJson
    let ix ← match getNat? j "ixvar" with
      | some v => do
        let iid ← lookupVar v
        match ← getObj iid with
        | .arr _ => liftR (indexFromArr (← readArr iid))
        | .vec _ => fail .valueErr
        | _ => fail .typeErr
      | none => parseIndex j
    bindVar (← reqM (getNat? j "dst")) (← dgIndex gid ix)
    pure okJson
  | "dg_sortby" => do
    let gid ← getVar j "g"
    let g ← getDgO gid
    let perm : List Int ← match getStr? j "key" with
      | some key => do
        match dictGet? g.entries key with
        | none => fail .keyErr
        | some id => do
          match ← getObj id with
          | .arr _ => do
            let a ← readArr id
            -- np.argsort of a 0-d array answers [0]
            if a.shape.length > 1 then fail .badOp
            pure ((argsort a.data).map fun (n : Nat) => (n : Int))
          | _ => fail .typeErr
      | none => reqM (getInts? j "perm")
    let err ← partialSeq (g.entries.map fun e => do
          let cur ← getDgO gid
          match dictGet? cur.entries e.1 with
          | none => fail .keyErr
          | some id => do
            let m ← memberGet id (.fancy perm)
            dgSet gid e.1 m)
    match err with
    | some e => pure (errJson e)
    | none => pure okJson
  | "dg_eq" => do
    let a ← readDg (← getVar j "a")
    let b ← readDg (← getVar j "b")
    let r ← liftR (DgV.eq T a b)
    pure (Json.bool r)
  | "dg_keys" => do
    let g ← getDgO (← getVar j "g")
    pure (Json.arr (g.entries.map fun e => Json.str e.1).toArray)
  | "dg_len" => do
    let g ← getDgO (← getVar j "g")
    pure (Json.num (JsonNumber.fromNat g.entries.length))
  | "dg_contains" => do
    let g ← getDgO (← getVar j "g")
    let key ← reqM (getStr? j "key")
    pure (Json.bool (g.entries.any (·.1 == key)))
  /- ---------------- Dataset ---------------- -/
  | "ds_new" => do
    bindVar (← reqM (getNat? j "dst")) (← newObj (.ds { groups := [], metad := [] }))
    pure okJson
  | "ds_set" => do
    let did ← getVar j "d"
    let vid ← getVar j "v"
    let key ← reqM (getStr? j "key")
    match ← getObj vid with
    | .dg _ => do
      let d ← getDsO did
      setObj did (.ds { d with groups := dictSet d.groups key vid })
      renameObj vid key
      pure okJson
    | _ => fail .typeErr
  | "ds_del" => do
    let did ← getVar j "d"
    let d ← getDsO did
    let key ← reqM (getStr? j "key")
    if !(d.groups.any (·.1 == key)) then fail .keyErr
    setObj did (.ds { d with groups := dictDel d.groups key })
    pure okJson
  | "ds_pop" => do
    let did ← getVar j "d"
    let d ← getDsO did
    let key ← reqM (getStr? j "key")
    match dictGet? d.groups key with
    | none => fail .keyErr
    | some id => do
      setObj did (.ds { d with groups := dictDel d.groups key })
      bindVar (← reqM (getNat? j "dst")) id
      pure okJson
  | "ds_getkey" => do
    let d ← getDsO (← getVar j "d")
    match dictGet? d.groups (← reqM (getStr? j "key")) with
    | none => fail .keyErr
    | some id => do
      bindVar (← reqM (getNat? j "dst")) id
      pure okJson
  | "ds_get" => do
    let d ← getDsO (← getVar j "d")
    let dflt ← getVar j "default"
    bindVar (← reqM (getNat? j "dst")) ((dictGet? d.groups (← reqM (getStr? j "key"))).getD dflt)
    pure okJson
  | "ds_update" => do
    let did ← getVar j "d"
    let items ← reqM (getArr? j "items")
    let mut pairs : List (String × Nat) := []
    for it in items do
      match it with
      | .arr #[.str k, v] => do
        let vid ← lookupVar (← reqM (jsonToNat? v))
        pairs := dictSet pairs k vid
      | _ => fail .badOp
    let err ← partialSeq (pairs.map fun p => do
        match ← getObj p.2 with
        | .dg _ => do
          let d ← getDsO did
          setObj did (.ds { d with groups := dictSet d.groups p.1 p.2 })
          renameObj p.2 p.1
        | _ => fail .typeErr)
    match err with
    | some e => pure (errJson e)
    | none => pure okJson
  | "ds_clear" => do
    let did ← getVar j "d"
    setObj did (.ds { groups := [], metad := [] })
    pure okJson
  | "ds_meta_set" => do
    let did ← getVar j "d"
    let d ← getDsO did
    setObj did (.ds { d with metad := dictSet d.metad (← reqM (getStr? j "key")) (← reqM (getStr? j "val")) })
    pure okJson
  | "ds_keys" => do
    let d ← getDsO (← getVar j "d")
    pure (Json.arr (d.groups.map fun e => Json.str e.1).toArray)
  | "ds_len" => do
    let d ← getDsO (← getVar j "d")
    pure (Json.num (JsonNumber.fromNat d.groups.length))
  | "ds_contains" => do
    let d ← getDsO (← getVar j "d")
    let key ← reqM (getStr? j "key")
    pure (Json.bool (d.groups.any (·.1 == key)))
  /- ---------------- observations ---------------- -/
  | "obs" => do
    obsObj (← getVar j "v")
  | "same" => do
    pure (Json.bool ((← getVar j "a") == (← getVar j "b")))
  | "shares" => do
    let ca ← bufCells (← getVar j "a")
    let cb ← bufCells (← getVar j "b")
    pure (Json.bool (ca.any fun c => cb.contains c))
  | "extract_sphere" | "extract_box" => Subdomain.step j
  | _ => fail .badOp

def step (s : Store) (j : Json) : Store × Json :=
  match (stepOp j).run s with
  | .ok (out, s') => (s', out)
  | .error e => (s, errJson e)

def runProg (T : Tables) (ops : List Json) : List Json :=
  (ops.foldl (fun (acc : Store × List Json) op =>
      let (s', out) := step acc.1 op
      (s', out :: acc.2)) (({ cfg := T } : Store), [])).2.reverse

end Osyris
