/-
C16 model: `osyris.spatial.extract_sphere / extract_box` (as repaired: position looked up in
the group itself, else in the dataset's "mesh" group; box over the components that exist).
Value level: a dataset is an ordered list of named groups plus metadata.
-/
import OsyrisModel.Machine
open Lean

namespace Osyris

abbrev DsV := List (String × DgV)

namespace Subdomain

/-- position used for a group: its own `position`, else the mesh group's -/
def positionOf (ds : DsV) (g : DgV) : Option MemberV :=
  match dictGet? g "position" with
  | some p => some p
  | none => (dictGet? ds "mesh").bind (dictGet? · "position")

def allM {α : Type} (f : α → Res (List Bool)) : List α → Res (Option (List Bool))
  | [] => .ok none
  | a :: rest => do
    let m ← f a
    match ← allM f rest with
    | none => pure (some m)
    | some m' => pure (some (List.zipWith (· && ·) m m'))

/-- `((pos - origin).norm < radius).values` for a 0-d radius.
    For >= 2 components the Euclidean norm is compared through its square; a 1-component
    Vector's `norm` is the component itself (as coded, see the C09 known finding). -/
def sphereMask (T : Tables) (pos origin : VecV) (radius : ArrV) : Res (List Bool) := do
  let d ← pos.binaryOp T .sub (.vec origin)
  -- `r < radius`: radius converted to r's unit (strict)
  let (rad, _) ← radius.to d.unit
  let R := getR rad.data 0
  match d.comps with
  | [x] => pure (x.data.map fun t => decide (t < R))
  | _ => pure (d.normSq.map fun q => decide (0 < R) && decide (q < R * R))

/-- one component of `extract_box`: `(c <= size/2) & (c >= -size/2)`, the size converted to the component's unit -/
def compMask (p : ArrV × ArrV) : Res (List Bool) := do
  let (sz, _) ← p.2.to p.1.unit
  let h := getR sz.data 0 / 2
  pure (p.1.data.map fun t => decide (t ≤ h) && decide (-h ≤ t))

/-- `(c <= size/2) & (c >= -size/2)` per existing component, combined with `&` -/
def boxMask (T : Tables) (pos origin : VecV) (sizes : List ArrV) : Res (List Bool) := do
  let d ← pos.binaryOp T .sub (.vec origin)
  let per ← (List.zip d.comps sizes).mapM compMask
  match per with
  | [] => .error .typeErr
  | m :: rest => pure (rest.foldl (fun acc m' => List.zipWith (· && ·) acc m') m)

/-- the extraction loop: for every group whose rows have positions, keep the rows of the mask;
    groups with no row inside are omitted; groups without usable positions are skipped -/
def extract (ds : DsV) (maskOf : VecV → Res (List Bool)) : Res DsV :=
  ds.foldlM (fun (acc : DsV) (e : String × DgV) => do
    match positionOf ds e.2 with
    | none => pure acc
    | some (.arr _) => .error .typeErr       -- an Array position has no components to centre
    | some (.vec pos) =>
      if pos.shape != e.2.shape then pure acc
      else do
        let m ← maskOf pos
        if m.any id then do
          let g' ← e.2.getIndex (.mask m)
          pure (dictSet acc e.1 g')
        else pure acc) []

end Subdomain

/-! ### machine level: read a dataset out of the store, extract, allocate the result -/

namespace Subdomain

def readDs (did : Nat) : M DsV := do
  let d ← getDsO did
  d.groups.mapM fun (e : String × Nat) => do
    let g ← getDgO e.2
    let ms ← g.entries.mapM fun (m : String × Nat) => do
      let v ← readMember m.2
      pure (m.1, v)
    pure (e.1, ms)

def allocMember (m : MemberV) : M Nat :=
  match m with
  | .arr a => allocArr a
  | .vec v => allocVec v

def allocDs (ds : DsV) (metad : List (String × String)) : M Nat := do
  let gs ← ds.mapM fun (e : String × DgV) => do
    let ms ← e.2.mapM fun (m : String × MemberV) => do
      let id ← allocMember m.2
      pure (m.1, id)
    let gid ← newObj (.dg { entries := ms, name := e.1 })
    pure (e.1, gid)
  newObj (.ds { groups := gs, metad := metad })

def lookupVarJ (j : Json) (k : String) : M Nat := do
  match getNat? j k with
  | some v => lookupVar v
  | none => fail .badOp

def rhsVal (j : Json) (k : String) : M ArrV := do
  match getField? j k with
  | some r =>
    match getStr? r "k" with
    | some "val" => match (getField? r "v").bind ArrV.fromJson? with
      | some a => pure a
      | none => fail .badOp
    | some "var" => do
      match getNat? r "v" with
      | some v => readArr (← lookupVar v)
      | none => fail .badOp
    | _ => fail .badOp
  | none => fail .badOp

def step (j : Json) : M Json := do
  let T ← tables
  let did ← lookupVarJ j "d"
  let ds ← readDs did
  let d ← getDsO did
  let origin ← readVec (← lookupVarJ j "origin")
  let res ← match getStr? j "op" with
    | some "extract_sphere" => do
      let radius ← rhsVal j "radius"
      liftR (extract ds (fun pos => sphereMask T pos origin radius))
    | some "extract_box" => do
      let dx ← rhsVal j "dx"
      let dy ← rhsVal j "dy"
      let dz ← rhsVal j "dz"
      liftR (extract ds (fun pos => boxMask T pos origin [dx, dy, dz]))
    | _ => fail .badOp
  let nid ← allocDs res d.metad
  match getNat? j "dst" with
  | some dst => bindVar dst nid
  | none => fail .badOp
  pure (Json.str "ok")

end Subdomain

end Osyris
