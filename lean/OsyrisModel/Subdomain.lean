/-
C16 model: sub-domain extraction (filled in with the C16 work).
-/
import OsyrisModel.Machine
open Lean

namespace Osyris.Subdomain

def step (_j : Json) : M Json := fail .badOp

end Osyris.Subdomain
