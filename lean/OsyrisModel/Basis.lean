/-
C18 model: orientation bases for maps (`osyris.core.vector.perpendicular_vector`, `cross`,
`VectorBasis`, `VectorBasis.roll`, `osyris.plot.direction.get_direction`).

Everything is over core `Rat` and *unnormalised*: `normalize` divides by a positive number
(or by 1 for the zero vector), so the direction of every vector is the direction of the
rational vector computed here; the harness compares directions, norms and dot products.

Strings are `List Char` so that the finite tables of accepted letters / triples can be checked
by evaluation in the kernel.  Core Lean only (the driver links this file).
-/
import OsyrisModel.Basic
open Lean

namespace Osyris.Basis

structure V3 where
  x : Rat
  y : Rat
  z : Rat
  deriving DecidableEq, Repr, Inhabited

namespace V3

def zero : V3 := ⟨0, 0, 0⟩
def dot (a b : V3) : Rat := a.x * b.x + a.y * b.y + a.z * b.z
def normSq (a : V3) : Rat := dot a a
def smul (k : Rat) (a : V3) : V3 := ⟨k * a.x, k * a.y, k * a.z⟩
def add (a b : V3) : V3 := ⟨a.x + b.x, a.y + b.y, a.z + b.z⟩
def sub (a b : V3) : V3 := ⟨a.x - b.x, a.y - b.y, a.z - b.z⟩

/-- `Vector.cross` as coded -/
def cross (a b : V3) : V3 :=
  ⟨a.y * b.z - a.z * b.y, a.z * b.x - a.x * b.z, a.x * b.y - a.y * b.x⟩

end V3

/-- `perpendicular_vector` as coded: `(-y, x, 0)` when `z == 0`, else `(1, 1, -1.0*(x+y)/z)` -/
def perpendicular (v : V3) : V3 :=
  if v.z = 0 then ⟨-v.y, v.x, 0⟩ else ⟨1, 1, -1 * (v.x + v.y) / v.z⟩

structure Basis where
  n : V3
  u : V3
  v : V3
  deriving DecidableEq, Repr, Inhabited

/-- `VectorBasis.__init__` without the normalisation -/
def mkBasis (n : V3) (u v : Option V3) : Basis :=
  let u' := u.getD (perpendicular n)
  let v' := v.getD (n.cross u')
  ⟨n, u', v'⟩

/-- `VectorBasis.roll`: `VectorBasis(n=self.u, u=self.v, v=self.n)` -/
def Basis.roll (b : Basis) : Basis := mkBasis b.u (some b.v) (some b.n)

/-! ### get_direction -/

/-- particle / cell cloud handed to 'top' and 'side' -/
structure Cloud where
  pos : List V3
  vel : List V3
  mass : List Rat
  deriving Repr, Inhabited

inductive Dir
  | str (s : List Char)
  | vec (v : V3)
  | basis (n u v : V3)       -- a VectorBasis object
  | other                    -- anything else (list, number, None)
  deriving Repr, Inhabited

inductive Out
  | basis (b : Basis)
  | none                     -- the function falls off its `if` chain and returns None
  | valueErr                 -- `raise ValueError("Bad direction for slice")`
  | fails                    -- the call raises something else (e.g. top/side without data)
  deriving DecidableEq, Repr, Inhabited

def axisOf : Char → Option V3
  | 'x' => some ⟨1, 0, 0⟩
  | 'y' => some ⟨0, 1, 0⟩
  | 'z' => some ⟨0, 0, 1⟩
  | _ => Option.none

def lowerC (c : Char) : Char :=
  if 65 ≤ c.toNat ∧ c.toNat ≤ 90 then Char.ofNat (c.toNat + 32) else c

def lower (s : List Char) : List Char := s.map lowerC

/-- `set(direction) == set("xyz")` -/
def isXYZSet (s : List Char) : Bool :=
  s.all (fun c => c == 'x' || c == 'y' || c == 'z') && s.contains 'x' && s.contains 'y' && s.contains 'z'

def minQ (a b : Rat) : Rat := if a ≤ b then a else b
def maxQ (a b : Rat) : Rat := if b ≤ a then a else b

def extent (l : List Rat) : Option Rat :=
  match l with
  | [] => Option.none
  | a :: rest => some (rest.foldl maxQ a - rest.foldl minQ a)

/-- radius of the sphere: `0.25*(dx+dy)` if the window is given, else the data extent rule
    `0.5*(Δx+Δy+Δz)/3` (extents taken *before* the origin is subtracted, as coded) -/
def sphereRad (win : Option (Rat × Rat)) (pos : List V3) : Option Rat :=
  match win with
  | some (dx, dy) => some ((1 : Rat) / 4 * (dx + dy))
  | Option.none => do
    let ex ← extent (pos.map (·.x))
    let ey ← extent (pos.map (·.y))
    let ez ← extent (pos.map (·.z))
    pure ((1 : Rat) / 2 * (ex + ey + ez) / 3)

/-- `norm < R` for `norm = sqrt(normSq)` -/
def inside (R : Rat) (r : V3) : Bool := decide (0 < R) && decide (r.normSq < R * R)

/-- the rows `(r − origin, m, v)` of the cloud -/
def rows (c : Cloud) (origin : Option V3) : List (V3 × Rat × V3) :=
  (List.zip c.pos (List.zip c.mass c.vel)).map fun p =>
    (match origin with | some o => p.1.sub o | Option.none => p.1, p.2.1, p.2.2)

/-- as coded: `np.sum((pos[sphere] * mass[sphere]).cross(vel[sphere]))` -/
def angMom (R : Rat) (rs : List (V3 × Rat × V3)) : V3 :=
  (rs.filter fun p => inside R p.1).foldl (fun acc p => acc.add ((V3.smul p.2.1 p.1).cross p.2.2)) V3.zero

/-- Spec: `L = Σ_{|r| < R} m (r × v)` -/
def Spec.angMom (R : Rat) (rs : List (V3 × Rat × V3)) : V3 :=
  (rs.filter fun p => inside R p.1).foldl (fun acc p => acc.add (V3.smul p.2.1 (p.1.cross p.2.2))) V3.zero

/-- the angular momentum `get_direction` uses for 'top' / 'side' -/
def cloudL (cloud : Cloud) (win : Option (Rat × Rat)) (origin : Option V3) : Option V3 := do
  let R ← sphereRad win cloud.pos
  pure (angMom R (rows cloud origin))

def getDirection (d : Dir) (cloud : Option Cloud) (win : Option (Rat × Rat)) (origin : Option V3) : Out :=
  match d with
  | .str s0 =>
    let s := lower s0
    if s = ['t', 'o', 'p'] ∨ s = ['s', 'i', 'd', 'e'] then
      match cloud with
      | Option.none => .fails
      | some c =>
        match cloudL c win origin with
        | Option.none => .fails
        | some L =>
          let b := mkBasis L Option.none Option.none
          .basis (if s = ['s', 'i', 'd', 'e'] then b.roll else b)
    else if isXYZSet s then
      match s with
      | a :: b :: c :: _ =>
        match axisOf a, axisOf b, axisOf c with
        | some n, some u, some v => .basis (mkBasis n (some u) (some v))
        | _, _, _ => .fails
      | _ => .fails
    else if s = ['x'] then .basis (mkBasis ⟨1, 0, 0⟩ (some ⟨0, 1, 0⟩) (some ⟨0, 0, 1⟩))
    else if s = ['y'] then .basis (mkBasis ⟨0, 1, 0⟩ (some ⟨0, 0, 1⟩) (some ⟨1, 0, 0⟩))
    else if s = ['z'] then .basis (mkBasis ⟨0, 0, 1⟩ (some ⟨1, 0, 0⟩) (some ⟨0, 1, 0⟩))
    else .none
  | .vec v => .basis (mkBasis v Option.none Option.none)
  | .basis n u v => .basis (mkBasis n (some u) (some v))
  | .other => .valueErr

/-! ### the accepted string forms (finite tables) -/

def letters : List (List Char) := [['x'], ['y'], ['z'], ['X'], ['Y'], ['Z']]

def perms3 : List (List Char) :=
  [['x', 'y', 'z'], ['x', 'z', 'y'], ['y', 'x', 'z'], ['y', 'z', 'x'], ['z', 'x', 'y'], ['z', 'y', 'x']]

def upperC (c : Char) : Char :=
  if 97 ≤ c.toNat ∧ c.toNat ≤ 122 then Char.ofNat (c.toNat - 32) else c

/-- every upper/lower-case pattern of a three-letter word -/
def caseVariants (s : List Char) : List (List Char) :=
  match s with
  | [a, b, c] =>
    [[a, b, c], [upperC a, b, c], [a, upperC b, c], [a, b, upperC c], [upperC a, upperC b, c],
     [upperC a, b, upperC c], [a, upperC b, upperC c], [upperC a, upperC b, upperC c]]
  | _ => [s]

def triples : List (List Char) := perms3.flatMap caseVariants

/-- all dot products as they should be for an orthonormal basis -/
def Basis.orthonormalB (b : Basis) : Bool :=
  b.n.dot b.n == 1 && b.u.dot b.u == 1 && b.v.dot b.v == 1 &&
  b.n.dot b.u == 0 && b.n.dot b.v == 0 && b.u.dot b.v == 0

/-- the normal of an accepted string form is the axis named by its first letter -/
def stringFormOk (s : List Char) : Bool :=
  match getDirection (.str s) Option.none Option.none Option.none, (lower s).head?.bind axisOf with
  | .basis b, some a => b.orthonormalB && b.n == a
  | _, _ => false

end Osyris.Basis
