/-
F3 Store + the object-level state machine (`step`) for core osyris objects:
Arrays with shared buffers and views, Vectors holding component Arrays, Datagroups and
Datasets holding references.  Every operation reads *values* out of the store, applies the
pure functions of ArrayOps / VectorOps / Datagroup, and allocates or writes back — so the
theorems about the pure layer carry over, and the aliasing contract (C17), container
semantics (C06/C20) and sub-domain extraction (C16) are exercised on one machine that the
correspondence harness drives in lock-step with the real library.
-/
import OsyrisModel.Datagroup
open Lean

namespace Osyris

structure Buf where
  dtype : DType
  data : List Rat
  deriving Repr, Inhabited

structure ArrO where
  buf : Nat
  idx : List Nat          -- flat positions in the buffer, row-major for `shape`
  shape : List Nat
  unit : U
  name : String
  deriving Repr, Inhabited

structure VecO where
  comps : List Nat        -- object ids of the component Arrays
  name : String
  deriving Repr, Inhabited

structure DgO where
  entries : List (String × Nat)
  name : String
  deriving Repr, Inhabited

structure DsO where
  groups : List (String × Nat)
  metad : List (String × String)
  deriving Repr, Inhabited

inductive Obj
  | arr (a : ArrO)
  | vec (v : VecO)
  | dg (g : DgO)
  | ds (d : DsO)
  deriving Repr, Inhabited

structure Store where
  bufs : List Buf := []
  objs : List Obj := []
  vars : List (Nat × Nat) := []     -- program variable -> object id
  cfg : Tables := default           -- unit tables (Generated for the model, Reference for the spec)
  deriving Inhabited

/-! ### pure store layer (the theorems of C17 are about these functions) -/

def Store.arrO? (s : Store) (id : Nat) : Option ArrO :=
  match s.objs[id]? with
  | some (.arr a) => some a
  | _ => none

/-- value of an Array object: its view of its buffer -/
def Store.readArr? (s : Store) (id : Nat) : Option ArrV :=
  match s.arrO? id with
  | none => none
  | some a =>
    match s.bufs[a.buf]? with
    | none => none
    | some b => some { shape := a.shape, dtype := b.dtype, data := a.idx.map (getR b.data),
                       unit := a.unit, name := a.name }

/-- write values at the given buffer positions -/
def scatter (buf : List Rat) : List Nat → List Rat → List Rat
  | i :: is, x :: xs => scatter (buf.set i x) is xs
  | _, _ => buf

/-- write values through an Array's view into its buffer and rebind its unit on that object -/
def Store.writeArr? (s : Store) (id : Nat) (data : List Rat) (unit : U) : Option Store :=
  match s.arrO? id with
  | none => none
  | some a =>
    match s.bufs[a.buf]? with
    | none => none
    | some b =>
      some { s with bufs := s.bufs.set a.buf { b with data := scatter b.data a.idx data },
                    objs := s.objs.set id (.arr { a with unit := unit }) }

/-- a fresh Array object on a fresh buffer; returns the new store and the object id -/
def Store.allocArr (s : Store) (v : ArrV) : Store × Nat :=
  ({ s with bufs := s.bufs ++ [{ dtype := v.dtype, data := v.data }],
            objs := s.objs ++ [.arr { buf := s.bufs.length, idx := List.range v.data.length,
                                      shape := v.shape, unit := v.unit, name := v.name }] },
   s.objs.length)

/-- in-place Array operator `lhs op= rhs` (`out=self`) on the store -/
def Store.arrInplace (T : Tables) (op : BinOp) (s : Store) (lhsId : Nat) (rhs : ArrV) : Except Err Store :=
  match s.readArr? lhsId with
  | none => .error .typeErr
  | some lhs =>
    match ArrV.binaryOp T op lhs rhs with
    | .error e => .error e
    | .ok r =>
      if r.shape != lhs.shape then .error .valueErr
      else if !DType.canCastSameKind r.dtype lhs.dtype then .error .typeErr
      else
        -- the unit rule is evaluated on the dtype of the `out` array
        let rhs' := match rhs.to lhs.unit with | .ok (x, _) => x | .error _ => rhs
        let unit := wrapUnit T op.npName lhs.dtype lhs.unit (op.derivedUnit lhs.unit rhs'.unit)
        match s.writeArr? lhsId r.data unit with
        | some s' => .ok s'
        | none => .error .typeErr

abbrev M := StateT Store (Except Err)

def fail {α : Type} (e : Err) : M α := throw e

def tables : M Tables := do pure (← get).cfg

def getObj (id : Nat) : M Obj := do
  match (← get).objs[id]? with
  | some o => pure o
  | none => fail .badOp

def setObj (id : Nat) (o : Obj) : M Unit :=
  modify fun s => { s with objs := s.objs.set id o }

def newObj (o : Obj) : M Nat := do
  let s ← get
  set { s with objs := s.objs ++ [o] }
  pure s.objs.length

def newBuf (b : Buf) : M Nat := do
  let s ← get
  set { s with bufs := s.bufs ++ [b] }
  pure s.bufs.length

def getBuf (id : Nat) : M Buf := do
  match (← get).bufs[id]? with
  | some b => pure b
  | none => fail .badOp

def lookupVar (v : Nat) : M Nat := do
  match (← get).vars.find? (·.1 == v) with
  | some p => pure p.2
  | none => fail .unbound

def bindVar (v : Nat) (id : Nat) : M Unit :=
  modify fun s => { s with vars := (v, id) :: s.vars.filter (·.1 != v) }

def getArrO (id : Nat) : M ArrO := do
  match ← getObj id with
  | .arr a => pure a
  | _ => fail .typeErr

def getVecO (id : Nat) : M VecO := do
  match ← getObj id with
  | .vec a => pure a
  | _ => fail .typeErr

def getDgO (id : Nat) : M DgO := do
  match ← getObj id with
  | .dg a => pure a
  | _ => fail .typeErr

def getDsO (id : Nat) : M DsO := do
  match ← getObj id with
  | .ds a => pure a
  | _ => fail .typeErr

/-- value of an Array object -/
def readArr (id : Nat) : M ArrV := do
  match (← get).readArr? id with
  | some v => pure v
  | none => fail .typeErr

def readVec (id : Nat) : M VecV := do
  let v ← getVecO id
  let cs ← v.comps.mapM readArr
  pure { comps := cs, name := v.name }

def readMember (id : Nat) : M MemberV := do
  match ← getObj id with
  | .arr _ => do pure (.arr (← readArr id))
  | .vec _ => do pure (.vec (← readVec id))
  | _ => fail .typeErr

/-- a fresh Array object on a fresh buffer -/
def allocArr (v : ArrV) : M Nat := do
  let (s', id) := (← get).allocArr v
  set s'
  pure id

/-- `Array(values=a.values, unit=...)`: a new object on the same buffer, except that the
    `.values` of a 0-d Array is a numpy scalar, i.e. a copy -/
def aliasArr (id : Nat) (name : String) : M Nat := do
  let a ← getArrO id
  if a.shape == [] then
    let v ← readArr id
    allocArr { v with name := name }
  else newObj (.arr { a with name := name })

/-- `Vector(x=Array, y=Array, z=Array, name=...)` at object level -/
def mkVector (compIds : List Nat) (name : String) : M Nat := do
  let vals ← compIds.mapM readArr
  let _ ← liftExcept (VecV.ofArrs vals name)
  let ids ← (List.zip compIds compLetters).mapM fun (p : Nat × String) => aliasArr p.1 (name ++ "_" ++ p.2)
  newObj (.vec { comps := ids, name := name })
where liftExcept {α : Type} (r : Res α) : M α := match r with | .ok a => pure a | .error e => throw e

def liftR {α : Type} (r : Res α) : M α := match r with | .ok a => pure a | .error e => throw e

/-- allocate a Vector value on fresh buffers -/
def allocVec (v : VecV) : M Nat := do
  -- the constructor's name setter names the components `<name>_<c>`
  let ids ← (v.rename v.name).comps.mapM allocArr
  newObj (.vec { comps := ids, name := v.name })

/-- rename an object in place (`value.name = key`) -/
def renameObj (id : Nat) (name : String) : M Unit := do
  match ← getObj id with
  | .arr a => setObj id (.arr { a with name := name })
  | .vec v => do
    setObj id (.vec { v with name := name })
    for p in List.zip v.comps compLetters do
      let c ← getArrO p.1
      setObj p.1 (.arr { c with name := name ++ "_" ++ p.2 })
  | .dg g => setObj id (.dg { g with name := name })
  | .ds _ => pure ()

/-- write values through an Array's view into its buffer and rebind its unit -/
def writeArr (id : Nat) (data : List Rat) (unit : U) : M Unit := do
  match (← get).writeArr? id data unit with
  | some s' => set s'
  | none => fail .typeErr

/-! ### right operands -/

inductive Rhs
  | var (v : Nat)
  | val (a : ArrV)            -- number / ndarray / Quantity, already as the Array `Array(rhs)` builds
  | ndview (v : Nat)          -- the raw ndarray held by the Array object `v` (`x.values`): `Array(rhs)` wraps the same buffer
  deriving Repr, Inhabited

/-- run actions one after the other, keeping the effects of those that succeeded;
    stops at the first failure and reports it (Python loops that raise midway) -/
def partialSeq (acts : List (M Unit)) : M (Option Err) := do
  let mut err : Option Err := none
  for act in acts do
    if err.isNone then
      let s ← get
      match act.run s with
      | .ok (_, s') => set s'
      | .error e => err := some e
  pure err

/-- in-place Array operator `lhs op= rhs` (`out=self`): the result is written through the
    view, the unit is rebound on the *same* object, which is returned -/
def arrInplace (op : BinOp) (lhsId : Nat) (rhs : ArrV) : M Nat := do
  let T ← tables
  match Store.arrInplace T op (← get) lhsId rhs with
  | .ok s' => set s'; pure lhsId
  | .error e => fail e

def rhsArr (r : Rhs) : M (Option ArrV × Option Nat) := do
  match r with
  | .val a => pure (some a, none)
  | .ndview v => do
    let id ← lookupVar v
    match ← getObj id with
    | .arr _ => do
      let a ← readArr id
      pure (some { a with unit := U.one, name := "" }, none)
    | _ => pure (none, none)
  | .var v => do
    let id ← lookupVar v
    match ← getObj id with
    | .arr _ => do pure (some (← readArr id), some id)
    | _ => pure (none, some id)

/-- Vector in-place operator as repaired: per-component in-place update, `self` returned;
    `some e`: the exception raised at some component (earlier components stay updated) -/
def vecInplace (op : BinOp) (lhsId : Nat) (rhs : VRhs) : M (Option Err) := do
  let v ← getVecO lhsId
  let lv ← readVec lhsId
  let rcomps : List ArrV := match rhs with
    | .vec w => w.comps
    | .arr a => lv.comps.map (fun _ => a)
  if lv.comps.length != rcomps.length then fail .valueErr
  -- component after component: an exception at the second component leaves the first updated
  partialSeq ((List.zip v.comps rcomps).map fun p => do let _ ← arrInplace op p.1 p.2)

/-! ### observations -/

def obsArr (id : Nat) : M Json := do pure (← readArr id).toJson

partial def obsObj (id : Nat) : M Json := do
  match ← getObj id with
  | .arr _ => obsArr id
  | .vec _ => do pure (← readVec id).toJson
  | .dg g => do
    let es ← g.entries.mapM fun (e : String × Nat) => do
      let o ← obsObj e.2
      pure (Json.mkObj [("key", Json.str e.1), ("m", o)])
    pure (Json.mkObj [("k", "dg"), ("name", Json.str g.name), ("entries", Json.arr es.toArray)])
  | .ds d => do
    let gs ← d.groups.mapM fun (e : String × Nat) => do
      let o ← obsObj e.2
      pure (Json.mkObj [("key", Json.str e.1), ("g", o)])
    pure (Json.mkObj [("k", "ds"), ("groups", Json.arr gs.toArray),
      ("meta", Json.arr (d.metad.map fun (p : String × String) => Json.arr #[Json.str p.1, Json.str p.2]).toArray)])

/-- buffers reachable from an object (for `np.shares_memory`-style observations) -/
partial def bufCells (id : Nat) : M (List (Nat × Nat)) := do
  match ← getObj id with
  | .arr a => pure (a.idx.map fun i => (a.buf, i))
  | .vec v => do
    let l ← v.comps.mapM bufCells
    pure l.flatten
  | .dg g => do
    let l ← g.entries.mapM fun (e : String × Nat) => bufCells e.2
    pure l.flatten
  | .ds d => do
    let l ← d.groups.mapM fun (e : String × Nat) => bufCells e.2
    pure l.flatten

end Osyris
