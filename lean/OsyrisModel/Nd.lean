/-
F2 NdArray: the fragment of numpy semantics the properties use — dtypes and promotion,
broadcasting of row-major data, first-axis indexing following Python's `slice.indices`
and numpy's negative-index rule.  These tables are *modelled, not verified*; the
correspondence harness ties them to numpy on every run.
-/
import OsyrisModel.Basic
open Lean

namespace Osyris

inductive DType | b | i4 | i8 | f4 | f8
  deriving DecidableEq, Repr, Inhabited

namespace DType
def toString : DType → String
  | b => "b" | i4 => "i4" | i8 => "i8" | f4 => "f4" | f8 => "f8"
def fromString? : String → Option DType
  | "b" => some b | "i4" => some i4 | "i8" => some i8 | "f4" => some f4 | "f8" => some f8
  | _ => none
def isInt : DType → Bool | i4 => true | i8 => true | _ => false
def isFloat : DType → Bool | f4 => true | f8 => true | _ => false
def isBool : DType → Bool | b => true | _ => false
/-- numpy `result_type` for two *array* operands (0-d arrays are strong in numpy 2). -/
def promote : DType → DType → DType
  | b, x => x
  | x, b => x
  | i4, i4 => i4
  | i4, i8 => i8
  | i8, i4 => i8
  | i8, i8 => i8
  | f4, f4 => f4
  | f8, _ => f8
  | _, f8 => f8
  | f4, _ => f8    -- f4 with i4/i8 -> f8
  | _, f4 => f8
/-- result dtype of `np.true_divide`. -/
def promoteDiv (x y : DType) : DType :=
  let p := promote x y
  if p.isFloat then p else f8
/-- numpy `can_cast(from, to, 'same_kind')`, used by `out=`. -/
def canCastSameKind : DType → DType → Bool
  | b, _ => true
  | i4, b => false | i8, b => false | f4, b => false | f8, b => false
  | i4, _ => true
  | i8, _ => true
  | f4, i4 => false | f4, i8 => false | f4, _ => true
  | f8, i4 => false | f8, i8 => false | f8, _ => true
end DType

/-! ### shapes -/

def shapeSize (s : List Nat) : Nat := s.foldl (· * ·) 1

/-- broadcast two shapes given in *reversed* order (last axis first) -/
def bshapeRev : List Nat → List Nat → Option (List Nat)
  | [], b => some b
  | a, [] => some a
  | x :: a, y :: b =>
    if x == y || y == 1 then (bshapeRev a b).map (x :: ·)
    else if x == 1 then (bshapeRev a b).map (y :: ·)
    else none

def bshape (a b : List Nat) : Option (List Nat) :=
  (bshapeRev a.reverse b.reverse).map List.reverse

/-- row-major multi-index of flat index `i` in `shape` (computed last axis first) -/
def unravelRev : List Nat → Nat → List Nat
  | [], _ => []
  | d :: rest, i => (if d == 0 then 0 else i % d) :: unravelRev rest (if d == 0 then 0 else i / d)

def unravel (shape : List Nat) (i : Nat) : List Nat := (unravelRev shape.reverse i).reverse

def ravelAux : List Nat → List Nat → Nat → Nat
  | d :: ds, k :: ks, acc => ravelAux ds ks (acc * d + k)
  | _, _, acc => acc

def ravel (shape idx : List Nat) : Nat := ravelAux shape idx 0

/-- flat index into an operand of shape `s` for flat index `i` of the broadcast shape `out` -/
def bidx (out s : List Nat) (i : Nat) : Nat :=
  if s == out then i else     -- an operand that already has the broadcast shape is read in place
  let mi := (unravel out i).drop (out.length - s.length)
  ravel s (List.zipWith (fun d k => if d == 1 then 0 else k) s mi)

/-- total list access used by all element-wise definitions -/
def getR (l : List Rat) (i : Nat) : Rat := l.getD i 0

/-- element-wise binary map with broadcasting -/
def bmap2 (f : Rat → Rat → Rat) (out sa sb : List Nat) (A B : List Rat) : List Rat :=
  (List.range (shapeSize out)).map fun i => f (getR A (bidx out sa i)) (getR B (bidx out sb i))

/-! ### first-axis indexing -/

inductive Index
  | int (i : Int)
  | slice (start stop step : Option Int)
  | mask (m : List Bool)
  | fancy (is : List Int)
  deriving Repr, Inhabited

/-! Python `slice(start, stop, step).indices(n)` (Objects/sliceobject.c) in pieces, so that the index-bound theorem
(`C06.rows_lt`) can be stated about each -/

def sliceLower (st : Int) : Int := if st < 0 then -1 else 0
def sliceUpper (N st : Int) : Int := if st < 0 then N - 1 else N
def sliceClamp (N st v : Int) : Int :=
  if v < 0 then (if v + N < sliceLower st then sliceLower st else v + N)
  else (if v > sliceUpper N st then sliceUpper N st else v)
def sliceStart (N st : Int) : Option Int → Int
  | none => if st < 0 then sliceUpper N st else sliceLower st
  | some v => sliceClamp N st v
def sliceStop (N st : Int) : Option Int → Int
  | none => if st < 0 then sliceLower st else sliceUpper N st
  | some v => sliceClamp N st v
/-- `len(range(s0, s1, st))` -/
def sliceCount (st s0 s1 : Int) : Nat :=
  if st > 0 then (if s0 < s1 then ((s1 - s0 - 1) / st + 1).toNat else 0)
  else (if s1 < s0 then ((s0 - s1 - 1) / (-st) + 1).toNat else 0)

/-- Python `slice(start, stop, step).indices(n)` followed by `range(...)`. -/
def sliceRows (n : Nat) (start stop step : Option Int) : Res (List Nat) :=
  let st : Int := step.getD 1
  if st == 0 then .error .valueErr else
  let s0 := sliceStart n st start
  let s1 := sliceStop n st stop
  .ok ((List.range (sliceCount st s0 s1)).map fun (k : Nat) => (s0 + (k : Int) * st).toNat)

def normIdx (n : Nat) (i : Int) : Res Nat :=
  let N : Int := n
  if i < -N || i ≥ N then .error .indexErr
  else .ok (if i < 0 then (i + N).toNat else i.toNat)

def maskRows (m : List Bool) : List Nat :=
  (List.range m.length).filter fun i => m.getD i false

/-- rows (indices along axis 0) selected by an index object on an axis of length `n`;
    the Bool says whether the axis is dropped (integer index). -/
def Index.rows (n : Nat) : Index → Res (List Nat × Bool)
  | .int i => do let k ← normIdx n i; pure ([k], true)
  | .slice a b c => do let r ← sliceRows n a b c; pure (r, false)
  | .mask m =>
    -- numpy accepts an empty boolean index on an axis of any length (it selects nothing)
    if m.length != n && m.length != 0 then .error .indexErr else pure (maskRows m, false)
  | .fancy is => do let r ← is.mapM (normIdx n); pure (r, false)

/-- does numpy return a view (basic indexing) or a copy (advanced indexing)? -/
def Index.isView : Index → Bool
  | .int _ => true
  | .slice _ _ _ => true
  | _ => false

def Index.fromJson? (j : Json) : Option Index :=
  match getStr? j "k" with
  | some "int" => (getInt? j "i").map Index.int
  | some "slice" =>
    let g (k : String) : Option (Option Int) :=
      match getField? j k with
      | none => some none
      | some .null => some none
      | some v => (jsonToInt? v).map some
    match g "a", g "b", g "c" with
    | some a, some b, some c => some (.slice a b c)
    | _, _, _ => none
  | some "mask" =>
    match getField? j "m" with
    | some (.arr a) => (a.toList.mapM fun (x : Json) => match x with | Json.bool b => some b | _ => none).map Index.mask
    | _ => none
  | some "fancy" => (getInts? j "is").map Index.fancy
  | _ => none

end Osyris
