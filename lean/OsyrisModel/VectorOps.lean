/-
Pure model of `osyris.core.vector`: construction/validation, the component-wise
`_binary_op`, `norm` (squared), `dot`, `cross`, `to`, indexing.
-/
import OsyrisModel.ArrayOps
open Lean

namespace Osyris

structure VecV where
  comps : List ArrV          -- x [, y [, z]]
  name : String := ""
  deriving Repr, Inhabited, DecidableEq

def compLetters : List String := ["x", "y", "z"]

def compLetter (i : Nat) : String := compLetters.getD i "?"

/-- the `name` setter: components are called `<name>_<c>` -/
def VecV.rename (v : VecV) (name : String) : VecV :=
  { comps := v.comps.mapIdx (fun i (c : ArrV) => { c with name := name ++ "_" ++ compLetter i }),
    name := name }

/-- `Vector(x=Array, y=Array, z=Array)`: shapes and units of y, z must match x -/
def VecV.ofArrs (xs : List ArrV) (name : String := "") : Res VecV :=
  match xs with
  | [] => .error .typeErr
  | x :: rest =>
    if xs.length > 3 then .error .typeErr
    else if rest.any (fun c => c.shape != x.shape) then .error .valueErr
    else if rest.any (fun c => !c.unit.same x.unit) then .error .valueErr
    else .ok (VecV.rename { comps := xs, name := name } name)

def VecV.nvec (v : VecV) : Nat := v.comps.length
def VecV.unit (v : VecV) : U := (v.comps.headD default).unit
def VecV.shape (v : VecV) : List Nat := (v.comps.headD default).shape
def VecV.dtype (v : VecV) : DType := (v.comps.headD default).dtype

/-- right operand of a Vector operator after the coercions of `vector._binary_op` -/
inductive VRhs
  | vec (w : VecV)
  | arr (a : ArrV)      -- Array, or number/ndarray/Quantity wrapped into one

def mapM2 {α β γ : Type} (f : α → β → Res γ) : List α → List β → Res (List γ)
  | a :: as, b :: bs => do let c ← f a b; let cs ← mapM2 f as bs; pure (c :: cs)
  | _, _ => pure []

/-- `vector._binary_op(op, lhs, rhs)` -/
def VecV.binaryOp (T : Tables) (op : BinOp) (lhs : VecV) (rhs : VRhs) : Res VecV := do
  let rcomps : List ArrV := match rhs with
    | .vec w => w.comps
    | .arr a => lhs.comps.map (fun _ => a)
  if lhs.comps.length != rcomps.length then .error .valueErr else
  let cs ← mapM2 (ArrV.binaryOp T op) lhs.comps rcomps
  VecV.ofArrs cs

def VecV.mapComps (f : ArrV → Res ArrV) (v : VecV) : Res VecV := do
  let cs ← v.comps.mapM f
  VecV.ofArrs cs

/-- `Vector.to(unit)` -/
def ArrV.toVal (a : ArrV) (u : U) : Res ArrV := (a.to u).map (·.1)

def VecV.to (v : VecV) (u : U) : Res VecV :=
  v.mapComps (·.toVal u)

/-- `Vector.__getitem__` (keeps the name) -/
def VecV.getIndex (v : VecV) (ix : Index) : Res VecV := do
  let cs ← v.comps.mapM (·.getIndex ix)
  VecV.ofArrs cs v.name

/-- squared Euclidean norm of the components, in the square of the Vector's unit;
    (the implementation returns its square root, compared squared by the harness) -/
def VecV.normSq (v : VecV) : List Rat :=
  match v.comps with
  | [] => []
  | x :: rest => rest.foldl (fun acc c => List.zipWith (· + ·) acc (c.data.map fun t => t * t))
                    (x.data.map fun t => t * t)

/-- `Vector.dot(other)`: Σ (c1 * c2).values, unit = self.unit * other.unit.
    `(c1 * c2)` is the *non-strict* Array product, which converts c2 to c1's unit when
    it can. -/
def VecV.dotAsCoded (T : Tables) (v w : VecV) : Res ArrV := do
  let prods ← mapM2 (ArrV.binaryOp T .mul) v.comps w.comps
  let n := shapeSize v.shape
  let zero : List Rat := List.replicate n 0
  let data := prods.foldl (fun acc p =>
      bmap2 (· + ·) v.shape v.shape p.shape acc p.data) zero
  pure { shape := v.shape, dtype := .f8, data := data, unit := v.unit.mul w.unit, name := "" }

/-- repaired `dot`: the unit is the one the component products actually carry -/
def VecV.dot (T : Tables) (v w : VecV) : Res ArrV := do
  let prods ← mapM2 (ArrV.binaryOp T .mul) v.comps w.comps
  let n := shapeSize v.shape
  let zero : List Rat := List.replicate n 0
  let data := prods.foldl (fun acc p =>
      bmap2 (· + ·) v.shape v.shape p.shape acc p.data) zero
  let unit := match prods with
    | p :: _ => p.unit
    | [] => v.unit.mul w.unit
  pure { shape := v.shape, dtype := .f8, data := data, unit := unit, name := "" }

/-- `Vector.cross(other)` for three-component vectors -/
def VecV.cross (T : Tables) (v w : VecV) : Res VecV :=
  match v.comps, w.comps with
  | [ax, ay, az], [bx, b_y, bz] => do
    let m (p q : ArrV) := ArrV.binaryOp T .mul p q
    let s (p q : ArrV) := ArrV.binaryOp T .sub p q
    let x ← s (← m ay bz) (← m az b_y)
    let y ← s (← m az bx) (← m ax bz)
    let z ← s (← m ax b_y) (← m ay bx)
    VecV.ofArrs [x, y, z]
  | _, _ => .error .typeErr

def VecV.toJson (v : VecV) : Json :=
  Json.mkObj [("k", "vec"), ("name", Json.str v.name), ("comps", Json.arr (v.comps.map ArrV.toJson).toArray)]

def VecV.fromJson? (j : Json) : Option VecV := do
  let cs ← getArr? j "comps"
  let comps ← cs.mapM ArrV.fromJson?
  pure { comps := comps, name := (getStr? j "name").getD "" }

end Osyris
