/-
C08 (equivalent spellings): a unit expression as pint's parser reads it — atoms (unit names,
already resolved to their canonical unit by `osyris.units(name)`), products, quotients and integer
powers — and the unit it denotes.  Every spelling of one expression tree (blank or `*` for a
product, `**` or `^` for a power, `a/b` or `a*b**-1`, reordered factors, long or short names)
must be read by `osyris.units` as `eval` of the tree.
-/
import OsyrisModel.Units
open Lean

namespace Osyris

inductive UExpr where
  | atom (u : U)
  | mul (a b : UExpr)
  | div (a b : UExpr)
  | pow (a : UExpr) (k : Int)
  deriving Repr, Inhabited

namespace UExpr

def eval : UExpr → U
  | atom u => u
  | mul a b => U.mul a.eval b.eval
  | div a b => U.div a.eval b.eval
  | pow a k => U.powInt a.eval k

partial def fromJson? (j : Json) : Option UExpr :=
  match getStr? j "k" with
  | some "atom" => (getField? j "u").bind U.fromJson? |>.map atom
  | some "mul" => do
    let a ← (getField? j "a").bind fromJson?
    let b ← (getField? j "b").bind fromJson?
    pure (mul a b)
  | some "div" => do
    let a ← (getField? j "a").bind fromJson?
    let b ← (getField? j "b").bind fromJson?
    pure (div a b)
  | some "pow" => do
    let a ← (getField? j "a").bind fromJson?
    let k ← getInt? j "n"
    pure (pow a k)
  | _ => none

end UExpr
end Osyris
