/-
Basic helpers shared by every model file: rationals over the line protocol,
error enumeration.  Core Lean only (the driver must link).
-/
import Lean.Data.Json
open Lean

namespace Osyris

/-- Errors are canonicalised to a small enumeration (DESIGN 2.4). -/
inductive Err
  | dimErr    -- pint DimensionalityError
  | valueErr
  | typeErr
  | keyErr
  | indexErr
  | runtimeErr
  | notImpl
  | badOp     -- malformed case: never defaulted
  | unbound   -- program variable not bound (an earlier operation failed)
  | misaligned -- a loader read that does not land on a record of the requested type
  deriving DecidableEq, Repr, Inhabited

def Err.toString : Err → String
  | .dimErr => "DimErr"
  | .valueErr => "ValueErr"
  | .typeErr => "TypeErr"
  | .keyErr => "KeyErr"
  | .indexErr => "IndexErr"
  | .runtimeErr => "RuntimeErr"
  | .notImpl => "NotImpl"
  | .badOp => "bad-op"
  | .unbound => "unbound"
  | .misaligned => "misaligned"

instance : ToString Err := ⟨Err.toString⟩

abbrev Res (α : Type) := Except Err α

/-- Print a rational as `num/den` (or `num` when the denominator is one). -/
def ratToString (q : Rat) : String :=
  if q.den == 1 then toString q.num else toString q.num ++ "/" ++ toString q.den

def parseRat? (s : String) : Option Rat :=
  match s.splitOn "/" with
  | [n] => n.toInt?.map (fun k => (k : Rat))
  | [n, d] =>
    match n.toInt?, d.toNat? with
    | some k, some m => if m == 0 then none else some (mkRat k m)
    | _, _ => none
  | _ => none

def ratToJson (q : Rat) : Json := Json.str (ratToString q)

def jsonToRat? (j : Json) : Option Rat :=
  match j with
  | .str s => parseRat? s
  | .num n => if n.exponent == 0 then some (n.mantissa : Rat) else
      some (mkRat n.mantissa (10 ^ n.exponent))
  | _ => none

def ratsToJson (l : List Rat) : Json := Json.arr (l.map ratToJson).toArray

def jsonToRats? (j : Json) : Option (List Rat) :=
  match j with
  | .arr a => a.toList.mapM jsonToRat?
  | _ => none

def jsonToNat? (j : Json) : Option Nat :=
  match j with
  | .num n => if n.exponent == 0 && n.mantissa ≥ 0 then some n.mantissa.toNat else none
  | _ => none

def jsonToInt? (j : Json) : Option Int :=
  match j with
  | .num n => if n.exponent == 0 then some n.mantissa else none
  | _ => none

def jsonToNats? (j : Json) : Option (List Nat) :=
  match j with
  | .arr a => a.toList.mapM jsonToNat?
  | _ => none

def jsonToInts? (j : Json) : Option (List Int) :=
  match j with
  | .arr a => a.toList.mapM jsonToInt?
  | _ => none

def natsToJson (l : List Nat) : Json := Json.arr (l.map (fun (n : Nat) => Json.num (JsonNumber.fromNat n))).toArray
def intsToJson (l : List Int) : Json := Json.arr (l.map (fun (n : Int) => Json.num (JsonNumber.fromInt n))).toArray

def getField? (j : Json) (k : String) : Option Json :=
  match j.getObjVal? k with
  | .ok v => some v
  | .error _ => none

def getStr? (j : Json) (k : String) : Option String :=
  match getField? j k with
  | some (.str s) => some s
  | _ => none

def getNat? (j : Json) (k : String) : Option Nat := (getField? j k).bind jsonToNat?
def getInt? (j : Json) (k : String) : Option Int := (getField? j k).bind jsonToInt?
def getRat? (j : Json) (k : String) : Option Rat := (getField? j k).bind jsonToRat?
def getRats? (j : Json) (k : String) : Option (List Rat) := (getField? j k).bind jsonToRats?
def getNats? (j : Json) (k : String) : Option (List Nat) := (getField? j k).bind jsonToNats?
def getInts? (j : Json) (k : String) : Option (List Int) := (getField? j k).bind jsonToInts?
def getBool? (j : Json) (k : String) : Option Bool :=
  match getField? j k with
  | some (.bool b) => some b
  | _ => none
def getArr? (j : Json) (k : String) : Option (List Json) :=
  match getField? j k with
  | some (.arr a) => some a.toList
  | _ => none

def errJson (e : Err) : Json := Json.mkObj [("err", Json.str e.toString)]

/-- Lift an `Option` coming from the parser: a missing or ill-typed field is `bad-op`. -/
def req {α : Type} (o : Option α) : Res α :=
  match o with
  | some a => .ok a
  | none => .error .badOp

end Osyris
