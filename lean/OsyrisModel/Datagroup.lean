/-
Pure model of `osyris.core.datagroup.Datagroup` (value level): an insertion-ordered
association list with the shape gate of `__setitem__`, indexing, sorting and equality.
The reference-level behaviour (shared members, renaming of shared objects) lives in
`Machine.lean`; the theorems of C06 / C20 are about these definitions.
-/
import OsyrisModel.VectorOps
open Lean

namespace Osyris

inductive MemberV
  | arr (a : ArrV)
  | vec (v : VecV)
  deriving Repr, Inhabited, DecidableEq

namespace MemberV
def shape : MemberV → List Nat
  | arr a => a.shape
  | vec v => v.shape
def rename (m : MemberV) (n : String) : MemberV :=
  match m with
  | arr a => arr { a with name := n }
  | vec v => vec (v.rename n)
def name : MemberV → String
  | arr a => a.name
  | vec v => v.name
def getIndex (m : MemberV) (ix : Index) : Res MemberV :=
  match m with
  | arr a => do let r ← a.getIndex ix; pure (arr r)
  | vec v => do let r ← v.getIndex ix; pure (vec r)
/-- the component Arrays (one for an Array) -/
def comps : MemberV → List ArrV
  | arr a => [a]
  | vec v => v.comps
def toJson : MemberV → Json
  | arr a => a.toJson
  | vec v => v.toJson
def fromJson? (j : Json) : Option MemberV :=
  match getStr? j "k" with
  | some "arr" => (ArrV.fromJson? j).map arr
  | some "vec" => (VecV.fromJson? j).map vec
  | _ => none
end MemberV

/-! ### insertion-ordered dictionary (Python `dict`) -/

/-- replace in place when the key exists (position kept), append otherwise -/
def dictSet {β : Type} : List (String × β) → String → β → List (String × β)
  | [], k, v => [(k, v)]
  | e :: d, k, v => if e.1 == k then (k, v) :: d else e :: dictSet d k v

def dictGet? {β : Type} (d : List (String × β)) (k : String) : Option β :=
  (d.find? (·.1 == k)).map (·.2)

def dictDel {β : Type} (d : List (String × β)) (k : String) : List (String × β) :=
  d.filter (·.1 != k)

def dictKeys {β : Type} (d : List (String × β)) : List String := d.map (·.1)

abbrev DgV := List (String × MemberV)

namespace DgV

/-- `Datagroup.shape`: `()` when empty, else the shape of the first member -/
def shape (g : DgV) : List Nat :=
  match g with
  | [] => []
  | (_, m) :: _ => m.shape

/-- `__setitem__`: `if self.shape and self.shape != value.shape: raise ValueError` -/
def set (g : DgV) (k : String) (m : MemberV) : Res DgV :=
  if g.shape != [] && g.shape != m.shape then .error .valueErr
  else .ok (dictSet g k (m.rename k))

def del (g : DgV) (k : String) : Res DgV :=
  if g.any (·.1 == k) then .ok (dictDel g k) else .error .keyErr

/-- `update(d)`: successive `__setitem__`; stops at the first failure, keeping the
    insertions already made (second component) -/
def update (g : DgV) : List (String × MemberV) → DgV × Option Err
  | [] => (g, none)
  | (k, m) :: rest =>
    match g.set k m with
    | .ok g' => update g' rest
    | .error e => (g, some e)

/-- `__getitem__` with a non-string key: a new group, every member indexed alike -/
def getIndex (g : DgV) (ix : Index) : Res DgV :=
  g.foldlM (fun (acc : DgV) (e : String × MemberV) => do
      let m ← e.2.getIndex ix
      acc.set e.1 m) []

/-- `sortby(perm)` with an explicit index list: `self[var] = self[var][key]` for every
    var in turn (in place: members are replaced one after the other) -/
def sortbyPerm (g : DgV) (perm : List Int) : DgV × Option Err :=
  let rec go (todo : List String) (g : DgV) : DgV × Option Err :=
    match todo with
    | [] => (g, none)
    | k :: rest =>
      match dictGet? g k with
      | none => (g, some .keyErr)
      | some m =>
        match m.getIndex (.fancy perm) with
        | .error e => (g, some e)
        | .ok m' =>
          match g.set k m' with
          | .error e => (g, some e)
          | .ok g' => go rest g'
  go (dictKeys g) g

/-- content equality (the repaired `__eq__`): same key *set*... Python compares
    `dict.keys()` views, i.e. as sets; then every member must be element-wise equal
    after unit conversion. -/
def memberEq (T : Tables) (a b : MemberV) : Res Bool :=
  match a, b with
  | .arr x, .arr y => do
    let r ← ArrV.binaryOp T .ne x y
    pure (r.data.all (· == 0))
  | .vec v, .vec w => do
    let r ← v.binaryOp T .ne (.vec w)
    pure (r.comps.all fun c => c.data.all (· == 0))
  | .vec v, .arr y => do
    let r ← v.binaryOp T .ne (.arr y)
    pure (r.comps.all fun c => c.data.all (· == 0))
  | .arr x, .vec w => do
    -- Array.__ne__(Vector) returns NotImplemented; Python falls back to Vector.__ne__(Array)
    let r ← w.binaryOp T .ne (.arr x)
    pure (r.comps.all fun c => c.data.all (· == 0))

/-- `Datagroup.__eq__` (repaired): key sets equal and no member differs anywhere.
    Members are compared in insertion order of `g`; the first difference answers. -/
def eq (T : Tables) (g h : DgV) : Res Bool :=
  let kg := dictKeys g
  let kh := dictKeys h
  if !(kg.all (kh.contains ·) && kh.all (kg.contains ·)) then .ok false
  else
    let rec go : List (String × MemberV) → Res Bool
      | [] => .ok true
      | (k, m) :: rest =>
        match dictGet? h k with
        | none => .ok false
        | some m' =>
          match memberEq T m m' with
          | .error e => .error e
          | .ok false => .ok false
          | .ok true => go rest
    go g

def toJson (g : DgV) : Json :=
  Json.arr (g.map fun e => Json.mkObj [("key", Json.str e.1), ("m", e.2.toJson)]).toArray

end DgV

end Osyris
