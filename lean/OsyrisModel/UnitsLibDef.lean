/-
The units library of a dataset (`config.configure_units` + `units.library.UnitsLibrary`):
entries, the lookup rule (exact key, else the first wildcard entry whose pattern matches a
prefix of the name, else dimensionless), and the committed reference library.
-/
import OsyrisModel.Units

namespace Osyris

structure LibEntry where
  key : String
  a : Rat            -- exponent of unit_d in the magnitude
  b : Rat            -- exponent of unit_l
  e : Rat            -- exponent of unit_t
  sqrt4pi : Bool     -- magnitude carries a factor sqrt(4 pi) (magnetic field in Gauss)
  label : Sym        -- the unit label as pint's symbolic container (canonical names, sorted)
  deriving Repr, Inhabited

/-- `re.match(name.replace("*", ".+"), key)`: pattern pieces separated by `*`, every `*`
    stands for one or more characters, and the match only has to cover a prefix of `key` -/
def globPrefix : List (List Char) → List Char → Bool
  | [], _ => true
  | [p], s => p.isPrefixOf s
  | p :: rest, s =>
    if p.isPrefixOf s then
      let s' := s.drop p.length
      -- `.+`: at least one character, then the rest somewhere later
      (List.range (s'.length + 1)).any fun k => k ≥ 1 && globPrefix rest (s'.drop k)
    else false
termination_by ps _ => ps.length

def splitStar (s : List Char) : List (List Char) :=
  s.foldr (fun c acc => if c == '*' then [] :: acc else match acc with
    | [] => [[c]]
    | h :: t => (c :: h) :: t) [[]]

/-- `UnitsLibrary.__getitem__` -/
def libLookup (lib : List LibEntry) (name : String) : Option LibEntry :=
  match lib.find? (·.key == name) with
  | some e => some e
  | none => lib.find? fun e => e.key.toList.contains '*' && globPrefix (splitStar e.key.toList) name.toList

/-- rational part of the magnitude: d^a l^b t^e when all exponents are integers -/
def ratPowInt (x : Rat) (k : Rat) : Option Rat := if k.den == 1 then some (x ^ k.num) else none

def LibEntry.ratFactor (en : LibEntry) (d l t : Rat) : Option Rat := do
  let x ← ratPowInt d en.a
  let y ← ratPowInt l en.b
  let z ← ratPowInt t en.e
  if en.sqrt4pi then none else some (x * y * z)

namespace Reference

/-- cgs dimension exponents (length, mass, time, temperature) of the unit names the default
    library uses in its labels (reference knowledge about pint's cgs registry) -/
def baseDim : String → Option (Rat × Rat × Rat × Rat)
  | "centimeter" => some (1, 0, 0, 0)
  | "gram" => some (0, 1, 0, 0)
  | "second" => some (0, 0, 1, 0)
  | "kelvin" => some (0, 0, 0, 1)
  | "erg" => some (2, 1, -2, 0)
  | "gauss" => some (-1/2, 1/2, -1, 0)
  | _ => none

def labelDim (l : Sym) : Option (Rat × Rat × Rat × Rat) :=
  l.foldl (fun acc p => match acc, baseDim p.1 with
    | some (a, b, c, d), some (x, y, z, w) => some (a + p.2 * x, b + p.2 * y, c + p.2 * z, d + p.2 * w)
    | _, _ => none) (some (0, 0, 0, 0))

/-- the magnitude d^a l^b t^e (code units -> cgs) carries the dimension (g/cm^3)^a cm^b s^e;
    the label must have exactly that dimension (temperature: K, no scaling) -/
def entryConsistent (en : LibEntry) : Bool :=
  match labelDim en.label with
  | some (ln, ms, tm, tp) =>
    if en.key == "temperature" then decide (ln = 0) && decide (ms = 0) && decide (tm = 0) && decide (tp = 1)
       && decide (en.a = 0) && decide (en.b = 0) && decide (en.e = 0)
    else decide (ln = -3 * en.a + en.b) && decide (ms = en.a) && decide (tm = en.e) && decide (tp = 0)
  | none => false

def mk (key : String) (a b e : Rat) (s4 : Bool) (label : Sym) : LibEntry := ⟨key, a, b, e, s4, label⟩

def cm (k : Rat) : String × Rat := ("centimeter", k)
def g_ (k : Rat) : String × Rat := ("gram", k)
def s_ (k : Rat) : String × Rat := ("second", k)

def unitsLib : List LibEntry :=
  let dens : Sym := [cm (-3), g_ 1]
  let vel : Sym := [cm 1, s_ (-1)]
  let mom : Sym := [cm (-2), g_ 1, s_ (-1)]
  let bf : Sym := [("gauss", 1)]
  let acc : Sym := [cm 1, s_ (-2)]
  let en : Sym := [cm (-3), ("erg", 1)]
  let len : Sym := [cm 1]
  [ mk "density" 1 0 0 false dens, mk "velocity" 0 1 (-1) false vel, mk "velocity_*" 0 1 (-1) false vel,
    mk "momentum" 1 1 (-1) false mom, mk "momentum_*" 1 1 (-1) false mom,
    mk "magnetic_field" (1/2) 1 (-1) true bf, mk "B_left" (1/2) 1 (-1) true bf, mk "B_left_*" (1/2) 1 (-1) true bf,
    mk "B_right" (1/2) 1 (-1) true bf, mk "B_right_*" (1/2) 1 (-1) true bf, mk "B_field" (1/2) 1 (-1) true bf,
    mk "B_field_*" (1/2) 1 (-1) true bf, mk "B_*_left" (1/2) 1 (-1) true bf, mk "B_*_right" (1/2) 1 (-1) true bf,
    mk "acceleration" 0 1 (-2) false acc, mk "grav_acceleration" 0 1 (-2) false acc,
    mk "grav_acceleration_*" 0 1 (-2) false acc,
    mk "grav_potential" 0 2 (-2) false [cm 2, s_ (-2)],
    mk "energy" 1 2 (-2) false en, mk "internal_energy" 1 2 (-2) false en, mk "thermal_pressure" 1 2 (-2) false en,
    mk "pressure" 1 2 (-2) false en, mk "radiative_energy" 1 2 (-2) false en, mk "radiative_energy_*" 1 2 (-2) false en,
    mk "time" 0 0 1 false [s_ 1], mk "length" 0 1 0 false len, mk "x" 0 1 0 false len, mk "y" 0 1 0 false len,
    mk "z" 0 1 0 false len, mk "position" 0 1 0 false len, mk "position_*" 0 1 0 false len, mk "dx" 0 1 0 false len,
    mk "mass" 1 3 0 false [g_ 1],
    mk "temperature" 0 0 0 false [("kelvin", 1)] ]

end Reference

def symEq (a b : Sym) : Bool :=
  a.length == b.length && (List.zip a b).all fun p => p.1.1 == p.2.1 && decide (p.1.2 = p.2.2)

def entryEq (x y : LibEntry) : Bool :=
  x.key == y.key && decide (x.a = y.a) && decide (x.b = y.b) && decide (x.e = y.e) && x.sqrt4pi == y.sqrt4pi &&
  symEq x.label y.label

/-- two libraries agree: same keys in the same order, same monomials, same labels -/
def libsAgree (l r : List LibEntry) : Bool :=
  l.length == r.length && (List.zip l r).all fun p => entryEq p.1 p.2

end Osyris
