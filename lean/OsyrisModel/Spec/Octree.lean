/-
F5 Octree as an inductive type (nested through `List`): leaves, truncation at a level,
well-formedness, volume.  Spec-level object for C12: the cells of a tree truncated at level L.
-/
namespace Osyris.Spec

inductive Tree where
  | leaf (v : Nat) : Tree
  | node (v : Nat) (kids : List Tree) : Tree

namespace Tree
/-- leaves with (level, value); `l` is the level of the cell represented by this node -/
def leaves : Nat → Tree → List (Nat × Nat)
  | l, .leaf v => [(l, v)]
  | l, .node _ ks => leavesList (l+1) ks
where leavesList : Nat → List Tree → List (Nat × Nat)
  | _, [] => []
  | l, k :: ks => leaves l k ++ leavesList l ks

/-- cells of level `L` become leaves (keeping their own, coarse, value) -/
def truncate : Nat → Nat → Tree → Tree
  | _, _, .leaf v => .leaf v
  | L, l, .node v ks => if l ≥ L then .leaf v else .node v (truncList L (l+1) ks)
where truncList : Nat → Nat → List Tree → List Tree
  | _, _, [] => []
  | L, l, k :: ks => truncate L l k :: truncList L l ks

/-- every refined cell has exactly `a` children -/
def WF (a : Nat) : Tree → Prop
  | .leaf _ => True
  | .node _ ks => ks.length = a ∧ WFList a ks
where WFList (a : Nat) : List Tree → Prop
  | [] => True
  | k :: ks => WF a k ∧ WFList a ks

/-- volume in units of the finest cell of a depth-`D` tree: a level-`l` cell measures a^(D-l) -/
def vol (a D : Nat) (ls : List (Nat × Nat)) : Nat := (ls.map (fun p => a ^ (D - p.1))).sum

/-- every cell of the tree has level ≤ D -/
def fits (D : Nat) : Nat → Tree → Prop
  | l, .leaf _ => l ≤ D
  | l, .node _ ks => l ≤ D ∧ fitsList D (l+1) ks
where fitsList (D : Nat) : Nat → List Tree → Prop
  | _, [] => True
  | l, k :: ks => fits D l k ∧ fitsList D l ks

end Tree
end Osyris.Spec
