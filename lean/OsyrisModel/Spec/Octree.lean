/-
F5 Octree as an inductive type (nested through `List`): leaves, truncation at a level,
well-formedness, volume.  Spec-level object for C12: the cells of a tree truncated at level L.
-/
namespace Osyris.Spec

inductive Tree where
  | leaf (v : Nat) : Tree
  | node (v : Nat) (kids : List Tree) : Tree

namespace Tree
/-- leaves with (level, value); `l` is the level of the cell represented by this node -/
def leaves : Nat → Tree → List (Nat × Nat)
  | l, .leaf v => [(l, v)]
  | l, .node _ ks => leavesList (l+1) ks
where leavesList : Nat → List Tree → List (Nat × Nat)
  | _, [] => []
  | l, k :: ks => leaves l k ++ leavesList l ks

/-- cells of level `L` become leaves (keeping their own, coarse, value) -/
def truncate : Nat → Nat → Tree → Tree
  | _, _, .leaf v => .leaf v
  | L, l, .node v ks => if l ≥ L then .leaf v else .node v (truncList L (l+1) ks)
where truncList : Nat → Nat → List Tree → List Tree
  | _, _, [] => []
  | L, l, k :: ks => truncate L l k :: truncList L l ks

/-- every refined cell has exactly `a` children -/
def WF (a : Nat) : Tree → Prop
  | .leaf _ => True
  | .node _ ks => ks.length = a ∧ WFList a ks
where WFList (a : Nat) : List Tree → Prop
  | [] => True
  | k :: ks => WF a k ∧ WFList a ks

/-- volume in units of the finest cell of a depth-`D` tree: a level-`l` cell measures a^(D-l) -/
def vol (a D : Nat) (ls : List (Nat × Nat)) : Nat := (ls.map (fun p => a ^ (D - p.1))).sum

/-- every cell of the tree has level ≤ D -/
def fits (D : Nat) : Nat → Tree → Prop
  | l, .leaf _ => l ≤ D
  | l, .node _ ks => l ≤ D ∧ fitsList D (l+1) ks
where fitsList (D : Nat) : Nat → List Tree → Prop
  | _, [] => True
  | l, k :: ks => fits D l k ∧ fitsList D l ks

/-- every cell of the tree, refined or not, in file order: (level, refined?, value) — what the amr files store -/
def flat : Nat → Tree → List (Nat × Bool × Nat)
  | l, .leaf v => [(l, false, v)]
  | l, .node v ks => (l, true, v) :: flatList (l+1) ks
where flatList : Nat → List Tree → List (Nat × Bool × Nat)
  | _, [] => []
  | l, k :: ks => flat l k ++ flatList l ks

/-- the per-cell rule of the loader with a level cap `L`: levels above `L` are not read; below it a cell is kept iff it
    has no son; on it every cell is kept -/
def keepCell (L : Nat) (c : Nat × Bool × Nat) : Bool := decide (c.1 ≤ L) && (!c.2.1 || c.1 == L)

end Tree
end Osyris.Spec
