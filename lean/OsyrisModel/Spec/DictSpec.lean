/-
Spec for C20: an insertion-ordered dictionary as a key list plus a lookup function, and the
Datagroup operations on it (shape gate, renaming on insertion).  Never mentions how osyris
stores anything.
-/
import OsyrisModel.Datagroup

namespace Osyris.Spec

structure Dict (β : Type) where
  keys : List String
  val : String → Option β

namespace Dict
variable {β : Type}
def empty : Dict β := ⟨[], fun _ => none⟩
def set (s : Dict β) (k : String) (v : β) : Dict β :=
  { keys := if k ∈ s.keys then s.keys else s.keys ++ [k],
    val := fun k' => if k' = k then some v else s.val k' }
def del (s : Dict β) (k : String) : Dict β :=
  { keys := s.keys.filter (· != k), val := fun k' => if k' = k then none else s.val k' }
end Dict

/-- operations of the dictionary interface of a Datagroup (value level) -/
inductive DgOp
  | set (k : String) (m : MemberV)
  | del (k : String)
  | pop (k : String)
  | get (k : String)
  | getD (k : String) (dflt : MemberV)
  | contains (k : String)
  | len
  | keys
  | clear
  | update (items : List (String × MemberV))

inductive Out
  | unit
  | member (m : MemberV)
  | bool (b : Bool)
  | nat (n : Nat)
  | keys (ks : List String)
  | err (e : Err)
  deriving DecidableEq

/-- shape of the group: shape of the first member in key order, `()` when empty -/
def shapeOf (s : Dict MemberV) : List Nat :=
  match s.keys with
  | [] => []
  | k :: _ => match s.val k with
    | some m => m.shape
    | none => []

def setGated (s : Dict MemberV) (k : String) (m : MemberV) : Except Err (Dict MemberV) :=
  if shapeOf s != [] && shapeOf s != m.shape then .error .valueErr
  else .ok (s.set k (m.rename k))

def updateSpec (s : Dict MemberV) : List (String × MemberV) → Dict MemberV × Option Err
  | [] => (s, none)
  | (k, m) :: rest =>
    match setGated s k m with
    | .ok s' => updateSpec s' rest
    | .error e => (s, some e)

def step (s : Dict MemberV) : DgOp → Dict MemberV × Out
  | .set k m => match setGated s k m with
    | .ok s' => (s', .unit)
    | .error e => (s, .err e)
  | .del k => if k ∈ s.keys then (s.del k, .unit) else (s, .err .keyErr)
  | .pop k => match s.val k with
    | some m => (s.del k, .member m)
    | none => (s, .err .keyErr)
  | .get k => match s.val k with
    | some m => (s, .member m)
    | none => (s, .err .keyErr)
  | .getD k d => (s, .member ((s.val k).getD d))
  | .contains k => (s, .bool (decide (k ∈ s.keys)))
  | .len => (s, .nat s.keys.length)
  | .keys => (s, .keys s.keys)
  | .clear => (Dict.empty, .unit)
  | .update items => match updateSpec s items with
    | (s', none) => (s', .unit)
    | (s', some e) => (s', .err e)

def run (s : Dict MemberV) : List DgOp → Dict MemberV × List Out
  | [] => (s, [])
  | op :: ops =>
    let (s', o) := step s op
    let (s'', os) := run s' ops
    (s'', o :: os)

end Osyris.Spec

namespace Osyris

open Spec in
/-- the model's step on the association list (mirrors datagroup.py) -/
def DgV.step (g : DgV) : Spec.DgOp → DgV × Spec.Out
  | .set k m => match g.set k m with
    | .ok g' => (g', .unit)
    | .error e => (g, .err e)
  | .del k => match g.del k with
    | .ok g' => (g', .unit)
    | .error e => (g, .err e)
  | .pop k => match dictGet? g k with
    | some m => (dictDel g k, .member m)
    | none => (g, .err .keyErr)
  | .get k => match dictGet? g k with
    | some m => (g, .member m)
    | none => (g, .err .keyErr)
  | .getD k d => (g, .member ((dictGet? g k).getD d))
  | .contains k => (g, .bool (g.any (·.1 == k)))
  | .len => (g, .nat g.length)
  | .keys => (g, .keys (dictKeys g))
  | .clear => ([], .unit)
  | .update items => match g.update items with
    | (g', none) => (g', .unit)
    | (g', some e) => (g', .err e)

def DgV.run (g : DgV) : List Spec.DgOp → DgV × List Spec.Out
  | [] => (g, [])
  | op :: ops =>
    let (g', o) := g.step op
    let (g'', os) := DgV.run g' ops
    (g'', o :: os)

/-- abstraction map -/
def DgV.abs (g : DgV) : Spec.Dict MemberV := ⟨dictKeys g, dictGet? g⟩

end Osyris
