/-
C05 model: `osyris.plot.utils.hist2d` (numba kernel) and the limit / finish logic of
`osyris.plot.histogram2d`.

* `Spec.index`   the property in its simplest form: a finite coordinate inside the half-open
                 range `[xmin, xmin + n·dx)` belongs to bin `⌊(x − xmin)/dx⌋`, any other to none.
* `index rule`   the index *as coded*: `k = int((x − xmin)/dx)` followed by the range test
                 `0 ≤ k < n`.  `IndexRule.trunc` is what numba's `int()` does (round toward
                 zero), `IndexRule.floor` is `int(np.floor(·))`.
* `accum`        the accumulation `out[.., indy, indx] += v` as a fold of `addAt`.
* `limits`       automatic / explicit limits, degenerate widening and 5 % padding exactly as
                 `histogram2d` codes them (log axes: the caller takes `log10` first).
* `finish`       `mean = sum / counts`, mask where `counts == 0`.
* `runDisc`      threads as interleavings of atomic events, for the four accumulation
                 disciplines `Disc`.

Values are core `Rat`; non-finite coordinates (NaN, ±inf) are a separate constructor.
Core Lean only (the driver links this file).
-/
import OsyrisModel.Basic
open Lean

namespace Osyris.Hist

/-! ### bin index -/

/-- how the real-valued offset `(x − xmin)/dx` is turned into an integer -/
inductive IndexRule
  | floor   -- `int(np.floor(q))`
  | trunc   -- `int(q)`: numba truncates toward zero
  deriving DecidableEq, Repr, Inhabited

def IndexRule.fromString? : String → Option IndexRule
  | "floor" => some .floor
  | "trunc" => some .trunc
  | _ => none

/-- a coordinate as the kernel sees it -/
inductive Coord
  | fin (q : Rat)
  | nonfinite            -- NaN, +inf, −inf
  deriving DecidableEq, Repr, Inhabited

/-- numba `int()` on a float: round toward zero -/
def truncQ (q : Rat) : Int := if 0 ≤ q then q.floor else -((-q).floor)

def rawIndex (rule : IndexRule) (x xmin dx : Rat) : Int :=
  match rule with
  | .floor => ((x - xmin) / dx).floor
  | .trunc => truncQ ((x - xmin) / dx)

/-- index as coded: integer conversion, then `(ind >= 0) and (ind < n)` -/
def index (rule : IndexRule) (x xmin dx : Rat) (n : Nat) : Option Nat :=
  let k := rawIndex rule x xmin dx
  if 0 ≤ k ∧ k < (n : Int) then some k.toNat else none

namespace Spec

/-- Spec: half-open bins. The range test is on the coordinate, not on the index. -/
def index (x xmin dx : Rat) (n : Nat) : Option Nat :=
  if xmin ≤ x ∧ x < xmin + (n : Rat) * dx then some ((x - xmin) / dx).floor.toNat else none

end Spec

/-! ### 2-D grid -/

structure Grid where
  xmin : Rat
  xmax : Rat
  nx : Nat
  ymin : Rat
  ymax : Rat
  ny : Nat
  deriving Repr, Inhabited, DecidableEq

def Grid.dx (g : Grid) : Rat := (g.xmax - g.xmin) / (g.nx : Rat)
def Grid.dy (g : Grid) : Rat := (g.ymax - g.ymin) / (g.ny : Rat)
def Grid.size (g : Grid) : Nat := g.ny * g.nx

/-- well-formed grid: at least one bin per axis, non-empty range -/
def Grid.WF (g : Grid) : Prop := 0 < g.nx ∧ 0 < g.ny ∧ g.xmin < g.xmax ∧ g.ymin < g.ymax

/-- flat cell `indy * nx + indx` for a 1-D index function -/
def cellWith (ix : Rat → Rat → Rat → Nat → Option Nat) (g : Grid) (x y : Coord) : Option Nat :=
  match x, y with
  | .fin a, .fin b =>
    match ix a g.xmin g.dx g.nx, ix b g.ymin g.dy g.ny with
    | some i, some j => some (j * g.nx + i)
    | _, _ => none
  | _, _ => none

/-- cell as coded -/
def cell (rule : IndexRule) (g : Grid) (x y : Coord) : Option Nat := cellWith (index rule) g x y

/-- Spec cell -/
def Spec.cell (g : Grid) (x y : Coord) : Option Nat := cellWith Spec.index g x y

/-! ### accumulation -/

abbrev Img := List Rat
abbrev Upd := Nat × Rat

def zeros (n : Nat) : Img := List.replicate n 0

/-- `img[i] += v` (an index outside the image changes nothing) -/
def addAt : Img → Nat → Rat → Img
  | [], _, _ => []
  | a :: l, 0, v => (a + v) :: l
  | a :: l, i + 1, v => a :: addAt l i v

/-- `img[i] = v` -/
def setAt : Img → Nat → Rat → Img
  | [], _, _ => []
  | _ :: l, 0, v => v :: l
  | a :: l, i + 1, v => a :: setAt l i v

def step (m : Img) (u : Upd) : Img := addAt m u.1 u.2

/-- the loop `for i: img[idx_i] += v_i`, in list order -/
def accum (m : Img) (us : List Upd) : Img := us.foldl step m

/-- the same loop on an `Array` (what the driver executes for large inputs);
    `accumArr_eq` (OsyrisProofs/C05.lean) proves `accumArr n us = accum (zeros n) us` -/
def accumArr (size : Nat) (us : List Upd) : Img :=
  (us.foldl (fun (a : Array Rat) (u : Upd) => a.modify u.1 (· + u.2)) (Array.replicate size 0)).toList

structure Pt where
  x : Coord
  y : Coord
  vals : List Rat
  deriving Repr, Inhabited

/-- the updates a list of points issues to one layer: `(cell, value)` for points that have a cell -/
def updsOf (cellf : Coord → Coord → Option Nat) (val : Pt → Rat) (pts : List Pt) : List Upd :=
  pts.filterMap fun p => (cellf p.x p.y).map fun c => (c, val p)

def Pt.layer (l : Nat) (p : Pt) : Rat := p.vals.getD l 0

/-- `updsOf` with the cells computed once (driver); `updsOf_eq_updsZ` in OsyrisProofs/C05.lean -/
def updsZ (cells : List (Option Nat)) (vals : List Rat) : List Upd :=
  (List.zip cells vals).filterMap fun p => p.1.map fun c => (c, p.2)

/-- `counts` of `hist2d` for an arbitrary cell function -/
def countsImg (cellf : Coord → Coord → Option Nat) (size : Nat) (pts : List Pt) : Img :=
  accum (zeros size) (updsOf cellf (fun _ => 1) pts)

/-- `out[l]` of `hist2d` -/
def layerImg (cellf : Coord → Coord → Option Nat) (size : Nat) (l : Nat) (pts : List Pt) : Img :=
  accum (zeros size) (updsOf cellf (Pt.layer l) pts)

structure Result where
  counts : Img
  out : List Img
  deriving Repr, Inhabited

/-- `hist2d` with a serial loop -/
def hist2dWith (cellf : Coord → Coord → Option Nat) (size nlayers : Nat) (pts : List Pt) : Result :=
  { counts := countsImg cellf size pts,
    out := (List.range nlayers).map fun l => layerImg cellf size l pts }

/-- as coded (serial schedule) -/
def hist2d (rule : IndexRule) (g : Grid) (nlayers : Nat) (pts : List Pt) : Result :=
  hist2dWith (cell rule g) g.size nlayers pts

/-- the same fold with the Spec cell; `C05_counts` / `C05_sum_mean` identify it with the
    per-bin count / sum over the points whose Spec cell is that bin -/
def Spec.hist2d (g : Grid) (nlayers : Nat) (pts : List Pt) : Result :=
  hist2dWith (Spec.cell g) g.size nlayers pts

/-- Spec, stated without any fold: number of points of bin `c` -/
def Spec.count (g : Grid) (pts : List Pt) (c : Nat) : Nat :=
  (pts.filter fun p => Spec.cell g p.x p.y == some c).length

def sumR : List Rat → Rat
  | [] => 0
  | a :: l => a + sumR l

/-- Spec: sum of layer `l` over the points of bin `c` -/
def Spec.sum (g : Grid) (pts : List Pt) (l c : Nat) : Rat :=
  sumR ((pts.filter fun p => Spec.cell g p.x p.y == some c).map (Pt.layer l))

/-- Spec: number of points that have a bin at all -/
def Spec.inRange (g : Grid) (pts : List Pt) : Nat :=
  (pts.filter fun p => (Spec.cell g p.x p.y).isSome).length

inductive Operation | sum | mean
  deriving DecidableEq, Repr, Inhabited

def Operation.fromString? : String → Option Operation
  | "sum" => some .sum
  | "mean" => some .mean
  | _ => none

/-- `binned /= counts` for 'mean', `masked_where(counts == 0)`; `none` = masked -/
def finish (op : Operation) (sums counts : Img) : List (Option Rat) :=
  List.zipWith (fun s c => if c = 0 then none else some (match op with | .sum => s | .mean => s / c)) sums counts

/-! ### limits (histogram2d.py:136-166) -/

def finiteVals : List Coord → List Rat
  | [] => []
  | .fin q :: l => q :: finiteVals l
  | .nonfinite :: l => finiteVals l

def minL : List Rat → Option Rat
  | [] => none
  | a :: l => match minL l with
    | none => some a
    | some b => some (if a ≤ b then a else b)

def maxL : List Rat → Option Rat
  | [] => none
  | a :: l => match maxL l with
    | none => some a
    | some b => some (if b ≤ a then a else b)

def absQ (q : Rat) : Rat := if 0 ≤ q then q else -q

/-- One axis: `lo`/`hi` are the explicit limits (already `log10`-ed on a log axis) or `none`
    for automatic. Returns `none` when an automatic limit is requested and there is no finite
    value (the code raises: outside the claim). -/
def limits (lo hi : Option Rat) (xs : List Coord) : Option (Rat × Rat) := do
  let fv := finiteVals xs
  let (a, autoLo) ← match lo with
    | some v => some (v, false)
    | none => (minL fv).map (·, true)
  let (b, autoHi) ← match hi with
    | some v => some (v, false)
    | none => (maxL fv).map (·, true)
  -- "Protect against empty plots if xmin==xmax"
  let (a, b) :=
    if a = b then
      (if a = 0 then ((-1 : Rat) / 10, (1 : Rat) / 10)
       else (a - (1 : Rat) / 20 * absQ a, b + (1 : Rat) / 20 * absQ b))
    else (a, b)
  let d := b - a
  let a' := if autoLo then a - (1 : Rat) / 20 * d else a
  let b' := if autoHi then b + (1 : Rat) / 20 * d else b
  pure (a', b')

/-- distance (in bin widths) of `x` from the nearest bin edge: the margin of the index decision -/
def edgeMargin (x xmin dx : Rat) : Rat :=
  let t := (x - xmin) / dx
  let lo := t - (t.floor : Rat)
  let hi := ((t.floor : Rat) + 1) - t
  if lo ≤ hi then lo else hi

/-! ### threads: interleavings of atomic events

A thread works through its chunk of the `prange`. What one point does to memory depends on the
accumulation discipline:

* `serial`        one thread, program order
* `sharedRMW`     `img[i] += v` on a shared image compiles to `load img[i]`, `store img[i]`:
                  two atomic events, other threads may run between them (the code as written:
                  `prange` over a shared accumulator)
* `atomicAdd`     one atomic event per point
* `privateMerge`  every thread adds into its own image; the images are added at the end

A schedule is a list of thread ids: at every step the named thread executes its next event;
ids of finished or non-existent threads are skipped; when the list is exhausted the remaining
events run thread after thread. Every complete execution arises from some schedule. -/

inductive Disc
  | serial | sharedRMW | privateMerge | atomicAdd
  deriving DecidableEq, Repr, Inhabited

def Disc.fromString? : String → Option Disc
  | "serial" => some .serial
  | "sharedRMW" => some .sharedRMW
  | "privateMerge" => some .privateMerge
  | "atomicAdd" => some .atomicAdd
  | _ => none

inductive Ev
  | load (t i : Nat)                 -- reg[t] := img[i]
  | store (t i : Nat) (v : Rat)      -- img[i] := reg[t] + v
  | add (i : Nat) (v : Rat)          -- img[i] += v, atomically
  | padd (t i : Nat) (v : Rat)       -- priv[t][i] += v
  deriving Repr, Inhabited, DecidableEq

structure St where
  mem : Img
  regs : List Rat
  privs : List Img
  deriving Repr, Inhabited

def modifyNth {α : Type} (f : α → α) : List α → Nat → List α
  | [], _ => []
  | a :: l, 0 => f a :: l
  | a :: l, t + 1 => a :: modifyNth f l t

def exec1 (s : St) : Ev → St
  | .load t i => { s with regs := modifyNth (fun _ => s.mem.getD i 0) s.regs t }
  | .store t i v => { s with mem := setAt s.mem i (s.regs.getD t 0 + v) }
  | .add i v => { s with mem := addAt s.mem i v }
  | .padd t i v => { s with privs := modifyNth (fun p => addAt p i v) s.privs t }

def exec (s : St) (evs : List Ev) : St := evs.foldl exec1 s

/-- the events of thread `t` for its chunk -/
def threadEvents (d : Disc) (t : Nat) (chunk : List Upd) : List Ev :=
  match d with
  | .serial => chunk.map fun u => .add u.1 u.2
  | .atomicAdd => chunk.map fun u => .add u.1 u.2
  | .sharedRMW => chunk.flatMap fun u => [.load t u.1, .store t u.1 u.2]
  | .privateMerge => chunk.map fun u => .padd t u.1 u.2

def eventsFrom (d : Disc) : Nat → List (List Upd) → List (List Ev)
  | _, [] => []
  | t, c :: cs => threadEvents d t c :: eventsFrom d (t + 1) cs

/-- `serial` ignores the chunking: one thread runs the whole loop -/
def events (d : Disc) (chunks : List (List Upd)) : List (List Ev) :=
  match d with
  | .serial => [threadEvents .serial 0 chunks.flatten]
  | _ => eventsFrom d 0 chunks

/-- pop the next event of thread `t` -/
def pickHead {α : Type} : List (List α) → Nat → Option (α × List (List α))
  | [], _ => none
  | [] :: _, 0 => none
  | (e :: th) :: rest, 0 => some (e, th :: rest)
  | th :: rest, t + 1 => (pickHead rest t).map fun p => (p.1, th :: p.2)

/-- the event sequence a schedule produces -/
def interleave {α : Type} : List (List α) → List Nat → List α
  | ths, [] => ths.flatten
  | ths, t :: s =>
    match pickHead ths t with
    | some (e, ths') => e :: interleave ths' s
    | none => interleave ths s

def addImg (a b : Img) : Img := List.zipWith (· + ·) a b

def initSt (size nthreads : Nat) : St :=
  { mem := zeros size, regs := List.replicate nthreads 0, privs := List.replicate nthreads (zeros size) }

/-- what is returned: the shared image, plus the private images under `privateMerge` -/
def finalImg (s : St) : Img := s.privs.foldl addImg s.mem

/-- final image of one layer for discipline `d`, chunks of updates per thread, schedule `sched` -/
def runDisc (d : Disc) (size : Nat) (chunks : List (List Upd)) (sched : List Nat) : Img :=
  finalImg (exec (initSt size chunks.length) (interleave (events d chunks) sched))

/-- static `prange` chunking: `nthreads` contiguous chunks of (almost) equal size -/
def chunksOf {α : Type} (nthreads : Nat) (l : List α) : List (List α) :=
  let n := l.length
  let k := if nthreads = 0 then 1 else nthreads
  let sz := (n + k - 1) / k
  (List.range k).map fun t => (l.drop (t * sz)).take sz

end Osyris.Hist
