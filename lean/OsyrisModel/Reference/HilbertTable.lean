/-
Reference state diagram of the 3-D Hilbert curve (RAMSES `hilbert3d`), committed copy of the
table at the pinned commit; the extracted table of the current source must equal it.
-/
namespace Osyris.Reference

def hilbertNext : List (List Nat) := [[1, 2, 3, 2, 4, 5, 3, 5], [2, 6, 0, 7, 8, 8, 0, 7], [0, 9, 10, 9, 1, 1, 11, 11], [6, 0, 6, 11, 9, 0, 9, 8], [11, 11, 0, 7, 5, 9, 0, 7], [4, 4, 8, 8, 0, 6, 10, 6], [5, 7, 5, 3, 1, 1, 11, 11], [6, 1, 6, 10, 9, 4, 9, 10], [10, 3, 1, 1, 10, 3, 5, 9], [4, 4, 8, 8, 2, 7, 2, 3], [7, 2, 11, 2, 7, 5, 8, 5], [10, 3, 2, 6, 10, 3, 4, 4]]

def hilbertDigit : List (List Nat) := [[0, 1, 3, 2, 7, 6, 4, 5], [0, 7, 1, 6, 3, 4, 2, 5], [0, 3, 7, 4, 1, 2, 6, 5], [2, 3, 1, 0, 5, 4, 6, 7], [4, 3, 5, 2, 7, 0, 6, 1], [6, 5, 1, 2, 7, 4, 0, 3], [4, 7, 3, 0, 5, 6, 2, 1], [6, 7, 5, 4, 1, 0, 2, 3], [2, 5, 3, 4, 1, 6, 0, 7], [2, 1, 5, 6, 3, 0, 4, 7], [4, 5, 7, 6, 3, 2, 0, 1], [6, 1, 7, 0, 5, 2, 4, 3]]

end Osyris.Reference
