/-
Reference ("accepted") values of the astrophysical constants osyris defines, committed with
their sources.  Values are in the unit the osyris source uses for the constant.

* IAU 2015 Resolution B2: zero point of the absolute bolometric magnitude scale
    L_0 = 3.0128e28 W
* IAU 2015 Resolution B3 (nominal values):
    L_sun = 3.828e26 W, R_sun = 6.957e8 m,
    R_earth(eq) = 6.3781e6 m, R_jup(eq) = 7.1492e7 m,
    (GM)_sun = 1.3271244e20, (GM)_earth = 3.986004e14, (GM)_jup = 1.2668653e17  m^3 s^-2
* CODATA 2018: G = 6.67430e-11 m^3 kg^-1 s^-2  =>  M = GM / G:
    M_sun = 1.98841e30 kg, M_earth = 5.97217e24 kg, M_jup = 1.89812e27 kg
* CODATA 2018 radiation constant a = 4 sigma / c = 7.565733e-16 J m^-3 K^-4
    = 7.565733e-15 erg cm^-3 K^-4
-/
import OsyrisModel.ConstDef

namespace Osyris.Reference

def constants : List Const := [
  ⟨"bolometric_luminosity", (30128 : Rat) * 10 ^ 24, "W", ["L_bol0"]⟩,
  ⟨"solar_luminosity", (3828 : Rat) * 10 ^ 23, "W", ["L_sun", "L_sol"]⟩,
  ⟨"earth_mass", (597217 : Rat) * 10 ^ 22, "g", ["M_earth"]⟩,
  ⟨"jupiter_mass", (189812 : Rat) * 10 ^ 25, "g", ["M_jup"]⟩,
  ⟨"solar_mass", (198841 : Rat) * 10 ^ 28, "g", ["M_sun", "M_sol"]⟩,
  ⟨"earth_radius", (63781 : Rat) * 10 ^ 4, "cm", ["R_earth"]⟩,
  ⟨"jupiter_radius", (71492 : Rat) * 10 ^ 5, "cm", ["R_jup"]⟩,
  ⟨"solar_radius", (6957 : Rat) * 10 ^ 7, "cm", ["R_sun", "R_sol"]⟩,
  ⟨"radiation_constant", (7565733 : Rat) / 10 ^ 21, "erg / cm^3 / K^4", ["ar"]⟩
]

/-- relative tolerance at which "accepted value" is meaningful (the nominal solar mass
    differs from the older 1.9889e33 g by 2.5e-4) -/
def relTol : Rat := 1 / 1000

/-- `c` agrees with the reference entry of the same name: same unit, same aliases (as
    sets), value within `relTol` -/
def agrees (c r : Const) : Bool :=
  c.name == r.name && c.unit == r.unit &&
  r.aliases.all (c.aliases.contains ·) &&
  decide ((if c.value < r.value then r.value - c.value else c.value - r.value) ≤ relTol * r.value)

def constOk (c : Const) : Bool := constants.any (agrees c)

/-- every reference constant is defined, and every defined constant has its accepted value -/
def tableOk (cs : List Const) : Bool :=
  cs.all constOk && constants.all (fun r => cs.any (fun c => agrees c r))

end Osyris.Reference
