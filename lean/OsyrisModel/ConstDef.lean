/-
A constant as `config/defaults.py` defines it: name, value in the unit written in the
source, that unit, aliases.
-/
namespace Osyris

structure Const where
  name : String
  value : Rat
  unit : String
  aliases : List String
  deriving Repr, DecidableEq

end Osyris
