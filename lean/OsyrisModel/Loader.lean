/-
Model of `osyris.io.loader.Loader.load` for the mesh and particle groups: the walk over cpu
files x levels x domains, driven by the *generated* reader code (Generated/Readers.lean) for
every byte counter, with hand-written glue for what the readers do with the values
(ngridlevel reshape, cell geometry, leaf mask, selection, pieces, concatenation).
-/
import OsyrisModel.Generated.Readers
import OsyrisModel.Ramses
open Lean

namespace Osyris.Loader

structure VarSpec where
  name : String
  ty : Ty
  read : Bool
  mag : Rat              -- `item["unit"].magnitude`
  deriving Repr, Inhabited

def VarSpec.item (v : VarSpec) : VarItem := ⟨v.name, v.ty, v.read⟩

/-- a selection function `lambda x: x (op) value` on one variable, value in the buffer's unit -/
structure Pred where
  var : String
  op : String            -- lt le gt ge eq ne
  value : Rat
  deriving Repr, Inhabited

def Pred.eval (p : Pred) (x : Rat) : Bool :=
  match p.op with
  | "lt" => x < p.value | "le" => x ≤ p.value | "gt" => p.value < x | "ge" => p.value ≤ x
  | "eq" => x == p.value | "ne" => x != p.value
  | _ => false

structure MeshReader where
  kind : String          -- "hydro" | "grav" | "rt"
  vars : List VarSpec
  files : List File      -- per cpu (index 0 = cpu 1)
  deriving Repr, Inhabited

structure Case where
  ncpu : Nat
  ndim : Nat
  levelmax : Nat
  lmax : Nat
  boxlen : Rat
  amrVars : List VarSpec              -- level, cpu, dx, position_* (read flags, unit magnitudes)
  amrFiles : List File
  meshReaders : List MeshReader       -- initialised hydro / grav / rt readers, in loader order
  partVars : List VarSpec
  partFiles : List File               -- empty list = particle reader not initialised
  meshOn : Bool                       -- a mesh reader is initialised (do_not_load_amr = False)
  preds : List Pred                   -- conjunction, on mesh variables
  cpuList : List Nat
  deriving Repr, Inhabited

/-- what the loader makes the amr reader do for a (level, domain) block it owns: cacheline
    header, one `read_variables` per child cell, footer (the calls for the other readers are
    interleaved in loader.py, but every reader has its own file and counters) -/
def amrOwnBlock {m : Type → Type} [Monad m] [RdM m] (ncache ndim : Nat) (st : Trace × Cnt) : m (Trace × Cnt) := do
  let st ← Generated.amrReadCachelineHeader (ncache := ncache) (ndim := ndim) st
  let st ← forRangeM (2 ^ ndim) (fun ind st => Generated.amrReadVariables (ind := ind) (ncache := ncache) st) st
  Generated.amrReadFooter (ncache := ncache) (twotondim := 2 ^ ndim) st

/-- a hydro / grav / rt reader on a block it owns: `read_variables` once per child cell -/
def varOwnBlock {m : Type → Type} [Monad m] [RdM m] (vars : List VarItem) (ncache ndim : Nat) (st : Trace × Cnt) :
    m (Trace × Cnt) :=
  forRangeM (2 ^ ndim) (fun _ st => Generated.readerReadVariables (vars := vars) (ncache := ncache) st) st

/-- run a generated reader method on a file from the given counters -/
def runOn (f : File) (act : FileM (Trace × Cnt)) (log : List Req) : Except Err ((Trace × Cnt) × List Req) :=
  (act.run f).run log

def findTag (tr : Trace) (sub : String) : List Rat :=
  match tr.find? (fun e => (e.1.splitOn sub).length > 1) with
  | some e => e.2
  | none => []

def findTags (tr : Trace) (sub : String) : List (List Rat) :=
  (tr.filter (fun e => (e.1.splitOn sub).length > 1)).map (·.2)

/-- values read for the variable `name` (tags of variable loops end with `:<name>`) -/
def findVar (tr : Trace) (name : String) : List (List Rat) :=
  (tr.filter (fun e => e.1.endsWith (":" ++ name))).map (·.2)

def toNatR (q : Rat) : Nat := q.floor.toNat

/-- child-cell offsets as `read_level_header` computes them:
    iz = ind / 4, iy = (ind - 4 iz) / 2, ix = ind - 2 iy - 4 iz -/
def xcent (ind n : Nat) (dxcell : Rat) : Rat :=
  let iz := ind / 4
  let iy := (ind - 4 * iz) / 2
  let ix := ind - 2 * iy - 4 * iz
  let b : Nat := match n with | 0 => ix | 1 => iy | _ => iz
  ((b : Rat) - 1/2) * dxcell

/-- accumulated pieces: per variable name the rows selected so far -/
abbrev Pieces := List (String × List Rat)

def Pieces.add (p : Pieces) (name : String) (vals : List Rat) : Pieces :=
  if p.any (·.1 == name) then p.map (fun e => if e.1 == name then (e.1, e.2 ++ vals) else e)
  else p ++ [(name, vals)]

structure CpuState where
  pieces : Pieces := []
  ncells : Nat := 0
  nparticles : Nat := 0
  logs : List (String × List Req) := []
  deriving Inhabited

def selectRows (mask : List Bool) (vals : List Rat) : List Rat :=
  ((List.zip mask vals).filter (·.1)).map (·.2)

/-- everything that happens for one cpu file set -/
def loadCpu (cs : Case) (cpu : Nat) (st : CpuState) : Except Err CpuState := do
  let twotondim := 2 ^ cs.ndim
  let mut st := st
  -- particles: the whole table is read in `read_header`
  match cs.partFiles[cpu - 1]? with
  | none => pure ()
  | some pf =>
    let ((tr, _), plog) ← runOn pf (Generated.partReadHeader (vars := cs.partVars.map (·.item)) ([], {})) []
    let np := toNatR ((findTag tr "nparticles").getD 0 0)
    let mut pcs := st.pieces
    for v in cs.partVars do
      if v.read then
        let vals := (findVar tr v.name).flatten
        pcs := pcs.add ("part:" ++ v.name) (vals.map (· * v.mag))
    st := { st with pieces := pcs, nparticles := st.nparticles + np, logs := st.logs ++ [("part", plog)] }
  if !cs.meshOn then return st
  let amrF := cs.amrFiles.getD (cpu - 1) []
  -- headers
  let ((atr, ac0), alog0) ← runOn amrF (Generated.amrReadHeader (ncpu := cs.ncpu) (levelmax := cs.levelmax) ([], {})) []
  let nxyz := findTag atr "[nx, ny, nz]"
  let xbound (n : Nat) : Rat := (((toNatR (nxyz.getD n 0)) / 2 : Nat) : Rat)
  let nboundary := toNatR ((findTag atr "nboundary']]").getD 0 0)
  let numbl := findTag atr "[:info['ncpu'], :]"
  let numbb := findTag atr "[info['ncpu']:"
  -- ngridlevel[domain, ilevel]: `.reshape(levelmax, ncpu).T`
  let ngrid (domain ilevel : Nat) : Nat :=
    if domain < cs.ncpu then toNatR (numbl.getD (ilevel * cs.ncpu + domain) 0)
    else toNatR (numbb.getD (ilevel * nboundary + (domain - cs.ncpu)) 0)
  let mut ac := ac0
  let mut alog := alog0
  let mut rcs : List (Cnt × List Req) := []
  for r in cs.meshReaders do
    let f := r.files.getD (cpu - 1) []
    let act : FileM (Trace × Cnt) := match r.kind with
      | "hydro" => Generated.hydroReadHeader ([], {})
      | "grav" => Generated.gravReadHeader ([], {})
      | _ => Generated.rtReadHeader ([], {})
    let ((_, c), lg) ← runOn f act []
    rcs := rcs ++ [(c, lg)]
  for ilevel in List.range cs.lmax do
    let dxcell : Rat := (1 / 2 : Rat) ^ (ilevel + 1)
    for domain in List.range (nboundary + cs.ncpu) do
      let ncache := ngrid domain ilevel
      -- domain headers of the variable files
      let mut rcs' : List (Cnt × List Req) := []
      for (r, (c, lg)) in List.zip cs.meshReaders rcs do
        let f := r.files.getD (cpu - 1) []
        let act : FileM (Trace × Cnt) := match r.kind with
          | "hydro" => Generated.hydroReadDomainHeader ([], c)
          | "grav" => Generated.gravReadDomainHeader ([], c)
          | _ => Generated.rtReadDomainHeader ([], c)
        let ((_, c'), lg') ← runOn f act lg
        rcs' := rcs' ++ [(c', lg')]
      rcs := rcs'
      if ncache > 0 then
        if domain == cpu - 1 then
          let ((htr, c1), l1) ← runOn amrF (amrOwnBlock ncache cs.ndim ([], ac)) alog
          ac := c1; alog := l1
          let xg := findTags htr "self.xg"
          -- buffers, filled child cell after child cell
          let son : List Rat := (findTags htr "self.son").flatten
          let mut vbuf : List (String × List Rat) := []
          let mut rcs2 : List (Cnt × List Req) := []
          for (r, (c, lg)) in List.zip cs.meshReaders rcs do
            let f := r.files.getD (cpu - 1) []
            let ((rtr, c'), lg') ← runOn f (varOwnBlock (r.vars.map (·.item)) ncache cs.ndim ([], c)) lg
            rcs2 := rcs2 ++ [(c', lg')]
            for v in r.vars do
              if v.read then
                -- one trace entry per child cell, in child order
                let vals := ((findVar rtr v.name).flatten).map (· * v.mag)
                vbuf := vbuf ++ [(v.name, vals)]
          rcs := rcs2
          let n := ncache * twotondim
          -- the amr reader's own variables
          let amrBuf (v : VarSpec) : List Rat :=
            (List.range n).map fun idx =>
              let ind := idx / ncache
              let k := idx % ncache
              match v.name with
              | "level" => ((ilevel + 1 : Nat) : Rat)
              | "cpu" => ((cpu : Nat) : Rat)
              | "dx" => dxcell * cs.boxlen * v.mag
              | "position_x" => (((xg.getD 0 []).getD k 0) + xcent ind 0 dxcell - xbound 0) * cs.boxlen * v.mag
              | "position_y" => (((xg.getD 1 []).getD k 0) + xcent ind 1 dxcell - xbound 1) * cs.boxlen * v.mag
              | _ => (((xg.getD 2 []).getD k 0) + xcent ind 2 dxcell - xbound 2) * cs.boxlen * v.mag
          let bufs : List (String × List Rat) :=
            ((cs.amrVars.filter (·.read)).map fun v => (v.name, amrBuf v)) ++ vbuf
          -- leaf mask and user selection
          let ref : List Bool := son.map fun s => !(decide (0 < s) && decide (ilevel + 1 < cs.lmax))
          let masks : List (List Bool) := cs.preds.filterMap fun p =>
            (bufs.find? (·.1 == p.var)).map fun b => b.2.map p.eval
          let sel : List Bool := (List.range n).map fun idx =>
            (ref.getD idx false) && masks.all (fun m => m.getD idx false)
          let ncells := (sel.filter id).length
          if ncells > 0 then
            let mut pcs := st.pieces
            for b in bufs do
              pcs := pcs.add ("mesh:" ++ b.1) (selectRows sel b.2)
            st := { st with pieces := pcs, ncells := st.ncells + ncells }
        else
          let ((_, c1), l1) ← runOn amrF (Generated.amrStepOver (ncache := ncache) (ndim := cs.ndim) (twotondim := twotondim) ([], ac)) alog
          ac := c1; alog := l1
          let mut rcs2 : List (Cnt × List Req) := []
          for (r, (c, lg)) in List.zip cs.meshReaders rcs do
            let f := r.files.getD (cpu - 1) []
            let ((_, c'), lg') ← runOn f (Generated.readerStepOver (vars := r.vars.map (·.item)) (ncache := ncache) (twotondim := twotondim) ([], c)) lg
            rcs2 := rcs2 ++ [(c', lg')]
          rcs := rcs2
  let mlogs := (List.zip cs.meshReaders rcs).map fun (p : MeshReader × (Cnt × List Req)) => (p.1.kind, p.2.2)
  pure { st with logs := st.logs ++ [("amr", alog)] ++ mlogs }

def load (cs : Case) : Except Err CpuState :=
  cs.cpuList.foldlM (fun st cpu => loadCpu cs cpu st) {}

/-! ### vector merging (`utils.make_vector_arrays`) on key lists -/

def replaceAt (s : List Char) (i : Nat) (c : Char) : List Char := s.take i ++ [c] ++ s.drop (i + 1)

/-- Returns the merges `(rawkey, component keys)` in the order they are made and the keys to
    delete, given the keys present (in order) — mirrors the loops of the Python function.
    `present` is updated as vectors are inserted (`item in data` looks at the live dict). -/
def vectorMerges (keys : List String) (ndim : Nat) : List (String × List String) × List String :=
  let comps : List Char := ['x', 'y', 'z'].take ndim
  if comps.length ≤ 1 then ([], []) else
  let step (acc : (List (String × List String) × List String) × List String) (key : String) :=
    let cs := key.toList
    let inds := (List.range cs.length).filter fun i => cs.getD i ' ' == 'x'
    inds.foldl (fun (acc : (List (String × List String) × List String) × List String) ind =>
      let ((merges, del), present) := acc
      let compList := comps.map fun c => String.ofList (replaceAt cs ind c)
      if compList.all (present.contains ·) then
        let prev : Char := if ind == 0 then cs.getLastD ' ' else cs.getD (ind - 1) ' '
        let cut := if prev == '_' then ind - 1 else ind
        let raw := String.ofList (cs.take cut ++ cs.drop (ind + 1))
        let raw := if raw.isEmpty then "position" else raw
        ((merges ++ [(raw, compList)], del ++ compList), if present.contains raw then present else present ++ [raw])
      else acc) acc
  let r := keys.foldl step (([], []), keys)
  r.1

end Osyris.Loader
