/-
C10 model: the unit a numpy function called on Arrays returns, as `_wrap_numpy` derives it
(dtype test, membership of the function name in APPLY_OP_TO_UNIT, unit of the Array that
received the protocol call), next to the Spec: dimensional analysis per function class.
Values are numpy's on the raw values by construction of `_wrap_numpy`; the harness checks
that directly against numpy.
-/
import OsyrisModel.ArrayOps
open Lean

namespace Osyris

/-- function classes of the fixed catalogue (DESIGN 5 C10) -/
inductive NpClass | preserving | sameUnit | transforming | predicate
  deriving DecidableEq, Repr, Inhabited

def NpClass.fromString? : String → Option NpClass
  | "A" => some .preserving | "B" => some .sameUnit | "C" => some .transforming | "D" => some .predicate
  | _ => none

def catalogueA : List String := ["sum", "mean", "amin", "amax", "min", "max", "absolute", "median", "std",
  "cumsum", "sort", "diff", "nansum", "nanmean", "nanmin", "nanmax", "negative", "average", "ptp"]
def catalogueB : List String := ["add", "subtract", "maximum", "minimum", "concatenate", "stack", "hstack",
  "vstack", "append"]
def catalogueC : List String := ["multiply", "divide", "sqrt", "square", "cbrt", "power", "reciprocal"]
def catalogueD : List String := ["isnan", "isfinite", "isinf", "less", "less_equal", "greater", "greater_equal",
  "equal", "not_equal", "logical_and", "logical_or", "logical_xor", "logical_not"]

/-- a unit whose factor is `base ^ (num/den)`: unary roots of arbitrary factors stay exact -/
structure UPow where
  base : Rat
  num : Int
  den : Nat
  dim : Dim
  deriving Repr, DecidableEq, Inhabited

def UPow.ofU (u : U) : UPow := ⟨u.factor, 1, 1, u.dim⟩
def UPow.one : UPow := UPow.ofU U.one

def UPow.toJson (p : UPow) : Json :=
  Json.mkObj [("base", ratToJson p.base), ("num", Json.num (JsonNumber.fromInt p.num)),
              ("den", Json.num (JsonNumber.fromNat p.den)), ("d", ratsToJson p.dim)]

/-- what pint returns for `func(*unit_quantities)`; arguments without a unit are plain numbers.
    `k` is the (rational) scalar exponent of `power`. -/
def pintUnit (name : String) (args : List (Option U)) (k : Rat) : Option UPow :=
  let u (i : Nat) : U := (args.getD i none).getD U.one
  match name with
  | "multiply" => some (UPow.ofU ((u 0).mul (u 1)))
  | "divide" => some (UPow.ofU ((u 0).div (u 1)))
  | "true_divide" => some (UPow.ofU ((u 0).div (u 1)))
  | "sqrt" => some ⟨(u 0).factor, 1, 2, Dim.smul (1/2) (u 0).dim⟩
  | "cbrt" => some ⟨(u 0).factor, 1, 3, Dim.smul (1/3) (u 0).dim⟩
  | "square" => some (UPow.ofU ((u 0).mul (u 0)))
  | "reciprocal" => some (UPow.ofU (u 0).inv)
  | "power" => if k.den == 1 then some (UPow.ofU ((u 0).powInt k.num))
               else some ⟨(u 0).factor, k.num, k.den, Dim.smul k (u 0).dim⟩
  | _ => (args.findSome? id).map UPow.ofU     -- linear functions keep the unit of their operand

/-- `_wrap_numpy`'s unit rule -/
def npUnit (T : Tables) (name : String) (resDt : DType) (selfUnit : U) (args : List (Option U)) (k : Rat) :
    Option UPow :=
  if T.keeps resDt then
    (if T.applyOp name then pintUnit name args k else some (UPow.ofU selfUnit))
  else some UPow.one

/-- Spec: the dimensionally correct unit; `none` = the call must refuse (class B operands that
    do not all share one unit must be converted or rejected, never combined as if they did) -/
def specUnit (cls : NpClass) (name : String) (args : List (Option U)) (k : Rat) : Option UPow :=
  match cls with
  | .preserving => (args.findSome? id).map UPow.ofU
  | .predicate => some UPow.one
  | .transforming => pintUnit name args k
  | .sameUnit =>
    let us := args.map (·.getD U.one)
    match us with
    | [] => none
    | u :: rest => if rest.all (fun v => v.factor == u.factor && v.dim == u.dim) then some (UPow.ofU u) else none

end Osyris
