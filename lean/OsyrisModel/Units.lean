/-
F1 Units: a unit is a positive rational factor to root units and an exponent vector
over the eight root dimensions.  The catalogue (name -> U) is an *input* read from pint
by the harness; nothing here knows the value of any unit.
-/
import OsyrisModel.Basic
open Lean

namespace Osyris

/-- Number of root dimensions carried on the wire
(length, mass, time, temperature, current, substance, luminosity, angle). -/
def ndims : Nat := 8

abbrev Dim := List Rat

def Dim.zero : Dim := List.replicate ndims 0
def Dim.add (a b : Dim) : Dim := List.zipWith (· + ·) a b
def Dim.sub (a b : Dim) : Dim := List.zipWith (· - ·) a b
def Dim.smul (k : Rat) (a : Dim) : Dim := a.map (k * ·)

/-- pint compares `Unit`s *symbolically* (its `UnitsContainer`: canonical unit name ->
    exponent).  `Array.to`'s identity shortcut and the Vector constructor's unit check use
    that comparison, so the model carries the container next to (factor, dim). Normal form:
    sorted by name, no zero exponents. -/
abbrev Sym := List (String × Rat)

def Sym.insertAdd (s : Sym) (n : String) (e : Rat) : Sym :=
  match s with
  | [] => if e == 0 then [] else [(n, e)]
  | (m, f) :: rest =>
    if n == m then (if f + e == 0 then rest else (m, f + e) :: rest)
    else if n < m then (if e == 0 then s else (n, e) :: s)
    else (m, f) :: Sym.insertAdd rest n e

def Sym.mul (a b : Sym) : Sym := b.foldl (fun acc p => Sym.insertAdd acc p.1 p.2) a
def Sym.smul (k : Rat) (a : Sym) : Sym := if k == 0 then [] else a.map fun p => (p.1, k * p.2)

structure U where
  factor : Rat
  dim : Dim
  sym : Sym := []
  deriving DecidableEq, Repr, Inhabited

namespace U

def one : U := ⟨1, Dim.zero, []⟩
def mul (a b : U) : U := ⟨a.factor * b.factor, Dim.add a.dim b.dim, Sym.mul a.sym b.sym⟩
def div (a b : U) : U := ⟨a.factor / b.factor, Dim.sub a.dim b.dim, Sym.mul a.sym (Sym.smul (-1) b.sym)⟩
def inv (a : U) : U := ⟨1 / a.factor, Dim.smul (-1) a.dim, Sym.smul (-1) a.sym⟩
def powInt (a : U) (k : Int) : U := ⟨a.factor ^ k, Dim.smul (k : Rat) a.dim, Sym.smul (k : Rat) a.sym⟩
def wf (a : U) : Prop := 0 < a.factor ∧ a.dim.length = ndims
def isDimensionless (a : U) : Bool := a.dim.all (· == 0)

/-- pint's `Unit.__eq__`: symbolic -/
def same (a b : U) : Bool := a.sym == b.sym

/-- Two units can be converted into each other iff their dimension vectors agree. -/
def convertible (a b : U) : Bool := a.dim == b.dim

/-- Multiply a value in unit `a` by `ratio a b` to express it in unit `b`. -/
def ratio (a b : U) : Rat := a.factor / b.factor

end U

/-- Exact rational square root of a natural number, if it is a perfect square. -/
def natSqrt? (n : Nat) : Option Nat :=
  let r := Nat.sqrt n
  if r * r == n then some r else none

def ratSqrt? (q : Rat) : Option Rat :=
  if q < 0 then none else
  match natSqrt? q.num.toNat, natSqrt? q.den with
  | some a, some b => some (mkRat a b)
  | _, _ => none

/-- Integer cube root by search (small inputs only; exact lane). -/
def natCbrt? (n : Nat) : Option Nat :=
  let rec go (fuel k : Nat) : Option Nat :=
    match fuel with
    | 0 => none
    | fuel + 1 => if k * k * k == n then some k else if k * k * k > n then none else go fuel (k + 1)
  go (n + 2) 0

def ratCbrt? (q : Rat) : Option Rat :=
  let s : Rat := if q < 0 then -1 else 1
  match natCbrt? q.num.natAbs, natCbrt? q.den with
  | some a, some b => some (s * mkRat a b)
  | _, _ => none

def U.sqrt? (a : U) : Option U :=
  (ratSqrt? a.factor).map fun f => ⟨f, Dim.smul (1/2) a.dim, Sym.smul (1/2) a.sym⟩
def U.cbrt? (a : U) : Option U :=
  (ratCbrt? a.factor).map fun f => ⟨f, Dim.smul (1/3) a.dim, Sym.smul (1/3) a.sym⟩

def U.toJson (u : U) : Json :=
  Json.mkObj [("f", ratToJson u.factor), ("d", ratsToJson u.dim),
    ("s", Json.arr (u.sym.map fun p => Json.arr #[Json.str p.1, ratToJson p.2]).toArray)]

def U.fromJson? (j : Json) : Option U := do
  let f ← getRat? j "f"
  let d ← getRats? j "d"
  let sj ← getArr? j "s"
  let sym ← sj.mapM fun (e : Json) => match e with
    | .arr #[.str n, x] => (jsonToRat? x).map fun q => (n, q)
    | _ => none
  if d.length == ndims && decide (0 < f) then some ⟨f, d, sym⟩ else none

end Osyris
