/-
C03 / C11 model: `osyris.plot.map.map` (zero-thickness and thick maps) and the numba kernel
`osyris.plot.utils.evaluate_on_grid`.

* `Spec.*`        the property in its simplest form: `Spec.locate mesh p` = the cells whose closed
                  cube contains `p`; the sample point of pixel (i,j[,k]) is
                  `o + x_i u + y_j v + z_k n` with `x_i = xmin + (i+½)(xmax−xmin)/nx`; a thick pixel
                  is `reduce op` of the column of samples.  Never mentions pre-selections,
                  footprints or processing order.
* model as coded  statement by statement (numbers = lines of plot/map.py, K = plot/utils.py):
    (1) `nearPlane`     :209-223  |(c−o)·n| ≤ ½·diag·(dz if thick else cell size)
    (2) `radialOk`      :240-248  the vector `xyz − ½·s·diag` (a scalar subtracted from every
                                  component), its norm against max(dx,dy,dz)·0.6·diag (squares compared)
    (3) `footprint`     K:35-98   `int()` truncation, max(…,0), min(…+1,n), half_size = (s/2)·diag
    (4) `hit`           K:103-129 |p_k − c_k| ≤ s/2 on the axes of the ORIGINAL basis (2-D: x, y only)
    (5) `writes`/`exec` K:34,130  cells in the order carried by the case; a hit stores every layer of
                                  the pixel; the buffer starts as NaN (= `none`)
    (6) `reduce`        :387      sum, mean, min, max (NaN-propagating) and nan-variants, numpy semantics
    (7) `scaleFactor`   :390-393  `*zspacing` and unit·length for thick sum / nansum only
    (8) `depthCount`    :318-319  Python `round` (half to even) of (zmax−zmin)/(½(xspacing+yspacing))
    (9) `mask`, `binVals` :396, :270-296  mask from the LAST binned layer; vector layers are binned as
                                  (w·u, w·v, sqrt((w·u)²+(w·v)²))
    (10) `run`          :421-423  pixel coordinates × scale ratio (position unit → unit of dx)
  The division of every length by `div = dx` before the kernel call (:362-382) is a positive
  rescaling of every quantity the kernel compares; it changes no decision in exact arithmetic and is
  not modelled.  `np.linspace(xmin+½Δ, xmax−½Δ, n)` is the list `xmin + (i+½)Δ`.
* `Sel`           four formulas can be run `coded` (the unchanged source) or `sound`; the harness detects
                  from the source text which form the working tree has:
                    slab     ½·diag·dz                              | dz/2 + ½·diag·s
                    radial   |xyz − ½·s·diag·(1,1,1)| ≤ R           | |xyz| − ½·s·diag ≤ R,  R = max(dx,dy,dz)·0.6·diag
                    depth    (dx omitted) depth window = extent of the selected cells (thick: dz is ignored; zero
                             thickness: the step zmax can be ≤ 0)   | [−dz/2, dz/2] resp. as with dx given (dz = dx)
                    depth2d  (thick, 2-D data) depth footprint from Z = 0 and half_size     | the whole depth range
* threads         `prange` over cells: every thread executes the stores of its chunk of cells;
                  schedules are the interleavings of `Hist.interleave` (atomic element stores).

Values are core `Rat`; NaN is `none`.  `diag` is a parameter (the harness passes the exact
rational value of the double `np.sqrt(ndim)`).  Core Lean only (the driver links this file).
-/
import OsyrisModel.Basic
import OsyrisModel.Hist
open Lean

namespace Osyris.MapModel

/-! ### vectors, small helpers -/

structure V3 where
  x : Rat
  y : Rat
  z : Rat
  deriving DecidableEq, Repr, Inhabited

namespace V3
def zero : V3 := ⟨0, 0, 0⟩
def dot (a b : V3) : Rat := a.x * b.x + a.y * b.y + a.z * b.z
def add (a b : V3) : V3 := ⟨a.x + b.x, a.y + b.y, a.z + b.z⟩
def sub (a b : V3) : V3 := ⟨a.x - b.x, a.y - b.y, a.z - b.z⟩
def smul (k : Rat) (a : V3) : V3 := ⟨k * a.x, k * a.y, k * a.z⟩
def normSq (a : V3) : Rat := dot a a
end V3

def absQ (q : Rat) : Rat := if 0 ≤ q then q else -q
def maxQ (a b : Rat) : Rat := if b ≤ a then a else b
def minQ (a b : Rat) : Rat := if a ≤ b then a else b

/-- numba `int()` on a float: round toward zero (shared with the C05 model) -/
abbrev truncQ := Hist.truncQ

/-- Python `round(x)` for a float: nearest integer, ties to the even one -/
def roundHalfEven (q : Rat) : Int :=
  let f := q.floor
  let r := q - (f : Rat)
  if r < (1 : Rat) / 2 then f
  else if (1 : Rat) / 2 < r then f + 1
  else if f % 2 = 0 then f else f + 1

/-- `sqrt` of a non-negative rational: exact when numerator and denominator are perfect squares,
    otherwise rounded down to a multiple of `1/(den·2^64)` (relative error < 2^-63).
    The flag says whether the result is exact. -/
def msqrt (q : Rat) : Rat × Bool :=
  if q ≤ 0 then (0, true) else
  let a := q.num.toNat
  let b := q.den
  let ra := Nat.sqrt a
  let rb := Nat.sqrt b
  if ra * ra == a && rb * rb == b then (mkRat ra rb, true)
  else
    let k : Nat := 2 ^ 64
    (mkRat (Nat.sqrt (a * b * k * k)) (b * k), false)

/-! ### cells and the Spec -/

/-- a loaded cell: centre, size, one value per *binned* layer (`none` = NaN) -/
structure Cell where
  c : V3
  s : Rat
  vals : List (Option Rat)
  deriving Repr, Inhabited, DecidableEq

namespace Spec

/-- the closed cube of the cell contains `p` (2-D data: the closed square, z is not a coordinate) -/
def contains (ndim : Nat) (c : Cell) (p : V3) : Bool :=
  decide (absQ (p.x - c.c.x) ≤ c.s / 2) && decide (absQ (p.y - c.c.y) ≤ c.s / 2) &&
  (ndim != 3 || decide (absQ (p.z - c.c.z) ≤ c.s / 2))

/-- the loaded cells containing the point -/
def locate (ndim : Nat) (mesh : List Cell) (p : V3) : List Cell := mesh.filter fun c => contains ndim c p

/-- pixel centre `lo + (i + ½)·(hi − lo)/n` -/
def centre (lo hi : Rat) (n i : Nat) : Rat := lo + ((i : Rat) + 1 / 2) * ((hi - lo) / (n : Rat))

/-- `origin + x u + y v + z n` -/
def point (o u v n : V3) (x y z : Rat) : V3 :=
  o.add ((V3.smul x u).add ((V3.smul y v).add (V3.smul z n)))

/-- Chebyshev distance from the centre of the cell, on the axes that exist -/
def cheb (ndim : Nat) (c : Cell) (p : V3) : Rat :=
  let m := maxQ (absQ (p.x - c.c.x)) (absQ (p.y - c.c.y))
  if ndim == 3 then maxQ m (absQ (p.z - c.c.z)) else m

/-- the point is within `eps·s` of the boundary of the cell -/
def nearFace (ndim : Nat) (eps : Rat) (c : Cell) (p : V3) : Bool :=
  decide (absQ (cheb ndim c p - c.s / 2) ≤ eps * c.s)

/-- the cell contains the point or touches it within `eps·s` -/
def touches (ndim : Nat) (eps : Rat) (c : Cell) (p : V3) : Bool :=
  decide (cheb ndim c p ≤ c.s / 2 + eps * c.s)

end Spec

/-! ### reductions along depth (6) -/

inductive Op
  | sum | mean | min | max | nansum | nanmean | nanmin | nanmax
  deriving DecidableEq, Repr, Inhabited

def Op.fromString? : String → Option Op
  | "sum" => some .sum
  | "mean" => some .mean
  | "min" => some .min
  | "max" => some .max
  | "nansum" => some .nansum
  | "nanmean" => some .nanmean
  | "nanmin" => some .nanmin
  | "nanmax" => some .nanmax
  | _ => none

def somes : List (Option Rat) → List Rat
  | [] => []
  | some q :: l => q :: somes l
  | none :: l => somes l

def sumQ : List Rat → Rat
  | [] => 0
  | a :: l => a + sumQ l

def minL : List Rat → Option Rat
  | [] => none
  | a :: l => match minL l with
    | none => some a
    | some b => some (minQ a b)

def maxL : List Rat → Option Rat
  | [] => none
  | a :: l => match maxL l with
    | none => some a
    | some b => some (maxQ a b)

def allSome : List (Option Rat) → Bool
  | [] => true
  | some _ :: l => allSome l
  | none :: _ => false

/-- `getattr(np, operation)(column)`; `none` = NaN -/
def reduce (op : Op) (col : List (Option Rat)) : Option Rat :=
  let vs := somes col
  match op with
  | .sum => if allSome col then some (sumQ vs) else none
  | .mean => if allSome col && !col.isEmpty then some (sumQ vs / (col.length : Rat)) else none
  | .min => if allSome col then minL vs else none
  | .max => if allSome col then maxL vs else none
  | .nansum => some (sumQ vs)
  | .nanmean => if vs.isEmpty then none else some (sumQ vs / (vs.length : Rat))
  | .nanmin => minL vs
  | .nanmax => maxL vs

/-- (7) is the result of a thick map integrated (value × depth step, unit × length)? -/
def integrates (thick : Bool) (op : Op) : Bool := thick && (op == .sum || op == .nansum)

/-- (7) the factor applied after the reduction -/
def scaleFactor (thick : Bool) (op : Op) (zsp : Rat) : Rat := if integrates thick op then zsp else 1

/-- (7) power of the length unit multiplied into the layer unit -/
def unitLengthPower (thick : Bool) (op : Op) : Nat := if integrates thick op then 1 else 0

/-- (8) default number of depth samples -/
def depthCount (depth xsp ysp : Rat) : Int := roundHalfEven (depth / ((1 : Rat) / 2 * (xsp + ysp)))

/-! ### the kernel: grid, footprint, containment, stores -/

/-- what `evaluate_on_grid` receives about the pixel grid -/
structure Grid where
  ndim : Nat
  u : V3
  v : V3
  n : V3
  xlo : Rat
  ylo : Rat
  zlo : Rat
  xsp : Rat
  ysp : Rat
  zsp : Rat
  nx : Nat
  ny : Nat
  nz : Nat
  /-- first depth centre and step between depth centres (`zcenters`) -/
  zc0 : Rat
  zstep : Rat
  diag : Rat
  /-- every cell writes the whole depth range (sound treatment of 2-D data, where depth is not a
      coordinate of the cells); as coded: `false`, the depth footprint is computed like the other two -/
  zfull : Bool := false
  deriving Repr, Inhabited

def Grid.xc (g : Grid) (i : Nat) : Rat := g.xlo + ((i : Rat) + 1 / 2) * g.xsp
def Grid.yc (g : Grid) (j : Nat) : Rat := g.ylo + ((j : Rat) + 1 / 2) * g.ysp
def Grid.zc (g : Grid) (k : Nat) : Rat := g.zc0 + (k : Rat) * g.zstep

/-- `pixel_positions[k,j,i]`: the sample point relative to the origin, in the original basis -/
def Grid.pos (g : Grid) (i j k : Nat) : V3 :=
  (V3.smul (g.xc i) g.u).add ((V3.smul (g.yc j) g.v).add (V3.smul (g.zc k) g.n))

/-- a cell as the kernel sees it -/
structure KCell where
  /-- centre in the new basis -/
  X : Rat
  Y : Rat
  Z : Rat
  /-- centre in the original basis, relative to the origin -/
  r : V3
  /-- `cell_sizes[n]` = `datadx` = half the cell size -/
  hs : Rat
  vals : List (Option Rat)
  deriving Repr, Inhabited, DecidableEq

/-- (3) lower footprint index `max(int(((X − half_size) − lo)/Δ), 0)` -/
def fpLo (X h lo sp : Rat) : Int := max (truncQ (((X - h) - lo) / sp)) 0
/-- (3) upper footprint index `min(int(((X + half_size) − lo)/Δ) + 1, n)` -/
def fpHi (X h lo sp : Rat) (n : Nat) : Int := min (truncQ (((X + h) - lo) / sp) + 1) (n : Int)

/-- `range(a, b)` for footprint bounds (`0 ≤ a`) -/
def rangeI (a b : Int) : List Nat := List.range' a.toNat (b.toNat - a.toNat)

/-- (4) containment test of the kernel, on the axes of the original basis -/
def hit (g : Grid) (c : KCell) (p : V3) : Bool :=
  decide (absQ (p.x - c.r.x) ≤ c.hs) && decide (absQ (p.y - c.r.y) ≤ c.hs) &&
  (g.ndim != 3 || decide (absQ (p.z - c.r.z) ≤ c.hs))

/-- the pixels `(k, j, i)` a cell writes: inside its footprint and passing the containment test -/
def pixHits (g : Grid) (c : KCell) : List (Nat × Nat × Nat) :=
  let h := c.hs * g.diag
  (if g.zfull then List.range g.nz else rangeI (fpLo c.Z h g.zlo g.zsp) (fpHi c.Z h g.zlo g.zsp g.nz)).flatMap fun k =>
    (rangeI (fpLo c.Y h g.ylo g.ysp) (fpHi c.Y h g.ylo g.ysp g.ny)).flatMap fun j =>
      (rangeI (fpLo c.X h g.xlo g.xsp) (fpHi c.X h g.xlo g.xsp g.nx)).filterMap fun i =>
        if hit g c (g.pos i j k) then some (k, j, i) else none

/-- flat index of `out[l, k, j, i]` -/
def flat (g : Grid) (l k j i : Nat) : Nat := ((l * g.nz + k) * g.ny + j) * g.nx + i

abbrev Val := Option Rat
/-- an atomic element store `out[idx] = v` -/
abbrev Ev := Nat × Val
abbrev Mem := List Val

/-- (5) `out[:, k, j, i] = cell_values[:, n]` for every pixel the cell hits -/
def writes (g : Grid) (nl : Nat) (c : KCell) : List Ev :=
  (pixHits g c).flatMap fun p =>
    (List.range nl).map fun l => (flat g l p.1 p.2.1 p.2.2, c.vals.getD l none)

/-- `np.full(fill_value=nan)` -/
def initMem (g : Grid) (nl : Nat) : Mem := List.replicate (nl * g.nz * g.ny * g.nx) none

def exec (m : Mem) (evs : List Ev) : Mem := evs.foldl (fun m e => m.set e.1 e.2) m

/-- the same loop on an `Array` (what the driver executes); `execArr_eq` in OsyrisProofs/C03.lean -/
def execArr (size : Nat) (evs : List Ev) : Mem :=
  (evs.foldl (fun (a : Array Val) (e : Ev) => a.setIfInBounds e.1 e.2) (Array.replicate size none)).toList

/-- the kernel with a serial loop over the cells in list order -/
def kernel (g : Grid) (nl : Nat) (cells : List KCell) : Mem :=
  exec (initMem g nl) (cells.flatMap (writes g nl))

/-- the kernel under a thread schedule: `chunks` = the cells of each thread (`prange`),
    `sched` = an interleaving of the threads' element stores -/
def kernelSched (g : Grid) (nl : Nat) (chunks : List (List KCell)) (sched : List Nat) : Mem :=
  exec (initMem g nl) (Hist.interleave (chunks.map fun ch => ch.flatMap (writes g nl)) sched)

/-- `out[l, :, j, i]` -/
def column (g : Grid) (m : Mem) (l j i : Nat) : List Val :=
  (List.range g.nz).map fun k => (m.getD (flat g l k j i) none)

/-- (6)(7) `getattr(np, op)(out, axis=1)`, then `*= zspacing` for thick sum / nansum -/
def reducedPixel (g : Grid) (thick : Bool) (op : Op) (m : Mem) (l j i : Nat) : Val :=
  (reduce op (column g m l j i)).map (· * scaleFactor thick op g.zsp)

/-! ### `map()` around the kernel -/

inductive Sel | coded | sound
  deriving DecidableEq, Repr, Inhabited

inductive LayerData
  | scalar (v : List (Option Rat))
  | vector (w : List V3)
  deriving Repr, Inhabited

structure Cfg where
  ndim : Nat
  o : V3
  u : V3
  v : V3
  n : V3
  /-- window in the unit of the positions; `none` = argument not given -/
  dx : Option Rat
  dy : Option Rat
  dz : Option Rat
  nx : Nat
  ny : Nat
  nz : Option Nat
  op : Op
  diag : Rat
  slab : Sel
  radial : Sel
  /-- depth window when dx is not given: coded = extent of the selected cells (thick: dz only enters the
      slab pre-selection; zero thickness: the depth step `zmax` may be ≤ 0), sound = [-dz/2, dz/2] resp.
      the window of an explicit dx (dz = dx = xmax − xmin) -/
  depth : Sel
  /-- depth footprint for 2-D data: coded = from Z = 0 and half_size like the other axes (depth samples
      further than half_size from the plane are never written), sound = the whole depth range -/
  depth2d : Sel
  /-- `(1.0 * spatial_unit).to(map_unit).magnitude` -/
  scale : Rat
  /-- the depth reduction of every binned row (a layer's own `operation`, three rows for a vector layer); rows beyond
      the list take the call-level `op` -/
  rowOps : List Op := []
  deriving Repr, Inhabited

/-- `operations[layer]`: the layer's own operation, else the one passed to the call -/
def Cfg.opOf (cfg : Cfg) (l : Nat) : Op := cfg.rowOps.getD l cfg.op

def Cfg.thick (cfg : Cfg) : Bool := cfg.dz.isSome
/-- `dy = dx if dy is None` -/
def Cfg.dyEff (cfg : Cfg) : Option Rat := match cfg.dy with | some d => some d | none => cfg.dx
/-- `dz = dx if dz is None` -/
def Cfg.dzEff (cfg : Cfg) : Option Rat := match cfg.dz with | some d => some d | none => cfg.dx

/-- (9) values handed to the kernel for cell `i`: a scalar layer gives one value, a vector layer
    `(w·u, w·v, sqrt((w·u)² + (w·v)²))` -/
def binVals (cfg : Cfg) (layers : List LayerData) (i : Nat) : List (Option Rat) :=
  layers.flatMap fun
    | .scalar v => [v.getD i none]
    | .vector w =>
      let wi := w.getD i V3.zero
      let a := wi.dot cfg.u
      let b := wi.dot cfg.v
      [some a, some b, some (msqrt (a * a + b * b)).1]

/-- are all in-plane magnitudes exact rationals? -/
def magsExact (cfg : Cfg) (layers : List LayerData) : Bool :=
  layers.all fun
    | .scalar _ => true
    | .vector w => w.all fun wi =>
      let a := wi.dot cfg.u
      let b := wi.dot cfg.v
      (msqrt (a * a + b * b)).2

/-- for every layer its first binned index and whether it is a scalar layer -/
def layerSlots : List LayerData → Nat → List (Nat × Bool)
  | [], _ => []
  | .scalar _ :: l, k => (k, true) :: layerSlots l (k + 1)
  | .vector _ :: l, k => (k, false) :: layerSlots l (k + 3)

/-- (1) distance test to the plane / slab -/
def nearPlane (cfg : Cfg) (c : Cell) : Bool :=
  let dist := absQ ((c.c.sub cfg.o).dot cfg.n)
  match cfg.dz with
  | some dz =>
    match cfg.slab with
    | .coded => decide (dist ≤ (1 : Rat) / 2 * cfg.diag * dz)
    | .sound => decide (dist ≤ dz / 2 + (1 : Rat) / 2 * cfg.diag * c.s)
  | none => decide (dist ≤ (1 : Rat) / 2 * cfg.diag * c.s)

/-- (2) `max(dx, dy, dz) * 0.6 * diagonal` -/
def radialBound (cfg : Cfg) (dx dy dz : Rat) : Rat := maxQ (maxQ dx dy) dz * ((3 : Rat) / 5) * cfg.diag

/-- (2) radial test; coded: the norm of `xyz − ½·s·diag` (scalar subtracted from each of the `ndim`
    components); sound: `|xyz| − ½·s·diag`.  Norms are compared through their squares. -/
def radialOk (cfg : Cfg) (dx dy dz : Rat) (c : Cell) : Bool :=
  let r := c.c.sub cfg.o
  let t := (1 : Rat) / 2 * c.s * cfg.diag
  let R := radialBound cfg dx dy dz
  match cfg.radial with
  | .coded =>
    let q := (r.x - t) * (r.x - t) + (r.y - t) * (r.y - t) + (if cfg.ndim == 3 then (r.z - t) * (r.z - t) else 0)
    decide (0 ≤ R) && decide (q ≤ R * R)
  | .sound =>
    let q := r.x * r.x + r.y * r.y + (if cfg.ndim == 3 then r.z * r.z else 0)
    decide (0 ≤ R + t) && decide (q ≤ (R + t) * (R + t))

/-- the cells handed to the kernel, in mesh order -/
def select (cfg : Cfg) (mesh : List Cell) : List Cell :=
  let close := mesh.filter (nearPlane cfg)
  match cfg.dx, cfg.dyEff, cfg.dzEff with
  | some dx, some dy, some dz => close.filter (radialOk cfg dx dy dz)
  | _, _, _ => close

/-- projection of a cell for the kernel -/
def toK (cfg : Cfg) (c : Cell) : KCell :=
  let r := c.c.sub cfg.o
  { X := r.dot cfg.u, Y := r.dot cfg.v, Z := r.dot cfg.n, r := r, hs := c.s * ((1 : Rat) / 2), vals := c.vals }

def foldMin (l : List Rat) : Option Rat := minL l
def foldMax (l : List Rat) : Option Rat := maxL l

structure Window where
  xmin : Rat
  xmax : Rat
  ymin : Rat
  ymax : Rat
  zmin : Rat
  zmax : Rat
  deriving Repr, Inhabited

/-- the window: from dx/dy/dz, or the extent of the selected cells when dx is not given -/
def window (cfg : Cfg) (ks : List KCell) : Option Window :=
  match cfg.dx, cfg.dyEff, cfg.dzEff with
  | some dx, some dy, some dz =>
    let xmin := -(1 : Rat) / 2 * dx
    let ymin := -(1 : Rat) / 2 * dy
    let zmin := -(1 : Rat) / 2 * dz
    some ⟨xmin, xmin + dx, ymin, ymin + dy, zmin, zmin + dz⟩
  | _, _, _ => do
    let x0 ← minL (ks.map fun k => k.X - k.hs)
    let x1 ← maxL (ks.map fun k => k.X + k.hs)
    let y0 ← minL (ks.map fun k => k.Y - k.hs)
    let y1 ← maxL (ks.map fun k => k.Y + k.hs)
    let z0 ← minL (ks.map fun k => k.Z - k.hs)
    let z1 ← maxL (ks.map fun k => k.Z + k.hs)
    match cfg.dz, cfg.depth with
    | some dz, .sound => pure ⟨x0, x1, y0, y1, -(1 : Rat) / 2 * dz, -(1 : Rat) / 2 * dz + dz⟩
    | none, .sound => pure ⟨x0, x1, y0, y1, -(1 : Rat) / 2 * (x1 - x0), -(1 : Rat) / 2 * (x1 - x0) + (x1 - x0)⟩
    | _, .coded => pure ⟨x0, x1, y0, y1, z0, z1⟩

inductive Fail
  | noCells        -- RuntimeError("No cells were selected ...")
  | zeroDepth      -- depth count 0 (division by zero in the code)
  | badGrid        -- a zero pixel count or a zero spacing
  deriving DecidableEq, Repr, Inhabited

/-- grid construction :298-327 -/
def mkGrid (cfg : Cfg) (w : Window) : Except Fail Grid :=
  if cfg.nx = 0 ∨ cfg.ny = 0 then .error .badGrid else
  let xsp := (w.xmax - w.xmin) / (cfg.nx : Rat)
  let ysp := (w.ymax - w.ymin) / (cfg.ny : Rat)
  if xsp = 0 ∨ ysp = 0 then .error .badGrid else
  if cfg.thick then
    let nzI : Int := match cfg.nz with
      | some k => (k : Int)
      | none => depthCount (w.zmax - w.zmin) xsp ysp
    if nzI ≤ 0 then .error .zeroDepth else
    let nz := nzI.toNat
    let zsp := (w.zmax - w.zmin) / (nz : Rat)
    if zsp = 0 then .error .badGrid else
    .ok { ndim := cfg.ndim, u := cfg.u, v := cfg.v, n := cfg.n, xlo := w.xmin, ylo := w.ymin, zlo := w.zmin,
          xsp := xsp, ysp := ysp, zsp := zsp, nx := cfg.nx, ny := cfg.ny, nz := nz,
          zc0 := w.zmin + (1 : Rat) / 2 * zsp, zstep := zsp, diag := cfg.diag,
          zfull := cfg.ndim != 3 && cfg.depth2d == .sound }
  else
    -- `zmin = 0.0; zspacing = zmax - zmin; zcenters = [0.0]`
    if w.zmax = 0 then .error .badGrid else
    .ok { ndim := cfg.ndim, u := cfg.u, v := cfg.v, n := cfg.n, xlo := w.xmin, ylo := w.ymin, zlo := 0,
          xsp := xsp, ysp := ysp, zsp := w.zmax, nx := cfg.nx, ny := cfg.ny, nz := 1,
          zc0 := 0, zstep := 0, diag := cfg.diag }

structure Result where
  grid : Grid
  nsel : Nat
  /-- (10) pixel centres in the unit of dx -/
  x : List Rat
  y : List Rat
  /-- reduced and scaled binned layers, `ny·nx` values each, row `j`, column `i` -/
  binned : List (List Val)
  /-- (9) `isnan` of the coverage row: the pixels that no cell covers -/
  mask : List Bool
  /-- (7) -/
  unitPower : Nat
  /-- (7) per binned row: only the rows reduced by sum / nansum are multiplied by the depth step -/
  unitPowers : List Nat := []
  deriving Repr, Inhabited

/-- the cell with its first `nl` values and a 1 in row `nl` (the coverage row `map` appends) -/
def withCover (nl : Nat) (k : KCell) : KCell :=
  { k with vals := ((List.range nl).map fun l => k.vals.getD l none) ++ [some 1] }

/-- `map(..., plot=False)` with the cells processed in the order `order` (indices into the selected
    cells; anything that is not a permutation is the caller's responsibility) -/
def run (cfg : Cfg) (mesh : List Cell) (order : Option (List Nat)) (useArr : Bool := true) : Except Fail Result :=
  let close := mesh.filter (nearPlane cfg)
  if close.isEmpty then .error .noCells else
  let sel := select cfg mesh
  let ks := sel.map (toK cfg)
  match window cfg ks with
  | none => .error .noCells
  | some w =>
    match mkGrid cfg w with
    | .error e => .error e
    | .ok g =>
      let nl := match mesh with | [] => 0 | c :: _ => c.vals.length
      let ordered : List KCell := match order with
        | none => ks
        | some idx => let a := ks.toArray; idx.filterMap fun i => a[i]?
      -- row `nl` of the kernel holds 1 in every cell: it records which voxels are covered by a cell at all
      let evs := (ordered.map (withCover nl)).flatMap (writes g (nl + 1))
      let mem := if useArr then execArr ((nl + 1) * g.nz * g.ny * g.nx) evs else exec (initMem g (nl + 1)) evs
      let pix (l : Nat) : List Val :=
        (List.range g.ny).flatMap fun j => (List.range g.nx).map fun i => reducedPixel g cfg.thick (cfg.opOf l) mem l j i
      let binned := (List.range nl).map pix
      -- (9) the coverage row is reduced like the last layer; `isnan` of it is the mask of every layer
      let cover : List Val :=
        (List.range g.ny).flatMap fun j => (List.range g.nx).map fun i =>
          reducedPixel g cfg.thick (cfg.opOf (nl - 1)) mem nl j i
      .ok { grid := g, nsel := sel.length,
            x := (List.range g.nx).map fun i => g.xc i * cfg.scale,
            y := (List.range g.ny).map fun j => g.yc j * cfg.scale,
            binned := binned, mask := cover.map Option.isNone, unitPower := unitLengthPower cfg.thick cfg.op,
            unitPowers := (List.range nl).map fun l => unitLengthPower cfg.thick (cfg.opOf l) }

/-! ### Spec at the level of a whole map -/

namespace Spec

/-- the sample point of voxel (i, j, k) for a window and pixel counts; zero thickness: `z = 0` -/
def sample (cfg : Cfg) (w : Window) (nz : Nat) (i j k : Nat) : V3 :=
  let x := centre w.xmin w.xmax cfg.nx i
  let y := centre w.ymin w.ymax cfg.ny j
  let z := if cfg.thick then centre w.zmin w.zmax nz k else 0
  point cfg.o cfg.u cfg.v cfg.n x y z

/-- the value of binned layer `l` sampled at a point: the values of all containing cells -/
def valuesAt (ndim : Nat) (mesh : List Cell) (l : Nat) (p : V3) : List Val :=
  (locate ndim mesh p).map fun c => c.vals.getD l none

end Spec

end Osyris.MapModel
