namespace Gen
def stateDiagram : Array Nat := #[1, 2, 3, 2, 4, 5, 3, 5, 0, 1, 3, 2, 7, 6, 4, 5, 2, 6, 0, 7, 8, 8, 0, 7, 0, 7, 1, 6, 3, 4, 2, 5, 0, 9, 10, 9, 1, 1, 11, 11, 0, 3, 7, 4, 1, 2, 6, 5, 6, 0, 6, 11, 9, 0, 9, 8, 2, 3, 1, 0, 5, 4, 6, 7, 11, 11, 0, 7, 5, 9, 0, 7, 4, 3, 5, 2, 7, 0, 6, 1, 4, 4, 8, 8, 0, 6, 10, 6, 6, 5, 1, 2, 7, 4, 0, 3, 5, 7, 5, 3, 1, 1, 11, 11, 4, 7, 3, 0, 5, 6, 2, 1, 6, 1, 6, 10, 9, 4, 9, 10, 6, 7, 5, 4, 1, 0, 2, 3, 10, 3, 1, 1, 10, 3, 5, 9, 2, 5, 3, 4, 1, 6, 0, 7, 4, 4, 8, 8, 2, 7, 2, 3, 2, 1, 5, 6, 3, 0, 4, 7, 7, 2, 11, 2, 7, 5, 8, 5, 4, 5, 7, 6, 3, 2, 0, 1, 10, 3, 2, 6, 10, 3, 4, 4, 6, 1, 7, 0, 5, 2, 4, 3]
end Gen
namespace Gen
/-- order="F" reshape (8,2,12): flat index = sdigit + 8*k + 16*cstate -/
def next (s d : Nat) : Nat := stateDiagram[d + 8*0 + 16*s]!
def digit (s d : Nat) : Nat := stateDiagram[d + 8*1 + 16*s]!
theorem size_ok : stateDiagram.size = 192 := by decide +kernel
theorem table_ok : ∀ s : Fin 12, ∀ d : Fin 8, digit s d < 8 ∧ next s d < 12 := by decide +kernel
/-- each state's digit row is injective, hence a permutation of 0..7 -/
theorem digit_inj : ∀ s : Fin 12, ∀ d d' : Fin 8, digit s d = digit s d' → d = d' := by decide +kernel
#print axioms table_ok
#print axioms digit_inj
-- executable key
def keyAux : Nat → Nat → Nat → Nat → Nat → Nat → Nat
  | 0, _, _, _, _, acc => acc
  | (i+1), x, y, z, s, acc =>
    let b2 := (x >>> i) % 2; let b1 := (y >>> i) % 2; let b0 := (z >>> i) % 2
    let sd := b2*4 + b1*2 + b0
    keyAux i x y z (next s sd) (acc*8 + digit s sd)
def key (x y z b : Nat) : Nat := keyAux b x y z 0 0
#eval (List.range 8).map (fun n => key (n/4) ((n/2)%2) (n%2) 1)
#eval key 5 3 6 3
end Gen
