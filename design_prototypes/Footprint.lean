import Mathlib.Algebra.Order.Floor.Ring
import Mathlib.Data.Rat.Floor
import Mathlib.Tactic.Linarith
import Mathlib.Tactic.Positivity

/-- numba `int()`: round toward zero, defined with core `Rat.floor` only (model side). -/
def truncQ (q : Rat) : Int := if 0 ≤ q then q.floor else -((-q).floor)

theorem floor_core_eq (q : ℚ) : q.floor = ⌊q⌋ := rfl

theorem truncQ_le_of_nonneg (q : ℚ) (h : 0 ≤ q) : (truncQ q : ℚ) ≤ q := by
  unfold truncQ; simp only [h, if_true]
  rw [show q.floor = ⌊q⌋ from rfl]
  exact Int.floor_le q

theorem truncQ_nonpos_of_neg (q : ℚ) (h : q < 0) : truncQ q ≤ 0 := by
  unfold truncQ; simp only [not_le.mpr h, if_false]
  have : (0:ℤ) ≤ ⌊-q⌋ := Int.floor_nonneg.mpr (by linarith)
  change -(⌊-q⌋) ≤ 0
  omega

/-- lower footprint bound: pixel index i (centre at xlo+(i+1/2)Δ) with A ≤ i+1/2 has max (trunc A) 0 ≤ i -/
theorem footprint_lo (A : ℚ) (i : ℕ) (h : A ≤ (i : ℚ) + 1/2) : max (truncQ A) 0 ≤ (i : ℤ) := by
  rcases le_or_gt 0 A with hA | hA
  · have h1 := truncQ_le_of_nonneg A hA
    have : (truncQ A : ℚ) < (i : ℚ) + 1 := by linarith
    have : truncQ A < (i : ℤ) + 1 := by exact_mod_cast this
    omega
  · have := truncQ_nonpos_of_neg A hA
    omega

/-- upper footprint bound -/
theorem footprint_hi (B : ℚ) (i nx : ℕ) (hi : i < nx) (h : (i : ℚ) + 1/2 ≤ B) :
    (i : ℤ) < min (truncQ B + 1) nx := by
  have hi0 : (0:ℚ) ≤ i := by positivity
  have hB : 0 ≤ B := by linarith
  have : (i : ℤ) ≤ truncQ B := by
    unfold truncQ; simp only [hB, if_true]
    change (i : ℤ) ≤ ⌊B⌋
    rw [Int.le_floor]; push_cast; linarith
  have : (i : ℤ) < nx := by exact_mod_cast hi
  omega
#print axioms footprint_lo
#print axioms footprint_hi
