import Mathlib.Data.List.Perm.Basic
def paint {C V : Type} (hit : C → Bool) (val : C → V) (acc : Option V) (c : C) : Option V :=
  if hit c then some (val c) else acc

theorem paint_none {C V : Type} (hit : C → Bool) (val : C → V) (cs : List C) (v0 : Option V)
    (h : ∀ c ∈ cs, hit c = false) : cs.foldl (paint hit val) v0 = v0 := by
  induction cs generalizing v0 with
  | nil => rfl
  | cons c cs ih =>
    have hc := h c (by simp)
    simp only [List.foldl_cons, paint, hc]
    exact ih _ (fun x hx => h x (by simp [hx]))

theorem paint_some {C V : Type} (hit : C → Bool) (val : C → V) (cs : List C) (v0 : Option V)
    (h : ∃ c ∈ cs, hit c = true) : ∃ c ∈ cs, hit c = true ∧ cs.foldl (paint hit val) v0 = some (val c) := by
  induction cs generalizing v0 with
  | nil => simp at h
  | cons c cs ih =>
    simp only [List.foldl_cons]
    by_cases hrest : ∃ d ∈ cs, hit d = true
    · obtain ⟨d, hd, hh, hv⟩ := ih (paint hit val v0 c) hrest
      exact ⟨d, by simp [hd], hh, hv⟩
    · have hnone : ∀ d ∈ cs, hit d = false := by
        intro d hd
        by_contra hne
        exact hrest ⟨d, hd, by simpa using hne⟩
      obtain ⟨e, he, hhe⟩ := h
      have hec : e = c := by
        rcases List.mem_cons.mp he with h1 | h1
        · exact h1
        · have := hnone e h1; simp [hhe] at this
      subst hec
      refine ⟨e, by simp, hhe, ?_⟩
      rw [paint_none hit val cs _ hnone]
      simp [paint, hhe]

theorem paint_perm {C V : Type} (hit : C → Bool) (val : C → V) (cs cs' : List C) (hp : cs.Perm cs')
    (hagree : ∀ c ∈ cs, ∀ c' ∈ cs, hit c = true → hit c' = true → val c = val c') :
    cs.foldl (paint hit val) none = cs'.foldl (paint hit val) none := by
  by_cases h : ∃ c ∈ cs, hit c = true
  · have h' : ∃ c ∈ cs', hit c = true := by
      obtain ⟨c, hc, hh⟩ := h; exact ⟨c, hp.mem_iff.mp hc, hh⟩
    obtain ⟨c, hc, hh, hv⟩ := paint_some hit val cs none h
    obtain ⟨c', hc', hh', hv'⟩ := paint_some hit val cs' none h'
    rw [hv, hv', hagree c hc c' (hp.mem_iff.mpr hc') hh hh']
  · have hn : ∀ c ∈ cs, hit c = false := by
      intro c hc; by_contra hne; exact h ⟨c, hc, by simpa using hne⟩
    have hn' : ∀ c ∈ cs', hit c = false := fun c hc => hn c (hp.mem_iff.mpr hc)
    rw [paint_none hit val cs none hn, paint_none hit val cs' none hn']
#print axioms paint_perm
