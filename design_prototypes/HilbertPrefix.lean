namespace Proto
structure Table where
  next : Nat → Nat → Nat
  digit : Nat → Nat → Nat

def run (t : Table) : Nat → List Nat → List Nat
  | _, [] => []
  | s, d :: ds => t.digit s d :: run t (t.next s d) ds

def finalState (t : Table) : Nat → List Nat → Nat
  | s, [] => s
  | s, d :: ds => finalState t (t.next s d) ds

def ofDigitsAux (acc : Nat) (ds : List Nat) : Nat := ds.foldl (fun acc d => acc * 8 + d) acc
def ofDigits (ds : List Nat) : Nat := ofDigitsAux 0 ds

theorem run_append (t : Table) (s : Nat) (xs ys : List Nat) :
    run t s (xs ++ ys) = run t s xs ++ run t (finalState t s xs) ys := by
  induction xs generalizing s with
  | nil => simp [run, finalState]
  | cons x xs ih => simp [run, finalState, ih]

theorem run_length (t : Table) (s : Nat) (xs : List Nat) : (run t s xs).length = xs.length := by
  induction xs generalizing s with
  | nil => simp [run]
  | cons x xs ih => simp [run, ih]

theorem run_lt (t : Table) (hd : ∀ s d, t.digit s d < 8) (s : Nat) (xs : List Nat) :
    ∀ d ∈ run t s xs, d < 8 := by
  induction xs generalizing s with
  | nil => simp [run]
  | cons x xs ih =>
    intro d hmem
    simp only [run, List.mem_cons] at hmem
    rcases hmem with h | h
    · subst h; exact hd _ _
    · exact ih _ d h

theorem aux_split (acc : Nat) (ds : List Nat) :
    ofDigitsAux acc ds = acc * 8 ^ ds.length + ofDigitsAux 0 ds := by
  induction ds generalizing acc with
  | nil => simp [ofDigitsAux]
  | cons d ds ih =>
    simp only [ofDigitsAux, List.foldl_cons, List.length_cons] at *
    rw [ih (acc * 8 + d), ih (0 * 8 + d)]
    simp [Nat.pow_succ, Nat.add_mul, Nat.mul_assoc, Nat.add_assoc, Nat.mul_comm 8]

theorem ofDigits_append (xs ys : List Nat) :
    ofDigits (xs ++ ys) = ofDigits xs * 8 ^ ys.length + ofDigits ys := by
  unfold ofDigits ofDigitsAux
  rw [List.foldl_append]
  exact aux_split _ ys

theorem ofDigits_lt (ds : List Nat) (h : ∀ d ∈ ds, d < 8) : ofDigits ds < 8 ^ ds.length := by
  induction ds with
  | nil => simp [ofDigits, ofDigitsAux]
  | cons d ds ih =>
    have hd : d < 8 := h d (by simp)
    have hds := ih (fun x hx => h x (by simp [hx]))
    have : ofDigits (d :: ds) = d * 8 ^ ds.length + ofDigits ds := by
      have := aux_split (0 * 8 + d) ds
      simpa [ofDigits, ofDigitsAux] using this
    rw [this, List.length_cons, Nat.pow_succ]
    have hpos : 0 < 8 ^ ds.length := Nat.pow_pos (by decide)
    calc d * 8 ^ ds.length + ofDigits ds < d * 8 ^ ds.length + 8 ^ ds.length := by omega
      _ = (d + 1) * 8 ^ ds.length := by rw [Nat.add_mul]; simp
      _ ≤ 8 * 8 ^ ds.length := Nat.mul_le_mul_right _ (by omega)
      _ = 8 ^ ds.length * 8 := Nat.mul_comm _ _

theorem key_prefix (t : Table) (hi lo : List Nat) (hd : ∀ s d, t.digit s d < 8) :
    ofDigits (run t 0 (hi ++ lo)) / 8 ^ lo.length = ofDigits (run t 0 hi) := by
  rw [run_append, ofDigits_append, run_length]
  have hlt : ofDigits (run t (finalState t 0 hi) lo) < 8 ^ lo.length := by
    have := ofDigits_lt _ (run_lt t hd (finalState t 0 hi) lo)
    simpa [run_length] using this
  have hpos : 0 < 8 ^ lo.length := Nat.pow_pos (by decide)
  rw [Nat.add_comm, Nat.add_mul_div_right _ _ hpos, Nat.div_eq_of_lt hlt]
  simp
#print axioms key_prefix
end Proto
