"""Throwaway probe: write a tiny synthetic RAMSES output and load it with osyris."""
import os, struct, itertools, sys
import numpy as np

def rec(fmt, *vals):
    payload = struct.pack("=" + fmt, *vals)
    return struct.pack("=i", len(payload)) + payload + struct.pack("=i", len(payload))

def recs(fmt_char, arr):
    arr = list(arr)
    return rec(f"{len(arr)}{fmt_char}", *arr)

class Oct:
    def __init__(self, level, centre, owner):
        self.level, self.centre, self.owner = level, centre, owner
        self.sons = None  # list of Oct or None per child
        self.vals = None

def build(ndim, levelmax, refine, owner_of, level=1, centre=None, octs=None):
    if centre is None: centre = tuple([0.5]*ndim)
    if octs is None: octs = {}
    o = Oct(level, centre, owner_of(level, centre))
    octs.setdefault(level, []).append(o)
    o.sons = []
    h = 0.5**level
    for ind in range(2**ndim):
        bits = [(ind >> k) & 1 for k in range(ndim)]
        c = tuple(centre[k] + (bits[k]-0.5)*h for k in range(ndim))
        if level < levelmax and refine(level, c):
            o.sons.append(build(ndim, levelmax, refine, owner_of, level+1, c, octs)[0])
        else:
            o.sons.append(None)
    return o, octs

def write(path, nout, ndim, ncpu, levelmax, octs, hydro_vars, nboundary=0, noutput=3, ghosts=True):
    d = os.path.join(path, f"output_{nout:05d}"); os.makedirs(d, exist_ok=True)
    tag = f"{nout:05d}"
    twotondim = 2**ndim
    with open(os.path.join(d, f"info_{tag}.txt"), "w") as f:
        f.write(f"ncpu        = {ncpu:10d}\nndim        = {ndim:10d}\nlevelmin    = {1:10d}\nlevelmax    = {levelmax:10d}\nngridmax    = {1000:10d}\nnstep_coarse= {0:10d}\n\n")
        f.write("boxlen      =  0.200000000000000E+01\ntime        =  0.500000000000000E+00\naexp        =  0.100000000000000E+01\nH0          =  0.100000000000000E+01\n")
        f.write("unit_l      =  0.400000000000000E+01\nunit_d      =  0.800000000000000E+01\nunit_t      =  0.200000000000000E+01\n\n")
        f.write("ordering type=hilbert\n   DOMAIN   ind_min                 ind_max\n")
        tot = 2**(3*(levelmax+1))
        for c in range(ncpu):
            f.write(f"{c+1:8d} {float(tot*c//ncpu):23.15E} {float(tot*(c+1)//ncpu):23.15E}\n")
    with open(os.path.join(d, "hydro_file_descriptor.txt"), "w") as f:
        f.write("# version:  1\n# ivar, variable_name, variable_type\n")
        for i, v in enumerate(hydro_vars): f.write(f"  {i+1}, {v}, d\n")
    # assign global ids and values
    allocts = [o for l in sorted(octs) for o in octs[l]]
    for i, o in enumerate(allocts):
        o.gid = i+1
        o.vals = [[1000*o.gid + 10*ind + iv for iv in range(len(hydro_vars))] for ind in range(twotondim)]
    for cpu in range(1, ncpu+1):
        # which octs does this file hold: own + ghosts (all others, with poisoned values)
        amr = bytearray(); hyd = bytearray()
        held = {}
        for l in range(1, levelmax+1):
            for dom in range(ncpu+nboundary):
                lst = [o for o in octs.get(l, []) if o.owner == dom+1 and (dom+1 == cpu or ghosts)]
                held[(l, dom)] = lst
        amr += rec("i", ncpu) + rec("i", ndim) + rec("3i", 1, 1, 1) + rec("i", levelmax) + rec("i", 1000) + rec("i", nboundary)
        amr += rec("i", len(allocts)) + rec("d", 2.0)
        amr += rec("3i", noutput, 1, 1) + recs("d", [0.0]*noutput) + recs("d", [0.0]*noutput) + rec("d", 0.5)
        amr += recs("d", [0.1]*levelmax) + recs("d", [0.2]*levelmax)
        amr += rec("2i", 0, 0) + rec("3d", 0, 0, 0) + rec("7d", *[0]*7) + rec("5d", *[0]*5) + rec("d", 0.0)
        numbl = [len(held[(l, dom)]) for l in range(1, levelmax+1) for dom in range(ncpu)]
        amr += recs("i", [0]*(ncpu*levelmax)) + recs("i", [0]*(ncpu*levelmax)) + recs("i", numbl)
        amr += recs("i", [0]*(10*levelmax))
        if nboundary > 0:
            numbb = [len(held[(l, ncpu+b)]) for l in range(1, levelmax+1) for b in range(nboundary)]
            amr += recs("i", [0]*(nboundary*levelmax)) + recs("i", [0]*(nboundary*levelmax)) + recs("i", numbb)
        amr += rec("5i", 0, 0, 0, 0, 0)
        amr += rec("128s", b"hilbert".ljust(128))
        amr += recs("d", [0.0]*(ncpu+1))   # bound_key as doubles
        amr += recs("i", [1]) + recs("i", [0]) + recs("i", [1])  # coarse son, flag1, cpu_map (ncoarse=1)
        hyd += rec("i", ncpu) + rec("i", len(hydro_vars)) + rec("i", ndim) + rec("i", levelmax) + rec("i", nboundary) + rec("d", 1.4)
        for l in range(1, levelmax+1):
            for dom in range(ncpu+nboundary):
                lst = held[(l, dom)]; nc = len(lst)
                hyd += rec("i", l) + rec("i", nc)
                if nc == 0: continue
                amr += recs("i", [o.gid for o in lst]) + recs("i", [0]*nc) + recs("i", [0]*nc)
                for k in range(ndim): amr += recs("d", [o.centre[k] for o in lst])
                amr += recs("i", [0]*nc)
                for _ in range(2*ndim): amr += recs("i", [0]*nc)
                for ind in range(twotondim): amr += recs("i", [(o.sons[ind].gid if o.sons[ind] else 0) for o in lst])
                for ind in range(twotondim): amr += recs("i", [o.owner]*nc)
                for ind in range(twotondim): amr += recs("i", [0]*nc)
                poison = 0.0 if dom+1 == cpu else 7e5
                for ind in range(twotondim):
                    for iv in range(len(hydro_vars)):
                        hyd += recs("d", [o.vals[ind][iv] + poison for o in lst])
        open(os.path.join(d, f"amr_{tag}.out{cpu:05d}"), "wb").write(bytes(amr))
        open(os.path.join(d, f"hydro_{tag}.out{cpu:05d}"), "wb").write(bytes(hyd))
    return allocts

if __name__ == "__main__":
    ndim = int(sys.argv[1]); ncpu = int(sys.argv[2]); nb = int(sys.argv[3])
    levelmax = 3
    rng = np.random.default_rng(1)
    refine = lambda l, c: rng.random() < 0.6
    owner = lambda l, c: int(rng.integers(1, ncpu+1))
    root, octs = build(ndim, levelmax, refine, owner)
    hv = ["density", "velocity_x", "velocity_y", "velocity_z", "pressure"][: 2+ndim]
    allocts = write("/tmp/probe/ramses/data", 1, ndim, ncpu, levelmax, octs, hv, nboundary=nb)
    nleaf = sum(1 for o in allocts for s in o.sons if s is None)
    print("octs", len(allocts), "leaves expected", nleaf)
    import osyris
    ds = osyris.RamsesDataset(1, path="/tmp/probe/ramses/data").load()
    m = ds["mesh"]
    print(m)
    print("ncells", ds.meta["ncells"], "vol", float(np.sum(m["dx"].values**ndim)))
    print(sorted(m["density"].values)[:5])
