"""Throwaway prototype of translator T2: reader method body -> list of symbolic counter ops."""
import ast, sys, textwrap
SRC = {"amr": "/repo/src/osyris/io/amr.py", "reader": "/repo/src/osyris/io/reader.py", "hydro": "/repo/src/osyris/io/hydro.py", "part": "/repo/src/osyris/io/part.py"}

class GiveUp(Exception): pass

def expr(e):
    """arithmetic expression -> Lean-ish string over named parameters"""
    if isinstance(e, ast.Constant) and isinstance(e.value, int): return str(e.value)
    if isinstance(e, ast.Name): return e.id
    if isinstance(e, ast.Subscript) and isinstance(e.slice, ast.Constant):
        base = ast.unparse(e.value)
        if base in ("info", "self.meta", "meta", "item"): return e.slice.value.replace(" ", "_")
    if isinstance(e, ast.BinOp):
        op = {ast.Add: "+", ast.Mult: "*", ast.Pow: "^", ast.Sub: "-"}.get(type(e.op))
        if op: return f"({expr(e.left)} {op} {expr(e.right)})"
    if isinstance(e, ast.Call) and ast.unparse(e.func) == "len" and ast.unparse(e.args[0]) == "self.variables": return "nvar"
    raise GiveUp(ast.unparse(e))

def fmt_of(call):
    kw = {k.arg: k.value for k in call.keywords}
    f = kw["fmt"]
    skip = not (isinstance(kw.get("skip_head"), ast.Constant) and kw["skip_head"].value is False)
    inc = not (isinstance(kw.get("increment"), ast.Constant) and kw["increment"].value is False)
    if isinstance(f, ast.Constant):
        s = f.value; mult = s[:-1] or "1"; ty = s[-1]
    elif isinstance(f, ast.Call) and isinstance(f.func, ast.Attribute) and f.func.attr == "format":
        tmpl = f.func.value.value
        if tmpl == "{}{}": mult, ty = expr(f.args[0]), expr(f.args[1])
        else: mult, ty = expr(f.args[0]), tmpl[-1]
    else: raise GiveUp(ast.unparse(f))
    return ty, mult, skip, inc

def find_reads(node):
    return [n for n in ast.walk(node) if isinstance(n, ast.Call) and ast.unparse(n.func).endswith("read_binary_data")]

def touches(node):
    src = ast.unparse(node)
    return "offsets" in src or "read_binary_data" in src or "skip_binary_line" in src

def stmts(body):
    out = []
    for st in body:
        if not touches(st): continue
        if isinstance(st, ast.AugAssign) and isinstance(st.op, ast.Add) and ast.unparse(st.target).startswith("self.offsets["):
            key = st.target.slice
            key = key.value if isinstance(key, ast.Constant) else expr(key)
            if isinstance(st.value, ast.Call) and ast.unparse(st.value.func).endswith("skip_binary_line"):
                out.append(("peekBump", key))
            else:
                out.append(("bump", key, expr(st.value)))
        elif isinstance(st, (ast.Assign, ast.Expr)):
            rs = find_reads(st)
            if len(rs) != 1: raise GiveUp(ast.unparse(st))
            out.append(("read",) + fmt_of(rs[0]))
        elif isinstance(st, ast.If):
            out.append(("if", ast.unparse(st.test), stmts(st.body), stmts(st.orelse)))
        elif isinstance(st, ast.For):
            out.append(("for", ast.unparse(st.iter), stmts(st.body)))
        else: raise GiveUp(ast.unparse(st))
    return out

def method(mod, cls, name):
    tree = ast.parse(open(SRC[mod]).read())
    for c in tree.body:
        if isinstance(c, ast.ClassDef) and c.name == cls:
            for f in c.body:
                if isinstance(f, ast.FunctionDef) and f.name == name: return stmts(f.body)
    raise GiveUp("not found")

if __name__ == "__main__":
    import pprint
    for m in [("amr","AmrReader","read_header"),("amr","AmrReader","read_cacheline_header"),("amr","AmrReader","read_variables"),("amr","AmrReader","read_footer"),("amr","AmrReader","step_over"),("reader","Reader","read_variables"),("reader","Reader","step_over"),("hydro","HydroReader","read_header"),("hydro","HydroReader","read_domain_header"),("part","PartReader","read_header")]:
        print("==", m); pprint.pprint(method(*m), width=140)
