import Mathlib.Tactic.Linarith
import Mathlib.Data.List.Perm.Basic
import Mathlib.Order.Monotone.Basic

/-! Prototype: the Python loops `for impi in range(ncpu): if bk[impi] <= b < bk[impi+1]: cpu_min = impi` -/
def cpuMin (bk : Nat → Nat) (ncpu b : Nat) : Nat :=
  (List.range ncpu).foldl (fun acc i => if bk i ≤ b ∧ b < bk (i+1) then i else acc) 0
def cpuMax (bk : Nat → Nat) (ncpu b : Nat) : Nat :=
  (List.range ncpu).foldl (fun acc i => if bk i < b ∧ b ≤ bk (i+1) then i else acc) 0

/-- result of a "last match wins, default d" fold is either d or a matching index below n -/
theorem lastMatch_spec (p : Nat → Prop) [DecidablePred p] (n d : Nat) :
    let r := (List.range n).foldl (fun acc i => if p i then i else acc) d
    (r = d ∧ ∀ i < n, ¬ p i) ∨ (r < n ∧ p r ∧ ∀ i < n, r < i → ¬ p i) := by
  induction n with
  | zero => simp
  | succ n ih =>
    simp only [List.range_succ, List.foldl_append, List.foldl_cons, List.foldl_nil]
    by_cases hp : p n
    · right; rw [if_pos hp]
      exact ⟨Nat.lt_succ_self n, hp, fun i hi hlt => absurd hlt (by omega)⟩
    · rw [if_neg hp]
      rcases ih with ⟨hr, hall⟩ | ⟨hr, hpr, hall⟩
      · left; refine ⟨hr, fun i hi => ?_⟩
        rcases Nat.lt_succ_iff_lt_or_eq.mp hi with h | h
        · exact hall i h
        · subst h; exact hp
      · right; refine ⟨by omega, hpr, fun i hi hlt => ?_⟩
        rcases Nat.lt_succ_iff_lt_or_eq.mp hi with h | h
        · exact hall i h hlt
        · subst h; exact hp

theorem cpuMin_le_owner (bk : Nat → Nat) (hm : Monotone bk) (ncpu o κ bmin : Nat)
    (hlo : bk o ≤ κ) (hhi : κ < bk (o+1)) (hb : bmin ≤ κ) : cpuMin bk ncpu bmin ≤ o := by
  have := lastMatch_spec (fun i => bk i ≤ bmin ∧ bmin < bk (i+1)) ncpu 0
  simp only at this
  unfold cpuMin
  rcases this with ⟨hr, _⟩ | ⟨_, ⟨h1, _⟩, _⟩
  · rw [hr]; exact Nat.zero_le _
  · by_contra hcon
    push Not at hcon
    have : bk (o+1) ≤ bk _ := hm (Nat.succ_le_of_lt hcon)
    omega

theorem owner_le_cpuMax (bk : Nat → Nat) (hm : Monotone bk) (ncpu o κ bmax : Nat)
    (ho : o < ncpu) (h0 : bk 0 = 0) (htop : bmax ≤ bk ncpu) (hpos : 0 < bmax)
    (hlo : bk o ≤ κ) (hb : κ < bmax) : o ≤ cpuMax bk ncpu bmax := by
  have := lastMatch_spec (fun i => bk i < bmax ∧ bmax ≤ bk (i+1)) ncpu 0
  simp only at this
  unfold cpuMax
  rcases this with ⟨_, hall⟩ | ⟨_, ⟨_, h2⟩, _⟩
  · -- no match is impossible: discrete intermediate value
    exfalso
    have key : ∀ n, n ≤ ncpu → bk n < bmax := by
      intro n
      induction n with
      | zero => intro _; omega
      | succ n ih =>
        intro hn
        have hlt := ih (by omega)
        by_contra hge
        push Not at hge
        exact hall n (by omega) ⟨hlt, hge⟩
    have := key ncpu (le_refl _)
    omega
  · by_contra hcon
    push Not at hcon
    have : bk (_ + 1) ≤ bk o := hm (Nat.succ_le_of_lt hcon)
    omega
#print axioms cpuMin_le_owner
#print axioms owner_le_cpuMax

