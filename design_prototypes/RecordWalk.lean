import Mathlib.Tactic.Ring
/-! Prototype: counter walk vs record list; AMR (level,domain) block, own path vs step_over. -/
inductive Ty | b | i | d | s deriving DecidableEq, Repr
def Ty.size : Ty → Nat | .b => 1 | .i => 4 | .d => 8 | .s => 1
structure Rec where (ty : Ty) (count : Nat)
def Rec.bytes (r : Rec) : Nat := 8 + r.ty.size * r.count
def payloadStart : List Rec → Nat → Nat
  | _, 0 => 4
  | [], _ => 4
  | r :: rs, (k+1) => r.bytes + payloadStart rs k

structure Cnt where (b i d s n : Nat)
def Cnt.off (c : Cnt) : Nat := c.b + 4*c.i + 8*c.d + c.s + 8*c.n + 4
inductive Op | bump (t : Ty) (k : Nat) | bumpN (k : Nat) | read (t : Ty) (m : Nat) (tag : Nat)
def Cnt.bump (c : Cnt) : Ty → Nat → Cnt
  | .b, k => {c with b := c.b + k} | .i, k => {c with i := c.i + k}
  | .d, k => {c with d := c.d + k} | .s, k => {c with s := c.s + k}
/-- run: returns trace of (tag, offset) and the final counters -/
def run : List Op → Cnt → List (Nat × Nat) × Cnt
  | [], c => ([], c)
  | .bump t k :: ops, c => run ops (c.bump t k)
  | .bumpN k :: ops, c => run ops {c with n := c.n + k}
  | .read t m tag :: ops, c =>
      let (tr, c') := run ops ({(c.bump t m) with n := c.n + 1})
      ((tag, c.off) :: tr, c')

/-- hydro: own-domain path for one (ind) sweep over nvar variables, each a record of ncache doubles -/
def hydroVarOps (ncache : Nat) : Nat → List Op
  | 0 => []
  | (v+1) => .read .d ncache v :: hydroVarOps ncache v
def hydroStepOver (ncache nvar : Nat) : List Op := [.bump .d (ncache * nvar), .bumpN nvar]

theorem run_off_hydroVar (ncache nvar : Nat) (c : Cnt) :
    (run (hydroVarOps ncache nvar) c).2.off = c.off + nvar * (8 + 8 * ncache) := by
  induction nvar generalizing c with
  | zero => simp [hydroVarOps, run]
  | succ v ih =>
    simp only [hydroVarOps, run]
    rw [ih]
    simp [Cnt.off, Cnt.bump]
    ring
theorem stepOver_same_advance (ncache nvar : Nat) (c : Cnt) :
    (run (hydroStepOver ncache nvar) c).2.off = (run (hydroVarOps ncache nvar) c).2.off := by
  rw [run_off_hydroVar]
  simp [hydroStepOver, run, Cnt.off, Cnt.bump]
  ring
#print axioms stepOver_same_advance
