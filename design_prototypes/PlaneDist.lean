import Mathlib.Tactic.Ring
import Mathlib.Tactic.Linarith
import Mathlib.Tactic.Positivity
import Mathlib.Algebra.Order.Field.Basic
import Mathlib.Algebra.Order.AbsoluteValue.Basic

variable {K : Type} [Field K] [LinearOrder K] [IsStrictOrderedRing K]

/-- |a·n| ≤ (s/2)·diag when |a_i| ≤ s/2, |n|=1, diag² ≥ 3, diag ≥ 0 -/
theorem plane_dist (ax ay az nx ny nz s diag : K)
    (hx : |ax| ≤ s / 2) (hy : |ay| ≤ s / 2) (hz : |az| ≤ s / 2)
    (hn : nx * nx + ny * ny + nz * nz = 1) (hd : 3 ≤ diag * diag) (hd0 : 0 ≤ diag) (hs : 0 ≤ s) :
    |ax * nx + ay * ny + az * nz| ≤ s / 2 * diag := by
  -- Cauchy-Schwarz: (a·n)² ≤ |a|²|n|² ≤ 3 (s/2)² ≤ (s/2 diag)²
  have hax : ax * ax ≤ (s/2) * (s/2) := by
    have := abs_le.mp hx; nlinarith [this.1, this.2]
  have hay : ay * ay ≤ (s/2) * (s/2) := by
    have := abs_le.mp hy; nlinarith [this.1, this.2]
  have haz : az * az ≤ (s/2) * (s/2) := by
    have := abs_le.mp hz; nlinarith [this.1, this.2]
  have cs : (ax * nx + ay * ny + az * nz) ^ 2 ≤ (ax*ax + ay*ay + az*az) * (nx*nx + ny*ny + nz*nz) := by
    nlinarith [sq_nonneg (ax*ny - ay*nx), sq_nonneg (ax*nz - az*nx), sq_nonneg (ay*nz - az*ny)]
  have hb : (ax * nx + ay * ny + az * nz) ^ 2 ≤ (s / 2 * diag) ^ 2 := by
    rw [hn] at cs
    have h3 : (ax*ax + ay*ay + az*az) ≤ 3 * ((s/2)*(s/2)) := by linarith
    have : 3 * ((s/2)*(s/2)) ≤ (s / 2 * diag) ^ 2 := by
      have hs2 : 0 ≤ (s/2)*(s/2) := mul_self_nonneg _
      nlinarith [mul_le_mul_of_nonneg_left hd hs2]
    linarith
  have hnn : 0 ≤ s / 2 * diag := by positivity
  exact abs_le_of_sq_le_sq' hb hnn |> fun h => abs_le.mpr ⟨h.1, h.2⟩
#print axioms plane_dist
