/-! Prototype: octree as nested inductive over List, leaves, truncate, volume conservation (1-D first, generic arity). -/
inductive Tree where
  | leaf (v : Nat) : Tree
  | node (v : Nat) (kids : List Tree) : Tree

namespace Tree
/-- leaves with (level, value); `lvl` is the level of the cell represented by this tree node -/
def leaves : Nat → Tree → List (Nat × Nat)
  | l, .leaf v => [(l, v)]
  | l, .node _ ks => leavesList (l+1) ks
where leavesList : Nat → List Tree → List (Nat × Nat)
  | _, [] => []
  | l, k :: ks => leaves l k ++ leavesList l ks

def truncate : Nat → Nat → Tree → Tree      -- truncate L at current level l: cells of level L become leaves
  | _, _, .leaf v => .leaf v
  | L, l, .node v ks => if l ≥ L then .leaf v else .node v (truncList L (l+1) ks)
where truncList : Nat → Nat → List Tree → List Tree
  | _, _, [] => []
  | L, l, k :: ks => truncate L l k :: truncList L l ks

/-- well-formed: every node has exactly `a` kids -/
def WF (a : Nat) : Tree → Prop
  | .leaf _ => True
  | .node _ ks => ks.length = a ∧ WFList a ks
where WFList (a : Nat) : List Tree → Prop
  | [] => True
  | k :: ks => WF a k ∧ WFList a ks

/-- volume in units of a^-D: a cell at level l has volume a^(D-l) -/
def vol (a D : Nat) (ls : List (Nat × Nat)) : Nat := (ls.map (fun p => a ^ (D - p.1))).sum

def depth : Tree → Nat
  | .leaf _ => 0
  | .node _ ks => 1 + depthList ks
where depthList : List Tree → Nat
  | [] => 0
  | k :: ks => max (depth k) (depthList ks)
end Tree

open Tree in
theorem vol_list (a D l : Nat) :
    ∀ ks : List Tree, (∀ k, k ∈ ks → vol a D (leaves l k) = a ^ (D - l)) →
      vol a D (leaves.leavesList l ks) = ks.length * a ^ (D - l) := by
  intro ks
  induction ks with
  | nil => intro _; simp [leaves.leavesList, vol]
  | cons k ks ih =>
    intro h
    have hk := h k (by simp)
    have hks := ih (fun k' hk' => h k' (by simp [hk']))
    simp only [leaves.leavesList, vol, List.map_append, List.sum_append, List.length_cons] at *
    rw [hk, hks, Nat.add_mul, Nat.one_mul, Nat.add_comm]
#print axioms vol_list

namespace Tree
/-- every cell of the tree has level ≤ D, so `D - level` arithmetic is exact -/
def fits (D : Nat) : Nat → Tree → Prop
  | l, .leaf _ => l ≤ D
  | l, .node _ ks => l ≤ D ∧ fitsList D (l+1) ks
where fitsList (D : Nat) : Nat → List Tree → Prop
  | _, [] => True
  | l, k :: ks => fits D l k ∧ fitsList D l ks

theorem fits_le (D l : Nat) : ∀ t : Tree, fits D l t → l ≤ D
  | .leaf _, h => h
  | .node _ _, h => h.1

mutual
/-- Volume conservation: the leaves of a well-formed subtree rooted at a level-`l` cell have total
    volume a^(D-l) (in units of the finest cell), for every tree shape. -/
theorem vol_tree (a D : Nat) (ha : 0 < a) : ∀ (l : Nat) (t : Tree), WF a t → fits D l t →
    vol a D (leaves l t) = a ^ (D - l)
  | l, .leaf v, _, _ => by simp [leaves, vol]
  | l, .node v ks, hwf, hfit => by
    have hlen : ks.length = a := hwf.1
    have hkids := vol_kids a D ha (l+1) ks hwf.2 hfit.2
    simp only [leaves]
    rw [hkids, hlen]
    cases ks with
    | nil => simp at hlen; omega
    | cons k ks' =>
      have hk : l + 1 ≤ D := fits_le D (l+1) k hfit.2.1
      have : D - l = (D - (l+1)) + 1 := by omega
      rw [this, Nat.pow_succ, Nat.mul_comm]
theorem vol_kids (a D : Nat) (ha : 0 < a) : ∀ (l : Nat) (ks : List Tree), WF.WFList a ks → fits.fitsList D l ks →
    vol a D (leaves.leavesList l ks) = ks.length * a ^ (D - l)
  | l, [], _, _ => by simp [leaves.leavesList, vol]
  | l, k :: ks, hwf, hfit => by
    have hk := vol_tree a D ha l k hwf.1 hfit.1
    have hks := vol_kids a D ha l ks hwf.2 hfit.2
    simp only [leaves.leavesList, vol, List.map_append, List.sum_append, List.length_cons] at *
    rw [hk, hks, Nat.add_mul, Nat.one_mul, Nat.add_comm]
end
#print axioms vol_tree
end Tree
