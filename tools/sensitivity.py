#!/usr/bin/env python3
"""Re-run the seeded changes against the checks as they are now (a regression test of the checks themselves).

Nothing is patched in /repo: every change is applied to a scratch git worktree of /repo's HEAD and the check is pointed
at it with OSYRIS_REPO; the checks run from a scratch copy of /verif so that the regenerated Lean files of the working
copy are not touched. Result: tools/sensitivity_report.json + a table on stdout.

    python3 tools/sensitivity.py [ids ...]        # default: every seeded/<id> that names a property it breaks

A change that no longer applies to HEAD (the code it touched was repaired since) is reported as `stale`.
Changes marked harmless_* must stay silent on every property anchored in the files they touch.
"""
import json
import os
import re
import shutil
import subprocess
import sys
import tempfile

VERIF = os.path.dirname(os.path.dirname(os.path.abspath(__file__)))
REPO = os.environ.get("OSYRIS_REPO_BASE", "/repo")
PY = "/venv/bin/python"
HARMLESS_PROPS = {
    "harmless_core": ["C02", "C06", "C07", "C08", "C09", "C10", "C17", "C20"],
    "harmless_io": ["C01", "C04", "C12", "C13", "C14", "C15"],
    "harmless_plot": ["C03", "C05", "C11", "C16", "C18", "C19"],
    "harmless_plot2": ["C03", "C05", "C11", "C19"],
    "harmless_io_core2": ["C01", "C04", "C13", "C02", "C09", "C16"],
    "harmless_core3": ["C02", "C06", "C07", "C08", "C09", "C10", "C17", "C19", "C20"],
    "harmless_io3": ["C01", "C04", "C12", "C13", "C14", "C15"],
    "harmless_plot3": ["C03", "C05", "C11", "C16", "C18", "C19"],
}


def run(cmd, **kw):
    return subprocess.run(cmd, capture_output=True, text=True, **kw)


def main():
    ids = sys.argv[1:] or sorted(os.listdir(os.path.join(VERIF, "seeded")))
    scratch = tempfile.mkdtemp(prefix="osyris_sens_")
    work = os.path.join(scratch, "verif")
    shutil.copytree(VERIF, work, symlinks=True, ignore=shutil.ignore_patterns("evidence", ".git"))
    os.makedirs(os.path.join(work, "evidence"), exist_ok=True)
    shutil.copy(os.path.join(VERIF, "known_findings.json"), work)
    report = {}
    try:
        for sid in ids:
            d = os.path.join(VERIF, "seeded", sid)
            patch = os.path.join(d, "patch.diff")
            if not os.path.exists(patch):
                continue
            meta = json.load(open(os.path.join(d, "meta.json")))
            harmless = sid.startswith("harmless")
            if harmless:
                props = HARMLESS_PROPS.get(sid, [])
            else:
                cb = " ".join(meta.get("caught_by", []))
                props = re.findall(r"\bC\d\d\b", cb)[:1] or [meta.get("breaks_property") or meta.get("property")]
            wt = os.path.join(scratch, "wt_" + sid)
            run(["git", "-C", REPO, "worktree", "add", "--detach", wt, "HEAD"])
            entry = {"props": props, "runs": []}
            try:
                ap = run(["git", "-C", wt, "apply", patch])
                if ap.returncode != 0:
                    entry["status"] = "stale (does not apply to HEAD: " + ap.stderr.strip().splitlines()[-1][:120] + ")"
                    report[sid] = entry
                    print(f"{sid:18s} {entry['status']}", flush=True)
                    continue
                caught = False
                alarms = 0
                for p in props:
                    for seed in ((0,) if harmless else (0, 1)):
                        env = dict(os.environ, OSYRIS_REPO=wt, VERIF_SEED=str(seed))
                        r = run([PY, "check.py", p, "--tier", "quick"], cwd=work, env=env)
                        viol = [l for l in r.stdout.splitlines() if l.startswith("VIOLATION")]
                        entry["runs"].append({"prop": p, "seed": seed, "exit": r.returncode, "violations": len(viol),
                                              "no_failing_input": any("no-failing-input-found" in l for l in viol)})
                        if r.returncode == 1 and viol:
                            caught = True
                            alarms += 1
                        if r.returncode == 2:
                            entry.setdefault("infrastructure", []).append(r.stdout[-300:] + r.stderr[-300:])
                if harmless:
                    entry["status"] = "silent" if alarms == 0 else f"ALARM on a harmless change ({alarms} runs)"
                else:
                    both = all(x["exit"] == 1 for x in entry["runs"] if x["prop"] == props[0])
                    entry["status"] = ("caught (both seeds)" if both else "caught (one seed)") if caught else "MISSED"
                    if not caught and meta.get("status_on_current_head", "").startswith("neutralised"):
                        entry["status"] = "silent, as recorded: " + meta["status_on_current_head"][:90]
                report[sid] = entry
                print(f"{sid:18s} {','.join(props):12s} {entry['status']}", flush=True)
            finally:
                run(["git", "-C", REPO, "worktree", "remove", "--force", wt])
    finally:
        shutil.rmtree(scratch, ignore_errors=True)
        run(["git", "-C", REPO, "worktree", "prune"])
    path = os.path.join(VERIF, "tools", "sensitivity_report.json")
    if sys.argv[1:] and os.path.exists(path):      # a partial run updates the entries it re-ran
        old = json.load(open(path))
        old.update(report)
        report = old
    json.dump(report, open(path, "w"), indent=1, sort_keys=True)
    bad = [k for k, v in report.items() if v["status"].startswith(("MISSED", "ALARM"))]
    print("missed / false alarms:", bad or "none")
    return 1 if bad else 0


if __name__ == "__main__":
    sys.exit(main())
