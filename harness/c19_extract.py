"""Tie (a) for C19: the option-field tables of `Layer` / `parse_layer`, read from /repo's working tree.

`layer_fields()` returns the text of lean/OsyrisModel/Generated/LayerFields.lean (registered in
harness/extract.py's EXTRACTORS under the name "LayerFields"); it raises `ExtractMiss` when a
pattern is not found (harmless refactor -> committed snapshot, correspondence carries the tie).

`map_policies()` reads the two places of plot/map.py whose *shape* decides an aliasing question
(C05's `detect_source` pattern: detected, never an obligation):
  * resolution: does `map` store into the caller's resolution dict ("inplace") or into a copy ("copy")
  * operation : is the depth reduction taken from the call-level variable ("call") or per layer ("layer")
"""
import ast
import os

from .env import REPO
from .extract import ExtractMiss

REFERENCE_FIELDS = ["mode", "operation", "norm", "vmin", "vmax", "bins", "weights"]
ENTRY_FILES = {"map": "plot/map.py", "histogram2d": "plot/histogram2d.py", "histogram1d": "plot/histogram1d.py"}
# what the model assumes when plot/map.py cannot be read (the repaired behaviour)
POLICY_SNAPSHOT = {"resolution": "copy", "operation": "layer"}


def _src(rel):
    with open(os.path.join(REPO, "src", "osyris", rel)) as f:
        return f.read()


def _lean_str_list(xs):
    return "[" + ", ".join('"' + x.replace("\\", "\\\\").replace('"', '\\"') + '"' for x in xs) + "]"


def _lean_bool(b):
    return "true" if b else "false"


def _func(node, name):
    for sub in node.body:
        if isinstance(sub, (ast.FunctionDef, ast.AsyncFunctionDef)) and sub.name == name:
            return sub
    return None


def _is_attr(node, obj, attr=None):
    return (isinstance(node, ast.Attribute) and isinstance(node.value, ast.Name) and node.value.id == obj
            and (attr is None or node.attr == attr))


def _fill_chain(fn, obj):
    """the `if <obj>.F is None: <obj>.F = F` statements of a function body, in order; a statement that
    stores into an attribute of <obj> in any other shape makes the extractor give up"""
    fields = []
    for st in fn.body:
        hit = None
        if (isinstance(st, ast.If) and not st.orelse and len(st.body) == 1 and isinstance(st.test, ast.Compare)
                and len(st.test.ops) == 1 and isinstance(st.test.ops[0], ast.Is)
                and isinstance(st.test.comparators[0], ast.Constant) and st.test.comparators[0].value is None
                and _is_attr(st.test.left, obj)):
            a = st.body[0]
            f = st.test.left.attr
            if (isinstance(a, ast.Assign) and len(a.targets) == 1 and _is_attr(a.targets[0], obj, f)
                    and isinstance(a.value, ast.Name) and a.value.id == f):
                hit = f
        if hit is not None:
            fields.append(hit)
            continue
        for sub in ast.walk(st):
            if isinstance(sub, ast.Attribute) and isinstance(sub.ctx, ast.Store) and _is_attr(sub, obj):
                raise ExtractMiss(f"{fn.name}: store into {obj}.{sub.attr} outside the `if {obj}.F is None` pattern")
    if not fields:
        raise ExtractMiss(f"{fn.name}: no `if {obj}.F is None: {obj}.F = F` statement found")
    return fields


def _kwargs_merge(fn, obj):
    """`<obj>.kwargs.update({key: value for key, value in kwargs.items() if key not in <obj>.kwargs})`
    -> True (guarded: existing keys win); `<obj>.kwargs.update(kwargs)` -> False; anything else: miss"""
    for sub in ast.walk(fn):
        if (isinstance(sub, ast.Call) and isinstance(sub.func, ast.Attribute) and sub.func.attr == "update"
                and _is_attr(sub.func.value, obj, "kwargs")):
            if len(sub.args) != 1 or sub.keywords:
                raise ExtractMiss(f"{fn.name}: kwargs.update() with unexpected arguments")
            arg = sub.args[0]
            if isinstance(arg, ast.Name) and arg.id == "kwargs":
                return False
            if isinstance(arg, ast.DictComp) and len(arg.generators) == 1:
                gen = arg.generators[0]
                src_ok = ast.unparse(gen.iter) == "kwargs.items()"
                elt_ok = (isinstance(gen.target, ast.Tuple) and len(gen.target.elts) == 2
                          and ast.unparse(arg.key) == ast.unparse(gen.target.elts[0])
                          and ast.unparse(arg.value) == ast.unparse(gen.target.elts[1]))
                if src_ok and elt_ok:
                    if not gen.ifs:
                        return False
                    if len(gen.ifs) == 1:
                        t = gen.ifs[0]
                        if (isinstance(t, ast.Compare) and len(t.ops) == 1 and isinstance(t.ops[0], ast.NotIn)
                                and ast.unparse(t.left) == ast.unparse(gen.target.elts[0])
                                and _is_attr(t.comparators[0], obj, "kwargs")):
                            return True
            raise ExtractMiss(f"{fn.name}: kwargs merge in an unrecognised shape")
    raise ExtractMiss(f"{fn.name}: no {obj}.kwargs.update(...) found")


def _layer_class():
    tree = ast.parse(_src("core/layer.py"))
    for node in tree.body:
        if isinstance(node, ast.ClassDef) and node.name == "Layer":
            return node
    raise ExtractMiss("class Layer not found")


def _init_fields(cls):
    fn = _func(cls, "__init__")
    if fn is None:
        raise ExtractMiss("Layer.__init__ not found")
    params = [a.arg for a in fn.args.kwonlyargs] + [a.arg for a in fn.args.args[3:]]
    assigned = []
    kwargs_kept = False
    for st in fn.body:
        if isinstance(st, ast.Assign) and len(st.targets) == 1 and _is_attr(st.targets[0], "self"):
            name = st.targets[0].attr
            if isinstance(st.value, ast.Name) and st.value.id == name and name in params:
                assigned.append(name)
            if name == "kwargs" and isinstance(st.value, ast.Name) and fn.args.kwarg is not None \
                    and st.value.id == fn.args.kwarg.arg:
                kwargs_kept = True
    if not assigned:
        raise ExtractMiss("Layer.__init__: no option parameter stored on self")
    # declaration order of the parameters, restricted to those that are stored
    return [p for p in params if p in assigned], kwargs_kept


def _copy_fields(cls):
    fn = _func(cls, "copy")
    if fn is None:
        raise ExtractMiss("Layer.copy not found")
    call = None
    for st in fn.body:
        if isinstance(st, ast.Return) and isinstance(st.value, ast.Call):
            call = st.value
    if call is None:
        raise ExtractMiss("Layer.copy: no `return <constructor>(...)`")
    ctor = ast.unparse(call.func)
    if ctor not in ("self.__class__", "Layer", "type(self)"):
        raise ExtractMiss(f"Layer.copy: constructor {ctor} not recognised")
    fields, splat = [], None
    for kw in call.keywords:
        if kw.arg is None:
            if _is_attr(kw.value, "self", "kwargs"):
                splat = True
            else:
                raise ExtractMiss("Layer.copy: ** of something other than self.kwargs")
        elif kw.arg == "kwargs":
            raise ExtractMiss("Layer.copy: kwargs passed by keyword")
        elif _is_attr(kw.value, "self", kw.arg):
            fields.append(kw.arg)
    if splat is None:
        splat = False
    return fields, splat


def _entry_forwards():
    """keywords each entry point hands to parse_layer (`f=f`), and whether **kwargs goes along"""
    rows = []
    for entry, rel in ENTRY_FILES.items():
        try:
            tree = ast.parse(_src(rel))
        except OSError as e:
            raise ExtractMiss(f"{rel} not readable") from e
        fn = _func(tree, entry)
        if fn is None:
            raise ExtractMiss(f"def {entry} not found in {rel}")
        calls = [c for c in ast.walk(fn) if isinstance(c, ast.Call) and ast.unparse(c.func) == "parse_layer"]
        if len(calls) != 1:
            raise ExtractMiss(f"{entry}: {len(calls)} calls of parse_layer")
        fields, splat = [], False
        for kw in calls[0].keywords:
            if kw.arg is None:
                splat = splat or (isinstance(kw.value, ast.Name) and kw.value.id == "kwargs")
            elif isinstance(kw.value, ast.Name) and kw.value.id == kw.arg:
                fields.append(kw.arg)
            else:
                raise ExtractMiss(f"{entry}: parse_layer keyword {kw.arg}={ast.unparse(kw.value)}")
        rows.append((entry, fields, splat))
    return rows


def layer_fields():
    cls = _layer_class()
    init, init_kwargs = _init_fields(cls)
    copy, copy_splat = _copy_fields(cls)
    upd_fn = _func(cls, "update")
    if upd_fn is None:
        raise ExtractMiss("Layer.update not found")
    update = _fill_chain(upd_fn, "self")
    update_guard = _kwargs_merge(upd_fn, "self")

    ptree = ast.parse(_src("plot/parser.py"))
    pfn = _func(ptree, "parse_layer")
    if pfn is None:
        raise ExtractMiss("parse_layer not found")
    first = pfn.body[0] if pfn.body else None
    if isinstance(first, ast.Expr) and isinstance(first.value, ast.Constant):  # docstring
        first = pfn.body[1] if len(pfn.body) > 1 else None
    layer_arg = pfn.args.args[0].arg if pfn.args.args else None
    copies = (isinstance(first, ast.Assign) and len(first.targets) == 1 and isinstance(first.targets[0], ast.Name)
              and isinstance(first.value, ast.Call) and ast.unparse(first.value.func) == f"{layer_arg}.copy"
              and not first.value.args and not first.value.keywords)
    if copies:
        out_name = first.targets[0].id
    else:
        # no copy: the fill chain must then act on the argument itself
        out_name = layer_arg
        if any(isinstance(s, ast.Call) and ast.unparse(s.func).endswith(".copy") for s in ast.walk(pfn)):
            raise ExtractMiss("parse_layer: a copy is made, but not as the first statement `out = layer.copy()`")
    parse = _fill_chain(pfn, out_name)
    parse_guard = _kwargs_merge(pfn, out_name)
    ret = [s for s in pfn.body if isinstance(s, ast.Return)]
    if len(ret) != 1 or not (isinstance(ret[0].value, ast.Name) and ret[0].value.id == out_name):
        raise ExtractMiss("parse_layer: does not return the object it filled")
    fwd = _entry_forwards()
    fwd_rows = ",\n".join(f'  ("{e}", {_lean_str_list(fs)}, {_lean_bool(sp)})' for e, fs, sp in fwd)
    return f"""-- GENERATED by harness/c19_extract.py from /repo/src/osyris/core/layer.py, plot/parser.py, plot/map.py,
-- plot/histogram2d.py, plot/histogram1d.py — do not edit.
namespace Osyris.Generated

/-- keyword-only option parameters of `Layer.__init__` that are stored on `self` -/
def layerInitFields : List String := {_lean_str_list(init)}

/-- `Layer.__init__` keeps `**kwargs` as `self.kwargs` -/
def layerInitKeepsKwargs : Bool := {_lean_bool(init_kwargs)}

/-- option fields `Layer.copy` forwards to the constructor (`f=self.f`) -/
def layerCopyFields : List String := {_lean_str_list(copy)}

/-- `Layer.copy` forwards the extra options as `**self.kwargs` (the constructor then receives a new dict) -/
def layerCopyKwargsSplat : Bool := {_lean_bool(copy_splat)}

/-- fields of the `if self.f is None: self.f = f` chain of `Layer.update` -/
def layerUpdateFields : List String := {_lean_str_list(update)}

/-- `Layer.update` merges only keys that are not in `self.kwargs` yet -/
def layerUpdateKwargsGuarded : Bool := {_lean_bool(update_guard)}

/-- `parse_layer` starts with `out = layer.copy()` -/
def parseLayerCopies : Bool := {_lean_bool(bool(copies))}

/-- fields of the `if out.f is None: out.f = f` chain of `parse_layer` -/
def parseLayerFields : List String := {_lean_str_list(parse)}

/-- `parse_layer` merges only keys that are not in `out.kwargs` yet -/
def parseLayerKwargsGuarded : Bool := {_lean_bool(parse_guard)}

/-- per entry point: the call-level options handed to `parse_layer` by keyword, and whether `**kwargs` goes along -/
def entryForwards : List (String × List String × Bool) := [
{fwd_rows}
]

end Osyris.Generated
"""


# ------------------------------------------------------------------------------------------------
# shape of plot/map.py that decides the two aliasing questions (detected, passed to the model)
# ------------------------------------------------------------------------------------------------
def map_policies():
    info = {"file": os.path.join(REPO, "src", "osyris", "plot", "map.py")}
    try:
        tree = ast.parse(_src("plot/map.py"))
        fn = _func(tree, "map")
        if fn is None:
            raise ValueError("def map not found")
        if "resolution" not in [a.arg for a in fn.args.args + fn.args.kwonlyargs]:
            raise ValueError("map has no resolution parameter")
        info["resolution"] = _resolution_policy(fn)
        info["operation"] = _operation_policy(fn)
        info["source"] = "detected"
    except Exception as e:  # noqa: BLE001
        info.update(POLICY_SNAPSHOT, source="fallback", why=str(e))
    return info


_COPY_CALLS = ("dict", "copy.copy", "copy.deepcopy", "deepcopy")


def _is_copy_of(value, name):
    """`dict(name)`, `name.copy()`, `{**name}`, `copy.copy(name)`, `dict(name, ...)`, `{**name, ...}`"""
    if isinstance(value, ast.Call):
        f = ast.unparse(value.func)
        if f in _COPY_CALLS and value.args and isinstance(value.args[0], ast.Name) and value.args[0].id == name:
            return True
        if f == f"{name}.copy":
            return True
    return False


def _resolution_policy(fn):
    """walk the statements in order, tracking whether the name `resolution` may still be the caller's object"""
    state = {"alias": True, "inplace": False, "seen": False}

    def stores(st):
        for sub in ast.walk(st):
            if (isinstance(sub, ast.Subscript) and isinstance(sub.ctx, (ast.Store, ast.Del))
                    and isinstance(sub.value, ast.Name) and sub.value.id == "resolution"):
                return True
            if (isinstance(sub, ast.Call) and isinstance(sub.func, ast.Attribute)
                    and isinstance(sub.func.value, ast.Name) and sub.func.value.id == "resolution"
                    and sub.func.attr in ("update", "setdefault", "pop", "popitem", "clear", "__setitem__")):
                return True
        return False

    def block(stmts, alias):
        """returns alias-state after the block"""
        for st in stmts:
            if isinstance(st, ast.Assign) and any(isinstance(t, ast.Name) and t.id == "resolution" for t in st.targets):
                if isinstance(st.value, ast.Name) and st.value.id == "resolution":
                    pass
                elif (_is_copy_of(st.value, "resolution")
                      or isinstance(st.value, (ast.Dict, ast.List, ast.Tuple, ast.Set, ast.Constant, ast.DictComp,
                                               ast.ListComp, ast.SetComp, ast.JoinedStr))
                      or not any(isinstance(s, ast.Name) and s.id == "resolution" for s in ast.walk(st.value))):
                    alias = False          # rebound to a copy, a literal or an expression that does not mention it
                continue
            if isinstance(st, ast.If):
                a1 = block(st.body, alias)
                a2 = block(st.orelse, alias)
                alias = a1 or a2
                continue
            if isinstance(st, (ast.For, ast.While, ast.With, ast.Try)):
                inner = list(getattr(st, "body", [])) + list(getattr(st, "orelse", [])) + list(getattr(st, "finalbody", []))
                for h in getattr(st, "handlers", []):
                    inner += h.body
                alias = block(inner, alias)
                continue
            if stores(st):
                state["seen"] = True
                if alias:
                    state["inplace"] = True
        return alias

    block(fn.body, True)
    return "inplace" if state["inplace"] else "copy"


def _operation_policy(fn):
    """`getattr(np, operation)` on the call-level parameter -> "call"; a per-layer reduction -> "layer" """
    uses_call = False
    uses_layer = False
    for sub in ast.walk(fn):
        if isinstance(sub, ast.Call) and isinstance(sub.func, ast.Name) and sub.func.id == "getattr" and len(sub.args) >= 2:
            if ast.unparse(sub.args[0]) in ("np", "numpy"):
                a = sub.args[1]
                if isinstance(a, ast.Name) and a.id == "operation":
                    uses_call = True
                else:
                    uses_layer = True
    if uses_call and not uses_layer:
        return "call"
    if uses_layer and not uses_call:
        return "layer"
    if not uses_call and not uses_layer:
        raise ValueError("no getattr(np, ...) reduction found in map")
    raise ValueError("map reduces with both the call-level and another operation")
