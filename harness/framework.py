"""Verdict logic shared by every check (DESIGN 2.3): extract -> build -> audit ->
correspond -> (on a broken tie) failing-input search -> evidence -> exit code."""
import hashlib
import json
import os
import random
import sys
import time
import traceback

from . import env, lean

EVIDENCE_DIR = os.path.join(env.VERIF, "evidence")
REPLAY_DIR = os.path.join(EVIDENCE_DIR, "replays")
KNOWN = os.path.join(env.VERIF, "known_findings.json")

GLOBAL_TRUSTED = [
    "Lean 4.33.0 kernel; axioms of every property theorem as printed by #print axioms (allowed: propext, Classical.choice, Quot.sound; no native_decide, no bv_decide, no sorry)",
    "correspondence harness (/verif/harness): generators, canonicalisation, tolerance 1e-9 in the tolerant lane, extractor, the Lean compiler/runtime executing the driver",
    "modelled, not verified: numpy element-wise arithmetic / broadcasting / dtype promotion / indexing, pint's registry (unit factors and dimension vectors are read from pint at run time and passed to the model), struct.unpack, np.loadtxt, numba code generation and thread runtime, IEEE-754 rounding, matplotlib",
]


def load_known():
    try:
        with open(KNOWN) as f:
            return json.load(f)
    except FileNotFoundError:
        return {"findings": [], "fixed": []}


def case_hash(case):
    return hashlib.sha1(json.dumps(case, sort_keys=True).encode()).hexdigest()[:12]


def write_replay(prop, payload):
    os.makedirs(REPLAY_DIR, exist_ok=True)
    h = case_hash(payload)
    path = os.path.join(REPLAY_DIR, f"{prop}-{h}.json")
    with open(path, "w") as f:
        json.dump(payload, f, indent=1, sort_keys=True)
    return path


class Context:
    def __init__(self, prop, tier, seed):
        self.prop = prop
        self.tier = tier
        self.seed = seed
        self.rng = random.Random(seed * 1000003 + sum(ord(c) for c in prop))
        self.t0 = time.time()
        self.notes = []
        self.osyris = None

    def elapsed(self):
        return time.time() - self.t0


class Outcome:
    """What a property module returns from run()."""

    def __init__(self):
        self.evaluations = 0
        self.compared = 0  # traces_validated_against_impl
        self.nontrivial = set()
        self.samples = []
        self.rule = ""
        self.distribution = {}
        self.disagreements = []  # (case, description) impl vs model
        self.violations = []  # dict(case=..., what=..., input_class=..., call_site=...)
        self.near_tie_skipped = 0
        self.extra = {}
        self.exhaustive = False


def finish(ctx, module, out, build, audit_res, extraction):
    """Decide, print, write evidence, return exit code."""
    prop = ctx.prop
    known = load_known()
    kf = [f for f in known.get("findings", []) if f.get("property") == prop]
    exit_code = 0
    lines = []
    new_violations = []
    seen_known = {}
    for v in out.violations:
        match = None
        for f in kf:
            if f.get("input_class") == v.get("input_class") and f.get("call_site") == v.get("call_site"):
                match = f
                break
        if match is not None:
            seen_known.setdefault(match["id"], (match, v))
        else:
            new_violations.append(v)
    for fid, (f, v) in seen_known.items():
        lines.append(f"KNOWN-FINDING: property={prop} {f['what_fails']}")
    stale = [f["id"] for f in kf if f["id"] not in seen_known]

    proof_broken = (not build["proofs_ok"]) or (not audit_res["ok"])
    tie_broken = bool(out.disagreements)
    if new_violations:
        seen = set()
        for v in new_violations:
            sig = (v.get("call_site"), v.get("input_class"))
            if sig in seen or len(seen) >= 5:
                continue
            seen.add(sig)
            path = write_replay(prop, {"property": prop, "kind": "failing-input", **v,
                                       "replay_cmd": f"/venv/bin/python check.py {prop} --replay <this file>"})
            lines.append(f"VIOLATION property={prop} replay={path}")
        exit_code = 1
    elif proof_broken or tie_broken:
        what = []
        if not build["proofs_ok"]:
            what.append({"broken": "proof obligation (lake build OsyrisProofs.%s failed)" % prop,
                         "log": build["log"][-3000:]})
        if not audit_res["ok"]:
            what.append({"broken": "axiom audit", "bad_axioms": audit_res["bad_axioms"],
                         "missing": audit_res["missing"], "raw": audit_res["raw"][-1500:]})
        for case, desc in out.disagreements[:3]:
            what.append({"broken": "correspondence impl vs model", "first_difference": desc, "case": case})
        path = write_replay(prop, {"property": prop, "kind": "no-failing-input-found", "no_longer_checks": what,
                                   "searched": out.extra.get("search", "the property's boundary generators at thorough volume, impl vs Spec")})
        lines.append(f"VIOLATION property={prop} replay={path} no-failing-input-found")
        exit_code = 1

    coverage = {
        "obligations": audit_res["obligations"],
        "discharged": audit_res["discharged"] if build["proofs_ok"] else 0,
        "checker_cmd": f"cd lean && lake build OsyrisModel driver OsyrisProofs.{prop} && {audit_res['cmd'].split('&& ')[-1]}",
        "trusted_base": GLOBAL_TRUSTED + list(getattr(module, "TRUSTED", [])),
        "theorems": audit_res["theorems"],
        "evaluations": out.evaluations,
        "distinct_nontrivial": len(out.nontrivial),
        "rule": out.rule,
        "samples": out.samples[:5],
        "traces_validated_against_impl": out.compared,
        "distribution": out.distribution,
        "near_tie_skipped": out.near_tie_skipped,
        "extraction": extraction,
        "tie_a": "ok" if build["proofs_ok"] else "broken",
        "tie_b": "ok" if not out.disagreements else f"{len(out.disagreements)} disagreements",
        "known_findings_seen": sorted(seen_known),
        "known_findings_stale": stale,
        "exhaustive": out.exhaustive,
        "forbidden_tokens": build.get("forbidden", []),
        "leanchecker": build.get("leanchecker", "not run (quick tier)"),
    }
    coverage.update(out.extra)
    ev = {
        "property_id": prop,
        "tier": ctx.tier,
        "seed": ctx.seed,
        "level": "proof",
        "coverage": coverage,
        "assumptions": list(getattr(module, "ASSUMPTIONS", [])),
        "wall_s": round(ctx.elapsed(), 2),
        "violations": len(new_violations) + (1 if (exit_code == 1 and not new_violations) else 0),
    }
    os.makedirs(EVIDENCE_DIR, exist_ok=True)
    with open(os.path.join(EVIDENCE_DIR, prop + ".json"), "w") as f:
        json.dump(ev, f, indent=1, sort_keys=True, default=str)
    for l in lines:
        print(l)
    print(f"{prop} tier={ctx.tier} seed={ctx.seed} evaluations={out.evaluations} "
          f"nontrivial={len(out.nontrivial)} obligations={coverage['obligations']} "
          f"discharged={coverage['discharged']} exit={exit_code} wall={ev['wall_s']}s")
    sys.stdout.flush()
    return exit_code


def ddmin(items, still_fails, max_rounds=200):
    """Greedy one-at-a-time deletion."""
    cur = list(items)
    rounds = 0
    changed = True
    while changed and rounds < max_rounds:
        changed = False
        i = len(cur) - 1
        while i >= 0 and rounds < max_rounds:
            rounds += 1
            cand = cur[:i] + cur[i + 1:]
            try:
                if cand and still_fails(cand):
                    cur = cand
                    changed = True
            except Exception:  # noqa: BLE001
                pass
            i -= 1
    return cur


def main_run(module, prop, tier, replay=None):
    seed = env.seed()
    ctx = Context(prop, tier, seed)
    try:
        from . import extract

        ctx.osyris = env.import_osyris()
        extraction = extract.run_all()
        ok, log, dt = lean.lake_build(["OsyrisModel", "driver"])
        if not ok:
            # malformed Generated file: fall back to the committed snapshot
            extract.restore_snapshot()
            extraction = {k: "fallback" for k in extraction}
            ok, log, dt = lean.lake_build(["OsyrisModel", "driver"])
            if not ok:
                print("infrastructure error: model does not build\n" + log[-3000:])
                return 2
        pok, plog, pdt = lean.lake_build([f"OsyrisProofs.{prop}"])
        build = {"proofs_ok": pok, "log": plog, "forbidden": lean.grep_forbidden()}
        if build["forbidden"]:
            build["proofs_ok"] = False
            build["log"] += "\nforbidden tokens: " + "; ".join(build["forbidden"])
        if pok and tier == "thorough":
            # thorough tier: the compiled proofs are re-checked by Lean's independent checker
            cok, clog = lean.leanchecker(f"OsyrisProofs.{prop}")
            build["leanchecker"] = "ok" if cok else "FAILED: " + clog[-500:]
            if not cok:
                pok = False
                build["proofs_ok"] = False
                build["log"] += "\nleanchecker: " + clog
        if pok:
            audit_res = lean.audit(prop)
        else:
            audit_res = {"ok": True, "theorems": {}, "obligations": _count_listed(prop), "discharged": 0,
                         "bad_axioms": [], "missing": [], "raw": "", "cmd": "cd lean && lake env lean OsyrisProofs/Audit/%s.lean" % prop}
        ctx.proofs_ok = build["proofs_ok"] and audit_res["ok"]
        if replay:
            return module.replay(ctx, replay)
        out = module.run(ctx)
        return finish(ctx, module, out, build, audit_res, extraction)
    except lean.subprocess.TimeoutExpired:
        print("infrastructure error: timeout")
        return 2
    except Exception:  # noqa: BLE001
        traceback.print_exc()
        print("infrastructure error")
        return 2


def _count_listed(prop):
    import re

    try:
        txt = open(os.path.join(lean.LEAN_DIR, "OsyrisProofs", "Audit", prop + ".lean")).read()
        return len(re.findall(r"^#print axioms", txt, flags=re.M))
    except OSError:
        return 0
