"""Reference 3-D Hilbert curve (committed table, independent of /repo's working tree): used to assign
ownership in the synthetic outputs for C04 / C15, never osyris' own `_hilbert3d`."""
import json
import os

_T = json.load(open(os.path.join(os.path.dirname(os.path.abspath(__file__)), "snapshots", "hilbert_reference.json")))
NEXT, DIGIT = _T["next"], _T["digit"]


def key(x, y, z, bit_length):
    s = 0
    k = 0
    for i in range(bit_length - 1, -1, -1):
        d = ((x >> i) & 1) * 4 + ((y >> i) & 1) * 2 + ((z >> i) & 1)
        k = k * 8 + DIGIT[s][d]
        s = NEXT[s][d]
    return k


def owner_of_centre(centre, levelmax, bound_keys):
    """1-based cpu owning the oct with this centre (coordinates in [0,1))"""
    n = 2 ** (levelmax + 1)
    ix, iy, iz = (int(c * n) for c in centre)
    k = key(ix, iy, iz, levelmax + 1)
    for c in range(len(bound_keys) - 1):
        if bound_keys[c] <= k < bound_keys[c + 1]:
            return c + 1
    raise ValueError("key outside the bound keys")
