"""Regenerates MANIFEST.json from the table below (kept valid at all times)."""
import json
import os

VERIF = os.path.dirname(os.path.dirname(os.path.abspath(__file__)))

CLAIMED = {
    "C20": {
        "technique": "Lean 4 refinement proof (Datagroup model refines an insertion-ordered dictionary spec over all op sequences; eq iff content) + op-sequence correspondence with the real classes",
        "text": "Theorems C20_refines_dict / C20_keys_nodup / C20_rename_on_set / C20_shape_gate / C20_eq_iff hold for every operation sequence and every pair of groups of the Lean model; C20_dataset_refines_dict / C20_dataset_keys_nodup give the same refinement for the table of a Dataset (any value type; the isinstance gate is in Exec and compared by correspondence); the model is tied to /repo by running random dictionary-operation programs and group pairs on the real Datagroup/Dataset and on the compiled model and diffing every observation.",
        "note": "trusted: Lean kernel + propext/Classical.choice/Quot.sound; the hand-written model of datagroup.py/dataset.py and the correspondence harness; numpy comparison and pint conversion are modelled",
        "design_ref": "5 C20",
    },
}

CLAIMED["C06"] = {
    "technique": "Lean 4 invariant proof by induction over operation histories + row-selection alignment theorems; op-history correspondence with the real Datagroup",
    "text": "C06_inv_reachable (all members share one shape after any history of insert/replace/update/delete/pop/clear of non-scalar members), C06_reject_frame, C06_getIndex_aligned (one row selection for all members and Vector components, any index kind) and C06_sortby_aligned are proved for the Lean model; C06_scalar_gate_witness proves the negation for groups whose first member is 0-d (recorded known finding). The model is tied to /repo by random histories with row-id values run on the real class and on the compiled model.",
    "note": "trusted: Lean kernel + standard axioms; model of datagroup.py / array.py / vector.py indexing; numpy indexing + argsort modelled (ties excluded)",
    "design_ref": "5 C06",
}

CLAIMED["C02"] = {
    "technique": "Lean 4 proofs that the _binary_op pipeline commutes with the physical-quantity semantics (phys) for all operands; unit tables regenerated from array.py and re-proved each run; operand-pair correspondence",
    "text": "C02_add_sub / C02_mul_div / C02_neg / C02_pow / C02_reciprocal / C02_incompatible_raises are proved for all shapes (broadcasting), dtypes, unit pairs and unit tables T; generated_keeps_numeric / generated_applies re-prove on every run that the dtype test and APPLY_OP_TO_UNIT extracted from the current array.py satisfy the theorems' hypotheses (C02_*_current). The model is tied to /repo by ~900 (quick) / 20000 (thorough) generated expressions over operand kinds, dtypes, shapes and unit pairs, exact lane compared as rationals. C02_broadcast_reads_in_range (for shapes that broadcast, every flat index of the result is read from an element that exists in each operand: bshape_compat, bidx_lt).",
    "note": "trusted: Lean kernel + standard axioms; numpy promotion/broadcast tables and pint's registry are modelled (unit factors read from pint at run time); float rounding excluded by the exact lane, bounded by 1e-9 in the tolerant lane",
    "design_ref": "5 C02",
}

CLAIMED["C07"] = {
    "technique": "Lean 4 proof that comparison ufuncs after strict conversion decide the order of the physical quantities (positivity of unit ratios); Boolean-table lemma; correspondence incl. exact ties",
    "text": "C07_cmp (all six operators, all shapes/dtypes/unit pairs: result = element-wise comparison of phys values, dimensionless bool), C07_incompatible_raises, C07_logic / C07_logic_table, C07_plan_agrees (the numpy kernel and conversion factor _binary_op settles on, used to evaluate nan/inf operands with numpy itself) are proved for the model; C07_cmp_current re-proves against the extracted dtype test that boolean results carry no unit. Tie: generated comparisons with values that differ only after conversion (exact ties in the exact lane), logical ops and comparison/logic chains, diffed against the real Array.",
    "note": "trusted: Lean kernel + standard axioms; numpy comparison ufuncs modelled; tolerant lane generates no near ties (>= 1% apart after conversion)",
    "design_ref": "5 C07",
}
CLAIMED["C08"] = {
    "technique": "Lean 4 proofs about Array.to/Vector.to (phys preserved, round trip and chain exact over Q, raises iff dimensions differ) + kernel-checked table theorem on the constants regenerated from defaults.py; correspondence incl. pint's reported values",
    "text": "C08_to_preserves_phys / C08_to_raises_iff / C08_to_roundtrip / C08_to_chain / C08_vector_componentwise hold for all values, shapes, dtypes and consistent unit catalogues; C08_spelling_mul_comm / _mul_assoc / _div_as_pow / _pow_mul (Lemmas/Sym.lean: normal-form algebra of the symbolic unit container) say that rewriting a unit expression does not change the unit it denotes, and random spellings of random expression trees are parsed by osyris.units in one process and compared with UExpr.eval; C08_constants_true (decide +kernel) re-proves on every run that every constant extracted from config/defaults.py has its accepted value, unit and aliases (Reference/Constants.lean). Tie: conversions of all kinds on the real classes vs the model, and the values pint actually reports for every defined name.",
    "note": "trusted: Lean kernel + standard axioms; reference constants (IAU 2015, CODATA 2018) and the 1e-3 tolerance; pint's parser; fresh HOME so that the repo's defaults.py is what osyris loads",
    "design_ref": "5 C08",
}

CLAIMED["C09"] = {
    "technique": "Lean 4 proofs of component-wise lifting (Vector op = per-component Array op), component-count rejection, and the algebraic laws of scalar/vector product over Q by ring; correspondence of Vector expressions incl. dot/cross identities through phys",
    "text": "C09_lift / C09_lift_array / C09_nvec_mismatch are proved for every operator, operand and unit table; dot3_comm, cross3_anticomm, dot3_cross3_self, lagrange are the point-wise laws (ring). The model's dot/cross (repaired unit rule) are tied to /repo by generated expressions whose outputs are compared exactly (exact lane) including a.(a x b)=0 and Lagrange on the implementation's outputs; the 1-component norm sign is a recorded known finding.",
    "note": "trusted: Lean kernel + standard axioms; the link from the model's dot/cross data to dot3/cross3 of the physical components is by correspondence (theorem for same-shape operands planned); sqrt in norm compared squared (1e-5)",
    "design_ref": "5 C09",
}
CLAIMED["C10"] = {
    "technique": "Lean 4 theorems that the _wrap_numpy unit rule equals dimensional analysis per function class, with the membership obligations on the extracted APPLY_OP_TO_UNIT / dtype test re-proved each run; exhaustive-by-catalogue correspondence against numpy on raw values",
    "text": "C10_classA/C/D and C10_classB_same_unit are proved for all unit tables; generated_classC + C02.generated_keeps_numeric re-prove against the current array.py that every transforming function of the catalogue is in APPLY_OP_TO_UNIT and every numeric dtype keeps its unit; C10_classB_mixes_witness proves the negation for multi-operand functions with different units (known finding). Tie: every catalogue function x unit assignment x dtype x keyword form on the real Array; values compared with numpy on the raw values.",
    "note": "trusted: Lean kernel + standard axioms; numpy computes the values; the catalogue and its classes (NumpyUnits.lean)",
    "design_ref": "5 C10",
}

CLAIMED["C17"] = {
    "technique": "Lean 4 heap-style proofs on an explicit store of buffers, views and object ids (read-after-write, frame, alias visibility, fresh copies); op-history correspondence observing identity and memory sharing on the real objects",
    "text": "On the pure store layer: C17_iop (the same object reads the values of x op y after x op= y), C17_iop_frame (Arrays on other buffers and object identities unchanged), write_alias and C17_view_sees_write (every other object viewing the same buffer - same view, slice, strided or overlapping view - reads the written value where the views meet and the old value elsewhere), alloc_fresh + C17_copy_independent (copies are independent in both directions) are proved for every store, view and operand. Tie: histories of in-place ops / copies / deep copies / slices / group insertions on shared objects run on the real classes and on the machine; `is` and np.shares_memory are observed after each step. Some handles are read-only views over shared data (flags.writeable = False); their copies must be independent and writable.",
    "note": "trusted: Lean kernel + standard axioms; numpy's view/copy semantics and `out=` casting are modelled; the history-level statement is by correspondence (induction over op lists not yet proved); sub-views with dimension-changing in-place ops are outside the claim (as the property states)",
    "design_ref": "5 C17",
}

CLAIMED["C16"] = {
    "technique": "Lean 4 proof that every extracted group is the source group indexed by one mask computed from its positions (fold soundness, reusing the C06 alignment theorem) + membership lemmas; correspondence on hand-built datasets with rows exactly on the boundary",
    "text": "C16_extract_sound: each group of the result is the source group of that name indexed by a single boolean mask derived from the group's own or the mesh positions (shapes equal), with at least one row kept — so all members stay row-aligned by C06_getIndex_aligned; C16_box_row_phys and C16_sphere_row_phys state the tests in physical terms: with positions, origin and size / radius each in its own length unit, row i is kept exactly when |physical offset| <= physical size / 2 (box, per component) resp. the physical distance is below the positive physical radius (sphere, >= 2 components). Tie: datasets with mesh/part/sink groups, 2-D/3-D positions, mixed length units, rows exactly on sphere and box boundaries, compared with the real extract_sphere / extract_box (result, untouched input, no shared memory). C16_box_mask_rows: the box mask is the row-wise conjunction of the one-component masks over the existing components.",
    "note": "trusted: Lean kernel + standard axioms; r < R modelled as r^2 < R^2; comparison and conversion semantics from C07/C08; the composition of the per-row theorems with the extraction fold is by correspondence; 1-component sphere is a known finding",
    "design_ref": "5 C16",
}

CLAIMED["C01"] = {
    "technique": "translator T2 regenerates the loader's byte-counter code into Lean on every run; Lean 4 alignment theorems about that generated code for all parameter values; three-way correspondence real loader / Lean loader model / Lean Spec leaf rows on synthetic RAMSES outputs (+ writer vs Lean encode, read-request traces)",
    "text": "Layout.skelOf_amrHeader / skelOf_amrBlock / skelOf_amrFile / totalBytes_amrFile / skelOf_varBlock / skelOf_partFile prove that the files written by the format Spec (Ramses.encode, diffed against the Python writer on every run) have exactly the record skeletons the alignment theorems are about and that the header walk plus one block advance per (level, domain) ends at the end of the file; Readers.readAt_aligned says an aligned request returns that record. Proved for all ncpu, levelmax, nboundary, noutput, key sizes, coarse grids, ncache, variable tables (ndim in {1,2,3}): every read of AmrReader.read_header, of an owned block (cacheline header + child-cell reads + footer), of the hydro/grav/rt headers and of Reader.read_variables lands on the payload start of the intended record and the counters advance by exactly the bytes passed; step_over advances like reading (Readers.lean, about Generated/Readers.lean). C01_units_lib_is_reference / C01_units_lib_consistent re-prove the units library extracted from defaults.py. The composition over the whole file walk and the end-to-end equality loadMesh(encode O) = leafRows O is carried by the correspondence: each generated output is written by an independent Python writer (diffed against Lean encode), loaded by the real loader, and compared row-by-row with the loader model, as a multiset with the Spec leaf rows, and request-by-request with the model's read trace.",
    "note": "trusted: Lean kernel + standard axioms; translator T2 and the extractors; the RAMSES format as formalised by the writer/encode pair (no real RAMSES output offline); struct.unpack, numpy; derived variables (mass, B_field) are checked on the implementation's own columns",
    "design_ref": "5 C01",
}

CLAIMED["C13"] = {
    "technique": "Lean 4 induction over the variable table of the generated Reader.read_variables: skipped and read variables advance the byte counters identically; correspondence of subset loads against the model, the Spec and the projection of a real full load",
    "text": "C13_skip_eq_read_advance / readVars_spec / C13_read_offsets_independent (all variable tables, types, read-flag patterns, ncache), var_stepover_eq_block and the merge lemmas are proved about the generated reader code and the merge model; C13_merge_collision_witness is the negation for colliding names (known finding). Tie: group subsets (False / list forms), random variable lists, partial component sets, x-infixed names; each subset load equals the real full load's arrays, the model's rows and read trace, and the Spec.",
    "note": "trusted: as C01; vector merging is modelled on key lists (vectorMerges) and tied by correspondence",
    "design_ref": "5 C13",
}
CLAIMED["C14"] = {
    "technique": "Lean 4 alignment theorem for the generated PartReader.read_header over all header record sizes, type mixes and particle counts; correspondence on particle files and sink CSV files (both unit dialects)",
    "text": "part_header_aligned (npart read from the third record, five header records of arbitrary sizes skipped by their own length markers, every d/i/b column read or skipped at the start of its own record, for every npart incl. 0), C14_columns_independent, C14_zero_particles are proved about the generated reader code; Readers.readAt_aligned (a request at the payload start of a record returns that record) and Readers.var_loop_reads_columns (on a file of any leading records followed by one record per descriptor variable, every request of the variable loop is answered with exactly the stored column of that variable, for every type mix and read/skip pattern) carry the alignment over to the values; C14_concatenation / C14_concatenation_frame (the pieces accumulated file after file are, per variable, the concatenation of the files' rows in reading order, and no other variable is touched). Tie: particle files with 0..7 particles per cpu, random descriptors and header sizes, sortby, variable lists; sink files missing / empty / 1 / 3 sinks in code-unit and legacy dialects; real loader vs model (rows, units, read trace) vs Spec.",
    "note": "trusted: as C01; np.loadtxt; the sink unit-line grammar as modelled (factors m, l, t with **int, spaces as products, bracketed legacy units from pint)",
    "design_ref": "5 C14",
}

CLAIMED["C12"] = {
    "technique": "Lean 4 structural induction on the inductive octree (truncation keeps well-formedness; the leaves of the truncated tree conserve volume; levels <= L) + level-cap lemma; correspondence of level-limited loads with model, Spec (truncated-tree leaves), read trace, volume and probe-lattice coverage",
    "text": "C12_truncated_volume (for every well-formed tree and every L the leaves of the truncated tree fill the root cell exactly), truncate_WF / truncate_fits / truncate_levels, C12_flat_rule_is_truncation (filtering the stored cells of any tree, refined or not, with the loader's per-cell rule for a cap L - level <= L and (no son or level = L) - yields exactly the leaves of the tree truncated at L, in file order, each with its own coarse value) with its corollary C12_flat_rule_volume, C12_rows (with a level function p on top: exactly the leaves of the truncated tree whose level satisfies p) and C12_rows_tile (if p accepts every level up to L the rows fill the domain exactly once), C12_lmax_le and C01_leaf_rule are proved. Tie: outputs with levelmax 2..5 and predicates l<=k, l<k, a<l<b, l==k, l!=k, l>=k alone or with value/position predicates; the real loader's rows equal the model's and, as a multiset, the Spec's leaves of the truncated tree with coarse values; meta lmax and the read trace (only levels up to L are read) equal the model's; volumes add up and every probe point lies in exactly one cell when all levels up to L are accepted.",
    "note": "trusted: as C01; the inductive octree and the flat oct list of the generator are related by construction of the generator (volume and coverage are also checked numerically on each case)",
    "design_ref": "5 C12",
}

CLAIMED["C04"] = {
    "technique": "Lean 4 proof of the Hilbert-transducer prefix property for any state diagram with digits < 8, kernel-checked obligations on the state diagram regenerated from hilbert.py (equals the reference, per-state permutation), interval-pick lemma for the bound-key loops; correspondence of selective loads with the filter of the full load on Hilbert-consistent synthetic outputs",
    "text": "key_prefix / key_prefix_current (key(x,y,z,B) / 8^(B-b) = key of the enclosing cube, for all coordinates and depths), table_is_reference, generated_digit_perm, generated_next_lt (decide +kernel on the extracted table), key_injective_current (two cells of the 2^b grid with the same key are the same cell, for every depth b: run_injective over the regenerated table, ofDigits_injective, eq_of_bits), C04_interval_pick (the owner of any key inside a search interval lies between cpu_min and cpu_max for non-decreasing bound keys), C04_cube_not_finer, C04_axis_sound (the box hilbert_cpu_list derives from the sampled cell centres contains every accepted cell centre, for interval-type functions: axisBox_sound + convex_of_interval_preds; for outputs deeper than the sampling level 18 only with the wider padding of fix a73f858), C04_cell_sound (a leaf cell whose own centre lies in the box is served although ownership goes by the centre of its oct: octCoord_cube, bitLength_le_minCube) and the end-to-end C04_selection_sound (for interval-type position functions, non-decreasing bound keys and search cubes not finer than levelmin, the cpu owning the oct of every accepted cell of level >= levelmin is in the list hilbert_cpu_list returns), and the composition C04_preselect_sound / C04_box_sound (3-D: every cell whose centre lies in the bounding box handed to _get_cpu_list is owned by a cpu of the returned list — key_in_cube_interval, cubeLevel_spec / dmax_le_cube (the box is not wider than a search cube), trunc_two / trunc_centre / axis_in_cubes (the eight search cubes cover the box), mem_collect) are proved. Tie: 3-D outputs owned according to the reference curve for equal / random / empty-domain / cube-edge bound keys and 1..64 cpus; deep zooms (levelmax 19-22, a chain of cells hugging a search-cube face, keys as the info file's 16 digits give them); boxes from 1.2 finest cells (smaller than the leaf they hit) to the whole domain on 1-3 axes, value predicates, explicit cpu_list, non-hilbert ordering; rows, the number of files opened, and _hilbert3d itself (exhaustive to depth 3, random to 19 bits) are compared; the cube-finer-than-oct witness is replayed on every run.",
    "note": "trusted: Lean kernel + standard axioms; reference state diagram = table of the pinned commit (no RAMSES source offline); ownership rule of RAMSES as formalised; 1-D/2-D outputs and bound keys >= 2^53 are not covered; that the bounding box computed by hilbert_cpu_list from the sampled cell centres contains every qualifying cell is by correspondence",
    "design_ref": "5 C04",
}

CLAIMED["C15"] = {
    "technique": "Lean 4 state-machine model of what persists between load() calls (AmrReader.cpu_list) with an induction over call histories; history correspondence against fresh datasets on the real library",
    "text": "step_independent, C15_history_independent, C15_all_calls_fresh (for every history and every state left by earlier calls, a call opens exactly the files it opens on a fresh dataset) are proved for the repaired reset; C15_leak_witness proves the negation for the code as it was; C15_no_stale_reader_fields (decide on a table regenerated on every run by a must-assign analysis of every reader's `initialize` in io/*.py) says that `initialized` / `cpu_list` are reset on every path and that no cached field decides `initialize` before being assigned. Tie: per synthetic dataset (Hilbert-consistent ownership, particles, sinks) histories of 2-4 calls from 13 argument templates; after each history every group equals what a fresh RamsesDataset returns for the most recent call that produced it, earlier groups are kept, meta counts match the groups just loaded, and the number of files each call opens equals the model's.",
    "note": "trusted: Lean kernel + standard axioms; the LoadHistory model tracks the one reader field that is read before it is written (found by reading io/*.py); all other per-call state is compared through the fresh-dataset oracle",
    "design_ref": "5 C15",
}

CLAIMED["C05"] = {
    "technique": "Lean 4 proofs: floor-based index = half-open-bin Spec (uniqueness, bracketing edges), counts/sum/mean/conservation, permutation invariance of the accumulation, schedule independence for every non-racy discipline in an interleaving model, lost-update witness for the racy one; index rule and accumulation discipline detected from plot/utils.py; correspondence incl. edge points and thread sweeps",
    "text": "index_spec_unique, C05_cell_spec, C05_index_floor_eq_spec, C05_counts / C05_sum / C05_sum_mean / C05_conservation, accum_perm / C05_perm, C05_sched (any discipline but sharedRMW, every schedule and chunking = serial fold = Spec), sharedRMW_loses_update and C05_trunc_witness / C05_trunc_below_range (negations for the code as it was) are proved. Tie: hist2d and histogram2d(plot=False) on points on every bin edge, within one bin width outside either limit, NaN/inf, one-bin collisions, lengths 0..1e5 (1e6 thorough), resolutions 1..64, explicit/auto/degenerate limits, log axes, 0-3 layers with sum/mean, exact lane bit-identical; thread lane 1/2/4/16 threads.",
    "note": "partial: the real numba scheduler is sampled, C05_sched is about the interleaving model of atomic loads/stores; IEEE rounding excluded by the exact lane / bounded by 1e-9 with near ties skipped",
    "design_ref": "5 C05",
}
CLAIMED["C18"] = {
    "technique": "Lean 4 algebra over Q: perpendicular and cross products are orthogonal, u x (n x u) = |u|^2 n (right-handedness), basis constructions for every accepted form, kernel-decided table of the 54 accepted axis strings, top/side from the angular momentum; correspondence of get_direction / VectorBasis incl. extreme scales",
    "text": "perp_orth, cross_orth, u_cross_v, C18_normalize_unit, C18_basis_normal / C18_basis_nu / C18_basis_given / C18_roll / C18_vector, C18_letters (decide +kernel over all accepted strings), C18_top (n parallel to L), C18_side (L in the image plane) are proved in exact arithmetic. Tie: all accepted strings in any case, normal Vectors axis-aligned / z=0 / x+y=0 / random, scaled by 10^+-k up to 300 and with one tiny component, any unit, VectorBasis objects plain and rolled, top/side on particle clouds; norms and dots to 1e-12, orientation and handedness checked on the real results.",
    "note": "partial: overflow/underflow of doubles is outside the theorems (exact arithmetic) and is covered by the correspondence only",
    "design_ref": "5 C18",
}

CLAIMED["C03"] = {
    "technique": "Lean 4 proofs over an ordered field that the plane / radial pre-selection keeps every cell that contains a sample point, that the pixel footprint of a cell covers every pixel whose sample it contains, and that the painted image is schedule-independent up to face pixels (permutation + interleaving model); selection formulas detected from plot/map.py; correspondence on hand-built AMR meshes incl. face/edge/corner pixels and thread sweeps",
    "text": "plane_dist / plane_dist_2d / radial_sound (pre-selection soundness), footprint_lo / footprint_hi / footprint_axis / pixHits_of_contains_flat, image_getD / paint_perm / C03_map_events, C03_mask_is_coverage (the row of ones map() bins for the mask is NaN exactly where no loaded cell contains the sample point, whatever the data rows hold - NaN values included) / C03_map / C03_map_pixel (every paint order: a pixel holds the value of a loaded cell containing its sample point, NaN iff none), C03_map_sched / C03_sched (every chunking and interleaving of the prange kernel, faces included) are proved; radial_unsound_witness proves the negation for the pre-selection as it was coded (repaired, fixed entry). Tie: model as coded + Spec on 2-D/3-D AMR Datagroups of 1-4 levels with holes, origins on faces/corners/outside, letters/triples/Vector normals/top/side, dx in six units or omitted, resolutions 1..32 int/dict, scalar and vector layers, exact lane on face-aligned pixels; 1/2/16 numba threads.",
    "note": "partial: theorems are for 3-D data with dx given; 2-D data and the dx-omitted window are covered by the correspondence only; the real numba scheduler is sampled (C03_map_sched is about the interleaving model); np.linspace and the division by dx are modelled (exact lane makes them exact)",
    "design_ref": "5 C03",
}
CLAIMED["C11"] = {
    "technique": "Lean 4 proofs: slab pre-selection soundness, voxel/column theorems (each depth sample is the value of the cell containing it or missing), reductions incl. nan-variants and NaN propagation, unit scaling of sum/nansum by the depth step, round-half-even depth count is nearest to the pixel size; correspondence on thick maps over reductions x dz x resolutions",
    "text": "slab_sound / nearPlane_thick_sound, pixHits_of_contains_thick, mem_select_thick, C11_voxel / C11_column / C11_sched, reduce_nan_propagates / reduce_nansum_all_missing / reduce_nan_all_missing / reduce_nan_eq / reduce_sum_some, C11_units / C11_units_const (a constant column integrates to v*depth for every nz), C11_rows_use_own_operation (in every result of the map model each binned row is reduced by its own layer's operation, else the call's, and only rows reduced by sum / nansum carry the depth step in value and unit), roundHalfEven_nearest / roundHalfEven_tie_even / depth_count_nearest are proved; slab_unsound_witness proves the negation for the slab test as it was coded (repaired). Tie: as C03 plus dz/s in {1/8..8, domain} x eight reductions (call-level, and per layer on about a third of the cases) x resolution int / dict with and without z, depth/pixel ratios on the ties of round().",
    "note": "partial: as C03 (3-D data with dx given in the theorems; scheduler sampled); float rounding excluded by the exact lane and bounded by 1e-9 with near ties skipped in the tolerant lane",
    "design_ref": "5 C11",
}
CLAIMED["C19"] = {
    "technique": "Lean 4 proofs on a heap model of argument objects: frame theorems (no entry point writes to a caller object), call = function of its arguments over whole call histories, precedence theorems for parse_layer / Layer.update with the option table regenerated from core/layer.py + plot/parser.py each run; correspondence with deep before/after snapshots of every argument over call sequences",
    "text": "C19_precedence / C19_update_precedence / C19_kwargs_precedence / C19_update_kwargs_precedence / C19_precedence_tables / C19_precedence_current (layer-level options win, call-level fill the unset ones, for every option of the extracted table), generated_fields_complete (decide on the regenerated table), C19_parse_pure, C19_frame_map / _histogram2d / _histogram1d / _scatter / _plot / C19_frame_current, C19_call_spec, C19_idempotent_data, C19_history / C19_history_current are proved; C19_map_mutates_resolution_witness and C19_map_ignores_layer_operation_witness prove the negations for map() as it was (both repaired). Tie: all 4^7 set/unset patterns of the option fields (thorough), extra keyword options, and sequences of 2-4 calls of the five entry points sharing Layers, option dicts, one resolution dict, limits and the Datagroup, each with a deep snapshot before/after and a fresh-world rerun.",
    "note": "trusted: Lean kernel + standard axioms; matplotlib objects are observed only through mode/norm class/params (vmin/vmax of norms are rewritten by matplotlib); single-threaded, sample points off cell faces",
    "design_ref": "5 C19",
}

NOT_YET = {
}


def main():
    props = [json.loads(l) for l in open(os.path.join(VERIF, "properties.jsonl"))]
    checks = []
    na = []
    for p in props:
        pid = p["id"]
        if pid in CLAIMED:
            c = CLAIMED[pid]
            checks.append({
                "property_id": pid,
                "quick_cmd": f"/venv/bin/python check.py {pid} --tier quick",
                "thorough_cmd": f"/venv/bin/python check.py {pid} --tier thorough",
                "evidence_file": f"evidence/{pid}.json",
                "replay_cmd_template": f"/venv/bin/python check.py {pid} --replay {{path}}",
                "engine": "lean-proof+correspondence",
                "level_claimed": {"category": "proof", "text": c["text"], "design_ref": c["design_ref"]},
                "level_note": c["note"],
                "technique": c["technique"],
            })
        else:
            na.append({"property_id": pid, "reason": NOT_YET.get(pid, "check not built yet in this round (work in progress; the design in DESIGN.md section 5 applies) — not claimed until its theorems and correspondence run")})
    m = {
        "version": 1,
        "setup_cmd": "cd lean && lake build OsyrisModel driver OsyrisProofs",
        "hooks": {
            "guard": "HAUGBOEL_OSYRIS_VERIF",
            "enable": "every check sets HAUGBOEL_OSYRIS_VERIF=1 before importing osyris from /repo/src (no source hook is needed: all observation points are public API or module attributes wrapped from the harness)",
            "baseline_off_cmd": "cd /repo && /venv/bin/python -m pytest -ra -q -p no:cacheprovider --timeout=900 --continue-on-collection-errors",
            "source_commits": [],
            "add_only": True,
        },
        "engines": [
            {"name": "lean-proof+correspondence", "path": "lean/ + harness/ + check.py",
             "serves_properties": sorted(CLAIMED),
             "kind_free_text": "Lean 4 model + theorems (lake build, #print axioms audit), tied to /repo by tables regenerated from the source on every run and by a differential correspondence between the compiled model and the real library"}
        ],
        "checks": checks,
        "not_applicable": na,
        "notes": "See DESIGN.md. Exit 2 = infrastructure error/timeouts (never a violation).",
    }
    with open(os.path.join(VERIF, "MANIFEST.json"), "w") as f:
        json.dump(m, f, indent=1)


if __name__ == "__main__":
    main()
