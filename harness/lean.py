"""Building and running the Lean side: lake (serialised with flock), the compiled driver,
the axiom audit."""
import fcntl
import json
import os
import re
import subprocess
import time

from .env import VERIF

LEAN_DIR = os.path.join(VERIF, "lean")
DRIVER = os.path.join(LEAN_DIR, ".lake", "build", "bin", "driver")
LOCK = os.path.join(LEAN_DIR, ".lake.lock")
ALLOWED_AXIOMS = {"propext", "Classical.choice", "Quot.sound"}
FORBIDDEN = re.compile(
    r"\bsorry\b|\badmit\b|^axiom |native_decide|bv_decide|implemented_by|\bunsafe |maxHeartbeats 0"
)


class Locked:
    def __enter__(self):
        self.f = open(LOCK, "w")
        fcntl.flock(self.f, fcntl.LOCK_EX)
        return self

    def __exit__(self, *a):
        fcntl.flock(self.f, fcntl.LOCK_UN)
        self.f.close()


def lake_build(targets, timeout=3600):
    """Returns (ok, output)."""
    with Locked():
        t0 = time.time()
        p = subprocess.run(
            ["lake", "build"] + list(targets),
            cwd=LEAN_DIR,
            stdout=subprocess.PIPE,
            stderr=subprocess.STDOUT,
            text=True,
            timeout=timeout,
        )
        return p.returncode == 0, p.stdout, time.time() - t0


def leanchecker(module, timeout=1800):
    """Independent re-check of the compiled .olean of a proofs module (Lean's own `leanchecker`: replays every
    declaration through the kernel). Returns (ok, output)."""
    import shutil

    if shutil.which("leanchecker") is None:
        return True, "leanchecker not installed"
    with Locked():
        p = subprocess.run(["lake", "env", "leanchecker", module], cwd=LEAN_DIR, stdout=subprocess.PIPE,
                           stderr=subprocess.STDOUT, text=True, timeout=timeout)
    return p.returncode == 0, p.stdout[-2000:]


def run_driver(lines, timeout=1800):
    """Send JSON-serialisable cases, one per line, to the compiled driver."""
    if not os.path.exists(DRIVER):
        raise RuntimeError("driver not built")
    inp = "\n".join(json.dumps(c, separators=(",", ":")) for c in lines) + "\n"
    p = subprocess.run(
        [DRIVER], input=inp, stdout=subprocess.PIPE, stderr=subprocess.PIPE, text=True, timeout=timeout
    )
    if p.returncode != 0:
        raise RuntimeError("driver failed: " + p.stderr[-2000:])
    out = [json.loads(l) for l in p.stdout.splitlines() if l.strip()]
    if len(out) != len(lines):
        raise RuntimeError(f"driver returned {len(out)} lines for {len(lines)} cases")
    return out


def audit(prop):
    """Run OsyrisProofs/Audit/<prop>.lean; parse `#print axioms` output.

    Returns dict(theorems={name: [axioms]}, obligations, discharged, bad=[...], raw)."""
    f = os.path.join("OsyrisProofs", "Audit", prop + ".lean")
    with Locked():
        p = subprocess.run(
            ["lake", "env", "lean", f],
            cwd=LEAN_DIR,
            stdout=subprocess.PIPE,
            stderr=subprocess.STDOUT,
            text=True,
            timeout=1800,
        )
    raw = p.stdout
    theorems = {}
    # "'Osyris.C20.foo' depends on axioms: [propext, Quot.sound]" or "... does not depend on any axioms"
    for m in re.finditer(r"'([^']+)' depends on axioms: \[([^\]]*)\]", raw, flags=re.S):
        theorems[m.group(1)] = [a.strip() for a in m.group(2).replace("\n", " ").split(",") if a.strip()]
    for m in re.finditer(r"'([^']+)' does not depend on any axioms", raw):
        theorems[m.group(1)] = []
    bad = []
    for name, ax in theorems.items():
        for a in ax:
            if a not in ALLOWED_AXIOMS:
                bad.append((name, a))
    listed = re.findall(r"^#print axioms\s+(\S+)", open(os.path.join(LEAN_DIR, f)).read(), flags=re.M)
    missing = [n for n in listed if not any(k == n or k.endswith("." + n) for k in theorems)]
    ok = p.returncode == 0 and not bad and not missing
    return {
        "ok": ok,
        "theorems": theorems,
        "obligations": len(listed),
        "discharged": len(listed) - len(missing) - len({n for n, _ in bad}),
        "bad_axioms": bad,
        "missing": missing,
        "raw": raw[-4000:],
        "cmd": f"cd lean && lake env lean {f}",
    }


def grep_forbidden():
    """Scan model + proof sources for sorry/axiom/native_decide/... outside comments."""
    hits = []
    for root in ("OsyrisModel", "OsyrisProofs", "Driver"):
        for dp, _, fs in os.walk(os.path.join(LEAN_DIR, root)):
            for fn in fs:
                if not fn.endswith(".lean"):
                    continue
                path = os.path.join(dp, fn)
                txt = open(path).read()
                txt = re.sub(r"/-.*?-/", lambda m: "\n" * m.group(0).count("\n"), txt, flags=re.S)
                for i, line in enumerate(txt.splitlines(), 1):
                    code = line.split("--")[0]
                    if FORBIDDEN.search(code):
                        hits.append(f"{os.path.relpath(path, LEAN_DIR)}:{i}: {line.strip()}")
    return hits
