"""Synthetic RAMSES outputs: an abstract `Output` (octree, ownership, ghost copies, variables,
particles, sinks) and a writer that emits the binary files osyris reads.

The writer *defines* "well-formed output" operationally (DESIGN 5 C01); it is cross-checked on
every case against the independent Lean `encode` (record skeleton and payloads), and the real
loader, the Lean loader model and the Lean Spec must all agree on what the files contain.
"""
import os
import struct
from fractions import Fraction

TY_SIZE = {"b": 1, "i": 4, "d": 8, "s": 1, "q": 8, "l": 8}
TY_FMT = {"b": "b", "i": "i", "d": "d", "q": "q", "l": "q"}


def F(x):
    return Fraction(x)


# ----------------------------------------------------------------------------- generation


def gen_tree(rng, ndim, levelmin, levelmax, nx, refine_p=0.45, max_octs=60, chain=False, chain_pick=None):
    """Octs as dicts: id, level (1-based), centre (coarse units, incl. boundary offset), sons.
    `chain`: below levelmin exactly one cell per oct is refined, down to levelmax (a deep zoom: few octs, many levels)."""
    twotondim = 2 ** ndim
    octs = []
    nxs = list(nx) if isinstance(nx, (list, tuple)) else [nx] * ndim      # coarse-grid size per axis

    def new_oct(level, centre, active):
        o = {"id": len(octs) + 1, "level": level, "centre": list(centre), "sons": [0] * twotondim, "active": active}
        octs.append(o)
        return o

    def refine(o):
        lvl = o["level"]
        h = Fraction(1, 2 ** lvl)
        pick = (chain_pick(o) if chain_pick else rng.randrange(twotondim)) if chain else None
        for ind in range(twotondim):
            bits = [(ind >> k) & 1 for k in range(ndim)]   # ix = bit 0, iy = bit 1, iz = bit 2
            c = [o["centre"][k] + (bits[k] - Fraction(1, 2)) * h for k in range(ndim)]
            must = lvl < levelmin
            may = lvl < levelmax and len(octs) < max_octs and rng.random() < refine_p
            if chain:
                may = pick is not None and ind == pick      # `chain_pick` may return None: this oct is not refined further
            if lvl < levelmax and (must or (may and o["active"])):
                child = new_oct(lvl + 1, c, o["active"])
                o["sons"][ind] = child["id"]
                refine(child)

    # coarse grid: nx^ndim level-1 octs; the middle one is the simulation box
    import itertools

    roots = []
    for idx in itertools.product(*[range(nxs[k]) for k in range(ndim)]):
        centre = [Fraction(i) + Fraction(1, 2) for i in idx]
        active = all(i == nxs[k] // 2 for k, i in enumerate(idx))
        roots.append(new_oct(1, centre, active))
    for o in roots:
        if o["active"]:
            refine(o)
    return octs


def gen_output(rng, ndim=None, ncpu=None, levelmin=None, levelmax=None, nboundary=None, exact=True,
               hydro_vars=None, with_grav=None, with_rt=None, with_part=None, with_sink=None,
               owner_fn=None, max_octs=60, noutput=None, keyb=None, tree_levelmax=None, chain=False, chain_pick=None, nxs=None):
    r = rng
    ndim = ndim or r.choice([1, 2, 3])
    ncpu = ncpu or r.randint(1, 5)
    levelmax = levelmax or r.randint(1, 5)
    levelmin = min(levelmin or r.randint(1, levelmax), levelmax)
    nboundary = r.choice([0, 0, 1, 2]) if nboundary is None else nboundary
    nx = 3 if nboundary > 0 else 1
    forced = nxs
    nxs = [nx] * ndim
    if forced is not None:
        nxs = list(forced)[:ndim]
    elif nboundary > 0 and ndim > 1 and r.random() < 0.5:
        # boundary regions along some axes only (a stratified box, periodic in the others): the coarse grid is not cubic
        nxs = [r.choice([1, 3]) for _ in range(ndim)]
        if all(n == 1 for n in nxs):
            nxs[r.randrange(ndim)] = 3
    # `tree_levelmax`: the deepest level that may actually be refined (the header's levelmax can be larger)
    octs = gen_tree(r, ndim, levelmin, min(tree_levelmax or levelmax, levelmax), nxs, max_octs=max_octs, chain=chain, chain_pick=chain_pick)
    twotondim = 2 ** ndim
    # ownership: active octs -> cpu domains 1..ncpu, boundary octs -> ncpu+1..ncpu+nboundary
    for o in octs:
        if o["active"]:
            o["owner"] = owner_fn(o) if owner_fn else r.randint(1, ncpu)
        else:
            o["owner"] = ncpu + r.randint(1, nboundary)
    if exact:
        pw = [Fraction(1, 4), Fraction(1, 2), Fraction(1), Fraction(2), Fraction(4), Fraction(8)]
        unit_d, unit_l, unit_t, boxlen = r.choice(pw), r.choice(pw), r.choice(pw), r.choice(pw)
    else:
        unit_d = Fraction(r.choice([2.0, 3.8e-21, 1.66e-24 * 7]))
        unit_l = Fraction(r.choice([3.0, 3.086e18 * 5, 1.2e17]))
        unit_t = Fraction(r.choice([5.0, 3.15e13, 4.7e12]))
        boxlen = Fraction(r.choice([1.0, 2.5, 0.3]))
    if hydro_vars is None:
        base = ["density"] + ["velocity_" + c for c in "xyz"[:ndim]]
        extra = r.sample(["pressure", "thermal_pressure", "passive_scalar_1", "temperature", "internal_energy",
                          "radiative_energy_1", "B_x_left", "B_y_left", "B_z_left", "B_x_right", "B_y_right", "B_z_right",
                          "metallicity",
                          # names without an entry of their own that merely *begin* with a key of the units library (x, y, z,
                          # density, pressure, temperature, mass): they take the default (dimensionless) unit
                          "xHII", "yHe", "zeta", "density_old", "pressure_cr", "temperature_rad", "mass_fraction"], r.randint(0, 6))
        if not exact:
            pass
        else:
            extra = [e for e in extra if not e.startswith("B_")]  # sqrt(4 pi ...) factor is irrational: tolerant lane only
        hydro_vars = base + extra
        if r.random() < 0.2:
            hydro_vars = ["density", "pressure"]
        if r.random() < 0.25:
            # a descriptor may declare other types than doubles (osyris reads every variable with its own type): an int32 flag
            hydro_vars.insert(r.randint(1, len(hydro_vars)), "cell_flag:i")
    with_grav = r.random() < 0.5 if with_grav is None else with_grav
    with_rt = r.random() < 0.3 if with_rt is None else with_rt
    rt_vars = ["photon_density_1"] + ["photon_flux_1_" + c for c in "xyz"[:ndim]] if with_rt else []
    if with_rt and len(rt_vars) < 2:
        rt_vars.append("photon_density_2")
    ngrav = 1 + ndim

    hydro_types = ["i" if v.endswith(":i") else "d" for v in hydro_vars]
    hydro_vars = [v.split(":")[0] for v in hydro_vars]

    def cellval(kind, gid, ind, iv):
        base = {"hydro": 0, "grav": 3, "rt": 5}[kind]
        if kind == "hydro" and hydro_types[iv] == "i":
            return Fraction((gid * 8 + ind) * 16 + iv + 1)      # integers for integer-typed variables
        return Fraction((gid * 8 + ind) * 16 + iv + 1, 4) + base * 4096

    for o in octs:
        o["hydro"] = [[cellval("hydro", o["id"], ind, iv) for iv in range(len(hydro_vars))] for ind in range(twotondim)]
        o["grav"] = [[cellval("grav", o["id"], ind, iv) for iv in range(ngrav)] for ind in range(twotondim)]
        o["rt"] = [[cellval("rt", o["id"], ind, iv) for iv in range(len(rt_vars))] for ind in range(twotondim)]
    # which octs each file holds: own (all, any order) + ghosts (any subset of the others')
    files = {}
    for cpu in range(1, ncpu + 1):
        held = {}
        for lvl in range(1, levelmax + 1):
            for dom in range(1, ncpu + nboundary + 1):
                lst = [o["id"] for o in octs if o["level"] == lvl and o["owner"] == dom]
                if dom == cpu:
                    r.shuffle(lst)
                else:
                    lst = [i for i in lst if r.random() < 0.5]
                held["%d,%d" % (lvl, dom)] = lst
        files[str(cpu)] = held
    out = {
        "ndim": ndim, "ncpu": ncpu, "nboundary": nboundary, "levelmin": levelmin, "levelmax": levelmax, "nx": nx, "nxs": nxs,
        "boxlen": boxlen, "unit_d": unit_d, "unit_l": unit_l, "unit_t": unit_t,
        "noutput": noutput or r.randint(1, 5), "keyb": keyb or r.choice([8, 16]), "time": Fraction(r.randint(0, 40), 8),
        "ordering": "hilbert", "bound_keys": [Fraction((8 ** (levelmax + 1)) * c // ncpu) for c in range(ncpu + 1)],
        "octs": octs, "files": files, "ghost_poison": Fraction(700000),
        "hydro_vars": [[v, t] for v, t in zip(hydro_vars, hydro_types)], "rt_vars": [[v, "d"] for v in rt_vars], "has_grav": with_grav,
        "gamma": Fraction(7, 5),
    }
    with_part = r.random() < 0.5 if with_part is None else with_part
    if with_part:
        cols = [["position_" + c, "d"] for c in "xyz"[:ndim]] + [["velocity_" + c, "d"] for c in "xyz"[:ndim]]
        cols += [["mass", "d"], ["identity", "i"], ["levelp", "i"], ["family", "b"], ["tag", "b"]]
        if r.random() < 0.5:
            cols = cols[: ndim] + r.sample(cols[ndim:], r.randint(1, len(cols) - ndim))
        per_cpu = []
        pid = 0
        for cpu in range(1, ncpu + 1):
            npart = r.choice([0, 0, 1, 3, 7])
            data = {}
            for name, ty in cols:
                if ty == "d":
                    data[name] = [Fraction(r.randint(-64, 64), 8) for _ in range(npart)]
                elif ty == "i":
                    data[name] = [Fraction(pid + k + 1) if name == "identity" else Fraction(r.randint(1, 9)) for k in range(npart)]
                else:
                    data[name] = [Fraction(r.randint(0, 5)) for _ in range(npart)]
            pid += npart
            per_cpu.append({"npart": npart, "cols": data})
        out["part"] = {"descriptor": cols, "header_sizes": [r.choice([4, 8, 16, 64]) for _ in range(5)], "per_cpu": per_cpu}
    else:
        out["part"] = None
    with_sink = r.random() < 0.4 if with_sink is None else with_sink
    if with_sink:
        nsink = r.choice([0, 1, 1, 3])
        keys = ["id", "msink"] + list("xyz"[:ndim]) + ["v" + c for c in "xyz"[:ndim]] + ["tform"]
        legacy = r.random() < 0.3
        if legacy:
            units = ["[1]", "[g]"] + ["[cm]"] * ndim + ["[cm/s]"] * ndim + ["[s]"]
        else:
            units = ["1", "m"] + ["l"] * ndim + ["l t**-1"] * ndim + ["t"]
        rows = [[Fraction(k + 1)] + [Fraction(r.randint(-32, 32), 4) for _ in keys[1:]] for k in range(nsink)]
        out["sink"] = {"keys": keys, "units": units, "rows": rows, "empty_file": nsink == 0}
    else:
        out["sink"] = None
    return out


# ----------------------------------------------------------------------------- records


def rec(ty, vals):
    return {"ty": ty, "vals": list(vals)}


def opaque(ty, count):
    return {"ty": ty, "vals": None, "count": count}


def amr_records(out, cpu):
    ndim, ncpu, nb, lm = out["ndim"], out["ncpu"], out["nboundary"], out["levelmax"]
    tt = 2 ** ndim
    nxs = out.get("nxs") or [out["nx"]] * ndim
    nxyz = [nxs[k] if k < ndim else 1 for k in range(3)]
    ncoarse = nxyz[0] * nxyz[1] * nxyz[2]
    octs = {o["id"]: o for o in out["octs"]}
    held = out["files"][str(cpu)]
    R = []
    R += [rec("i", [ncpu]), rec("i", [ndim]), rec("i", nxyz), rec("i", [lm]), rec("i", [1000]), rec("i", [nb])]
    R += [rec("i", [len(octs)]), rec("d", [out["boxlen"]])]
    no = out["noutput"]
    R += [rec("i", [no, 1, 1]), rec("d", [0] * no), rec("d", [0] * no), rec("d", [out["time"]])]
    R += [rec("d", [Fraction(1, 8)] * lm), rec("d", [Fraction(1, 4)] * lm)]
    R += [rec("i", [0, 0]), rec("d", [0, 0, 0]), rec("d", [0] * 7), rec("d", [0] * 5), rec("d", [0])]
    numbl = [len(held["%d,%d" % (l, d)]) for l in range(1, lm + 1) for d in range(1, ncpu + 1)]
    R += [rec("i", [0] * (ncpu * lm)), rec("i", [0] * (ncpu * lm)), rec("i", numbl)]
    R += [rec("i", [0] * (10 * lm))]
    if nb > 0:
        numbb = [len(held["%d,%d" % (l, ncpu + b)]) for l in range(1, lm + 1) for b in range(1, nb + 1)]
        R += [rec("i", [0] * (nb * lm)), rec("i", [0] * (nb * lm)), rec("i", numbb)]
    R += [rec("i", [0] * 5), opaque("s", 128), opaque("s", out["keyb"] * (ncpu + 1))]
    R += [rec("i", [1] * ncoarse), rec("i", [0] * ncoarse), rec("i", [1] * ncoarse)]
    for l in range(1, lm + 1):
        for d in range(1, ncpu + nb + 1):
            lst = [octs[i] for i in held["%d,%d" % (l, d)]]
            nc = len(lst)
            if nc == 0:
                continue
            R += [rec("i", [o["id"] for o in lst]), rec("i", [0] * nc), rec("i", [0] * nc)]
            for k in range(ndim):
                R.append(rec("d", [o["centre"][k] for o in lst]))
            R.append(rec("i", [0] * nc))
            for _ in range(2 * ndim):
                R.append(rec("i", [0] * nc))
            for ind in range(tt):
                R.append(rec("i", [o["sons"][ind] for o in lst]))
            for ind in range(tt):
                R.append(rec("i", [x["owner"] for x in lst]))
            for ind in range(tt):
                R.append(rec("i", [0] * nc))
    return R


def var_records(out, cpu, kind):
    """hydro / grav / rt files"""
    ndim, ncpu, nb, lm = out["ndim"], out["ncpu"], out["nboundary"], out["levelmax"]
    tt = 2 ** ndim
    octs = {o["id"]: o for o in out["octs"]}
    held = out["files"][str(cpu)]
    nvar = {"hydro": len(out["hydro_vars"]), "grav": 1 + ndim, "rt": len(out["rt_vars"])}[kind]
    if kind == "hydro":
        R = [rec("i", [ncpu]), rec("i", [nvar]), rec("i", [ndim]), rec("i", [lm]), rec("i", [nb]), rec("d", [out["gamma"]])]
    elif kind == "grav":
        R = [rec("i", [ncpu]), rec("i", [nvar]), rec("i", [lm]), rec("i", [nb])]
    else:
        # sixth record of the rt header: any double that differs from the hydro gamma (keeps files of different kinds distinct)
        R = [rec("i", [ncpu]), rec("i", [nvar]), rec("i", [ndim]), rec("i", [lm]), rec("i", [nb]), rec("d", [out["gamma"] + Fraction(1, 4)])]
    for l in range(1, lm + 1):
        for d in range(1, ncpu + nb + 1):
            lst = [octs[i] for i in held["%d,%d" % (l, d)]]
            nc = len(lst)
            R += [rec("i", [l]), rec("i", [nc])]
            if nc == 0:
                continue
            poison = 0 if d == cpu else out["ghost_poison"]
            types = [t for _, t in out["hydro_vars"]] if kind == "hydro" else ["d"] * nvar
            for ind in range(tt):
                for iv in range(nvar):
                    R.append(rec(types[iv], [o[kind][ind][iv] + poison for o in lst]))
    return R


def part_records(out, cpu):
    p = out["part"]
    pc = p["per_cpu"][cpu - 1]
    R = [rec("i", [out["ncpu"]]), rec("i", [out["ndim"]]), rec("i", [pc["npart"]])]
    for sz in p["header_sizes"]:
        R.append(opaque("b", sz))
    for name, ty in p["descriptor"]:
        R.append(rec(ty, pc["cols"][name]))
    return R


def record_bytes(r):
    ty = r["ty"]
    if r["vals"] is None:
        payload = bytes(r["count"] * TY_SIZE[ty])
    elif ty == "d":
        payload = struct.pack("=%dd" % len(r["vals"]), *[float(v) for v in r["vals"]])
    else:
        payload = struct.pack("=%d%s" % (len(r["vals"]), TY_FMT[ty]), *[int(v) for v in r["vals"]])
    m = struct.pack("=i", len(payload))
    return m + payload + m


def skeleton(records):
    return [[r["ty"], r["count"] if r["vals"] is None else len(r["vals"])] for r in records]


# ----------------------------------------------------------------------------- writing


def fmt_e(x):
    return "%23.15E" % float(x)


def write_output(out, path, nout=1, extra_outputs=()):
    """Writes output_<nout> under path; returns {cpu: {kind: records}}."""
    tag = "%05d" % nout
    d = os.path.join(path, "output_" + tag)
    os.makedirs(d, exist_ok=True)
    for other in extra_outputs:
        os.makedirs(os.path.join(path, "output_%05d" % other), exist_ok=True)
    with open(os.path.join(d, "info_%s.txt" % tag), "w") as f:
        f.write("ncpu        = %10d\nndim        = %10d\nlevelmin    = %10d\nlevelmax    = %10d\nngridmax    = %10d\nnstep_coarse= %10d\n\n"
                % (out["ncpu"], out["ndim"], out["levelmin"], out["levelmax"], 1000, 0))
        f.write("boxlen      = %s\ntime        = %s\naexp        = %s\nH0          = %s\n" % (fmt_e(out["boxlen"]), fmt_e(out["time"]), fmt_e(1), fmt_e(1)))
        f.write("omega_m     = %s\nomega_l     = %s\nomega_k     = %s\nomega_b     = %s\n" % (fmt_e(1), fmt_e(0), fmt_e(0), fmt_e(0)))
        f.write("unit_l      = %s\nunit_d      = %s\nunit_t      = %s\n\n" % (fmt_e(out["unit_l"]), fmt_e(out["unit_d"]), fmt_e(out["unit_t"])))
        f.write("ordering type=%s\n" % out["ordering"])
        f.write("   DOMAIN   ind_min                 ind_max\n")
        for c in range(out["ncpu"]):
            f.write("%8d %s %s\n" % (c + 1, fmt_e(out["bound_keys"][c]), fmt_e(out["bound_keys"][c + 1])))

    def descriptor(name, vars_):
        with open(os.path.join(d, name), "w") as f:
            f.write("# version:  1\n# ivar, variable_name, variable_type\n")
            for i, (v, t) in enumerate(vars_):
                f.write("  %d, %s, %s\n" % (i + 1, v, t))

    descriptor("hydro_file_descriptor.txt", out["hydro_vars"])
    if out["rt_vars"]:
        descriptor("rt_file_descriptor.txt", out["rt_vars"])
    if out["part"]:
        descriptor("part_file_descriptor.txt", out["part"]["descriptor"])
    allrecs = {}
    for cpu in range(1, out["ncpu"] + 1):
        kinds = {"amr": amr_records(out, cpu), "hydro": var_records(out, cpu, "hydro")}
        if out["has_grav"]:
            kinds["grav"] = var_records(out, cpu, "grav")
        if out["rt_vars"]:
            kinds["rt"] = var_records(out, cpu, "rt")
        if out["part"]:
            kinds["part"] = part_records(out, cpu)
        for kind, recs in kinds.items():
            with open(os.path.join(d, "%s_%s.out%05d" % (kind, tag, cpu)), "wb") as f:
                f.write(b"".join(record_bytes(r) for r in recs))
        allrecs[cpu] = kinds
    if out["sink"]:
        s = out["sink"]
        fn = os.path.join(d, "sink_%s.csv" % tag)
        with open(fn, "w") as f:
            if not s["empty_file"]:
                f.write(" # " + ",".join(s["keys"]) + "\n")
                f.write(" # " + ",".join(s["units"]) + "\n")
                for row in s["rows"]:
                    f.write(",".join(repr(float(v)) for v in row) + "\n")
    return allrecs


# ----------------------------------------------------------------------------- JSON for the driver


def rat(x):
    x = Fraction(x)
    return str(x.numerator) if x.denominator == 1 else "%d/%d" % (x.numerator, x.denominator)


def to_json(out):
    """The abstract Output as the Lean driver reads it (rationals as strings)."""
    j = {k: out[k] for k in ("ndim", "ncpu", "nboundary", "levelmin", "levelmax", "nx", "noutput", "keyb", "ordering", "has_grav")}
    j["nxs"] = list(out.get("nxs") or [out["nx"]] * out["ndim"])
    for k in ("boxlen", "unit_d", "unit_l", "unit_t", "time", "ghost_poison", "gamma"):
        j[k] = rat(out[k])
    j["bound_keys"] = [rat(b) for b in out["bound_keys"]]
    j["hydro_vars"] = out["hydro_vars"]
    j["rt_vars"] = out["rt_vars"]
    j["octs"] = [{"id": o["id"], "level": o["level"], "centre": [rat(c) for c in o["centre"]], "owner": o["owner"],
                  "sons": o["sons"], "hydro": [[rat(v) for v in row] for row in o["hydro"]],
                  "grav": [[rat(v) for v in row] for row in o["grav"]], "rt": [[rat(v) for v in row] for row in o["rt"]]}
                 for o in out["octs"]]
    j["files"] = [[{"level": int(k.split(",")[0]), "dom": int(k.split(",")[1]), "ids": v}
                   for k, v in sorted(out["files"][str(c)].items(), key=lambda kv: tuple(int(t) for t in kv[0].split(",")))]
                  for c in range(1, out["ncpu"] + 1)]
    if out["part"]:
        p = out["part"]
        j["part"] = {"descriptor": p["descriptor"], "header_sizes": p["header_sizes"],
                     "per_cpu": [{"npart": pc["npart"], "cols": [[rat(v) for v in pc["cols"][name]] for name, _ in p["descriptor"]]}
                                 for pc in p["per_cpu"]]}
    else:
        j["part"] = None
    if out["sink"]:
        s = out["sink"]
        j["sink"] = {"keys": s["keys"], "units": s["units"], "rows": [[rat(v) for v in row] for row in s["rows"]],
                     "empty_file": s["empty_file"]}
    else:
        j["sink"] = None
    return j
