"""Generators and the shared runner for properties living on the core machine
(Array / Vector / Datagroup / Dataset programs)."""
import json
from fractions import Fraction

from . import coremachine, lean, ucat
from .framework import Outcome, case_hash, ddmin

KEYS = ["a", "b", "c", "d", "e"]


class G:
    """Random construction of operands (one PRNG, JSON-serialisable output)."""

    def __init__(self, rng, osyris, lane="exact"):
        self.rng = rng
        self.o = osyris
        self.lane = lane
        ucat.define_synthetic(osyris)
        self._ucache = {}

    def ujson(self, ustr):
        if ustr not in self._ucache:
            self._ucache[ustr] = ucat.unit_json(self.o, ustr)
        return self._ucache[ustr]

    def families(self):
        return ucat.EXACT_FAMILIES if self.lane == "exact" else ucat.REAL_FAMILIES

    def unit(self, family=None):
        fam = self.families()
        if family is None:
            family = self.rng.choice(sorted(fam))
        return self.rng.choice(fam[family]), family

    def value(self, dtype, small=False):
        r = self.rng
        if dtype == "b":
            return Fraction(r.randint(0, 1))
        if dtype in ("i4", "i8"):
            return Fraction(r.randint(-20, 20) if small else r.randint(-1000, 1000))
        if self.lane == "exact" or dtype == "f4":
            k = r.randint(-64, 64) if (small or dtype == "f4") else r.randint(-4096, 4096)
            e = r.randint(0, 4)
            return Fraction(k, 2 ** e)
        return Fraction(r.uniform(-1000, 1000))

    def arr(self, shape, dtype="f8", ustr="", name="", values=None, small=False, nonzero=False):
        n = 1
        for d in shape:
            n *= d
        if values is None:
            values = []
            for _ in range(n):
                v = self.value(dtype, small)
                while nonzero and v == 0:
                    v = self.value(dtype, small)
                values.append(v)
        return {
            "shape": list(shape),
            "dtype": dtype,
            "data": [ucat.rat_str(v) for v in values],
            "unit": self.ujson(ustr),
            "ustr": ustr,
            "name": name,
        }

    def index(self, n, kinds=("int", "slice", "mask", "fancy")):
        r = self.rng
        k = r.choice(kinds)
        if k == "int":
            return {"k": "int", "i": r.randint(-n - 1, n)}
        if k == "slice":
            def opt():
                return None if r.random() < 0.3 else r.randint(-n - 2, n + 2)
            c = r.choice([None, 1, 2, 3, -1, -2, -3])
            return {"k": "slice", "a": opt(), "b": opt(), "c": c}
        if k == "mask":
            ln = n if r.random() < 0.95 else n + 1
            return {"k": "mask", "m": [r.random() < 0.5 for _ in range(ln)]}
        m = r.randint(0, n + 2)
        lo, hi = (-n, n - 1) if n > 0 and r.random() < 0.95 else (-n - 1, n)
        if n == 0:
            return {"k": "fancy", "is": [] if r.random() < 0.7 else [0], "aslist": False}
        return {"k": "fancy", "is": [r.randint(lo, hi) for _ in range(m)], "aslist": r.random() < 0.3}


def strip_for_lean(prog):
    """Remove python-only hints so that the wire format stays small (optional)."""
    return prog


def run_programs(ctx, cases, nontrivial_fn, tol_fn=None, search_mode=True, known_classifier=None):
    """Run programs on the real library and on the Lean model; on disagreement (or when the
    proofs are broken) evaluate the Spec oracle on the real library's behaviour.

    cases: list of dict(prog=[...], lane=..., tags=[...])
    """
    out = Outcome()
    osy = ctx.osyris
    impl_results = []
    for c in cases:
        m = coremachine.PyMachine(osy)
        impl_results.append(m.run(c["prog"]))
    model_results = lean.run_driver([{"engine": "core", "mode": "model", "prog": c["prog"]} for c in cases])
    need_spec = not getattr(ctx, "proofs_ok", True)
    bad = []
    for i, (c, ir, mr) in enumerate(zip(cases, impl_results, model_results)):
        out.evaluations += 1
        out.compared += 1
        tol = 0 if c.get("lane", "exact") == "exact" else 1e-9
        if tol_fn:
            tol = tol_fn(c, tol)
        d = coremachine.compare(ir, mr.get("out"), tol) if "out" in mr else "driver: " + json.dumps(mr)
        if any(isinstance(x, dict) and x.get("err") == "bad-op" for x in (mr.get("out") or [])):
            d = d or "model reported bad-op (malformed case)"
        if d:
            out.disagreements.append((c, d))
            bad.append(i)
        if nontrivial_fn(c, ir):
            out.nontrivial.add(case_hash(c["prog"]))
        if len(out.samples) < 3 and nontrivial_fn(c, ir):
            out.samples.append({"prog": c["prog"][:12], "impl_out": ir[:12]})
    # failing-input search: Spec (reference tables) is the oracle, evaluated against the real code
    spec_idx = list(range(len(cases))) if need_spec else bad
    if spec_idx:
        spec_results = lean.run_driver(
            [{"engine": "core", "mode": "spec", "prog": cases[i]["prog"]} for i in spec_idx]
        )
        shrunk_sigs = set()
        for i, sr in zip(spec_idx, spec_results):
            c = cases[i]
            tol = 0 if c.get("lane", "exact") == "exact" else 1e-9
            d = coremachine.compare(impl_results[i], sr.get("out"), tol)
            if not d:
                continue
            prog, actual, expected = c["prog"], impl_results[i], sr.get("out")
            cls = known_classifier(prog, actual, expected, d) if known_classifier else (None, None)
            if cls not in shrunk_sigs and len(shrunk_sigs) < 6:
                shrunk_sigs.add(cls)
                prog = shrink_program(osy, c["prog"], tol)
                m = coremachine.PyMachine(osy)
                actual = m.run(prog)
                expected = lean.run_driver([{"engine": "core", "mode": "spec", "prog": prog}])[0].get("out")
                d = coremachine.compare(actual, expected, tol) or d
                cls = known_classifier(prog, actual, expected, d) if known_classifier else (None, None)
            out.violations.append({
                "what": d,
                "case": {"engine": "core", "prog": prog, "lane": c.get("lane", "exact")},
                "expected_by_spec": expected,
                "actual": actual,
                "call_site": cls[0],
                "input_class": cls[1],
            })
    out.extra["search"] = "every generated program re-evaluated against the Spec oracle (reference unit tables) on the real library" if need_spec else "disagreeing programs re-evaluated against the Spec oracle"
    return out


def shrink_program(osy, prog, tol):
    def fails(p):
        m = coremachine.PyMachine(osy)
        a = m.run(p)
        e = lean.run_driver([{"engine": "core", "mode": "spec", "prog": p}])[0].get("out")
        if e is None:
            return False
        if any(isinstance(x, dict) and x.get("err") == "bad-op" for x in e):
            return False
        return coremachine.compare(a, e, tol) is not None

    if len(prog) > 40:
        return prog
    return ddmin(prog, fails, max_rounds=150)


def replay_core(ctx, path):
    with open(path) as f:
        payload = json.load(f)
    case = payload.get("case") or payload
    prog = case["prog"]
    tol = 0 if case.get("lane", "exact") == "exact" else 1e-9
    m = coremachine.PyMachine(ctx.osyris)
    actual = m.run(prog)
    expected = lean.run_driver([{"engine": "core", "mode": "spec", "prog": prog}])[0].get("out")
    d = coremachine.compare(actual, expected, tol)
    print(json.dumps({"actual": actual, "expected_by_spec": expected, "difference": d}, indent=1))
    if d:
        print(f"VIOLATION property={ctx.prop} replay={path}")
        return 1
    print("replay: behaviour now agrees with the Spec")
    return 0
