"""Translator T2: the byte-counter bookkeeping of the RAMSES readers -> Lean definitions.

Every reader method whose body consists of `self.offsets[K] += E`, calls to
`utils.read_binary_data(fmt=..., [skip_head=False, increment=False])`, `utils.skip_binary_line`,
`if` on simple conditions and `for` loops over `range(...)` / the variable table is turned into
a Lean function `(Trace × Cnt) -> m (Trace × Cnt)` generic in the reading interface `RdM`.
Statements that touch neither the offsets nor a read are ignored; anything touching them in an
unrecognised shape makes the translator give up (the committed snapshot is then used and the
correspondence check alone carries the tie).
"""
import ast

from .extract import ExtractMiss, _src

TYS = {"b", "i", "d", "s", "q", "l"}
LEAN_RESERVED = {"end", "begin", "from", "at", "in", "do", "then", "else", "fun", "let", "have", "show", "with", "match",
                 "if", "open", "def", "where", "by", "for", "return", "instance", "class", "structure", "namespace", "section",
                 "variable", "universe", "theorem", "example", "import", "export", "deriving", "mutual", "private", "protected",
                 "macro", "syntax", "notation", "infix", "prefix", "postfix", "axiom", "opaque", "abbrev", "set_option", "using",
                 "calc", "exists", "forall", "Type", "Prop", "Sort", "c", "tr", "st_", "v_", "k_", "m", "vars", "item"}


def ident(name):
    """a Python local name as a Lean identifier that cannot clash with keywords or the
    names the generated code itself uses"""
    return name + "'" if name in LEAN_RESERVED else name


class GiveUp(ExtractMiss):
    pass


METHODS = [
    # (lean name, file, class, method)
    ("amrReadHeader", "io/amr.py", "AmrReader", "read_header"),
    ("amrReadCachelineHeader", "io/amr.py", "AmrReader", "read_cacheline_header"),
    ("amrReadVariables", "io/amr.py", "AmrReader", "read_variables"),
    ("amrReadFooter", "io/amr.py", "AmrReader", "read_footer"),
    ("amrStepOver", "io/amr.py", "AmrReader", "step_over"),
    ("readerReadVariables", "io/reader.py", "Reader", "read_variables"),
    ("readerStepOver", "io/reader.py", "Reader", "step_over"),
    ("hydroReadHeader", "io/hydro.py", "HydroReader", "read_header"),
    ("hydroReadDomainHeader", "io/hydro.py", "HydroReader", "read_domain_header"),
    ("gravReadHeader", "io/grav.py", "GravReader", "read_header"),
    ("gravReadDomainHeader", "io/grav.py", "GravReader", "read_domain_header"),
    ("rtReadHeader", "io/rt.py", "RtReader", "read_header"),
    ("rtReadDomainHeader", "io/rt.py", "RtReader", "read_domain_header"),
    ("partReadHeader", "io/part.py", "PartReader", "read_header"),
]


def touches(node):
    s = ast.unparse(node)
    return "offsets" in s or "read_binary_data" in s or "skip_binary_line" in s


class Ctx:
    def __init__(self):
        self.used = set()
        self.defined = set()
        self.uses_vars = False


def name_of_subscript(e):
    """info["ncpu"] -> ncpu ; self.meta["nboundary"] -> meta_nboundary ; item["type"] -> item.ty"""
    if isinstance(e, ast.Subscript) and isinstance(e.slice, ast.Constant) and isinstance(e.slice.value, str):
        base = ast.unparse(e.value)
        key = e.slice.value.replace(" ", "_")
        if base in ("info", "meta"):
            return key
        if base == "self.meta":
            return "meta_" + key
        if base == "item":
            return {"type": "item.ty", "read": "item.read"}.get(key)
    return None


def expr(e, cx):
    if isinstance(e, ast.Constant) and isinstance(e.value, int) and not isinstance(e.value, bool):
        return str(e.value)
    if isinstance(e, ast.Name):
        cx.used.add(ident(e.id))
        return ident(e.id)
    n = name_of_subscript(e)
    if n and not n.startswith("item."):
        cx.used.add(n)
        return n
    if isinstance(e, ast.BinOp):
        op = {ast.Add: "+", ast.Mult: "*", ast.Pow: "^", ast.Sub: "-"}.get(type(e.op))
        if op:
            return f"({expr(e.left, cx)} {op} {expr(e.right, cx)})"
    if isinstance(e, ast.Call) and ast.unparse(e.func) == "len" and len(e.args) == 1 and ast.unparse(e.args[0]) == "self.variables":
        cx.uses_vars = True
        return "vars.length"
    raise GiveUp("expression: " + ast.unparse(e))


def ty_expr(e, cx):
    """the key of self.offsets[...]: a literal char, or item["type"]"""
    if isinstance(e, ast.Constant) and isinstance(e.value, str):
        if e.value == "n":
            return "n"
        if e.value in TYS:
            return ".%s" % e.value
        raise GiveUp("offset key " + e.value)
    n = name_of_subscript(e)
    if n == "item.ty":
        return "item.ty"
    raise GiveUp("offset key: " + ast.unparse(e))


def find_calls(node, suffix):
    return [n for n in ast.walk(node) if isinstance(n, ast.Call) and ast.unparse(n.func).endswith(suffix)]


def read_args(call, cx):
    kw = {k.arg: k.value for k in call.keywords}
    if "fmt" not in kw:
        raise GiveUp("read without fmt=")
    f = kw["fmt"]

    def flag(name):
        v = kw.get(name)
        if v is None:
            return "true"
        if isinstance(v, ast.Constant) and isinstance(v.value, bool):
            return "true" if v.value else "false"
        raise GiveUp("non-literal " + name)

    if isinstance(f, ast.Constant) and isinstance(f.value, str):
        s = f.value
        mult, ty = (s[:-1] or "1"), s[-1]
        if ty not in TYS or not mult.isdigit():
            raise GiveUp("fmt " + s)
        return ".%s" % ty, mult, flag("skip_head"), flag("increment")
    if isinstance(f, ast.Call) and isinstance(f.func, ast.Attribute) and f.func.attr == "format" and isinstance(f.func.value, ast.Constant):
        tmpl = f.func.value.value
        if tmpl == "{}{}" and len(f.args) == 2:
            return ty_expr(f.args[1], cx), expr(f.args[0], cx), flag("skip_head"), flag("increment")
        if tmpl.startswith("{}") and len(tmpl) == 3 and tmpl[2] in TYS and len(f.args) == 1:
            return ".%s" % tmpl[2], expr(f.args[0], cx), flag("skip_head"), flag("increment")
    if isinstance(f, ast.JoinedStr):
        # f"{n}d" / f"{n}{ty}": the same two shapes written as f-strings
        parts = f.values
        plain = lambda v: isinstance(v, ast.FormattedValue) and v.conversion == -1 and v.format_spec is None  # noqa: E731
        if len(parts) == 2 and plain(parts[0]) and isinstance(parts[1], ast.Constant) and parts[1].value in TYS:
            return ".%s" % parts[1].value, expr(parts[0].value, cx), flag("skip_head"), flag("increment")
        if len(parts) == 2 and plain(parts[0]) and plain(parts[1]):
            return ty_expr(parts[1].value, cx), expr(parts[0].value, cx), flag("skip_head"), flag("increment")
    raise GiveUp("fmt: " + ast.unparse(f))


def lean_str(s):
    return '"' + s.replace("\\", "\\\\").replace('"', "'") + '"'


def cond(e, cx):
    if isinstance(e, ast.Compare) and len(e.ops) == 1 and isinstance(e.ops[0], ast.Gt):
        return f"decide ({expr(e.left, cx)} > {expr(e.comparators[0], cx)})"
    n = name_of_subscript(e)
    if n == "item.read":
        return "item.read"
    raise GiveUp("condition: " + ast.unparse(e))


def block(body, cx, ind, in_vars_loop=False):
    """list of Lean do-lines operating on (tr, c)"""
    out = []
    pad = "  " * ind
    for st in body:
        if isinstance(st, ast.Expr) and isinstance(st.value, ast.Constant):
            continue  # docstring
        if isinstance(st, ast.If) and ast.unparse(st.test) == "not self.initialized" and all(isinstance(x, ast.Return) for x in st.body):
            continue  # guard: the loader only calls initialised readers
        if isinstance(st, ast.Return) and st.value is None:
            continue
        if not touches(st):
            # plain arithmetic assignment to a local name is kept (may feed a later increment)
            if isinstance(st, ast.Assign) and len(st.targets) == 1 and isinstance(st.targets[0], ast.Name):
                try:
                    sub = Ctx()
                    rhs = expr(st.value, sub)
                    cx.used |= (sub.used - cx.defined)
                    cx.uses_vars |= sub.uses_vars
                    out.append(f"{pad}let {ident(st.targets[0].id)} := {rhs}")
                    cx.defined.add(ident(st.targets[0].id))
                except GiveUp:
                    pass
            continue
        if isinstance(st, ast.AugAssign) and isinstance(st.op, ast.Add) and ast.unparse(st.target).startswith("self.offsets["):
            key = ty_expr(st.target.slice, cx)
            skips = find_calls(st.value, "skip_binary_line")
            if skips:
                if key == "n" or not isinstance(st.value, ast.Call):
                    raise GiveUp(ast.unparse(st))
                out.append(f"{pad}let (k_, c) ← skipLine c")
                out.append(f"{pad}let c := c.bump {key} k_")
            elif find_calls(st.value, "read_binary_data"):
                raise GiveUp(ast.unparse(st))
            else:
                e = expr(st.value, cx)
                out.append(f"{pad}let c := c.bumpN {e}" if key == "n" else f"{pad}let c := c.bump {key} {e}")
        elif isinstance(st, (ast.Assign, ast.Expr)):
            reads = find_calls(st, "read_binary_data")
            if len(reads) != 1 or find_calls(st, "skip_binary_line"):
                raise GiveUp(ast.unparse(st))
            ty, mult, sh, inc = read_args(reads[0], cx)
            target = ast.unparse(st.targets[0]) if isinstance(st, ast.Assign) else "_"
            tag = lean_str(target)
            if in_vars_loop:
                tag = f'({tag} ++ ":" ++ item.name)'
            out.append(f"{pad}let (v_, c) ← rdBin c {ty} {mult} {sh} {inc}")
            out.append(f"{pad}let tr := tr ++ [({tag}, v_)]")
            # destructuring targets bind natural numbers usable in later expressions
            if isinstance(st, ast.Assign) and isinstance(st.targets[0], (ast.List, ast.Tuple)) and st.value is reads[0]:
                for k, el in enumerate(st.targets[0].elts):
                    nm = ident(el.id) if isinstance(el, ast.Name) else name_of_subscript(el)
                    if nm and not nm.startswith("item."):
                        out.append(f"{pad}let {nm} := natOf v_ {k}")
                        cx.defined.add(nm)
        elif isinstance(st, ast.If):
            c = cond(st.test, cx)
            out.append(f"{pad}let (tr, c) ← (if {c} then (do")
            out += block(st.body, cx, ind + 2, in_vars_loop) or []
            out.append(f"{pad}    pure (tr, c)) else (do")
            out += block(st.orelse, cx, ind + 2, in_vars_loop) or []
            out.append(f"{pad}    pure (tr, c)))")
        elif isinstance(st, ast.For):
            it = st.iter
            if isinstance(it, ast.Call) and ast.unparse(it.func) == "range" and len(it.args) == 1 and isinstance(st.target, ast.Name):
                n = expr(it.args[0], cx)
                var = ident(st.target.id)
                out.append(f"{pad}let (tr, c) ← forRangeM {n} (fun ({var} : Nat) (st_ : Trace × Cnt) => do")
                out.append(f"{pad}    let (tr, c) := st_")
                inner = Ctx()
                inner.defined = set(cx.defined) | {var}
                lines = block(st.body, inner, ind + 2, in_vars_loop)
                cx.used |= (inner.used - {var})
                cx.uses_vars |= inner.uses_vars
                out += lines
                out.append(f"{pad}    pure (tr, c)) (tr, c)")
            elif ast.unparse(it) == "self.variables.values()" and isinstance(st.target, ast.Name) and st.target.id == "item":
                cx.uses_vars = True
                out.append(f"{pad}let (tr, c) ← forVarsM vars (fun (item : VarItem) (st_ : Trace × Cnt) => do")
                out.append(f"{pad}    let (tr, c) := st_")
                out += block(st.body, cx, ind + 2, True)
                out.append(f"{pad}    pure (tr, c)) (tr, c)")
            else:
                raise GiveUp("loop: " + ast.unparse(st.iter))
        else:
            raise GiveUp("statement: " + ast.unparse(st)[:80])
    return out


def method_def(lean_name, rel, cls, meth):
    tree = ast.parse(_src(rel))
    fn = None
    for c in tree.body:
        if isinstance(c, ast.ClassDef) and c.name == cls:
            for f in c.body:
                if isinstance(f, ast.FunctionDef) and f.name == meth:
                    fn = f
    if fn is None:
        raise GiveUp(f"{cls}.{meth} not found")
    cx = Ctx()
    lines = block(fn.body, cx, 1)
    params = sorted(n for n in cx.used if n not in cx.defined)
    sig = "".join(f" ({p} : Nat)" for p in params)
    if cx.uses_vars:
        sig = " (vars : List VarItem)" + sig
    head = (f"/-- `{cls}.{meth}` ({rel}) -/\n"
            f"def {lean_name} {{m : Type → Type}} [Monad m] [RdM m]{sig} (st_ : Trace × Cnt) : m (Trace × Cnt) := do\n"
            f"  let (tr, c) := st_\n")
    return head + "\n".join(lines) + ("\n" if lines else "") + "  pure (tr, c)\n", params, cx.uses_vars


def readers():
    parts = []
    sigs = []
    for lean_name, rel, cls, meth in METHODS:
        text, params, uses_vars = method_def(lean_name, rel, cls, meth)
        parts.append(text)
        sigs.append(f"-- {lean_name}: vars={uses_vars} params={' '.join(params)}")
    return ("-- GENERATED by harness/transpile.py from /repo/src/osyris/io/{amr,reader,hydro,grav,rt,part}.py — do not edit.\n"
            "import OsyrisModel.ReaderRt\n"
            "namespace Osyris.Generated\nopen Osyris\n\n" + "\n".join(sigs) + "\n\n" + "\n".join(parts) + "\nend Osyris.Generated\n")


def byte_size():
    src = _src("io/utils.py")
    tree = ast.parse(src)
    table = None
    # the table of item sizes: a dict literal {type letter: bytes} assigned anywhere in io/utils.py (inside
    # read_binary_data as `byte_size`, or hoisted to a module constant under another name)
    cands = []
    for sub in ast.walk(tree):
        if isinstance(sub, ast.Assign) and isinstance(sub.value, ast.Dict):
            try:
                d = ast.literal_eval(sub.value)
            except Exception:  # noqa: BLE001
                continue
            if isinstance(d, dict) and {"b", "i", "d"} <= set(d) and all(isinstance(k, str) and len(k) == 1 and isinstance(v, int) for k, v in d.items()):
                cands.append(d)
    if len(cands) == 1 or (cands and all(c == cands[0] for c in cands)):
        table = cands[0]
    elif cands:
        raise ExtractMiss("several different byte-size tables")
    if not isinstance(table, dict):
        raise ExtractMiss("byte_size not found")
    rows = "\n".join(f'  | "{k}" => {int(v)}' for k, v in table.items())
    return ("-- GENERATED by harness/transpile.py from /repo/src/osyris/io/utils.py — do not edit.\n"
            "namespace Osyris.Generated\n\n/-- `byte_size` of `read_binary_data` -/\ndef byteSize : String → Nat\n"
            f"{rows}\n  | _ => 0\n\nend Osyris.Generated\n")
