"""Unit catalogue: every unit used by the generators, with the (factor, dimension
vector) pint itself reports for it.  Nothing about pint's numbers is assumed: the
factor is read at run time and handed to the Lean driver as an exact rational.

Exact lane: synthetic units with power-of-two factors w.r.t. pint's root units
(meter, gram, second) defined through `osyris.units.define`, so that every conversion
osyris performs on dyadic data is exact in IEEE double.
"""
from fractions import Fraction

ROOTS = ["meter", "gram", "second", "kelvin", "ampere", "mole", "candela", "radian"]

# name -> definition in terms of root units
SYNTHETIC = {
    "vl1": "1 * meter",
    "vl2": "2 * meter",
    "vl8": "8 * meter",
    "vlq": "0.25 * meter",
    "vm1": "1 * gram",
    "vm4": "4 * gram",
    "vmh": "0.5 * gram",
    "vt1": "1 * second",
    "vt2": "2 * second",
    "vt16": "16 * second",
    # dimensionless units with a scale (like pint's percent, degree): same dimension as '' but a different factor
    "vd4": "4",
    "vdh": "0.5",
}

EXACT_FAMILIES = {
    "length": ["vl1", "vl2", "vl8", "vlq", "meter"],
    "mass": ["vm1", "vm4", "vmh", "gram"],
    "time": ["vt1", "vt2", "vt16", "second"],
    "velocity": ["vl1/vt1", "vl2/vt1", "vl8/vt2", "vlq/vt16"],
    "density": ["vm1/vl1**3", "vm4/vl2**3", "vmh/vlq**3"],
    "energy": ["vm1*vl1**2/vt1**2", "vm4*vl2**2/vt2**2"],
    "dimensionless": ["", "dimensionless", "vd4", "vdh", "radian"],
}

REAL_FAMILIES = {
    "length": ["m", "cm", "km", "au", "pc", "R_sun", "R_earth", "R_jup", "kpc"],
    "mass": ["g", "kg", "M_sun", "M_earth", "M_jup"],
    "time": ["s", "yr", "Myr", "day"],
    "velocity": ["cm/s", "km/s", "m/s", "au/yr"],
    "density": ["g/cm**3", "kg/m**3", "M_sun/pc**3"],
    "energy": ["erg", "J", "eV"],
    "luminosity": ["L_sun", "L_bol0", "W", "erg/s"],
    "dimensionless": ["", "dimensionless", "percent", "degree", "radian", "arcmin"],
    "temperature": ["K"],
    "bfield": ["G", "T"],
    "pressure": ["erg/cm**3", "Pa"],
}

_defined = False


def define_synthetic(osyris):
    global _defined
    if _defined:
        return
    for name, d in SYNTHETIC.items():
        osyris.units.define(f"{name} = {d}")
    _defined = True


class UnsupportedUnit(Exception):
    pass


class MalformedUnit(Exception):
    """a pint Unit whose exponent is not a number (e.g. a numpy array): unusable, hashing it raises"""


def plain_unit(osyris, u):
    """The same unit with numpy-scalar exponents replaced by Python numbers (pint's own arithmetic on the
    registry's integer factors refuses numpy integer exponents); an ndarray exponent is malformed."""
    import numpy as np
    from pint.util import UnitsContainer

    d = {}
    changed = False
    for n, e in u._units.items():
        if isinstance(e, np.ndarray):
            raise MalformedUnit(f"{n} ** {e!r}")
        if isinstance(e, np.generic):
            e = e.item()
            changed = True
        d[n] = e
    return u.__class__(UnitsContainer(d)) if changed else u


def unit_fd(osyris, unit):
    """(Fraction factor, [Fraction exponents]) of a pint Unit or unit string, from pint."""
    u = osyris.units(unit) if isinstance(unit, str) or unit is None else plain_unit(osyris, unit)
    q = (1.0 * u).to_root_units()
    dims = [Fraction(0)] * len(ROOTS)
    for name, exp in q.units._units.items():
        if name == "radian":
            continue  # pint: radian is a root unit of dimension [] (degree -> '' converts with factor pi/180)
        if name not in ROOTS:
            raise UnsupportedUnit(name)
        e = Fraction(exp).limit_denominator(12)
        if abs(float(e) - float(exp)) > 1e-12:
            raise UnsupportedUnit(f"{name}**{exp}")
        dims[ROOTS.index(name)] = e
    return Fraction(float(q.magnitude)), dims


def rat_str(q):
    q = Fraction(q)
    return str(q.numerator) if q.denominator == 1 else f"{q.numerator}/{q.denominator}"


def unit_sym(osyris, unit):
    u = osyris.units(unit) if isinstance(unit, str) or unit is None else unit
    out = []
    for name, exp in sorted(u._units.items()):
        e = Fraction(exp).limit_denominator(12)
        if e != 0:
            out.append([name, rat_str(e)])
    return out


def unit_json(osyris, unit):
    f, d = unit_fd(osyris, unit)
    return {"f": rat_str(f), "d": [rat_str(x) for x in d], "s": unit_sym(osyris, unit)}
