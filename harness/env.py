"""Process hygiene shared by every check (DESIGN 2.6).

* fresh HOME before `import osyris` (the library copies config/defaults.py into
  ~/.osyris once and then imports the copy: a stale copy would hide edits to /repo)
* the hook guard variable is set (currently read by nothing in /repo)
* Agg backend, numpy warnings silenced
"""
import atexit
import os
import shutil
import sys
import tempfile

VERIF = os.path.dirname(os.path.dirname(os.path.abspath(__file__)))
REPO = os.environ.get("OSYRIS_REPO", "/repo")
GUARD = "HAUGBOEL_OSYRIS_VERIF"

_home = None


def setup_process():
    """Must run before osyris is imported."""
    global _home
    if _home is not None:
        return _home
    _home = tempfile.mkdtemp(prefix="osyverif_home_")
    os.environ["HOME"] = _home
    os.environ[GUARD] = "1"
    os.environ["MPLBACKEND"] = "Agg"
    os.environ.setdefault("NUMBA_CACHE_DIR", os.path.join(_home, "numba"))
    atexit.register(lambda: shutil.rmtree(_home, ignore_errors=True))
    src = os.path.join(REPO, "src")
    if src not in sys.path:
        sys.path.insert(0, src)
    return _home


def import_osyris():
    setup_process()
    import warnings

    import numpy as np

    np.seterr(all="ignore")
    warnings.filterwarnings("ignore")
    import osyris

    path = os.path.realpath(os.path.dirname(osyris.__file__))
    want = os.path.realpath(os.path.join(REPO, "src", "osyris"))
    if path != want:
        raise RuntimeError(f"osyris imported from {path}, expected {want}")
    return osyris


def seed():
    try:
        return int(os.environ.get("VERIF_SEED", "0"))
    except ValueError:
        return 0
