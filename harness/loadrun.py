"""Running the real RAMSES loader on a synthetic output and canonicalising what it returns;
comparison with the Lean loader model (as coded) and the Lean Spec (leaf cells)."""
import contextlib
import io
import math
import operator
import os
import shutil
import tempfile
from fractions import Fraction

import numpy as np

from . import lean, ramses, ucat

OPS = {"lt": operator.lt, "le": operator.le, "gt": operator.gt, "ge": operator.ge, "eq": operator.eq, "ne": operator.ne}
TY_OF_FMT = {"b": "b", "i": "i", "d": "d", "s": "s", "q": "q", "l": "l"}


_BASE = None


def _cleanup_base():
    if _BASE:
        shutil.rmtree(_BASE, ignore_errors=True)


import atexit  # noqa: E402

atexit.register(_cleanup_base)


class Written:
    """A synthetic output on disk (removed on close)."""

    def __init__(self, out, nout=1, extra_outputs=()):
        self.out = out
        self.nout = nout
        # every output of a process is written under the *same* path (an output directory that is rewritten between two
        # loads, or a relative path after a chdir): nothing may be remembered per path string
        global _BASE
        if _BASE is None:
            _BASE = tempfile.mkdtemp(prefix="osyverif_ramses_")
        self.dir = os.path.join(_BASE, "run")
        shutil.rmtree(self.dir, ignore_errors=True)
        os.makedirs(self.dir)
        self.records = ramses.write_output(out, self.dir, nout, extra_outputs)
        self.by_bytes = {}
        tag = "%05d" % nout
        for cpu, kinds in self.records.items():
            for kind in kinds:
                p = os.path.join(self.dir, "output_" + tag, "%s_%s.out%05d" % (kind, tag, cpu))
                with open(p, "rb") as f:
                    self.by_bytes[f.read()] = (kind, cpu)

    def close(self):
        shutil.rmtree(self.dir, ignore_errors=True)
        if _BASE and not os.listdir(_BASE):
            pass  # the base directory is removed at exit (atexit below)

    def __enter__(self):
        return self

    def __exit__(self, *a):
        self.close()


def make_select(osy, ds, req):
    """req: dict(mesh_on, part_on, sink_on, mesh_vars, part_vars, preds, cpu_list, form)"""
    sel = {}
    if req.get("mesh_on", True) is False:
        sel["mesh"] = False
    elif req.get("preds"):
        d = {}
        for p in req["preds"]:
            unit = ds.units[p["var"]].units if p["var"] not in ("level", "cpu") else None
            val = float(Fraction(p["value"]))

            def fn(x, op=OPS[p["op"]], val=val, unit=unit):
                return op(x, osy.Array(values=val, unit=unit) if unit is not None else val)

            if p["var"] in d:
                prev = d[p["var"]]

                def both(x, a=prev, b=fn):
                    return a(x) & b(x) if hasattr(a(x), "values") else np.logical_and(a(x), b(x))

                d[p["var"]] = both
            else:
                d[p["var"]] = fn
        sel["mesh"] = d
    elif req.get("mesh_vars") is not None:
        sel["mesh"] = list(req["mesh_vars"])
    if req.get("part_on", True) is False:
        sel["part"] = False
    elif req.get("part_vars") is not None:
        sel["part"] = list(req["part_vars"])
    if req.get("sink_on", True) is False:
        sel["sink"] = False
    if req.get("form") == "grouplist":
        return [g for g in ("mesh", "part", "sink") if req.get(g + "_on", True)]
    return sel or None


def req_for_driver(req):
    j = {"mesh_on": req.get("mesh_on", True), "part_on": req.get("part_on", True),
         "mesh_vars": req.get("mesh_vars"), "part_vars": req.get("part_vars"),
         "preds": [{"var": p["var"], "op": p["op"], "value": ramses.rat(Fraction(p["value"]))} for p in req.get("preds", [])]}
    if req.get("cpu_list") is not None:
        j["cpu_list"] = list(req["cpu_list"])
    return j


@contextlib.contextmanager
def traced_reads(osy, written):
    """Wrap osyris.io.utils.read_binary_data to observe (file, offset, fmt, skip_head)."""
    from osyris.io import utils as ioutils

    trace = {}
    orig = getattr(ioutils, "read_binary_data", None)
    if orig is None:
        yield None
        return
    sizes = {"b": 1, "h": 2, "i": 4, "q": 8, "f": 4, "d": 8, "e": 8, "n": 8, "l": 8, "s": 1}

    def wrapped(content=None, fmt=None, offsets=None, skip_head=True, increment=True):
        try:
            off = sum(offsets[k] * sizes[k] for k in offsets) + (4 if skip_head else 0)
            key = written.by_bytes.get(bytes(content))
            mult = 1 if len(fmt) == 1 else int(fmt[:-1])
            # files are processed one after the other, so the per-kind call order is the per-cpu order
            # (byte-identical files, e.g. two empty particle files, only share their kind)
            trace.setdefault(None if key is None else key[0], []).append([off, fmt[-1], mult, bool(skip_head)])
        except Exception:  # noqa: BLE001
            pass
        return orig(content=content, fmt=fmt, offsets=offsets, skip_head=skip_head, increment=increment)

    ioutils.read_binary_data = wrapped
    try:
        yield trace
    finally:
        ioutils.read_binary_data = orig


def col_values(a):
    v = np.atleast_1d(np.asarray(a.values))
    if np.issubdtype(v.dtype, np.integer):
        return [Fraction(int(x)) for x in v]
    return [Fraction(float(x)) if math.isfinite(float(x)) else None for x in v]


def canon_group(osy, g):
    """-> list of dict(key, kind, comps=[(name, values, dtype, unit_sym)])"""
    out = []
    for key in g.keys():
        m = g[key]
        if isinstance(m, osy.Vector):
            comps = [(c, col_values(a), str(a.dtype), ucat.unit_sym(osy, a.unit)) for c, a in m._xyz.items()]
            out.append({"key": key, "kind": "vec", "comps": comps, "name": m.name, "shapes": [tuple(a.shape) for a in m._xyz.values()]})
        else:
            out.append({"key": key, "kind": "arr", "comps": [("", col_values(m), str(m.dtype), ucat.unit_sym(osy, m.unit))], "name": m.name,
                        "shapes": [tuple(m.shape)]})
    return out


def run_impl(osy, written, req, nout=None, ds=None, want_trace=True):
    """Load with the real library. Returns dict(groups=..., meta=..., stdout=..., trace=..., err=...)."""
    res = {"err": None}
    buf = io.StringIO()
    try:
        with contextlib.redirect_stdout(buf):
            if ds is None:
                ds = osy.RamsesDataset(written.nout if nout is None else nout, path=written.dir)
            sel = make_select(osy, ds, req)
            kwargs = {}
            if req.get("cpu_list") is not None:
                kwargs["cpu_list"] = list(req["cpu_list"])
            if req.get("sortby") is not None:
                kwargs["sortby"] = req["sortby"]
            if want_trace:
                with traced_reads(osy, written) as tr:
                    ds.load(select=sel, **kwargs) if not req.get("positional") else ds.load(sel, **kwargs)
                res["trace"] = tr
            else:
                ds.load(select=sel, **kwargs)
        res["groups"] = {name: canon_group(osy, g) for name, g in ds.items()}
        res["meta"] = {k: ds.meta.get(k) for k in ("ncells", "nparticles", "lmax", "levelmax", "ndim", "ncpu")}
        res["time"] = (float(ds.meta["time"].magnitude), ucat.unit_sym(osy, ds.meta["time"].units)) if hasattr(ds.meta.get("time"), "magnitude") else None
        res["ds"] = ds
    except Exception as e:  # noqa: BLE001
        from .coremachine import classify

        res["err"] = classify(e) + ": " + str(e)[:200]
    res["stdout"] = buf.getvalue()
    return res


_LEGACY = {}


def legacy_units(osy, out):
    res = []
    if out.get("sink"):
        for u in out["sink"]["units"]:
            if "[" in u and "]" in u:
                t = u.strip().replace("[", "").replace("]", "")
                if t != "1":
                    if t not in _LEGACY:
                        _LEGACY[t] = ucat.unit_sym(osy, t)
                    res.append({"name": t, "sym": _LEGACY[t]})
    return res


def driver_case(out, req, mode, files=False, osy=None):
    c = {"engine": "loader", "mode": mode, "output": ramses.to_json(out), "req": req_for_driver(req), "files": files}
    if osy is not None:
        c["legacy_units"] = legacy_units(osy, out)
    return c


def compare_sink(out, impl_groups, model, exact, sink_on=True):
    """sink group vs the model / Spec sink columns"""
    want = model.get("sink") if sink_on else None
    if want is None:
        return None if "sink" not in impl_groups else "a sink group was returned although there is no sink file (or sinks were switched off)"
    if "sink" not in impl_groups:
        return "sink group missing"
    si = shape_issue(impl_groups, "sink")
    if si:
        return si
    cols = [(k, v) for k, v, _ in want]
    syms = {k: sym for k, _, sym in want}
    layout = expected_layout(cols, model.get("sink_merges", []))
    icols, iorder = flatten_impl(impl_groups, "sink")
    got_keys = [(k, kind) for k, kind, _ in iorder]
    want_keys = [(k, kind) for k, kind, _ in layout]
    if got_keys != want_keys:
        return f"sink keys: impl={got_keys} model={want_keys}"
    md = dict(cols)
    for key, kind, src in layout:
        for ci, sname in enumerate(src):
            ik = key + ("." + "xyz"[ci] if kind == "vec" else "")
            vals, dt, sym = icols[ik]
            d = cmp_vals(vals, md[sname], 1.0, exact)
            if d:
                return f"sink[{ik}] {d}"
            if [list(x) for x in sym] != [[n, x] for n, x in syms[sname]]:
                return f"sink[{ik}] unit: impl={sym} model={syms[sname]}"
    return None


def pending_factor(out, pend):
    if pend is None:
        return 1.0
    f = float(out["unit_d"]) ** float(Fraction(pend["a"])) * float(out["unit_l"]) ** float(Fraction(pend["b"])) \
        * float(out["unit_t"]) ** float(Fraction(pend["e"]))
    if pend["sqrt4pi"]:
        f *= math.sqrt(4.0 * math.pi)
    return f


def shape_issue(groups, name):
    """every variable of a loaded group is a table column: one entry per row, i.e. a 1-D array (also for a single row)"""
    for m in groups.get(name, []):
        for sh in m.get("shapes", []):
            if len(sh) != 1:
                return f"{name}[{m['key']}] has shape {sh}: not a column with one entry per row"
    return None


def flatten_impl(groups, name):
    """impl group -> {scalar column name: (values, dtype, unit_sym)} using '<key>.<c>' for vector components"""
    cols = {}
    order = []
    for m in groups.get(name, []):
        for c, vals, dt, sym in m["comps"]:
            k = m["key"] + ("." + c if m["kind"] == "vec" else "")
            cols[k] = (vals, dt, sym)
        order.append((m["key"], m["kind"], [c for c, *_ in m["comps"]]))
    return cols, order


def expected_layout(model_cols, merges):
    """Key layout after make_vector_arrays: [(key, kind, source columns)]"""
    keys = [k for k, _ in model_cols]
    layout = [(k, "arr", [k]) for k in keys]
    deleted = set()
    for raw, comps in merges:
        layout = [e for e in layout if e[0] != raw]
        layout.append((raw, "vec", list(comps)))
        deleted.update(comps)
    return [e for e in layout if not (e[1] == "arr" and e[0] in deleted)]


def cmp_vals(impl_vals, model_vals, factor, exact):
    if len(impl_vals) != len(model_vals):
        return f"length {len(impl_vals)} vs {len(model_vals)}"
    for i, (a, b) in enumerate(zip(impl_vals, model_vals)):
        if a is None:
            return f"[{i}] non-finite"
        b = Fraction(b)
        if factor == 1.0 and exact:
            if a != b:
                return f"[{i}] impl={float(a)!r} model={float(b)!r}"
        else:
            want = float(b) * factor
            if abs(float(a) - want) > 1e-9 * max(abs(want), abs(float(a))):
                return f"[{i}] impl={float(a)!r} model={want!r}"
    return None


def compare_group(out, impl_groups, name, model, exact, derived=("B_field", "mass")):
    """impl group vs model columns (+merges, +scales). Returns None or description."""
    mcols = [(k, v) for k, v in model[name]]
    merges = model.get(name + "_merges", [])
    scale = {s["name"]: s for s in model[name + "_scale"]}
    si = shape_issue(impl_groups, name)
    if si:
        return si
    icols, iorder = flatten_impl(impl_groups, name)
    layout = expected_layout(mcols, merges)
    # derived variables are checked separately
    model_names = {k for k, _ in mcols} | {raw for raw, _ in merges}
    iorder_nd = [e for e in iorder if not (name == "mesh" and e[0] in derived and e[0] not in model_names)]
    want_keys = [(k, kind) for k, kind, _ in layout]
    got_keys = [(k, kind) for k, kind, _ in iorder_nd]
    if name not in impl_groups:
        return None if not mcols else f"group {name} missing"
    if want_keys != got_keys:
        return f"{name} keys: impl={got_keys} model={want_keys}"
    md = dict(mcols)
    for key, kind, src in layout:
        for ci, s in enumerate(src):
            ik = key + ("." + "xyz"[ci] if kind == "vec" else "")
            if ik not in icols:
                return f"{name}[{ik}] missing"
            vals, dt, sym = icols[ik]
            sc = scale.get(s, {"pending": None, "label": []})
            d = cmp_vals(vals, md[s], pending_factor(out, sc["pending"]), exact)
            if d:
                return f"{name}[{ik}] {d}"
            want_sym = [[n, x] for n, x in sc["label"]]
            if [list(x) for x in sym] != want_sym:
                return f"{name}[{ik}] unit: impl={sym} model={want_sym}"
    return None


def rows_multiset(cols_in_order):
    """[(name, values)] -> sorted list of row tuples"""
    if not cols_in_order:
        return []
    n = len(cols_in_order[0][1])
    return sorted(tuple(c[1][i] for c in cols_in_order) for i in range(n))


def compare_spec(out, impl_groups, name, spec, exact):
    """impl rows as a multiset vs the Spec rows (both over the Spec's scalar columns)."""
    scols = [(k, [Fraction(x) for x in v]) for k, v in spec[name]]
    si = shape_issue(impl_groups, name)
    if si:
        return si
    if name not in impl_groups:
        if scols and len(scols[0][1]) > 0:
            return f"group {name} missing, Spec has {len(scols[0][1])} rows"
        return None
    merges = spec.get(name + "_merges", [])
    scale = {s["name"]: s for s in spec[name + "_scale"]}
    icols, iorder = flatten_impl(impl_groups, name)
    if scols and len(scols[0][1]) == 0:
        # no row qualifies: the loader leaves such variables out of the group
        bad = [k for k, (vals, _, _) in icols.items() if len(vals) > 0]
        return f"{name}: Spec has no row but {bad} have rows" if bad else None
    comp_of = {}
    for raw, comps in merges:
        for ci, c in enumerate(comps):
            comp_of[c] = raw + "." + "xyz"[ci]
    impl_cols = []
    spec_cols = []
    derived = ("B_field", "mass")
    spec_names = set()
    for k, v in scols:
        ik = comp_of.get(k, k)
        spec_names.add(ik.split(".")[0])
        if ik not in icols:
            return f"{name}: variable {k} (as {ik}) missing in the loaded group"
        f = pending_factor(out, scale.get(k, {}).get("pending"))
        vals = icols[ik][0]
        if any(x is None for x in vals):
            return f"{name}[{ik}] non-finite values"
        if f != 1.0 or not exact:
            # tolerant: round both sides to 9 significant digits relative to the column scale
            want = [float(x) * f for x in v]
            impl_cols.append((ik, [float(x) for x in vals]))
            spec_cols.append((k, want))
        else:
            impl_cols.append((ik, vals))
            spec_cols.append((k, v))
        want_sym = [[n, x] for n, x in scale.get(k, {}).get("label", [])]
        if [list(x) for x in icols[ik][2]] != want_sym:
            return f"{name}[{ik}] unit label: impl={icols[ik][2]} spec={want_sym}"
    extra = [e[0] for e in iorder if e[0] not in spec_names and not (name == "mesh" and e[0] in derived)]
    if extra:
        return f"{name}: variables not in the Spec were returned: {extra}"
    a = rows_multiset(impl_cols)
    b = rows_multiset(spec_cols)
    if len(a) != len(b):
        return f"{name}: {len(a)} rows loaded, Spec has {len(b)}"
    for ra, rb in zip(a, b):
        for x, y in zip(ra, rb):
            if isinstance(x, float) or isinstance(y, float):
                if abs(float(x) - float(y)) > 1e-9 * max(abs(float(x)), abs(float(y)), 1e-300):
                    return f"{name}: row {tuple(map(float, ra))} vs Spec {tuple(map(float, rb))}"
            elif x != y:
                return f"{name}: row {tuple(map(float, ra))} vs Spec {tuple(map(float, rb))}"
    return None


def compare_files(written, model):
    """Python writer vs Lean encode: record skeleton and payload checksum of every file."""
    if "files" not in model:
        return None
    M = 2147483629
    for cpu, kinds in written.records.items():
        mk = model["files"][cpu - 1]
        if set(kinds) != set(mk):
            return f"cpu {cpu}: files {sorted(kinds)} vs encode {sorted(mk)}"
        for kind, recs in kinds.items():
            sk = ramses.skeleton(recs)
            if sk != mk[kind]["skeleton"]:
                for i, (a, b) in enumerate(zip(sk, mk[kind]["skeleton"])):
                    if a != b:
                        return f"cpu {cpu} {kind}: record {i} writer={a} encode={b}"
                return f"cpu {cpu} {kind}: {len(sk)} records vs encode {len(mk[kind]['skeleton'])}"
            q = Fraction(0)
            for r in recs:
                for v in (r["vals"] or []):
                    x = q * 3 + Fraction(v) * 4096
                    fl = x.numerator // x.denominator
                    q = Fraction(fl % M) + (x - fl)
            if ramses.rat(q) != mk[kind]["checksum"]:
                return f"cpu {cpu} {kind}: payload checksum differs (writer vs encode)"
    return None


def compare_trace(impl_trace, model):
    """the loader's read requests (offset, type, count, skip_head) per file vs the model's"""
    if impl_trace is None or "logs" not in model:
        return None
    per_kind = {}
    for kind, log in model["logs"]:
        per_kind.setdefault(kind, []).extend(log)
    got = {}
    for key, log in impl_trace.items():
        if key is None:
            return "a read on a buffer that is none of the written files"
        got.setdefault(key, []).extend(log)
    for kind in sorted(set(per_kind) | set(got)):
        a, b = got.get(kind, []), per_kind.get(kind, [])
        if a != b:
            for i, (x, y) in enumerate(zip(a, b)):
                if x != y:
                    return f"read trace of {kind} files: request {i} impl={x} model={y}"
            return f"read trace of {kind} files: {len(a)} requests vs model {len(b)}"
    return None


def check_derived(osy, impl, out):
    """additional_variables: mass = density * dx^3 in M_sun, B_field = (B_left + B_right)/2 — checked on the
    implementation's own columns."""
    g = impl["groups"].get("mesh")
    if not g:
        return None
    cols, order = flatten_impl(impl["groups"], "mesh")
    keys = [e[0] for e in order]
    if "density" in keys and "dx" in keys:
        if "mass" not in keys:
            return "derived variable mass missing"
        msun = float((1.0 * osy.units("M_sun")).to("g").magnitude)
        rho, dx, m = cols["density"][0], cols["dx"][0], cols["mass"][0]
        for a, b, c in zip(rho, dx, m):
            want = float(a) * float(b) ** 3 / msun
            if abs(float(c) - want) > 1e-9 * abs(want):
                return f"mass {float(c)} != density*dx^3 = {want} M_sun"
        if cols["mass"][2] != ucat.unit_sym(osy, "M_sun"):
            return f"mass unit {cols['mass'][2]}"
    if "B_left" in keys and "B_right" in keys:
        if "B_field" not in keys:
            return "derived variable B_field missing"
        for c in "xyz"[: out["ndim"]]:
            for a, b, m in zip(cols["B_left." + c][0], cols["B_right." + c][0], cols["B_field." + c][0]):
                want = 0.5 * (float(a) + float(b))
                if abs(float(m) - want) > 1e-9 * max(abs(want), 1e-300):
                    return f"B_field.{c} {float(m)} != {want}"
    return None
