"""The operation language of lean/OsyrisModel/Exec.lean, interpreted over the *real*
osyris objects (in-process), with the same canonical observations."""
import copy
import operator
from fractions import Fraction

import numpy as np

from . import ucat

DT = {"b": np.bool_, "i4": np.int32, "i8": np.int64, "f4": np.float32, "f8": np.float64}
DTNAME = {np.dtype(v).name: k for k, v in DT.items()}


def frac(s):
    return Fraction(s)


def classify(e):
    from pint.errors import DimensionalityError

    if isinstance(e, Unbound):
        return "unbound"
    if isinstance(e, DimensionalityError):
        return "DimErr"
    if isinstance(e, NotImplementedError):
        return "NotImpl"
    if isinstance(e, KeyError):
        return "KeyErr"
    if isinstance(e, IndexError):
        return "IndexErr"
    if isinstance(e, ValueError):
        return "ValueErr"
    if isinstance(e, (TypeError, AttributeError)):
        return "TypeErr"
    if isinstance(e, RuntimeError):
        return "RuntimeErr"
    return "Other:" + type(e).__name__


def np_from_json(v):
    dt = DT[v["dtype"]]
    data = [Fraction(x) for x in v["data"]]
    if v["dtype"] == "b":
        arr = np.array([bool(x) for x in data], dtype=dt)
    elif v["dtype"] in ("i4", "i8"):
        arr = np.array([int(x) for x in data], dtype=dt)
    else:
        arr = np.array([float(x) for x in data], dtype=dt)
    return arr.reshape(tuple(v["shape"]))


def data_json(values):
    a = np.asarray(values)
    flat = a.ravel()
    if a.dtype == np.bool_:
        return ["1" if x else "0" for x in flat]
    if np.issubdtype(a.dtype, np.integer):
        return [str(int(x)) for x in flat]
    out = []
    for x in flat:
        x = float(x)
        if x != x:
            out.append("nan")
        elif x in (float("inf"), float("-inf")):
            out.append("inf" if x > 0 else "-inf")
        else:
            out.append(ucat.rat_str(Fraction(x)))
    return out


class Unbound(Exception):
    pass


class Env(dict):
    def __missing__(self, k):
        raise Unbound(k)


class PyMachine:
    def __init__(self, osyris):
        self.o = osyris
        self.env = Env()
        ucat.define_synthetic(osyris)

    # ------------------------------------------------------------------ helpers
    def mk_array(self, v):
        return self.o.Array(values=np_from_json(v), unit=v.get("ustr", ""), name=v.get("name", ""))

    def mk_rhs(self, r):
        if r["k"] == "var":
            return self.env[r["v"]]
        if r["k"] == "ndview":
            # the raw ndarray an Array object holds (x.values): a plain-ndarray operand that shares memory with that object
            return self.env[r["v"]]._array
        v = r["v"]
        py = r.get("py", "arr")
        arr = np_from_json(v)
        if py == "num":
            x = arr[()]
            return int(x) if v["dtype"] in ("i4", "i8") else float(x)
        if py == "nd":
            return arr
        if py == "qty":
            return arr * self.o.units(v.get("ustr", ""))
        return self.o.Array(values=arr, unit=v.get("ustr", ""))

    def mk_index(self, op):
        if "ixvar" in op:
            return self.env[op["ixvar"]]
        ix = op["ix"]
        k = ix["k"]
        if k == "int":
            return ix["i"]
        if k == "slice":
            return slice(ix.get("a"), ix.get("b"), ix.get("c"))
        if k == "mask":
            m = np.array(ix["m"], dtype=bool)
            return m
        if k == "fancy":
            if ix.get("aslist"):
                return list(ix["is"])
            return np.array(ix["is"], dtype=np.int64)
        raise ValueError("bad index")

    def obs(self, x):
        o = self.o
        if isinstance(x, o.Array):
            dt = DTNAME.get(np.dtype(x.dtype).name, "other:" + str(x.dtype))
            return {
                "k": "arr",
                "shape": list(x.shape),
                "dtype": dt,
                "data": data_json(x.values),
                "unit": ucat.unit_json(o, x.unit),
                "name": x.name,
            }
        if isinstance(x, o.Vector):
            return {"k": "vec", "name": x.name, "comps": [self.obs(c) for c in x._xyz.values()]}
        if isinstance(x, o.Dataset):
            return {
                "k": "ds",
                "groups": [{"key": k, "g": self.obs(g)} for k, g in x.items()],
                "meta": [[str(k), str(v)] for k, v in x.meta.items()],
            }
        if isinstance(x, o.Datagroup):
            return {
                "k": "dg",
                "name": x.name,
                "entries": [{"key": k, "m": self.obs(m)} for k, m in x.items()],
            }
        raise TypeError("cannot observe " + type(x).__name__)

    def raw_arrays(self, x):
        o = self.o
        if isinstance(x, o.Array):
            return [getattr(x, "_array", np.asarray(x.values))]
        if isinstance(x, o.Vector):
            return [a for c in x._xyz.values() for a in self.raw_arrays(c)]
        if isinstance(x, o.Dataset):
            return [a for g in x.values() for a in self.raw_arrays(g)]
        if isinstance(x, o.Datagroup):
            return [a for m in x.values() for a in self.raw_arrays(m)]
        return []

    # ------------------------------------------------------------------ driver
    def run(self, prog):
        out = []
        for op in prog:
            try:
                out.append(getattr(self, "op_" + op["op"])(op))
            except Exception as e:  # noqa: BLE001
                out.append({"err": classify(e)})
        return out

    # ------------------------------------------------------------------ arrays / vectors
    def op_arr(self, op):
        self.env[op["dst"]] = self.mk_array(op["v"])
        return "ok"

    def op_vec(self, op):
        cs = [self.env[c] for c in op["comps"]]
        self.env[op["dst"]] = self.o.Vector(*cs, name=op.get("name", ""))
        return "ok"

    BIN = {
        "add": operator.add, "sub": operator.sub, "mul": operator.mul, "div": operator.truediv,
        "lt": operator.lt, "le": operator.le, "gt": operator.gt, "ge": operator.ge,
        "eq": operator.eq, "ne": operator.ne, "and": operator.and_, "or": operator.or_,
        "xor": operator.xor,
    }
    IBIN = {"add": operator.iadd, "sub": operator.isub, "mul": operator.imul, "div": operator.itruediv}

    def op_bin(self, op):
        a = self.env[op["a"]]
        rhs = self.mk_rhs(op["rhs"])
        if op.get("inplace"):
            r = self.IBIN[op["name"]](a, rhs)
        else:
            r = self.BIN[op["name"]](a, rhs)
        if r is NotImplemented:
            raise TypeError("NotImplemented")
        self.env[op["dst"]] = r
        return "ok"

    def op_un(self, op):
        a = self.env[op["a"]]
        n = op["name"]
        if n == "neg":
            r = -a
        elif n == "not":
            r = ~a
        else:
            r = getattr(np, {"abs": "absolute"}.get(n, n))(a)
        self.env[op["dst"]] = r
        return "ok"

    def op_pow(self, op):
        self.env[op["dst"]] = self.env[op["a"]] ** op["k"]
        return "ok"

    def op_rbin(self, op):
        a = self.env[op["a"]]
        k = self.mk_rhs({"k": "val", "py": op.get("py", "num"), "v": op["lhs"]})
        nm = op["name"]
        r = k * a if nm == "mul" else (k / a if nm == "div" else (k + a if nm == "add" else k - a))
        if r is NotImplemented:
            raise TypeError("NotImplemented")
        self.env[op["dst"]] = r
        return "ok"

    def op_to(self, op):
        self.env[op["dst"]] = self.env[op["a"]].to(op["ustr"])
        return "ok"

    def op_get(self, op):
        r = self.env[op["a"]][self.mk_index(op)]
        if op.get("ro"):
            # a read-only handle on the same data (np.broadcast_to / memmap / flags.writeable=False views): the model does
            # not represent writability, programs never write through such a handle (generator invariant)
            r._array.flags.writeable = False
        self.env[op["dst"]] = r
        return "ok"

    def op_copy(self, op):
        a = self.env[op["a"]]
        if op.get("deep"):
            r = copy.deepcopy(a)
        elif op.get("via") == "copy.copy":
            r = copy.copy(a)
        else:
            r = a.copy()
        self.env[op["dst"]] = r
        return "ok"

    def op_comp(self, op):
        c = getattr(self.env[op["a"]], "xyz"[op["c"]])
        if c is None:
            raise TypeError("no such component")
        self.env[op["dst"]] = c
        return "ok"

    def op_vec_setcomp(self, op):
        setattr(self.env[op["a"]], "xyz"[op["c"]], self.env[op["v"]])
        return "ok"

    def op_normsq(self, op):
        a = self.env[op["a"]]
        n = a.norm
        vals = np.asarray(n.values, dtype=np.float64)
        return {
            "normsq": data_json(vals * vals),
            "norm_nonneg": bool(np.all(vals >= 0)),
            "unit": ucat.unit_json(self.o, n.unit),
            "shape": list(n.shape),
        }

    def op_dot(self, op):
        self.env[op["dst"]] = self.env[op["a"]].dot(self.env[op["b"]])
        return "ok"

    def op_cross(self, op):
        self.env[op["dst"]] = self.env[op["a"]].cross(self.env[op["b"]])
        return "ok"

    # ------------------------------------------------------------------ datagroup
    def op_dg_new(self, op):
        self.env[op["dst"]] = self.o.Datagroup()
        return "ok"

    def op_dg_set(self, op):
        self.env[op["g"]][op["key"]] = self.env[op["v"]]
        return "ok"

    def op_dg_del(self, op):
        del self.env[op["g"]][op["key"]]
        return "ok"

    def op_dg_pop(self, op):
        self.env[op["dst"]] = self.env[op["g"]].pop(op["key"])
        return "ok"

    def op_dg_getkey(self, op):
        self.env[op["dst"]] = self.env[op["g"]][op["key"]]
        return "ok"

    def op_dg_get(self, op):
        self.env[op["dst"]] = self.env[op["g"]].get(op["key"], self.env[op["default"]])
        return "ok"

    def op_dg_update(self, op):
        items = [(k, self.env[v]) for k, v in op["items"]]
        if op.get("kw"):
            self.env[op["g"]].update(**dict(items))
        else:
            self.env[op["g"]].update(dict(items))
        return "ok"

    def op_dg_clear(self, op):
        self.env[op["g"]].clear()
        return "ok"

    def op_dg_index(self, op):
        self.env[op["dst"]] = self.env[op["g"]][self.mk_index(op)]
        return "ok"

    def op_dg_sortby(self, op):
        g = self.env[op["g"]]
        if "key" in op:
            g.sortby(op["key"])
        else:
            p = op["perm"]
            g.sortby(list(p) if op.get("aslist") else np.array(p, dtype=np.int64))
        return "ok"

    def op_dg_eq(self, op):
        r = self.env[op["a"]] == self.env[op["b"]]
        return bool(r)

    def op_dg_keys(self, op):
        g = self.env[op["g"]]
        return list(g.keys()) if not op.get("iter") else [k for k in g]

    def op_dg_len(self, op):
        return len(self.env[op["g"]])

    def op_dg_contains(self, op):
        return op["key"] in self.env[op["g"]]

    # ------------------------------------------------------------------ dataset
    def op_ds_new(self, op):
        self.env[op["dst"]] = self.o.Dataset()
        return "ok"

    def op_ds_set(self, op):
        self.env[op["d"]][op["key"]] = self.env[op["v"]]
        return "ok"

    def op_ds_del(self, op):
        del self.env[op["d"]][op["key"]]
        return "ok"

    def op_ds_pop(self, op):
        self.env[op["dst"]] = self.env[op["d"]].pop(op["key"])
        return "ok"

    def op_ds_getkey(self, op):
        self.env[op["dst"]] = self.env[op["d"]][op["key"]]
        return "ok"

    def op_ds_get(self, op):
        self.env[op["dst"]] = self.env[op["d"]].get(op["key"], self.env[op["default"]])
        return "ok"

    def op_ds_update(self, op):
        items = [(k, self.env[v]) for k, v in op["items"]]
        if op.get("kw"):
            self.env[op["d"]].update(**dict(items))
        else:
            self.env[op["d"]].update(dict(items))
        return "ok"

    def op_ds_clear(self, op):
        self.env[op["d"]].clear()
        return "ok"

    def op_ds_meta_set(self, op):
        self.env[op["d"]].meta[op["key"]] = op["val"]
        return "ok"

    def op_ds_keys(self, op):
        d = self.env[op["d"]]
        return list(d.keys()) if not op.get("iter") else [k for k in d]

    def op_ds_len(self, op):
        return len(self.env[op["d"]])

    def op_ds_contains(self, op):
        return op["key"] in self.env[op["d"]]

    # ------------------------------------------------------------------ observations
    def op_obs(self, op):
        return self.obs(self.env[op["v"]])

    def op_same(self, op):
        return self.env[op["a"]] is self.env[op["b"]]

    def op_shares(self, op):
        xs = self.raw_arrays(self.env[op["a"]])
        ys = self.raw_arrays(self.env[op["b"]])
        return any(np.shares_memory(x, y) for x in xs for y in ys)

    # ------------------------------------------------------------------ sub-domains
    def op_extract_sphere(self, op):
        from osyris.spatial import extract_sphere

        self.env[op["dst"]] = extract_sphere(
            self.env[op["d"]], radius=self.mk_rhs(op["radius"]), origin=self.env[op["origin"]]
        )
        return "ok"

    def op_extract_box(self, op):
        from osyris.spatial import extract_box

        self.env[op["dst"]] = extract_box(
            self.env[op["d"]],
            dx=self.mk_rhs(op["dx"]),
            dy=self.mk_rhs(op["dy"]),
            dz=self.mk_rhs(op["dz"]),
            origin=self.env[op["origin"]],
        )
        return "ok"


# ---------------------------------------------------------------------- comparison


def _cmp_rat(a, b, tol):
    if a == b:
        return True
    if a in ("nan", "inf", "-inf") or b in ("nan", "inf", "-inf"):
        return False
    try:
        x, y = Fraction(a), Fraction(b)
    except (ValueError, ZeroDivisionError):
        return False
    if x == y:
        return True
    if tol == 0:
        return False
    return abs(x - y) <= tol * max(abs(x), abs(y))


def compare(impl, model, tol=0, path=""):
    """Structural comparison of two observations; returns None or a description."""
    if isinstance(impl, dict) and isinstance(model, dict):
        if "err" in impl or "err" in model:
            if impl.get("err") != model.get("err"):
                return f"{path}: impl={impl if 'err' in impl else 'value'} model={model if 'err' in model else 'value'}"
            return None
        for k in sorted(set(impl) | set(model)):
            if k in ("norm_nonneg",):
                continue
            if k not in impl or k not in model:
                return f"{path}.{k}: missing on one side"
            if k == "s":
                if [list(x) for x in impl[k]] != [list(x) for x in model[k]]:
                    return f"{path}.s: impl={impl[k]} model={model[k]}"
            elif k == "data" or k == "normsq" or k == "d":
                la, lb = impl[k], model[k]
                if len(la) != len(lb):
                    return f"{path}.{k}: length {len(la)} vs {len(lb)}"
                ktol = max(tol, 1e-5) if k == "normsq" else tol  # (sqrt x)^2 is not exact (float32: 1e-7)
                for i, (x, y) in enumerate(zip(la, lb)):
                    if not _cmp_rat(x, y, ktol):
                        return f"{path}.{k}[{i}]: impl={x} model={y}"
            elif k == "f":
                if not _cmp_rat(impl[k], model[k], tol):
                    return f"{path}.f: impl={impl[k]} model={model[k]}"
            else:
                r = compare(impl[k], model[k], tol, path + "." + k)
                if r:
                    return r
        return None
    if isinstance(impl, list) and isinstance(model, list):
        if len(impl) != len(model):
            return f"{path}: list length {len(impl)} vs {len(model)}"
        for i, (x, y) in enumerate(zip(impl, model)):
            r = compare(x, y, tol, f"{path}[{i}]")
            if r:
                return r
        return None
    if impl != model:
        return f"{path}: impl={impl!r} model={model!r}"
    return None
