"""C03 A map pixel shows the value of the loaded cell containing its sample point.

Real implementation: `osyris.map(layer..., plot=False, ...)` with zero thickness (Layers made by
`Datagroup.layer(key)` on hand-built AMR Datagroups).  Lean side: OsyrisModel/MapModel.lean through
the "map" engine (Driver/GeomMap.lean).
  model  : `map()` + `evaluate_on_grid` as coded (pre-selection formulas detected from plot/map.py),
           cells processed in row order (= one numba thread)            -> tie (b), `disagreements`
  spec   : `Spec.locate` over ALL loaded cells at `origin + x_i u + y_j v`  -> `violations`
Lanes: exact (axis-aligned, dyadic geometry, power-of-two windows and pixel counts: bit-identical
values required; pixel centres exactly on faces / edges / corners must show the value of a touching
cell) and tolerant (oblique bases read from `get_direction`, other units, odd pixel counts: 1e-9,
points within 1e-9 cell sizes of a face are counted as near ties, not asserted).
Thread lane: cases rerun with numba.set_num_threads in {1, 2, 16}."""
import json
from fractions import Fraction

from ..framework import Outcome, case_hash
from . import c03_mesh as M
from .c03_mesh import driver_kind, run_map  # noqa: F401

PROP = "C03"
TRUSTED = [
    "numba's code generation and thread runtime are modelled: `prange` over cells, every thread issues atomic element stores (MapModel.kernelSched); C03_sched quantifies over all interleavings, the thread lane only samples the real scheduler",
    "read from the library at run time and handed to the model as exact rationals of the doubles: the basis returned by osyris.plot.direction.get_direction (C18 is the property about it), pint's conversion of dx/dy/dz to the unit of the positions and the scale ratio of the returned coordinates, np.sqrt(ndim)",
    "the division of all lengths by dx before the kernel call and np.linspace are not modelled (exact-lane inputs make them exact; in the tolerant lane they are inside the 1e-9 slack)",
    "the driver executes execArr (Array loop); execArr_eq proves it equal to the modelled fold of stores",
]
ASSUMPTIONS = [
    "cells are pairwise interior-disjoint cubes (AMR leaf tilings)",
    "the basis handed to the kernel is orthonormal (C18)",
    "dx > 0, resolution >= 1, the default operation ('sum' of a single depth sample is the identity)",
    "tolerant lane: a pixel is asserted only when its sample point is further than 1e-9 cell sizes from every cell face, and a case is compared with the model only when no pre-selection decision is within 1e-9 (relative) of its threshold",
    "a map whose plane meets no loaded cell raises RuntimeError by design ('the resulting figure would be empty'): outside the claim",
]

RATIOS = [Fraction(1, 8), Fraction(1, 4), Fraction(1, 2), Fraction(1), Fraction(2), Fraction(4), Fraction(8)]
RES = [1, 2, 3, 4, 5, 7, 8, 12, 16, 31, 32]
LAYERSETS = [["scalar"], ["scalar"], ["scalar", "scalar"], ["scalar", "vector"], ["vector", "scalar"],
             ["scalar", "vector", "scalar"], ["vector"]]
TRIPLES = ["xyz", "xzy", "yxz", "yzx", "zxy", "zyx", "ZYX", "Zxy"]


# --------------------------------------------------------------------------------------------
# generators
# --------------------------------------------------------------------------------------------
def pick_origin(r, mesh, style):
    """origin in lattice units (Fractions), by position relative to the mesh"""
    nd = mesh["ndim"]
    i = r.randrange(len(mesh["sizes"]))
    c, s = mesh["centres"][i], mesh["sizes"][i]
    box = mesh["box"]
    if style == "boxcentre":
        o = [Fraction(box["lo"][a]) + Fraction(box["side"], 2) for a in range(nd)]
    elif style == "cellcentre":
        o = [Fraction(c[a]) for a in range(nd)]
    elif style == "face":
        o = [Fraction(c[a]) + Fraction(r.randrange(-1, 2) * s, 4) for a in range(nd)]
        a = r.randrange(nd)
        o[a] = Fraction(c[a]) + r.choice([-1, 1]) * Fraction(s, 2)
    elif style == "corner":
        o = [Fraction(c[a]) + r.choice([-1, 1]) * Fraction(s, 2) for a in range(nd)]
    elif style == "outside":
        o = [Fraction(box["lo"][a]) + Fraction(box["side"], 2) for a in range(nd)]
        a = r.randrange(nd)
        o[a] = Fraction(box["lo"][a]) + r.choice([Fraction(-box["side"], 4), box["side"] + Fraction(box["side"], 8)])
    else:  # generic: never aligned with a face of the lattice
        o = [Fraction(c[a]) + Fraction(2 * r.randrange(-4, 4) + 1, 8) * Fraction(s, 2) + Fraction(1, 16) for a in range(nd)]
    return o + [Fraction(0)] * (3 - nd), s


def base_case(r, mesh, layers, unit="cm"):
    return {"ndim": mesh["ndim"], "den": mesh["den"], "centres": mesh["centres"], "sizes": mesh["sizes"], "unit": unit,
            "layers": layers, "op": None, "dz": None,
            "mesh_info": f"{mesh['levels']} level(s), {'complete' if mesh['complete'] else 'with holes'}, box side {mesh['box']['side']}/{mesh['den']}"}


def gen_structured(ctx, n):
    r = ctx.rng
    cases = []
    for _ in range(n):
        nd = r.choice([2, 3, 3])
        mesh = M.gen_mesh(r, nd, max_cells=300 if ctx.tier == "quick" else 700)
        exact_wanted = r.random() < 0.6
        how = r.choice(LAYERSETS)
        layers = M.gen_layers(r, len(mesh["sizes"]), nd, how, exact=exact_wanted)
        if r.random() < 0.07:
            # NaN cell values in one scalar layer (the mask is taken from the LAST binned layer)
            sc = [l for l in layers if l["kind"] == "scalar" and l.get("dtype", "f8") in ("f8", "f4")]  # integers cannot hold NaN
            if sc:
                lay = r.choice(sc)
                for k in r.sample(range(len(lay["vals"])), max(1, len(lay["vals"]) // 5)):
                    lay["vals"][k] = None
        c = base_case(r, mesh, layers)
        style = r.choice(["boxcentre", "cellcentre", "face", "corner", "generic", "generic", "outside"])
        o, sref = pick_origin(r, mesh, style)
        den = mesh["den"]
        if exact_wanted:
            c["origin"] = [float(t / den) for t in o]
        else:
            c["origin"] = [float(t / den) + (r.uniform(-0.3, 0.3) * sref / den if a < nd else 0.0) for a, t in enumerate(o)]
            style += "+jitter"
        if r.random() < 0.05:
            c["origin"] = None
            style = "default_origin"
        elif not exact_wanted and r.random() < 0.3:
            # the origin given in another length unit than the positions (it must be converted, not read as it is)
            u = r.choice(["m", "mm", "km"])
            f = {"m": 100.0, "mm": 0.1, "km": 1.0e5}[u]
            c["origin"] = [t / f for t in c["origin"]]
            c["origin_unit"] = u
            style += "+unit_" + u
        if not exact_wanted and r.random() < 0.2:
            c["size_unit"] = r.choice(["mm", "m", "km"])      # cell sizes in another unit than the positions
            style += "+sizes_in_" + c["size_unit"]
        # direction
        if nd == 2:
            c["direction"] = {"kind": "letter", "s": "z"}
        elif exact_wanted or r.random() < 0.3:
            c["direction"] = r.choice([{"kind": "letter", "s": s} for s in "xyzZ"] + [{"kind": "triple", "s": s} for s in TRIPLES])
        else:
            t = r.random()
            if t < 0.15:
                c["direction"] = {"kind": "str", "s": r.choice(["top", "side"])}
            elif t < 0.55:
                c["direction"] = {"kind": "vec", "v": r.choice([[1, 1, 1], [0, 0, 2], [1, 0, 0], [1, 2, 0], [1, -1, 3], [3, 0, 4], [-1, -2, -3],
                                                                  # normals whose in-plane axis u lies along a body diagonal of the cells
                                                                  # (the footprint of a cell along u is then sqrt(3) half sizes wide)
                                                                  [1, -2, 1], [1, 1, -2], [-2, 1, 1], [1, -2, 1], [2, -1, -1]])}
            else:
                c["direction"] = {"kind": "vec", "v": [r.uniform(-1, 1) for _ in range(3)]}
        # window
        wk = r.random()
        if wk < 0.12:
            c["dx"] = None
            wtag = "dx_omitted"
        else:
            ratio = r.choice(RATIOS + [None])
            if ratio is None:
                size = Fraction(mesh["box"]["side"]) * r.choice([2, 4])
                wtag = "dx>domain"
            else:
                size = ratio * sref
                wtag = f"dx/s={ratio}"
            if exact_wanted or r.random() < 0.5:
                c["dx"] = {"v": float(size / den), "unit": "cm"}
            else:
                u = r.choice(["m", "au", "pc", "km", "mm"])
                f = {"m": 100.0, "au": 1.495978707e13, "pc": 3.0856775814913673e18, "km": 1e5, "mm": 0.1}[u]
                c["dx"] = {"v": float(size / den) / f, "unit": u}
                wtag += ":" + u
            if r.random() < 0.3:
                c["dy"] = {"v": float(size / den) * r.choice([0.5, 2.0, 0.25]), "unit": "cm"}
                wtag += ":dy"
        # resolution
        if exact_wanted:
            res = r.choice([1, 2, 4, 8, 16, 32])
            c["res"] = res if r.random() < 0.6 else {"x": res, "y": r.choice([1, 2, 4, 8, 16, 32])}
        else:
            res = r.choice(RES)
            c["res"] = res if r.random() < 0.6 else r.choice([{"x": res, "y": r.choice(RES)}, {"x": res, "y": r.choice(RES)}])
        c["tags"] = ["structured", f"{nd}d", c["direction"]["kind"], style, wtag.split(":")[0]]
        c["gen"] = {"box_side": mesh["box"]["side"], "sref": sref, "exact_wanted": exact_wanted}
        cases.append(c)
    return cases


def gen_faces(ctx, n):
    """exact lane: pixel centres exactly on faces, edges and corners of the lattice"""
    r = ctx.rng
    cases = []
    for _ in range(n):
        nd = r.choice([2, 3])
        mesh = M.gen_mesh(r, nd, max_cells=250, p_hole=r.choice([0, 0, 0.2]))
        layers = M.gen_layers(r, len(mesh["sizes"]), nd, r.choice(LAYERSETS), exact=True)
        c = base_case(r, mesh, layers)
        i = r.randrange(len(mesh["sizes"]))
        cc, s = mesh["centres"][i], mesh["sizes"][i]
        den = mesh["den"]
        even = r.random() < 0.5
        nres = r.choice([2, 4, 8]) if even else r.choice([1, 3, 5, 7])
        # pixel size = cell size: even pixel count around a cell centre, or odd around a cell corner, lands on faces
        # (odd counts make the spacing non-dyadic unless the window is nres * s: keep the window = nres * s)
        o = [Fraction(cc[a]) + (0 if even else Fraction(s, 2)) for a in range(nd)]
        normal_on_face = r.random() < 0.5
        if nd == 3:
            d = r.choice("xyz")
            axis = "xyz".index(d)
            o[axis] = Fraction(cc[axis]) + (Fraction(s, 2) if normal_on_face else Fraction(s, 4))
            c["direction"] = {"kind": "letter", "s": d}
        else:
            c["direction"] = {"kind": "letter", "s": "z"}
        c["origin"] = [float(t / den) for t in o] + [0.0] * (3 - nd)
        win = Fraction(nres * s)
        if not M.is_pow2(win):
            # keep dx a power of two: use pixels of half / double the cell size instead
            nres = r.choice([2, 4, 8])
            win = Fraction(nres * s) / 2
            o2 = [Fraction(cc[a]) + Fraction(s, 4) for a in range(nd)]
            if nd == 3:
                o2[axis] = o[axis]
            c["origin"] = [float(t / den) for t in o2] + [0.0] * (3 - nd)
        c["dx"] = {"v": float(win / den), "unit": "cm"}
        c["res"] = nres
        c["tags"] = ["faces", f"{nd}d", "letter", "plane_on_face" if (normal_on_face and nd == 3) else "plane_inside", "pixel_centres_on_faces"]
        cases.append(c)
    return cases


def witness_cases():
    """the inputs of the negation theorems, and the smallest maps that show the anticipated defects"""
    out = []
    # radial_unsound_witness: one cell of size 1, window 1/5 inside it
    one = {"ndim": 3, "den": 2, "centres": [[1, 1, 1]], "sizes": [2], "box": {"lo": [0, 0, 0], "side": 2}, "complete": True, "levels": 1}
    c = base_case(None, one, [{"key": "density", "kind": "scalar", "unit": "g/cm**3", "vals": [7.0]}])
    c.update(origin=[0.25, 0.25, 0.25], direction={"kind": "letter", "s": "z"}, dx={"v": 0.2, "unit": "cm"}, res=4,
             tags=["witness", "3d", "letter", "inside_big_cell", "radial_unsound_witness"])
    out.append(c)
    c = dict(c, dx={"v": 0.25, "unit": "cm"}, tags=["witness", "3d", "letter", "inside_big_cell", "radial_window_quarter_cell"])
    out.append(c)
    # 2x2x2 cells, window = the whole box, plane through the lower layer
    m = M.uniform_mesh(3, 2)
    c = base_case(None, m, [{"key": "density", "kind": "scalar", "unit": "g/cm**3", "vals": [float(i + 1) for i in range(8)]}])
    c.update(origin=[0.5, 0.5, 0.25], direction={"kind": "letter", "s": "z"}, dx={"v": 1.0, "unit": "cm"}, res=4,
             tags=["witness", "3d", "letter", "boxcentre", "radial_2x2x2_full_window"])
    out.append(c)
    # dx omitted, one cell whose centre is more than half a cell below an oblique plane that cuts it:
    # the depth step `zmax` taken from the extent of the selected cells is negative
    one = {"ndim": 3, "den": 8, "centres": [[-2, 2, -2]], "sizes": [4], "box": {"lo": [-4, 0, -4], "side": 4}, "complete": True, "levels": 1}
    c = base_case(None, one, [{"key": "density", "kind": "scalar", "unit": "g/cm**3", "vals": [1.0]}])
    c.update(origin=[0.16994558291143022, 0.13640690182390156, -0.24027215633981705], direction={"kind": "vec", "v": [3, 0, 4]}, dx=None, res=5,
             tags=["witness", "3d", "vec", "outside", "dx_omitted_cell_below_oblique_plane"])
    out.append(c)
    m = M.uniform_mesh(2, 2)
    c = base_case(None, m, [{"key": "density", "kind": "scalar", "unit": "g/cm**3", "vals": [1.0, 2.0, 3.0, 4.0]}])
    c.update(origin=[0.5, 0.5, 0.0], direction={"kind": "letter", "s": "z"}, dx={"v": 1.0, "unit": "cm"}, res=4,
             tags=["witness", "2d", "letter", "boxcentre", "radial_2x2_full_window"])
    out.append(c)
    # an in-plane axis along a body diagonal of the cells: the footprint of a cell along u is sqrt(3) half sizes wide
    # (normal (1, -2, 1) makes `perpendicular_vector` choose u = (1, 1, 1) / sqrt 3); pixels much smaller than the cells
    m = M.uniform_mesh(3, 4)
    c = base_case(None, m, [{"key": "density", "kind": "scalar", "unit": "g/cm**3", "vals": [float(i + 1) for i in range(64)]}])
    den = m["den"]
    side = Fraction(m["box"]["side"], den)
    mid = [float(Fraction(lo, den) + side / 2) for lo in m["box"]["lo"]]
    c.update(origin=[mid[0] + 0.013 * float(side), mid[1] - 0.021 * float(side), mid[2] + 0.037 * float(side)],
             direction={"kind": "vec", "v": [1, -2, 1]}, dx={"v": float(side) / 2, "unit": "cm"}, res=48,
             tags=["witness", "3d", "vec", "generic", "u_along_body_diagonal"])
    out.append(c)
    return out


def build_cases(ctx):
    quick = ctx.tier == "quick"
    cases = witness_cases()
    cases += gen_structured(ctx, 110 if quick else 1300)
    cases += gen_faces(ctx, 40 if quick else 450)
    return cases


# --------------------------------------------------------------------------------------------
# evaluation of one batch
# --------------------------------------------------------------------------------------------
def basis_ok(obs):
    import math

    for nm in "nuv":
        vec = obs.get(nm)
        if vec is None or not all(math.isfinite(t) for t in vec):
            return False
    for nm in "uv":
        if abs(sum(t * t for t in obs[nm]) - 1.0) > 1e-6:
            return False
    return True


def evaluate(ctx, out, cases, sel, dist, prop=PROP):
    """impl (one thread), model as coded + Spec; fills `out`. Returns per-case records."""
    osy = ctx.osyris
    recs = []
    lines = []
    for c in cases:
        obs = M.observe(osy, c)
        if not basis_ok(obs):
            # 'top' / 'side' on data without angular momentum around the origin (e.g. a single cell): the library has no
            # orientation to offer (NaN basis); C03 and C18 quantify over orientations that exist
            out.evaluations += 1
            out.extra["outside_claim_no_orientation"] = out.extra.get("outside_claim_no_orientation", 0) + 1
            continue
        impl = M.run_impl(osy, c, threads=1)
        recs.append({"case": c, "obs": obs, "impl": impl})
        lines.append(M.lean_line(c, obs, sel))
    answers = run_map(lines)
    seen_sig = {}
    vcount = out.extra.setdefault("violation_counts", {})
    for rec, ans in zip(recs, answers):
        c, obs, impl = rec["case"], rec["obs"], rec["impl"]
        rec["ans"] = ans
        out.evaluations += 1
        if ans.get("err") == "bad-op":
            raise RuntimeError("driver rejected a case: " + json.dumps(M.small_case(c))[:400])
        lane = M.lane_of(c, obs, ans)
        rec["lane"] = lane
        tg = c["tags"]
        for key in [f"{tg[0]}:{tg[1]}|{lane}"] + [f"{nm}:{t}" for nm, t in zip(("direction", "origin", "window", "op", "depth", "res_z"), tg[2:])]:
            dist[key] = dist.get(key, 0) + 1
        dist[f"cells<={10 ** len(str(len(c['sizes'])))}"] = dist.get(f"cells<={10 ** len(str(len(c['sizes'])))}", 0) + 1
        dist[f"layers:{'+'.join(l['kind'] for l in c['layers'])}"] = dist.get(f"layers:{'+'.join(l['kind'] for l in c['layers'])}", 0) + 1
        for key in (f"dx_unit:{c['dx']['unit'] if c.get('dx') else 'omitted'}", f"dy:{'given' if c.get('dy') else 'default'}",
                    "resolution:" + ("dict" if isinstance(c["res"], dict) else "int") + f":{max(M.res_xyz(c)[:2])}"):
            dist[key] = dist.get(key, 0) + 1
        if ans.get("err") in ("zeroDepth", "badGrid"):
            out.extra["outside_claim"] = out.extra.get("outside_claim", 0) + 1
            continue
        out.compared += 1
        if ans.get("err") == "noCells":
            out.extra["empty_selection"] = out.extra.get("empty_selection", 0) + 1
        spec = ans.get("spec") or {}
        if "err" not in ans and (any(spec.get("empty", [])) or len(set(map(tuple, spec.get("accept") or []))) > 1 or spec.get("nz", 1) > 1):
            out.nontrivial.add(case_hash({k: v for k, v in c.items() if k != "tags"}))
        if len(out.samples) < 4 and len(c["sizes"]) <= 12 and "err" not in ans:
            out.samples.append({"case": c, "impl": impl, "model": {k: ans[k] for k in ("x", "y", "binned", "mask", "nsel")},
                                "spec_accept": spec.get("accept")})
        # ---- impl vs Spec
        viols, skipped = M.compare_spec(c, obs, impl, ans, lane)
        if c["layers"][-1]["kind"] == "scalar" and any(v is None for v in c["layers"][-1]["vals"]):
            # NaN values in the last layer: the pixel must still be masked exactly when no cell contains the point
            dist["nan_in_last_layer"] = dist.get("nan_in_last_layer", 0) + 1
        if any(v is None for l in c["layers"] if l["kind"] == "scalar" for v in l["vals"]):
            dist["nan_cell_values"] = dist.get("nan_cell_values", 0) + 1
        if ans.get("err") == "noCells" and "raised" in impl:
            viols = []          # empty map: refused by design
        out.near_tie_skipped += skipped
        tied = lane != "exact" and ans.get("selMargin") is not None and Fraction(ans["selMargin"]) < M.EPS
        classes = M.classify_violations(c, obs, sel, ans, viols) if viols else {}
        for cls, v in classes.items():
            site = "osyris.map"
            vcount[f"{site}|{cls}"] = vcount.get(f"{site}|{cls}", 0) + 1
            sig = (site, cls)
            if seen_sig.get(sig, 0) >= 3:
                continue
            seen_sig[sig] = seen_sig.get(sig, 0) + 1
            mini, mv = shrink(ctx, c, sel, v, cls)
            out.violations.append({"what": f"osyris.map: {describe_pixel(mini, mv)} [{M.describe(mini)}]",
                                   "case": M.small_case(mini), "pixel": mv.get("pix"), "call_site": site, "input_class": cls,
                                   "expected": mv.get("what"), "lane": lane})
        rec["violations"] = viols
        # ---- impl vs model as coded
        if tied:
            out.near_tie_skipped += 1
            continue
        d, _ = M.compare_model(c, obs, impl, ans, lane)
        if d:
            out.disagreements.append((M.small_case(c), f"impl vs model (slab {sel['slab']}, radial {sel['radial']}; lane {lane}): {d}"))
    return recs


def describe_pixel(case, v):
    if v.get("pix") is None:
        return v["what"]
    nx = M.res_xyz(case)[0]
    return f"pixel (j={v['pix'] // nx}, i={v['pix'] % nx}) layer {v.get('layer')}: {v['what']}"


def spec_fails(ctx, case, sel):
    osy = ctx.osyris
    obs = M.observe(osy, case)
    impl = M.run_impl(osy, case, threads=1)
    ans = run_map([M.lean_line(case, obs, sel)])[0]
    if "err" in ans and ans["err"] != "noCells":
        return []
    lane = M.lane_of(case, obs, ans)
    v, _ = M.compare_spec(case, obs, impl, ans, lane)
    if ans.get("err") == "noCells" and "raised" in impl:
        return []
    out = []
    for cls, x in M.classify_violations(case, obs, sel, ans, v).items():
        out.append((x, cls))
    return out


def shrink(ctx, case, sel, v, cls):
    """mesh pruned to the cells that contain the failing sample point; fewer layers; (window kept)"""
    best, bv = case, v
    try:
        cells = v.get("cells")
        # 'top' / 'side' take the orientation from the data (angular momentum of the cells around the origin): removing
        # cells would change the question, so such cases are reported unpruned
        if cells and case["direction"].get("kind") != "str":
            cand = M.prune_case(case, cells)
            f = [x for x, k in spec_fails(ctx, cand, sel) if k == cls]
            if f:
                best, bv = cand, f[0]
        if len(best["layers"]) > 1:
            li = bv.get("layer", 0)
            # binned layer index -> layer index
            acc, keep = 0, 0
            for i, l in enumerate(best["layers"]):
                w = 1 if l["kind"] == "scalar" else 3
                if acc <= (li or 0) < acc + w:
                    keep = i
                acc += w
            cand = dict(best, layers=[best["layers"][keep]])
            f = [x for x, k in spec_fails(ctx, cand, sel) if k == cls]
            if f:
                best, bv = cand, f[0]
    except Exception:  # noqa: BLE001
        pass
    return best, bv


# --------------------------------------------------------------------------------------------
# thread lane, permutation lane, schedule lane
# --------------------------------------------------------------------------------------------
def thread_lane(ctx, out, recs, dist):
    """rerun with 2 and 16 numba threads: identical to the one-thread result, except where a sample
    point lies on a face (there: the value of a touching cell)"""
    import numba

    osy = ctx.osyris
    maxt = numba.config.NUMBA_NUM_THREADS
    tlist = [t for t in (2, 16) if t <= maxt]
    pool = [r for r in recs if "raised" not in r["impl"] and "err" not in r.get("ans", {"err": 1}) and len(r["case"]["sizes"]) >= 8]
    pool.sort(key=lambda r: -len(r["case"]["sizes"]))
    take = pool[: (14 if ctx.tier == "quick" else 150)]
    summary = {"cases": len(take), "runs": 0, "different_from_one_thread": 0, "differences_only_on_faces": 0}
    for rec in take:
        c, ans = rec["case"], rec["ans"]
        spec = ans.get("spec") or {}
        amb = ans.get("modelAmbig") or spec.get("ambig") or []
        near = ans.get("modelNear") or spec.get("near") or []
        for t in tlist:
            for rep in range(2 if ctx.tier == "quick" else 4):
                impl = M.run_impl(osy, c, threads=t)
                out.evaluations += 1
                out.compared += 1
                summary["runs"] += 1
                dist[f"threads:t{t}"] = dist.get(f"threads:t{t}", 0) + 1
                out.nontrivial.add(case_hash({"case": case_hash({k: v for k, v in c.items() if k != "tags"}), "threads": t, "rep": rep}))
                if impl == rec["impl"]:
                    continue
                summary["different_from_one_thread"] += 1
                bad = None
                if "raised" in impl:
                    bad = f"raised {impl['raised']}"
                else:
                    a, b = M.binned_of(impl, ans), M.binned_of(rec["impl"], ans)
                    for l, (x, y) in enumerate(zip(a, b)):
                        for pix, (p, q) in enumerate(zip(x, y)):
                            if p != q and not ((pix < len(amb) and amb[pix]) or (rec["lane"] != "exact" and pix < len(near) and near[pix])):
                                bad = f"layer {l} pixel {pix}: {p} with {t} threads, {q} with one thread"
                                break
                        if bad:
                            break
                    if not bad and "modelAmbig" not in ans:       # (thick map without dx: the Spec samples other depths than the code)
                        v, _ = M.compare_spec(c, rec["obs"], impl, ans, rec["lane"])
                        v0 = rec.get("violations") or []
                        if len(v) > len(v0):
                            bad = "on a face: " + v[0]["what"]
                if not bad:
                    summary["differences_only_on_faces"] += 1
                    continue
                out.violations.append({"what": f"osyris.map with {t} numba threads differs from the one-thread result: {bad} [{M.describe(c)}]",
                                       "case": dict(M.small_case(c), threads=t), "call_site": "osyris.map", "input_class": "threads_change_result"})
                out.disagreements.append((M.small_case(c), f"{t} threads: {bad} (C03_sched: every interleaving gives the serial image when hitting cells agree)"))
                break
    out.extra["thread_lane"] = summary


def model_lanes(ctx, out, recs, sel, dist):
    """executable sanity of the model itself (no impl): processing order and thread schedules do not
    change the image when no sample point lies on a face (paint_perm / C03_sched)"""
    r = ctx.rng
    pool = [rc for rc in recs if "err" not in rc.get("ans", {"err": 1}) and rc["ans"].get("nsel", 0) >= 2 and len(rc["case"]["sizes"]) <= 120
            and M.res_xyz(rc["case"])[0] <= 8 and M.res_xyz(rc["case"])[1] <= 8]
    take = pool[: (12 if ctx.tier == "quick" else 120)]
    lines, meta = [], []
    for rc in take:
        n = rc["ans"]["nsel"]
        order = list(range(n))
        r.shuffle(order)
        lines.append(M.lean_line(rc["case"], rc["obs"], sel, order=order, spec=False))
        meta.append(("perm", rc))
        nth = r.randint(2, 4)
        chunks = [[] for _ in range(nth)]
        for i in order:
            chunks[r.randrange(nth)].append(i)
        ln = M.lean_line(rc["case"], rc["obs"], sel, spec=False)
        ln.update(engine="mapsched", chunks=chunks, sched=[r.randrange(nth + 1) for _ in range(r.randint(0, 400))])
        lines.append(ln)
        meta.append(("sched", rc))
    res = run_map(lines)
    summary = {"perm": 0, "sched": 0, "order_dependent_only_on_faces": 0}
    for (kind, rc), a in zip(meta, res):
        out.evaluations += 1
        dist["model:" + kind] = dist.get("model:" + kind, 0) + 1
        summary[kind] += 1
        amb = any(rc["ans"].get("modelAmbig") or (rc["ans"].get("spec") or {}).get("ambig") or [])
        if kind == "perm":
            same = a.get("binned") == rc["ans"]["binned"] and a.get("mask") == rc["ans"]["mask"]
        else:
            same = a.get("sched") == a.get("serial") and "sched" in a
        if same:
            continue
        if amb:
            summary["order_dependent_only_on_faces"] += 1
            continue
        out.disagreements.append((M.small_case(rc["case"]), f"executable model: the image depends on the {'processing order' if kind == 'perm' else 'thread schedule'} although no sample point lies on a face (contradicts paint_perm / C03_sched)"))
    out.extra["model_lanes"] = summary


# --------------------------------------------------------------------------------------------
def run(ctx):
    out = Outcome()
    src = M.detect_source()
    sel = {k: src[k] for k in ("slab", "radial", "depth", "depth2d")}
    out.extra["extraction"] = {"map.py": src}
    out.extra["geometry_driver"] = driver_kind()
    dist = {}
    cases = build_cases(ctx)
    recs = evaluate(ctx, out, cases, sel, dist)
    thread_lane(ctx, out, recs, dist)
    model_lanes(ctx, out, recs, sel, dist)
    lanes = {}
    for rc in recs:
        lanes[rc.get("lane", "?")] = lanes.get(rc.get("lane", "?"), 0) + 1
    out.extra["lanes"] = lanes
    out.distribution = dict(sorted(dist.items()))
    out.rule = ("osyris.map(plot=False) with zero thickness on hand-built AMR Datagroups: 2-D and 3-D leaf tilings of 1-4 levels, complete or with "
                "holes, rows in random order; origin at the box centre / a cell centre / on a face / on a corner / in generic position / outside "
                "the box / default; directions x y z, three-letter orders, Vector normals (axis-parallel, rational, random), top / side; window "
                f"dx/s in {[str(q) for q in RATIOS]} and larger than the domain, dx in cm or another length unit or omitted, dy given or not; "
                f"resolutions {RES} as int or rectangular dict; 1-3 layers incl. a vector layer; boundary stream with every pixel centre exactly "
                "on a face / edge / corner; the witnesses of the negation theorems. impl vs model as coded (pre-selection formulas detected from "
                "plot/map.py) and impl vs Spec (point location over all loaded cells). thread lane: 2 and 16 numba threads vs one thread; model "
                "lanes: random processing orders and thread schedules on the executable model. non-trivial = some pixel without a cell, or at "
                "least two different cells shown, or a multi-thread run; distinct by case hash")
    return out


def replay(ctx, path):
    payload = json.load(open(path))
    case = payload["case"]
    threads = case.pop("threads", 1)
    if "truncated_from" in case:
        print("replay: the stored case was truncated for the evidence file; replaying the stored cells only")
    src = M.detect_source()
    sel = {k: src[k] for k in ("slab", "radial", "depth", "depth2d")}
    osy = ctx.osyris
    obs = M.observe(osy, case)
    impl = M.run_impl(osy, case, threads=threads)
    ans = run_map([M.lean_line(case, obs, sel)])[0]
    lane = M.lane_of(case, obs, ans)
    v, _ = M.compare_spec(case, obs, impl, ans, lane)
    if ans.get("err") == "noCells" and "raised" in impl:
        v = []
    print("impl :", json.dumps(impl)[:700])
    print("spec :", json.dumps({k: (ans.get("spec") or {}).get(k) for k in ("accept", "lo", "hi", "nz")})[:700])
    if v:
        print("difference:", describe_pixel(case, v[0]))
        print(f"VIOLATION property={ctx.prop} replay={path}")
        return 1
    print("replay: implementation satisfies the Spec on this input now")
    return 0
