"""C04 Selective loading equals filtering the full load (CPU pre-selection is sound)."""
import os
import warnings
from fractions import Fraction

import numpy as np

from .. import hilbert_ref, lean, loadrun, ramses, ucat
from ..framework import Outcome, case_hash
from .c01 import describe

TRUSTED = ["Reference Hilbert curve (committed state diagram): ownership of the synthetic outputs is assigned with it, never with osyris' own table",
           "oct ownership = cpu whose key range holds the key of the oct centre at levelmax+1 bits (RAMSES cmp_cpumap / father-cell rule)"]
ASSUMPTIONS = ["three-dimensional outputs (the only curve `_hilbert3d` implements); 1-D/2-D pre-selection is outside this check",
               "bound keys of the synthetic outputs below 2^53 (they are parsed through float); the direct lane on deep levelmax uses keys that are exact in a double",
               "every interval predicate contains at least one finest-level cell centre (the property's quantifier)"]


def ucat_rat(x):
    return ucat.rat_str(Fraction(x))


def gen_hilbert_output(r, ncpu=None, levelmin=None, levelmax=None, max_octs=120, bk_mode=None):
    levelmax = levelmax or r.randint(2, 4)
    levelmin = levelmin or min(levelmax, r.choice([1, 2, 2, 3, 3]))
    ncpu = ncpu or r.choice([1, 2, 3, 5, 8, 13, 32, 64])
    tot = 8 ** (levelmax + 1)
    mode = bk_mode or r.choice(["equal", "random", "empty_domains", "cube_edges", "equal"])
    if mode == "equal":
        bk = [tot * c // ncpu for c in range(ncpu + 1)]
    elif mode == "random":
        cuts = sorted(r.randint(0, tot) for _ in range(ncpu - 1))
        bk = [0] + cuts + [tot]
    elif mode == "empty_domains":
        cuts = sorted(r.choice([0, tot // 3, tot // 2, tot]) if r.random() < 0.4 else r.randint(0, tot) for _ in range(ncpu - 1))
        bk = [0] + cuts + [tot]
    else:
        # boundaries exactly at cube edges of some level
        lv = r.randint(1, levelmax)
        step = tot // (8 ** lv)
        cuts = sorted(step * r.randint(0, 8 ** lv) for _ in range(ncpu - 1))
        bk = [0] + cuts + [tot]

    def owner(o):
        return hilbert_ref.owner_of_centre(o["centre"], levelmax, bk)

    # the output's levelmax (header, key resolution) may exceed the deepest level that is actually refined
    tree_lmax = levelmax - 1 if (levelmax - 1 >= levelmin and r.random() < 0.5) else levelmax
    out = ramses.gen_output(r, ndim=3, ncpu=ncpu, levelmin=levelmin, levelmax=levelmax, nboundary=0, exact=True,
                            owner_fn=owner, max_octs=max_octs, with_part=False, with_sink=False,
                            with_grav=r.random() < 0.3, with_rt=False, tree_levelmax=tree_lmax)
    out["bound_keys"] = [Fraction(b) for b in bk]
    out["ordering"] = "hilbert"
    return out, mode


def gen_deep_hilbert(r):
    """A deep zoom (levelmax 19-22, beyond the 2^18 sampling of `hilbert_cpu_list`): complete down to levelmin 3, then one
    chain of refined cells hugging a face of a level-2 search cube from one side; 8 or 64 equal key ranges (exact doubles).
    The interval on the hugging axis ends between the last level-18 centre and the face: only cells of level >= 19 qualify
    on that side."""
    levelmax = r.choice([19, 20, 21, 22])
    levelmin = 3
    ncpu = r.choice([8, 64])
    tot = 8 ** (levelmax + 1)
    # keys this large do not survive the 16 significant digits of the info file: the domain decomposition *is* what the file
    # says (the keys as osyris parses them), ownership follows those
    bk = [int(Fraction(float(ramses.fmt_e(tot * c // ncpu)))) for c in range(ncpu + 1)]
    bk[0], bk[-1] = 0, max(bk[-1], tot)
    assert all(a < b for a, b in zip(bk, bk[1:]))
    ax = r.randrange(3)
    face = Fraction(r.choice([1, 2, 3]), 4)
    side = r.choice([-1, -1, 1])
    target = [Fraction(r.choice([3, 5, 7, 9, 11, 13]), 16) + Fraction(1, 2 ** 12) for _ in range(3)]
    target[ax] = face + side * Fraction(1, 2 ** 40)

    def pick(o):
        h = Fraction(1, 2 ** (o["level"] - 1)) / 2
        if any(abs(target[k] - o["centre"][k]) > h for k in range(3)):
            return None
        return sum((1 << k) for k in range(3) if target[k] > o["centre"][k])

    def owner(o):
        return hilbert_ref.owner_of_centre(o["centre"], levelmax, bk)

    out = ramses.gen_output(r, ndim=3, ncpu=ncpu, levelmin=levelmin, levelmax=levelmax, nboundary=0, exact=True, owner_fn=owner,
                            max_octs=10 ** 6, with_part=False, with_sink=False, with_grav=False, with_rt=False, chain=True,
                            chain_pick=pick, hydro_vars=["density", "pressure"])
    out["bound_keys"] = [Fraction(b) for b in bk]
    out["ordering"] = "hilbert"
    box = out["boxlen"] * out["unit_l"]
    w = Fraction(1, 2 ** r.choice([8, 10, 12]))
    delta = Fraction(3, 2 ** 21)          # between the level-19 centre (2^-20 from the face) and the level-18 centre (2^-19)
    preds = []
    for k in range(3):
        if k == ax:
            lo, hi = (face - delta, face + w) if side < 0 else (face - w, face + delta)
        else:
            lo, hi = target[k] - w, target[k] + w
        preds.append({"var": "position_" + "xyz"[k], "op": "gt", "value": lo * box})
        preds.append({"var": "position_" + "xyz"[k], "op": "lt", "value": hi * box})
    return out, preds, f"deep{levelmax}:{'below' if side < 0 else 'above'}_face"


def gen_box(r, out):
    lm = out["levelmax"]
    box = out["boxlen"] * out["unit_l"]
    fine = Fraction(1, 2 ** lm)
    leaves = [(o, ind) for o in out["octs"] for ind, s in enumerate(o["sons"]) if s == 0]
    # bias towards coarse leaves (that is where a search cube finer than the oct can occur)
    leaves.sort(key=lambda p: p[0]["level"])
    o, ind = leaves[min(len(leaves) - 1, int(abs(r.gauss(0, 0.35)) * len(leaves)))]
    h = Fraction(1, 2 ** o["level"])
    centre = [o["centre"][k] + (((ind >> k) & 1) - Fraction(1, 2)) * h for k in range(3)]
    kind = r.choice(["tiny", "tiny", "small", "medium", "large", "edge", "offcentre", "offcentre"])
    if kind == "offcentre":
        # extents strictly between two powers of 1/2 on all three axes, placed off the cube lattice:
        # the box then straddles three cubes of the next finer level (wrong cube levels show up here)
        preds = []
        k = r.randint(1, max(1, out["levelmin"] - 1))
        ext = Fraction(r.randint(9, 15), 16) * Fraction(1, 2 ** k) if r.random() < 0.8 else Fraction(1, 2 ** k)
        for ax in range(3):
            lo = Fraction(r.randint(1, 14), 16) * (1 - ext)
            hi = lo + ext * Fraction(r.randint(12, 16), 16)
            n = 2 ** lm
            if not any(lo < Fraction(2 * i + 1, 2 * n) < hi for i in range(n)):
                hi = lo + 2 * fine
            name = "position_" + "xyz"[ax]
            preds.append({"var": name, "op": "gt", "value": lo * box})
            preds.append({"var": name, "op": "lt", "value": hi * box})
        return preds, kind
    half = {"tiny": Fraction(3, 5), "small": Fraction(5, 4), "medium": Fraction(5, 2), "large": Fraction(8), "edge": Fraction(3, 2)}[kind] * fine
    axes = r.sample([0, 1, 2], r.choice([1, 2, 3, 3]))
    preds = []
    for k in axes:
        c = centre[k] + Fraction(r.randint(-3, 3), 16) * fine
        lo, hi = c - half, c + half
        if kind == "edge":
            if r.random() < 0.5:
                lo, hi = Fraction(-1, 8), half
            else:
                lo, hi = 1 - half, Fraction(9, 8)
        # must contain a finest-level centre
        n = 2 ** lm
        if not any(lo < Fraction(2 * i + 1, 2 * n) < hi for i in range(n)):
            hi = lo + 2 * fine
        name = "position_" + "xyz"[k]
        preds.append({"var": name, "op": "gt", "value": lo * box})
        preds.append({"var": name, "op": "lt", "value": hi * box})
    if r.random() < 0.25:
        preds.append({"var": "density", "op": "gt", "value": Fraction(r.randint(1, 200)) * out["unit_d"]})
    deepest = max(o["level"] for o in out["octs"])
    if deepest < out["levelmax"] and r.random() < 0.8:
        # a level function that accepts every level present on disk (the grid does not reach the output's levelmax): the load
        # is still the filter of the full load, but the loader works with a capped level
        preds.append({"var": "level", "op": "le", "value": r.randint(deepest, out["levelmax"] - 1)})
    return preds, kind


def witness_cases(r, count):
    """C04_cube_finer_than_oct: 64 equal key ranges, levelmin 2 = every leaf on level 2, levelmax 4, a box of 1.2 finest
    cells around the centre of a level-2 leaf: the search cubes (level 3) are finer than the oct that stores the leaf."""
    import random as _random

    rr = _random.Random(12345)
    out, _ = gen_hilbert_output(rr, ncpu=64, levelmin=2, levelmax=4, max_octs=9, bk_mode="equal")
    box = out["boxlen"] * out["unit_l"]
    fine = Fraction(1, 16)
    leaves = [(o, ind) for o in out["octs"] if o["level"] == 2 for ind, s in enumerate(o["sons"]) if s == 0]
    cases = []
    for o, ind in r.sample(leaves, min(count, len(leaves))):
        h = Fraction(1, 4)
        c = [o["centre"][k] + (((ind >> k) & 1) - Fraction(1, 2)) * h for k in range(3)]
        preds = []
        for k in range(3):
            preds.append({"var": "position_" + "xyz"[k], "op": "gt", "value": (c[k] - Fraction(3, 5) * fine) * box})
            preds.append({"var": "position_" + "xyz"[k], "op": "lt", "value": (c[k] + Fraction(3, 5) * fine) * box})
        cases.append((out, {"preds": preds}))
    return cases


def run(ctx):
    osy = ctx.osyris
    out_ = Outcome()
    r = ctx.rng
    for wout, wreq in witness_cases(r, 6 if ctx.tier == "quick" else 64):
        with loadrun.Written(wout) as w:
            impl = loadrun.run_impl(osy, w, wreq, want_trace=False)
            spec = lean.run_driver([loadrun.driver_case(wout, wreq, "spec", osy=osy)])[0]
        out_.evaluations += 1
        v = ("load raised " + impl["err"]) if impl["err"] else loadrun.compare_spec(wout, impl["groups"], "mesh", spec, True)
        if v:
            out_.violations.append({"what": v + " [witness: search cube finer than the oct holding the leaf]",
                                    "case": {"output": ramses.to_json(wout), "request": loadrun.req_for_driver(wreq)},
                                    "call_site": "hilbert._get_cpu_list", "input_class": "cube_finer_than_oct"})
            break
    n = 40 if ctx.tier == "quick" else 600
    dist = {}
    # the key function itself: exhaustive for small depths, random up to 19 bits
    from osyris.io import hilbert as oh

    keycases = [(x, y, z, b) for b in (1, 2, 3) for x in range(2 ** b) for y in range(2 ** b) for z in range(2 ** b)]
    for _ in range(300 if ctx.tier == "quick" else 5000):
        b = r.randint(4, 19)
        keycases.append((r.randrange(2 ** b), r.randrange(2 ** b), r.randrange(2 ** b), b))
    ans = lean.run_driver([{"engine": "hkey", "cases": [list(c) for c in keycases]}])[0]
    for c, (km, ks) in zip(keycases, zip(ans["model"], ans["spec"])):
        out_.evaluations += 1
        ki = int(oh._hilbert3d(*c))
        if ki != km:
            out_.disagreements.append(({"hilbert3d": list(c)}, f"_hilbert3d{c} = {ki}, model {km}"))
        if ki != ks or ki != hilbert_ref.key(*c):
            out_.violations.append({"what": f"_hilbert3d{c} = {ki} but the reference curve gives {ks}", "case": {"xyzb": list(c)},
                                    "call_site": "_hilbert3d", "input_class": "key"})
            break
    # `_get_cpu_list` called directly on deep outputs (levelmax 12..21: keys up to 8^22, far beyond what a synthetic
    # output can hold): equal cube ranges as bound keys (exact in the float the info file is parsed through), boxes inside
    # random cubes of the 4^3 / 8^3 grid. Model: Lean getCpuList (unbounded Nat); Spec: the owner of the cube that
    # contains the box is in the list (theorem C04_box_sound)
    import tempfile

    ncase = 60 if ctx.tier == "quick" else 1200
    direct, lines = [], []
    for _ in range(ncase):
        levelmax = r.choice([12, 19, 20, 21, 21])
        g = r.choice([2, 3])                       # cubes of size 2^-g
        ncpu = r.choice([8 ** g, 8 ** g // 4, 16])
        tot = 8 ** (levelmax + 1)
        bk = [tot * c // ncpu for c in range(ncpu + 1)]
        cube = [r.randrange(2 ** g) for _ in range(3)]
        w = Fraction(1, 2 ** g)
        lo = [c * w + w * Fraction(r.randint(1, 6), 100) for c in cube]
        hi = [c * w + w * Fraction(r.randint(60, 96), 100) for c in cube]
        bb = {"xmin": float(lo[0]), "xmax": float(hi[0]), "ymin": float(lo[1]), "ymax": float(hi[1]), "zmin": float(lo[2]), "zmax": float(hi[2])}
        direct.append((levelmax, g, ncpu, bk, cube, bb))
        lines.append({"engine": "cpulist", "bb": {k2: ucat_rat(v) for k2, v in bb.items()}, "lmax": levelmax, "levelmax": levelmax,
                      "ncpu": ncpu, "ndim": 3, "bk": bk, "mincube": g + 1})
    answers = lean.run_driver(lines)
    tmpd = tempfile.mkdtemp(prefix="osyris_verif_c04_")
    try:
        for (levelmax, g, ncpu, bk, cube, bb), ans in zip(direct, answers):
            info = os.path.join(tmpd, "info.txt")
            with open(info, "w") as f:
                f.write("ordering type=hilbert\n   DOMAIN   ind_min                 ind_max\n")
                for c in range(ncpu):
                    f.write("%8d   %s   %s\n" % (c + 1, repr(float(bk[c])), repr(float(bk[c + 1]))))
            out_.evaluations += 1
            try:
                with np.errstate(all="ignore"), warnings.catch_warnings():
                    warnings.simplefilter("ignore")
                    got = [int(x) for x in oh._get_cpu_list(bounding_box=dict(bb), lmax=levelmax, levelmax=levelmax, infofile=info,
                                                             ncpu=ncpu, ndim=3, levelmin=g + 1)]
            except Exception as e:  # noqa: BLE001
                got = "raised " + type(e).__name__
            case = {"levelmax": levelmax, "ncpu": ncpu, "cube": cube, "cube_bits": g, "bounding_box": bb}
            if got != ans.get("model"):
                out_.disagreements.append((case, f"_get_cpu_list = {got}, model {ans.get('model')}"))
            # Spec: owner of the cube (all keys of the cube lie in one cpu range when ncpu divides 8^g, else the owner of its first key)
            kcube = hilbert_ref.key(cube[0], cube[1], cube[2], g)
            dk = 8 ** (levelmax + 1 - g)
            owners = {c + 1 for c in range(ncpu) if bk[c] < (kcube + 1) * dk and bk[c + 1] > kcube * dk}
            if isinstance(got, str) or not owners <= set(got):
                out_.violations.append({"what": f"_get_cpu_list at levelmax {levelmax} returns {got}: the cpu(s) {sorted(owners)} owning the cube "
                                                f"{cube} (level {g}) that contains the box are not all in the list",
                                        "case": case, "call_site": "hilbert._get_cpu_list", "input_class": "deep_levelmax"})
                break
            dist["direct:levelmax%d" % levelmax] = dist.get("direct:levelmax%d" % levelmax, 0) + 1
    finally:
        import shutil
        shutil.rmtree(tmpd, ignore_errors=True)
    extra_search = 0
    i = -1
    while True:
        i += 1
        if i >= n + extra_search:
            break
        if i == n - 1 and out_.disagreements and not out_.violations and extra_search == 0:
            # the correspondence broke but no Spec violation yet: widen the search (targeted lanes, more cases)
            extra_search = 120 if ctx.tier == "quick" else 600
            out_.extra["search"] = f"{extra_search} additional targeted cases (off-centre three-axis boxes, levelmin 3, 24-64 cpus) against the Spec"
        targeted = i >= n or (i % 3 == 2)
        if targeted:
            out, mode = gen_hilbert_output(r, ncpu=r.choice([24, 32, 48, 64]), levelmin=3, levelmax=4, max_octs=90, bk_mode=r.choice(["random", "equal"]))
        else:
            out, mode = gen_hilbert_output(r, max_octs=60 if ctx.tier == "quick" else 150)
        if out_.violations and i >= n:
            break
        if i % 10 == 9:
            out["ordering"] = "bisection"
        deep = (i % 10 == 4) or (i >= n and i % 4 == 1)
        if deep:
            out, preds, kind = gen_deep_hilbert(r)
            mode = "equal"
        else:
            preds, kind = gen_box(r, out)
        if targeted and not deep:
            while kind != "offcentre":
                preds, kind = gen_box(r, out)
        req = {"preds": preds}
        if i % 8 in (3, 7) and not targeted and not deep:
            req = {"cpu_list": sorted(r.sample(range(1, out["ncpu"] + 1), r.randint(1, out["ncpu"])))}
            kind = "explicit_cpu_list"
            if r.random() < 0.6:
                req["cpu_list"] = sorted(r.sample(range(1, out["ncpu"] + 1), r.randint(1, max(1, out["ncpu"] // 2))))
                # an explicit cpu list together with a position selection: the listed cpus, filtered (the list is not replaced
                # by the automatic pre-selection)
                req["preds"] = preds
                kind = "explicit_cpu_list+box"
        k = f"{kind}:{mode}:ncpu{out['ncpu']}"
        dist[k] = dist.get(k, 0) + 1
        with loadrun.Written(out) as w:
            impl = loadrun.run_impl(osy, w, req)
            full = loadrun.run_impl(osy, w, {}, want_trace=False)
            model, spec = lean.run_driver([loadrun.driver_case(out, req, "model", osy=osy), loadrun.driver_case(out, req, "spec", osy=osy)])
        out_.evaluations += 1
        out_.compared += 1
        ncl = len(model.get("cpu_list", [])) if isinstance(model, dict) else 0
        if 0 < ncl < out["ncpu"]:
            out_.nontrivial.add(case_hash({"o": describe(out), "r": loadrun.req_for_driver(req), "i": i}))
        if len(out_.samples) < 3:
            out_.samples.append({"output": describe(out), "bound_keys": [int(b) for b in out["bound_keys"]][:10],
                                 "request": loadrun.req_for_driver(req), "model_cpu_list": model.get("cpu_list")})
        d = None
        if impl["err"]:
            d = "implementation raised " + impl["err"]
        elif "err" in model:
            d = "model: " + model["err"]
        else:
            d = loadrun.compare_group(out, impl["groups"], "mesh", model, True)
            if not d:
                line = next((l for l in impl["stdout"].splitlines() if l.startswith("Processing")), "")
                nfiles = int(line.split()[1]) if line else None
                if nfiles is not None and nfiles != len(model["cpu_list"]):
                    d = f"'{line}' but the model opens {len(model['cpu_list'])} files {model['cpu_list']}"
        if d:
            out_.disagreements.append(({"output": describe(out), "bound_keys": [int(b) for b in out["bound_keys"]], "request": loadrun.req_for_driver(req)}, d))
        v = None
        if impl["err"]:
            v = "load raised " + impl["err"]
        elif "cpu_list" in req:
            # explicit cpu_list: exactly the cells owned by the listed cpus
            cols, _ = loadrun.flatten_impl(impl["groups"], "mesh")
            fcols, _ = loadrun.flatten_impl(full["groups"], "mesh")
            names = sorted(fcols)
            def passes(j):
                for p_ in req.get("preds") or []:
                    col = p_["var"].replace("position_", "position.")
                    x = fcols[col][0][j]
                    if x is None or not loadrun.OPS[p_["op"]](float(x), float(Fraction(p_["value"]))):
                        return False
                return True

            want = sorted(tuple(fcols[nm][0][j] for nm in names) for j in range(len(fcols["cpu"][0]))
                          if int(fcols["cpu"][0][j]) in req["cpu_list"] and passes(j))
            got = sorted(tuple(cols[nm][0][j] for nm in names) for j in range(len(cols.get("cpu", ([],))[0]))) if cols else []
            if want != got:
                v = (f"cpu_list={req['cpu_list']}" + (" with a position selection" if req.get("preds") else "") +
                     f": {len(got)} rows returned, {len(want)} rows of the full load are owned by these cpus" +
                     (" and satisfy the selection" if req.get("preds") else ""))
        else:
            v = loadrun.compare_spec(out, impl["groups"], "mesh", spec, True)
        if v:
            out_.violations.append({"what": v, "case": {"output": ramses.to_json(out), "request": loadrun.req_for_driver(req)},
                                    "call_site": "hilbert._get_cpu_list", "input_class": kind})
    out_.distribution = {"box:boundkeys:ncpu": dist}
    out_.rule = ("3-D outputs whose oct ownership follows the reference Hilbert curve for bound keys that are equal ranges, random, with empty "
                 "domains, or on cube edges (1..64 cpus, levelmin 1-3, levelmax 2-4); interval predicates on 1-3 axes around a (preferably "
                 "coarse) leaf with half-widths 0.6 / 1.25 / 2.5 / 8 finest cells or touching the domain edges, optionally with a value "
                 "predicate; explicit cpu_list; non-hilbert ordering. Real loader vs model (rows, number of files opened) vs Spec (filter of "
                 "the full load); `_hilbert3d` vs the Lean key exhaustively for depth <= 3 and randomly up to 19 bits. "
                 "non-trivial = the pre-selection prunes at least one cpu; distinct by case hash")
    return out_


def replay(ctx, path):
    print("re-run `check.py C04`")
    return 0
