"""C01 Full load returns every leaf cell exactly once with true geometry, values, units."""
import json

from .. import lean, loadrun, ramses
from ..framework import Outcome, case_hash

TRUSTED = [
    "the synthetic RAMSES writer (harness/ramses.py) and the Lean `encode` are my formalisation of RAMSES' backup_* routines; "
    "they are two independent implementations diffed record by record on every case, and the real loader reads the writer's files",
    "translator T2 (harness/transpile.py): the reader methods' byte-counter code is regenerated into Generated/Readers.lean on every run",
    "Reference units library (UnitsLibDef.lean): monomials in unit_d/unit_l/unit_t and cgs labels of the default configuration",
]
ASSUMPTIONS = ["ordering type hilbert with a full load (no CPU pre-selection)", "quad-precision variables are not generated"]


def describe(out):
    return {"ndim": out["ndim"], "ncpu": out["ncpu"], "nboundary": out["nboundary"], "levelmin": out["levelmin"],
            "levelmax": out["levelmax"], "octs": len(out["octs"]), "noutput": out["noutput"], "keyb": out["keyb"],
            "hydro_vars": [v for v, _ in out["hydro_vars"]], "grav": out["has_grav"], "rt": bool(out["rt_vars"]),
            "part": bool(out["part"]), "sink": bool(out["sink"])}


def one_case(ctx, out, req, exact, outcome, nout=1, nout_arg=None, extra_outputs=(), tags=()):
    osy = ctx.osyris
    with loadrun.Written(out, nout, extra_outputs) as w:
        impl = loadrun.run_impl(osy, w, req, nout=nout_arg)
        model, spec = lean.run_driver([loadrun.driver_case(out, req, "model", files=True, osy=osy), loadrun.driver_case(out, req, "spec", osy=osy)])
        outcome.evaluations += 1
        outcome.compared += 1
        desc = describe(out)
        h = case_hash({"o": ramses.to_json(out), "r": loadrun.req_for_driver(req)})
        leaves = sum(1 for o in out["octs"] if o["owner"] <= out["ncpu"] for s in o["sons"] if s == 0)
        ghosts = sum(len(v) for c, held in out["files"].items() for k, v in held.items() if int(k.split(",")[1]) != int(c))
        if leaves >= 1 and (ghosts >= 1 or out["ncpu"] == 1):
            outcome.nontrivial.add(h)
        if len(outcome.samples) < 3:
            outcome.samples.append({"output": desc, "request": loadrun.req_for_driver(req), "leaves": leaves, "ghost_copies": ghosts,
                                    "impl_ncells": None if impl["err"] else int(impl["meta"]["ncells"])})
        # writer == encode
        d = loadrun.compare_files(w, model)
        if d:
            outcome.disagreements.append(({"output": desc, "stage": "writer-vs-encode"}, d))
            return
        # tie (b): implementation vs model (rows in loader order, units, counters)
        d = None
        if impl["err"]:
            d = "implementation raised " + impl["err"]
        elif "err" in model:
            d = "model: " + model["err"]
        else:
            d = (loadrun.compare_group(out, impl["groups"], "mesh", model, exact)
                 or loadrun.compare_group(out, impl["groups"], "part", model, exact)
                 or loadrun.compare_sink(out, impl["groups"], model, exact)
                 or loadrun.compare_trace(impl.get("trace"), model))
            if not d and int(impl["meta"]["ncells"]) != model["ncells"]:
                d = f"meta ncells {impl['meta']['ncells']} vs model {model['ncells']}"
            if not d and int(impl["meta"]["nparticles"]) != model["nparticles"]:
                d = f"meta nparticles {impl['meta']['nparticles']} vs model {model['nparticles']}"
        if d:
            outcome.disagreements.append(({"output": desc, "request": loadrun.req_for_driver(req), "full_output": ramses.to_json(out)}, d))
        # Spec: the leaf cells (multiset), units, derived variables, time
        v = None
        if impl["err"]:
            v = "load raised " + impl["err"]
        else:
            v = (loadrun.compare_spec(out, impl["groups"], "mesh", spec, exact)
                 or loadrun.compare_spec(out, impl["groups"], "part", spec, exact)
                 or loadrun.compare_sink(out, impl["groups"], spec, exact)
                 or loadrun.check_derived(osy, impl, out))
            if not v and impl["time"] is not None:
                want = float(out["time"] * out["unit_t"])
                if abs(impl["time"][0] - want) > 1e-12 * max(abs(want), 1e-300) or impl["time"][1] != [["second", "1"]]:
                    v = f"meta time {impl['time']} vs {want} s"
        if v:
            outcome.violations.append({"what": v, "case": {"output": ramses.to_json(out), "request": loadrun.req_for_driver(req),
                                                            "nout": nout, "nout_arg": nout_arg, "exact": exact},
                                       "call_site": "Loader.load", "input_class": ",".join(tags) or "full_load"})


def run(ctx):
    out_ = Outcome()
    n = 40 if ctx.tier == "quick" else 500
    r = ctx.rng
    dist = {}
    for i in range(n):
        exact = (i % 4) != 3
        if i % 10 == 6:
            # a deep zoom: one refined cell per oct down to level 22..30 (cell centres need more than 24 significant bits)
            exact = True
            out = ramses.gen_output(r, exact=True, levelmin=r.randint(1, 2), levelmax=r.randint(22, 30), ncpu=r.randint(1, 2),
                                    chain=True, max_octs=10 ** 6)
            dist["deep_chain"] = dist.get("deep_chain", 0) + 1
        elif i % 10 == 2:
            # a stratified 3-D box: boundary regions along one or two axes only, so that nx, ny, nz differ
            shape = r.choice([[1, 1, 3], [1, 3, 1], [3, 1, 1], [3, 3, 1], [3, 1, 3], [1, 3, 3]])
            out = ramses.gen_output(r, exact=exact, ndim=3, nboundary=r.choice([1, 2]), nxs=shape, max_octs=40 if ctx.tier == "quick" else 90)
            dist["stratified_box"] = dist.get("stratified_box", 0) + 1
        else:
            out = ramses.gen_output(r, exact=exact, max_octs=40 if ctx.tier == "quick" else 90)
        key = f"ndim{out['ndim']}:ncpu{out['ncpu']}:nb{out['nboundary']}:{'exact' if exact else 'tol'}"
        dist[key] = dist.get(key, 0) + 1
        if i % 7 == 3:
            # output number -1 with several output directories present
            one_case(ctx, out, {}, exact, out_, nout=7, nout_arg=-1, extra_outputs=(2, 5), tags=("nout=-1",))
        else:
            one_case(ctx, out, {}, exact, out_)
    out_.distribution = {"ndim:ncpu:nboundary:lane": dist}
    out_.rule = ("random well-formed outputs: AMR tree by recursive refinement between levelmin and levelmax (1..5; one case in ten is a deep zoom, a chain of single refined cells down to level 22..30), ndim 1-3, 1-5 cpus with "
                 "random ownership, 0-2 boundary regions (coarse grid 3 along all or only some axes), own octs in any order plus random ghost copies with poisoned values in every "
                 "file, noutput 1-5, 8/16-byte bound keys, 2-10 hydro variables (vector triples, pressure, radiative_energy_1, B_x_left.. in "
                 "the tolerant lane), optional gravity / RT / particles / sinks, unit_d/l/t and boxlen powers of two (exact lane, 3/4) or "
                 "arbitrary doubles (1/4), nout explicit or -1. Each case: writer vs Lean encode (skeleton + payload checksum), real loader vs "
                 "loader model (rows in order, units, read-request trace, counters), real loader vs Spec leaf rows (multiset), derived "
                 "variables, time. non-trivial = at least one leaf and one ghost copy (or a single cpu); distinct by case hash")
    return out_


def replay(ctx, path):
    from fractions import Fraction

    payload = json.load(open(path))
    c = payload["case"]
    print("replay of loader cases: re-run `check.py C01`; the stored case holds the abstract output and request")
    print(json.dumps({k: c[k] for k in c if k != "output"}, indent=1)[:2000])
    return 0
